package main

import (
	_ "embed"
	"fmt"
	"go/ast"
	"go/token"
	"go/types"
	"os"
	"regexp"
	"sort"
	"strings"

	"golang.org/x/tools/go/packages"
)

// Renamed declarations.
//
// The rules name their anchors: functions, methods, struct fields, types, package-level variables.
// Renaming one of them is the commonest behaviour-preserving edit there is, and it must not make a
// rule fire or lose its anchor. known_symbols.txt freezes the declarations of the tree the rules were
// written against (`upfcheck -dump-symbols`). After the first type-check, a frozen declaration that
// is gone and a declaration that is not frozen, in the same scope and with the same type — one
// candidate on each side — are taken to be one declaration under two names. The sources are then
// rewritten in memory (every identifier that resolves to the declaration gets the frozen name back;
// lines are preserved, so reported positions stay right) and loaded again through go/packages'
// overlay. Everything downstream — SSA, rules, justification and known-finding keys — sees the frozen
// names. An ambiguous case is left alone: the anchor is then reported missing (UNDECIDED), never an
// alarm. A match that is wrong (an old function deleted and an unrelated one with the same signature
// added) costs nothing: names only select what a rule looks at, the rule still judges the body it finds.

//go:embed known_symbols.txt
var knownSymbolsTxt string

type symKey struct{ kind, scope, name string }

// symbolTable lists the declarations of the loaded repo packages: kind T (named type), F (struct
// field), M (interface method), V (package-level var/const), N (function or method).
func symbolTable(pkgs []*packages.Package) (map[symKey]string, map[symKey]types.Object) {
	sigs := map[symKey]string{}
	objs := map[symKey]types.Object{}
	q := func(p *types.Package) string { return p.Path() }
	// types are compared with the names of repo types blanked, so that renaming a type does not change
	// the signature of everything that mentions it
	add := func(k symKey, sig string, o types.Object) {
		sigs[k] = repoTypeName.ReplaceAllString(sig, "§")
		objs[k] = o
	}
	for _, p := range pkgs {
		if p.Types == nil || !strings.HasPrefix(p.PkgPath, modPath) {
			continue
		}
		pkg := strings.TrimPrefix(strings.TrimPrefix(p.PkgPath, modPath), "/")
		sc := p.Types.Scope()
		for _, name := range sc.Names() {
			o := sc.Lookup(name)
			switch o := o.(type) {
			case *types.TypeName:
				if o.IsAlias() {
					continue
				}
				named, ok := o.Type().(*types.Named)
				if !ok {
					continue
				}
				tscope := pkg + "." + name
				var fp []string
				switch u := named.Underlying().(type) {
				case *types.Struct:
					fp = append(fp, fmt.Sprintf("struct/%d", u.NumFields()))
					var fts []string
					for i := 0; i < u.NumFields(); i++ {
						f := u.Field(i)
						ts := types.TypeString(f.Type(), q)
						fts = append(fts, ts)
						add(symKey{"F", tscope, f.Name()}, fmt.Sprintf("%s#%d", ts, i), f)
					}
					sort.Strings(fts)
					fp = append(fp, fts...)
				case *types.Interface:
					fp = append(fp, fmt.Sprintf("interface/%d", u.NumExplicitMethods()))
					for i := 0; i < u.NumExplicitMethods(); i++ {
						m := u.ExplicitMethod(i)
						add(symKey{"M", tscope, m.Name()}, sigString(m.Type().(*types.Signature), q), m)
					}
				default:
					fp = append(fp, types.TypeString(u, q))
				}
				var ms []string
				for i := 0; i < named.NumMethods(); i++ {
					m := named.Method(i)
					sg := sigString(m.Type().(*types.Signature), q)
					ms = append(ms, sg)
					add(symKey{"N", tscope, m.Name()}, sg, m)
				}
				sort.Strings(ms)
				fp = append(fp, fmt.Sprintf("methods/%d", len(ms)))
				fp = append(fp, ms...)
				add(symKey{"T", pkg, name}, strings.Join(fp, ";"), o)
			case *types.Func:
				add(symKey{"N", pkg, name}, sigString(o.Type().(*types.Signature), q), o)
			case *types.Var:
				add(symKey{"V", pkg, name}, "var "+types.TypeString(o.Type(), q), o)
			case *types.Const:
				add(symKey{"V", pkg, name}, "const "+types.TypeString(o.Type(), q), o)
			}
		}
	}
	return sigs, objs
}

var repoTypeName = regexp.MustCompile(regexp.QuoteMeta(modPath) + `(/[A-Za-z0-9_/.-]+)?\.[A-Za-z_][A-Za-z0-9_]*`)

func sigString(sig *types.Signature, q types.Qualifier) string {
	var ps, rs []string
	for i := 0; i < sig.Params().Len(); i++ {
		ps = append(ps, types.TypeString(sig.Params().At(i).Type(), q))
	}
	for i := 0; i < sig.Results().Len(); i++ {
		rs = append(rs, types.TypeString(sig.Results().At(i).Type(), q))
	}
	v := ""
	if sig.Variadic() {
		v = "..."
	}
	return "(" + strings.Join(ps, ", ") + v + ") (" + strings.Join(rs, ", ") + ")"
}

func dumpSymbols(pkgs []*packages.Package) {
	sigs, _ := symbolTable(pkgs)
	var lines []string
	for k, s := range sigs {
		lines = append(lines, strings.Join([]string{k.kind, k.scope, k.name, s}, "\t"))
	}
	sort.Strings(lines)
	fmt.Println("# declarations of the tree the rules were written against (./bin/upfcheck -dump-symbols): kind, scope, name, type; see alpha.go")
	for _, l := range lines {
		fmt.Println(l)
	}
}

func knownSymbols() map[symKey]string {
	m := map[symKey]string{}
	for _, l := range strings.Split(knownSymbolsTxt, "\n") {
		if l == "" || strings.HasPrefix(l, "#") {
			continue
		}
		p := strings.SplitN(l, "\t", 4)
		if len(p) == 4 {
			m[symKey{p[0], p[1], p[2]}] = p[3]
		}
	}
	return m
}

// detectRenames returns object → frozen name, and a readable list.
func detectRenames(pkgs []*packages.Package) (map[types.Object]string, []string) {
	known := knownSymbols()
	if len(known) == 0 {
		return nil, nil
	}
	cur, objs := symbolTable(pkgs)
	out := map[types.Object]string{}
	var notes []string

	// pass 1: types (scope = package). A renamed type moves the scope of its fields and methods.
	scopeAlias := map[string]string{} // current type scope → frozen type scope
	match := func(kind string, scopeOf func(string) string, strip func(string) string) {
		missing := map[string][]symKey{}
		for k, s := range known {
			if k.kind != kind {
				continue
			}
			if _, ok := cur[symKey{k.kind, unalias(scopeAlias, k.scope), k.name}]; !ok {
				missing[k.scope+"|"+strip(s)] = append(missing[k.scope+"|"+strip(s)], k)
			}
		}
		fresh := map[string][]symKey{}
		for k, s := range cur {
			if k.kind != kind {
				continue
			}
			fs := scopeOf(k.scope)
			if _, ok := known[symKey{k.kind, fs, k.name}]; !ok {
				fresh[fs+"|"+strip(s)] = append(fresh[fs+"|"+strip(s)], k)
			}
		}
		for key, olds := range missing {
			news := fresh[key]
			if len(olds) != 1 || len(news) != 1 {
				continue
			}
			o := objs[news[0]]
			if o == nil {
				continue
			}
			out[o] = olds[0].name
			notes = append(notes, fmt.Sprintf("%s %s.%s is %s", kind, news[0].scope, news[0].name, olds[0].name))
			if kind == "T" {
				scopeAlias[news[0].scope+"."+news[0].name] = olds[0].scope + "." + olds[0].name
			}
		}
	}
	ident := func(s string) string { return s }
	frozenScope := func(s string) string {
		if a, ok := scopeAlias[s]; ok {
			return a
		}
		return s
	}
	match("T", ident, ident)
	// fields: by type first (index dropped), then by type and index for what is left
	noIndex := func(s string) string {
		if i := strings.LastIndex(s, "#"); i >= 0 {
			return s[:i]
		}
		return s
	}
	match("F", frozenScope, noIndex)
	{
		// second chance for fields: several fields of one type renamed at once keep their positions
		done := map[types.Object]bool{}
		for o := range out {
			done[o] = true
		}
		for k, s := range cur {
			if k.kind != "F" || done[objs[k]] {
				continue
			}
			fs := frozenScope(k.scope)
			if _, ok := known[symKey{"F", fs, k.name}]; ok {
				continue
			}
			var cand []symKey
			for kk, ss := range known {
				if kk.kind == "F" && kk.scope == fs && ss == s {
					if _, still := cur[symKey{"F", unalias(scopeAlias, kk.scope), kk.name}]; !still {
						cand = append(cand, kk)
					}
				}
			}
			if len(cand) == 1 {
				out[objs[k]] = cand[0].name
				notes = append(notes, fmt.Sprintf("F %s.%s is %s (same position)", k.scope, k.name, cand[0].name))
			}
		}
	}
	match("M", frozenScope, ident)
	match("N", frozenScope, ident)
	match("V", ident, ident)
	sort.Strings(notes)
	return out, notes
}

// unalias maps a frozen scope to the scope it has in the current tree.
func unalias(scopeAlias map[string]string, frozen string) string {
	for curScope, fr := range scopeAlias {
		if fr == frozen {
			return curScope
		}
	}
	return frozen
}

// renameOverlay rewrites every identifier that resolves to a renamed declaration.
func renameOverlay(pkgs []*packages.Package, fset *token.FileSet, ren map[types.Object]string) (map[string][]byte, error) {
	type edit struct {
		off, n int
		text   string
	}
	edits := map[string][]edit{}
	seen := map[token.Pos]bool{}
	nameFor := func(o types.Object) (string, bool) {
		if o == nil {
			return "", false
		}
		if n, ok := ren[o]; ok {
			return n, true
		}
		// an embedded field is named after its type
		if v, ok := o.(*types.Var); ok && v.Embedded() {
			t := v.Type()
			if p, ok := t.(*types.Pointer); ok {
				t = p.Elem()
			}
			if nt, ok := t.(*types.Named); ok {
				if n, ok := ren[nt.Obj()]; ok {
					return n, true
				}
			}
		}
		// a method reached through an instantiated or embedded receiver resolves to the declared object
		if f, ok := o.(*types.Func); ok {
			if n, ok := ren[f.Origin()]; ok {
				return n, true
			}
		}
		if v, ok := o.(*types.Var); ok && v.IsField() {
			if n, ok := ren[v.Origin()]; ok {
				return n, true
			}
		}
		return "", false
	}
	for _, p := range pkgs {
		if p.TypesInfo == nil {
			continue
		}
		visit := func(id *ast.Ident, o types.Object) {
			n, ok := nameFor(o)
			if !ok || id.Name == n || id.Name == "_" || seen[id.Pos()] {
				return
			}
			seen[id.Pos()] = true
			pos := fset.Position(id.Pos())
			edits[pos.Filename] = append(edits[pos.Filename], edit{pos.Offset, len(id.Name), n})
		}
		for id, o := range p.TypesInfo.Defs {
			visit(id, o)
		}
		for id, o := range p.TypesInfo.Uses {
			visit(id, o)
		}
	}
	overlay := map[string][]byte{}
	for file, es := range edits {
		src, err := os.ReadFile(file)
		if err != nil {
			return nil, err
		}
		sort.Slice(es, func(i, j int) bool { return es[i].off > es[j].off })
		for _, e := range es {
			if e.off < 0 || e.off+e.n > len(src) {
				return nil, fmt.Errorf("edit outside %s", file)
			}
			src = append(src[:e.off:e.off], append([]byte(e.text), src[e.off+e.n:]...)...)
		}
		overlay[file] = src
	}
	return overlay, nil
}

// renameInPlace: development tool for scripts/rename_stress.sh — a proper identifier-level rename of
// one declaration in a scratch copy of the repository (test files are not loaded, hence not rewritten).
func renameInPlace(repo, spec string) {
	p := strings.Split(spec, "|")
	if len(p) != 4 {
		fmt.Fprintln(os.Stderr, "want kind|scope|name|newname")
		os.Exit(2)
	}
	fset := token.NewFileSet()
	cfg := &packages.Config{Mode: packages.LoadSyntax | packages.NeedModule, Dir: repo, Fset: fset, Env: cleanEnv(), BuildFlags: []string{"-trimpath"}}
	pkgs, err := packages.Load(cfg, "./...")
	if err != nil {
		fmt.Fprintln(os.Stderr, err)
		os.Exit(2)
	}
	_, objs := symbolTable(pkgs)
	o := objs[symKey{p[0], p[1], p[2]}]
	if o == nil {
		fmt.Fprintln(os.Stderr, "no such declaration")
		os.Exit(2)
	}
	overlay, err := renameOverlay(pkgs, fset, map[types.Object]string{o: p[3]})
	if err != nil {
		fmt.Fprintln(os.Stderr, err)
		os.Exit(2)
	}
	for f, b := range overlay {
		if err := os.WriteFile(f, b, 0o644); err != nil {
			fmt.Fprintln(os.Stderr, err)
			os.Exit(2)
		}
	}
	fmt.Printf("renamed %s in %d files\n", spec, len(overlay))
}
