package main

import (
	"go/token"
	"sort"
	"strings"

	"golang.org/x/tools/go/ssa"
)

// An Atom is one branch decision taken along a path: a comparison or a boolean value with
// the truth it has on the path, rendered through provenance so that it is independent of
// local names.
type Atom struct {
	Text  string // "qer.ulStatus == 1", "(*far).Drops(far)", "param:shouldDrop"
	Truth bool
	X, Y  ssa.Value
	Op    token.Token
	V     ssa.Value // for plain boolean atoms
}

// phiValueAt resolves a phi for the i-th block of the path (the block must be phi.Block()).
func phiValueAt(p *Path, idx int, phi *ssa.Phi) ssa.Value {
	b := phi.Block()
	for i := idx; i > 0; i-- {
		if p.Blocks[i] == b {
			pred := p.Blocks[i-1]
			for j, pb := range b.Preds {
				if pb == pred {
					return phi.Edges[j]
				}
			}
			return nil
		}
	}
	return nil
}

func resolveAt(p *Path, idx int, v ssa.Value) ssa.Value {
	for n := 0; n < 20; n++ {
		phi, ok := v.(*ssa.Phi)
		if !ok {
			return v
		}
		// find the last position ≤ idx of phi's block
		nv := phiValueAt(p, idx, phi)
		if nv == nil {
			return v
		}
		v = nv
	}
	return v
}

// pathAtoms returns the decisions of a path and whether the path is feasible as far as
// constant-resolved conditions tell (a phi that resolves to a constant along the path must
// agree with the edge taken).
func pathAtoms(p *Path) (atoms []Atom, feasible bool) {
	feasible = true
	errSeen := map[ssa.Value]bool{}
	for i := 0; i+1 < len(p.Blocks); i++ {
		b, s := p.Blocks[i], p.Blocks[i+1]
		ifi := blockIf(b)
		if ifi == nil || len(b.Succs) != 2 || b.Succs[0] == b.Succs[1] {
			continue
		}
		truth := b.Succs[0] == s
		c := resolveAt(p, i, ifi.Cond)
		for {
			if u, ok := c.(*ssa.UnOp); ok && u.Op == token.NOT {
				truth = !truth
				c = resolveAt(p, i, u.X)
				continue
			}
			break
		}
		if k, ok := c.(*ssa.Const); ok && k.Value != nil {
			if (k.Value.String() == "true") != truth {
				feasible = false
			}
			continue
		}
		if bo, ok := c.(*ssa.BinOp); ok {
			switch bo.Op {
			case token.EQL, token.NEQ, token.LSS, token.LEQ, token.GTR, token.GEQ:
				x, y := resolveAt(p, i, bo.X), resolveAt(p, i, bo.Y)
				op := bo.Op
				t := truth
				// normalise != into == with flipped truth
				if op == token.NEQ {
					op = token.EQL
					t = !t
				}
				// error plumbing (err == nil after a helper call) is not a decision of interest
				if (isNilConst(y) && isErrorType(x.Type())) || (isNilConst(x) && isErrorType(y.Type())) {
					// … but it decides feasibility: the same error value cannot be nil and non-nil on one
					// path, and a φ that resolves to the nil constant along the path is nil
					other := x
					if isNilConst(x) {
						other = y
					}
					if isNilConst(other) {
						if !t {
							feasible = false
						}
						continue
					}
					if prev, ok := errSeen[other]; ok && prev != t {
						feasible = false
					}
					errSeen[other] = t
					continue
				}
				atoms = append(atoms, Atom{Text: symOf(x).String() + " " + op.String() + " " + symOf(y).String(), Truth: t, X: x, Y: y, Op: op})
				continue
			}
		}
		atoms = append(atoms, Atom{Text: symOf(c).String(), Truth: truth, V: c})
	}
	// the same atom both ways ⇒ infeasible
	seen := map[string]bool{}
	for _, a := range atoms {
		if old, ok := seen[a.Text]; ok && old != a.Truth {
			feasible = false
		}
		seen[a.Text] = a.Truth
	}
	return atoms, feasible
}

func atomTruth(atoms []Atom, text string) (truth bool, present bool) {
	for _, a := range atoms {
		if a.Text == text {
			return a.Truth, true
		}
	}
	return false, false
}

func atomsString(atoms []Atom) string {
	var parts []string
	for _, a := range atoms {
		t := "F"
		if a.Truth {
			t = "T"
		}
		parts = append(parts, a.Text+"="+t)
	}
	sort.Strings(parts)
	return strings.Join(parts, " ∧ ")
}

// everyIteration: inside the loop headed by hdr, every path from the first instruction of
// body back to hdr (or out of the function) executes an instruction satisfying must.
func everyIteration(fn *ssa.Function, body *ssa.BasicBlock, hdr *ssa.BasicBlock, must instrPred) bool {
	if len(body.Instrs) == 0 {
		return false
	}
	first := body.Instrs[0]
	if must(first) {
		return true
	}
	hit := reach(fn, first, func(i ssa.Instruction) bool {
		if i.Block() == hdr && idxIn(hdr, i) == 0 {
			return true
		}
		return isReturn(i)
	}, must, nil)
	// reach starts after `first`; a body whose first instruction is in hdr itself is not expected
	return hit == nil
}

// rangeLoopOf finds the range-index loop (header, body) over a slice whose provenance string
// ends with suffix.
func rangeLoopsOver(fn *ssa.Function, suffix string) [][2]*ssa.BasicBlock {
	var out [][2]*ssa.BasicBlock
	for _, b := range fn.Blocks {
		ifi := blockIf(b)
		if ifi == nil {
			continue
		}
		bo, ok := ifi.Cond.(*ssa.BinOp)
		if !ok || bo.Op != token.LSS {
			continue
		}
		// idx+1 < len(x)
		lenCall, ok := bo.Y.(*ssa.Call)
		if !ok || calleeName(lenCall) != "builtin.len" {
			continue
		}
		if !strings.HasSuffix(symOf(lenCall.Call.Args[0]).String(), suffix) {
			continue
		}
		out = append(out, [2]*ssa.BasicBlock{b, b.Succs[0]})
	}
	return out
}

// loopsPerElementOf: the range loops of fn that run once per element of the slice whose provenance ends
// with suffix — the range loops over that slice itself, and those over a local slice that holds one slot
// per element of it: made with the slice's length, never appended to or handed on, slot i written in
// iteration i of a range loop over the slice that has no early exit and has finished before the loop in
// question starts (`ids := make([]T, len(xs)); for i := range xs { ids[i] = … }; for _, id := range ids`).
func (w *World) loopsPerElementOf(fn *ssa.Function, suffix string) [][2]*ssa.BasicBlock {
	direct := rangeLoopsOver(fn, suffix)
	out := append([][2]*ssa.BasicBlock{}, direct...)
	for _, b := range fn.Blocks {
		ifi := blockIf(b)
		if ifi == nil {
			continue
		}
		bo, ok := ifi.Cond.(*ssa.BinOp)
		if !ok || bo.Op != token.LSS || !isRangeIndexOf(bo.X) {
			continue
		}
		lenCall, ok := bo.Y.(*ssa.Call)
		if !ok || calleeName(lenCall) != "builtin.len" {
			continue
		}
		mk, ok := lenCall.Call.Args[0].(*ssa.MakeSlice)
		if !ok {
			continue
		}
		stores, local := localSliceStores(mk)
		if !local {
			continue
		}
		filled := false
		for _, st := range stores {
			ia := st.Addr.(*ssa.IndexAddr)
			for _, l := range direct {
				fillHdr, fillBody := l[0], l[1]
				fif := blockIf(fillHdr)
				if fif == nil || fif.Cond.(*ssa.BinOp).X != ia.Index || !w.rangeIndexIntoMake(ia.Index, mk) {
					continue
				}
				if !everyIteration(fn, fillBody, fillHdr, func(i ssa.Instruction) bool { return i == ssa.Instruction(st) }) || len(loopEarlyExits(fn, fillHdr)) != 0 {
					continue
				}
				if fillHdr.Dominates(b) && !reachesBlock(b, fillHdr) {
					filled = true
				}
			}
		}
		if filled {
			out = append(out, [2]*ssa.BasicBlock{b, b.Succs[0]})
		}
	}
	return out
}

// loopEarlyExits lists the blocks inside the natural loop of hdr (blocks dominated by hdr
// that can reach it) that leave the loop by an edge other than the header's own exit.
func loopEarlyExits(fn *ssa.Function, hdr *ssa.BasicBlock) []*ssa.BasicBlock {
	inLoop := map[*ssa.BasicBlock]bool{}
	for _, b := range fn.Blocks {
		if b != hdr && hdr.Dominates(b) && reachesBlock(b, hdr) {
			inLoop[b] = true
		}
	}
	var out []*ssa.BasicBlock
	for b := range inLoop {
		for _, s := range b.Succs {
			if s != hdr && !inLoop[s] {
				out = append(out, b)
			}
		}
		if len(b.Succs) == 0 {
			out = append(out, b)
		}
	}
	sort.Slice(out, func(i, j int) bool { return out[i].Index < out[j].Index })
	return out
}
