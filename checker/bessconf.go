package main

import (
	"os"
	"path/filepath"
	"regexp"
	"strconv"
	"strings"
)

// up4.bess is a bessctl (Python) script. It is tokenised for the module declarations
// `name::Class(fields=[{...}], values=[{...}])` and the integer constants at its top; it is
// never executed.

type bessAttr struct {
	Name  string
	Bytes int64
}

type bessModule struct {
	Name   string
	Class  string
	Fields []bessAttr
	Values []bessAttr
}

type BessConf struct {
	Modules map[string]*bessModule
	Consts  map[string]int64
}

var bessDeclRe = regexp.MustCompile(`([A-Za-z_][A-Za-z0-9_]*)::([A-Za-z_][A-Za-z0-9_]*)\(`)
var bessAttrRe = regexp.MustCompile(`\{\s*'attr_name'\s*:\s*'([^']+)'\s*,\s*'num_bytes'\s*:\s*(\d+)\s*\}`)
var bessConstRe = regexp.MustCompile(`(?m)^[ \t]*([A-Za-z_][A-Za-z0-9_]*)[ \t]*=[ \t]*(\d+)[ \t]*(#.*)?$`)

func loadBessConf(repo, prop string) *BessConf {
	path := filepath.Join(repo, "conf/up4.bess")
	b, err := os.ReadFile(path)
	if err != nil {
		brokenf(prop, "up4.bess", "cannot read %s: %v", path, err)
	}
	src := string(b)
	bc := &BessConf{Modules: map[string]*bessModule{}, Consts: map[string]int64{}}
	for _, m := range bessConstRe.FindAllStringSubmatch(src, -1) {
		v, _ := strconv.ParseInt(m[2], 10, 64)
		bc.Consts[m[1]] = v
	}
	for _, loc := range bessDeclRe.FindAllStringSubmatchIndex(src, -1) {
		name := src[loc[2]:loc[3]]
		class := src[loc[4]:loc[5]]
		// balance parentheses from loc[1]-1
		depth := 0
		end := -1
		for i := loc[1] - 1; i < len(src); i++ {
			switch src[i] {
			case '(':
				depth++
			case ')':
				depth--
				if depth == 0 {
					end = i
				}
			}
			if end >= 0 {
				break
			}
		}
		if end < 0 {
			continue
		}
		args := src[loc[1]:end]
		mod := &bessModule{Name: name, Class: class}
		mod.Fields = bessList(args, "fields")
		mod.Values = bessList(args, "values")
		if len(mod.Fields) > 0 {
			bc.Modules[name] = mod
		}
	}
	if len(bc.Modules) == 0 {
		brokenf(prop, "up4.bess", "no module declarations with fields found in %s", path)
	}
	return bc
}

func bessList(args, key string) []bessAttr {
	idx := strings.Index(args, key+"=[")
	if idx < 0 {
		idx = strings.Index(args, key+" = [")
		if idx < 0 {
			return nil
		}
	}
	start := strings.Index(args[idx:], "[") + idx
	depth := 0
	end := -1
	for i := start; i < len(args); i++ {
		switch args[i] {
		case '[':
			depth++
		case ']':
			depth--
			if depth == 0 {
				end = i
			}
		}
		if end >= 0 {
			break
		}
	}
	if end < 0 {
		return nil
	}
	var out []bessAttr
	for _, m := range bessAttrRe.FindAllStringSubmatch(args[start:end], -1) {
		n, _ := strconv.ParseInt(m[2], 10, 64)
		out = append(out, bessAttr{Name: m[1], Bytes: n})
	}
	return out
}
