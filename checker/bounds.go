package main

import (
	"fmt"
	"go/token"
	"go/types"
	"math"
	"sort"
	"strings"

	"golang.org/x/tools/go/ssa"
)

// A small abstract interpreter that decides one bounds obligation at a time.
//
// For an access x[i] (or x[a:b], or a library call that needs len(x) ≥ k) it tracks three
// abstract quantities along the CFG of the enclosing function, from entry to the site:
//   R  the possible values of the index root r (i = r + c),
//   L  the possible values of len(x),
//   D  an upper bound of r − len(x) (the relational part: "i < len(x)" guards).
// Edges refine them with the comparison that holds on the edge; joins take the hull; a
// value is forgotten when control (re-)enters the block that defines it. len(x) terms are
// recognised through the access path of x (go/ssa does no CSE): two loads of the same path
// denote the same slice only if the function and everything it calls never store to the
// path's last field (checked through mod-sets); slices held in SSA registers are immutable.

const inf = math.MaxInt64 / 4

type ival struct {
	lo, hi int64          // hull; lo=-inf, hi=inf when unknown
	set    map[int64]bool // exact small set when non-nil
}

func topVal() ival               { return ival{lo: -inf, hi: inf} }
func rangeVal(lo, hi int64) ival { return ival{lo: lo, hi: hi} }
func constVal(k int64) ival      { return ival{lo: k, hi: k, set: map[int64]bool{k: true}} }

func (a ival) empty() bool { return a.lo > a.hi || (a.set != nil && len(a.set) == 0) }

func joinVal(a, b ival) ival {
	if a.empty() {
		return b
	}
	if b.empty() {
		return a
	}
	out := ival{lo: min64(a.lo, b.lo), hi: max64(a.hi, b.hi)}
	if a.set != nil && b.set != nil && len(a.set)+len(b.set) <= 16 {
		out.set = map[int64]bool{}
		for k := range a.set {
			out.set[k] = true
		}
		for k := range b.set {
			out.set[k] = true
		}
	}
	return out
}

func min64(a, b int64) int64 {
	if a < b {
		return a
	}
	return b
}
func max64(a, b int64) int64 {
	if a > b {
		return a
	}
	return b
}

func (a ival) refine(op token.Token, k int64) ival {
	out := ival{lo: a.lo, hi: a.hi}
	if a.set != nil {
		out.set = map[int64]bool{}
		for v := range a.set {
			keep := false
			switch op {
			case token.EQL:
				keep = v == k
			case token.NEQ:
				keep = v != k
			case token.LSS:
				keep = v < k
			case token.LEQ:
				keep = v <= k
			case token.GTR:
				keep = v > k
			case token.GEQ:
				keep = v >= k
			}
			if keep {
				out.set[v] = true
			}
		}
		out.lo, out.hi = inf, -inf
		for v := range out.set {
			out.lo = min64(out.lo, v)
			out.hi = max64(out.hi, v)
		}
		return out
	}
	switch op {
	case token.EQL:
		if k < out.lo || k > out.hi {
			return ival{lo: 1, hi: 0}
		}
		return constVal(k)
	case token.NEQ:
		if out.lo == k {
			out.lo++
		}
		if out.hi == k {
			out.hi--
		}
	case token.LSS:
		out.hi = min64(out.hi, k-1)
	case token.LEQ:
		out.hi = min64(out.hi, k)
	case token.GTR:
		out.lo = max64(out.lo, k+1)
	case token.GEQ:
		out.lo = max64(out.lo, k)
	}
	return out
}

func (a ival) String() string {
	if a.set != nil {
		var ks []int64
		for k := range a.set {
			ks = append(ks, k)
		}
		sort.Slice(ks, func(i, j int) bool { return ks[i] < ks[j] })
		return fmt.Sprint(ks)
	}
	lo, hi := fmt.Sprint(a.lo), fmt.Sprint(a.hi)
	if a.lo <= -inf {
		lo = "-∞"
	}
	if a.hi >= inf {
		hi = "∞"
	}
	return "[" + lo + "," + hi + "]"
}

type bstate struct {
	R, L     ival
	D        int64 // r − len ≤ D
	valid    bool
	staleAll bool               // a store to the slice's location happened: earlier loads are stale
	fresh    map[ssa.Value]bool // loads executed after the last such store
}

func joinState(a, b bstate) bstate {
	if !a.valid {
		return b
	}
	if !b.valid {
		return a
	}
	out := bstate{R: joinVal(a.R, b.R), L: joinVal(a.L, b.L), D: max64(a.D, b.D), valid: true}
	switch {
	case a.staleAll && b.staleAll:
		out.staleAll = true
		out.fresh = map[ssa.Value]bool{}
		for k := range a.fresh {
			if b.fresh[k] {
				out.fresh[k] = true
			}
		}
	case a.staleAll:
		out.staleAll, out.fresh = true, a.fresh
	case b.staleAll:
		out.staleAll, out.fresh = true, b.fresh
	}
	return out
}

func sameState(a, b bstate) bool {
	if a.valid != b.valid {
		return false
	}
	return a.R.lo == b.R.lo && a.R.hi == b.R.hi && a.L.lo == b.L.lo && a.L.hi == b.L.hi && a.D == b.D && len(a.R.set) == len(b.R.set) && len(a.L.set) == len(b.L.set) && a.staleAll == b.staleAll && len(a.fresh) == len(b.fresh)
}

// ---- slice identity

// sliceKey identifies the slice an expression denotes: SSA registers by identity, memory by
// access path. stable=false when the path's last field is stored to by the function or its callees.
type sliceKey struct {
	reg  ssa.Value // non-nil: an SSA register (immutable)
	path string    // memory access path
	fld  *types.Var
	cell ssa.Value // local cell (Alloc / captured) holding the slice
}

func (w *World) keyOf(v ssa.Value) sliceKey {
	switch x := v.(type) {
	case *ssa.UnOp:
		if x.Op == token.MUL {
			switch a := x.X.(type) {
			case *ssa.FieldAddr:
				return sliceKey{path: rootedPath(a), fld: fieldVar(a)}
			case *ssa.Alloc:
				return sliceKey{cell: a, path: "cell:" + a.Name() + a.Comment}
			case *ssa.FreeVar:
				if c := cellOf(a); c != nil {
					return sliceKey{cell: c, path: "cell:" + c.Name()}
				}
				return sliceKey{path: "free:" + a.Name()}
			case *ssa.Global:
				return sliceKey{path: "global:" + a.Name()}
			case *ssa.IndexAddr:
				return sliceKey{path: rootedPath(a)}
			}
		}
	case *ssa.Field:
		return sliceKey{path: rootedPath(x), fld: nil, reg: nil}
	case *ssa.ChangeType:
		return w.keyOf(x.X)
	case *ssa.Convert:
		return w.keyOf(x.X)
	}
	return sliceKey{reg: v}
}

func sameKey(a, b sliceKey) bool {
	if a.reg != nil || b.reg != nil {
		return a.reg == b.reg
	}
	if a.cell != nil || b.cell != nil {
		return a.cell == b.cell
	}
	return a.path == b.path
}

func (k sliceKey) String() string {
	if k.reg != nil {
		return valueText(k.reg)
	}
	return k.path
}

// ---- mod-sets: which struct fields (by name+owner) a function may store to, transitively

func (w *World) storesField(f *ssa.Function, fld *types.Var, seen map[*ssa.Function]bool) bool {
	if f == nil || f.Blocks == nil || seen[f] {
		return false
	}
	seen[f] = true
	found := false
	allInstrs(f, func(i ssa.Instruction) {
		if found {
			return
		}
		if st, ok := i.(*ssa.Store); ok {
			if fa, ok := st.Addr.(*ssa.FieldAddr); ok && fieldVar(fa) == fld {
				found = true
			}
		}
		if c, ok := i.(ssa.CallInstruction); ok {
			for _, callee := range w.callees(c) {
				if w.storesField(callee, fld, seen) {
					found = true
				}
			}
			// closures created and passed around
			for _, a := range c.Common().Args {
				if fn := closureOf(stripConv(a)); fn != nil && w.storesField(fn, fld, seen) {
					found = true
				}
			}
		}
	})
	for _, a := range f.AnonFuncs {
		if !found && w.storesField(a, fld, seen) {
			found = true
		}
	}
	return found
}

// keyStable: all occurrences of the key inside fn denote the same slice value.
func (w *World) keyStable(fn *ssa.Function, k sliceKey, between func(st ssa.Instruction) bool) (bool, string) {
	if k.reg != nil {
		return true, "SSA register"
	}
	if k.cell != nil {
		// a local cell: stores other than its initialisation make it unstable (unless filtered by between)
		n := 0
		for _, st := range storesTo(k.cell) {
			if between == nil || between(st) {
				n++
			}
		}
		if n == 0 {
			return true, "cell not re-assigned in between"
		}
		return false, fmt.Sprintf("cell is assigned at %d places that may lie between guard and use", n)
	}
	if k.fld == nil {
		// element/nested path: stable only if no store to any field named like the last component... be conservative
		return false, "nested access path"
	}
	// stores in fn itself must not lie between guard and use; callees must not store at all
	bad := ""
	allInstrs(fn, func(i ssa.Instruction) {
		if st, ok := i.(*ssa.Store); ok {
			if fa, ok := st.Addr.(*ssa.FieldAddr); ok && fieldVar(fa) == k.fld {
				if between == nil || between(i) {
					bad = "store to ." + k.fld.Name() + " may lie between guard and use"
				}
			}
		}
		if c, ok := i.(ssa.CallInstruction); ok {
			if between != nil && !between(i) {
				return
			}
			for _, callee := range w.callees(c) {
				if w.storesField(callee, k.fld, map[*ssa.Function]bool{}) {
					bad = "callee " + callee.Name() + " stores to ." + k.fld.Name()
				}
			}
		}
	})
	return bad == "", bad
}

// ---- the obligation

type boundsGoal struct {
	fn        *ssa.Function
	site      ssa.Instruction
	slice     ssa.Value // x
	index     ssa.Value // i (nil: only a length requirement)
	minLen    int64     // required len(x) ≥ minLen (for index==nil)
	upperIncl bool      // slice bound: i ≤ len(x) instead of i < len(x)
}

type libFacts func(call *ssa.Call, resultIdx int) (minLen int64, needErrNil bool, ok bool)

// decompose i = r + c
func rootOffset(v ssa.Value) (ssa.Value, int64) {
	var c int64
	for n := 0; n < 8; n++ {
		switch x := v.(type) {
		case *ssa.BinOp:
			if x.Op == token.ADD {
				if k, ok := constInt(x.Y); ok {
					c += k
					v = x.X
					continue
				}
				if k, ok := constInt(x.X); ok {
					c += k
					v = x.Y
					continue
				}
			}
			if x.Op == token.SUB {
				if k, ok := constInt(x.Y); ok {
					c -= k
					v = x.X
					continue
				}
			}
		case *ssa.Convert:
			// widening conversions of non-negative values keep the value
			if bt, ok := x.X.Type().Underlying().(*types.Basic); ok && bt.Info()&types.IsInteger != 0 {
				if tb, ok := x.Type().Underlying().(*types.Basic); ok && tb.Info()&types.IsInteger != 0 {
					sb, _, _ := widthOf(x.X.Type())
					db, _, _ := widthOf(x.Type())
					if db >= sb {
						v = x.X
						continue
					}
				}
			}
		}
		break
	}
	return v, c
}

// lenOfKey: does v compute len(<key>)? returns offset c with v = len + c.
func (w *World) lenOfKey(v ssa.Value, k sliceKey) (int64, bool) {
	c, _, ok := w.lenOfKeyLoad(v, k)
	return c, ok
}

// lenOfKeyLoad also returns the load whose length is taken (nil for registers).
func (w *World) lenOfKeyLoad(v ssa.Value, k sliceKey) (int64, ssa.Value, bool) {
	r, c := rootOffset(v)
	// the length a slice was made with is its length: for x = make(_, n), n itself reads len(x)
	if mk, isMk := k.reg.(*ssa.MakeSlice); isMk && r == mk.Len {
		if _, isK := constInt(r); !isK {
			return c, nil, true
		}
	}
	call, ok := r.(*ssa.Call)
	if !ok || calleeName(call) != "builtin.len" {
		return 0, nil, false
	}
	arg := call.Call.Args[0]
	if sameKey(w.keyOf(arg), k) {
		if k.reg != nil {
			return c, nil, true
		}
		return c, arg, true
	}
	return 0, nil, false
}

// usable: a fact about len(load) speaks about the slice's current length.
func (s bstate) usable(load ssa.Value) bool {
	if load == nil || !s.staleAll {
		return true
	}
	return s.fresh[load]
}

// killsKey: the instruction may change the slice stored at the key's location.
func (w *World) killsKey(ins ssa.Instruction, k sliceKey, flds []*types.Var) bool {
	if k.reg != nil {
		return false
	}
	switch x := ins.(type) {
	case *ssa.Store:
		if k.cell != nil {
			return cellOf(x.Addr) == k.cell || x.Addr == k.cell
		}
		if fa, ok := x.Addr.(*ssa.FieldAddr); ok {
			fv := fieldVar(fa)
			for _, f := range flds {
				if f == fv {
					return true
				}
			}
		}
		// whole-element / whole-struct overwrite of something on the path
		if st, ok := x.Val.Type().Underlying().(*types.Struct); ok {
			for i := 0; i < st.NumFields(); i++ {
				for _, f := range flds {
					if st.Field(i) == f {
						return true
					}
				}
			}
		}
	case ssa.CallInstruction:
		if k.cell != nil {
			// a closure that captures the cell may assign it
			for _, callee := range w.callees(x) {
				for _, st := range storesTo(k.cell) {
					if st.Parent() == callee {
						return true
					}
				}
			}
			return false
		}
		for _, callee := range w.callees(x) {
			for _, f := range flds {
				if w.storesField(callee, f, map[*ssa.Function]bool{}) {
					return true
				}
			}
		}
		for _, a := range x.Common().Args {
			if fn := closureOf(stripConv(a)); fn != nil {
				for _, f := range flds {
					if w.storesField(fn, f, map[*ssa.Function]bool{}) {
						return true
					}
				}
			}
		}
	}
	return false
}

// pathFields lists the struct fields along the access path of a memory slice.
func pathFields(v ssa.Value) []*types.Var {
	var out []*types.Var
	for n := 0; n < 12 && v != nil; n++ {
		switch x := v.(type) {
		case *ssa.UnOp:
			v = x.X
		case *ssa.FieldAddr:
			if fv := fieldVar(x); fv != nil {
				out = append(out, fv)
			}
			v = x.X
		case *ssa.Field:
			if fv := fieldVar(x); fv != nil {
				out = append(out, fv)
			}
			v = x.X
		case *ssa.IndexAddr:
			v = x.X
		case *ssa.Index:
			v = x.X
		case *ssa.ChangeType:
			v = x.X
		default:
			return out
		}
	}
	return out
}

// structural lower bound of an induction variable: φ(consts ≥ k, itself + positive)
func structuralLower(v ssa.Value) (int64, bool) {
	phi, ok := v.(*ssa.Phi)
	if !ok {
		if bt, ok := v.Type().Underlying().(*types.Basic); ok && bt.Info()&types.IsUnsigned != 0 {
			return 0, true
		}
		if c, ok := v.(*ssa.Call); ok && (calleeName(c) == "builtin.len" || calleeName(c) == "builtin.cap") {
			return 0, true
		}
		if cv, ok := v.(*ssa.Convert); ok {
			if bt, ok := cv.X.Type().Underlying().(*types.Basic); ok && bt.Info()&types.IsUnsigned != 0 {
				sb, _, _ := widthOf(cv.X.Type())
				db, _, _ := widthOf(cv.Type())
				if db > sb {
					return 0, true
				}
			}
		}
		return 0, false
	}
	lo := int64(inf)
	seen := map[ssa.Value]bool{}
	var rec func(p *ssa.Phi) bool
	rec = func(p *ssa.Phi) bool {
		if seen[p] {
			return true
		}
		seen[p] = true
		for _, e := range p.Edges {
			if k, isK := constInt(e); isK {
				lo = min64(lo, k)
				continue
			}
			r, c := rootOffset(e)
			if rp, ok := r.(*ssa.Phi); ok && c >= 0 {
				if !rec(rp) {
					return false
				}
				continue
			}
			if l, ok := structuralLower(r); ok && rp2(r) {
				lo = min64(lo, l+c)
				continue
			}
			return false
		}
		return true
	}
	if rec(phi) && lo < inf {
		return lo, true
	}
	return 0, false
}

func rp2(v ssa.Value) bool { _, isPhi := v.(*ssa.Phi); return !isPhi }

// prove decides the goal; why explains the discharge or the gap.
func (w *World) prove(g boundsGoal, lib libFacts, depth int) (bool, string) {
	key := w.keyOf(g.slice)
	fn := g.fn
	// the slice itself may be a φ or an append: split on its definition
	var r ssa.Value
	var c int64
	if g.index != nil {
		r, c = rootOffset(g.index)
		if k, isK := constInt(r); isK {
			// constant index: a pure length requirement
			need := k + c + 1
			if g.upperIncl {
				need = k + c
			}
			if k+c < 0 {
				return false, fmt.Sprintf("constant index %d is negative", k+c)
			}
			return w.prove(boundsGoal{fn: fn, site: g.site, slice: g.slice, minLen: need}, lib, depth)
		}
		// i = len(x) + c'
		if c2, ok := w.lenOfKey(g.index, key); ok {
			// need 0 ≤ len + c2 (< or ≤) len
			upperOK := c2 < 0 || (g.upperIncl && c2 <= 0)
			if !upperOK {
				return false, fmt.Sprintf("index is len%+d", c2)
			}
			if c2 == 0 {
				return true, "index is len(x) (slice bound)"
			}
			// the len operand and the indexed slice must be the same current value: require the
			// length fact at the site (the dataflow checks staleness)
			if _, load, _ := w.lenOfKeyLoad(g.index, key); load != nil {
				if li, isIns := load.(ssa.Instruction); isIns {
					flds := pathFields(g.slice)
					var killed ssa.Instruction
					allInstrs(fn, func(k ssa.Instruction) {
						if killed == nil && w.killsKey(k, key, flds) && reach(fn, li, func(j ssa.Instruction) bool { return j == k }, nil, nil) != nil && reach(fn, k, func(j ssa.Instruction) bool { return j == g.site }, nil, nil) != nil {
							killed = k
						}
					})
					if killed != nil {
						return false, "the slice may be re-assigned between taking its length and indexing it"
					}
				}
			}
			ok2, why := w.prove(boundsGoal{fn: fn, site: g.site, slice: g.slice, minLen: -c2}, lib, depth)
			return ok2, fmt.Sprintf("index len%+d: %s", c2, why)
		}
		// i = indexOf(x, …) + c with indexOf ∈ [0, len(x)] (the position, or len when absent)
		if call, isCall := r.(*ssa.Call); isCall && c >= 0 && len(call.Call.Args) > 0 && w.indexOfContract(staticCallee(call)) {
			if sameKey(w.keyOf(call.Call.Args[0]), key) {
				slack := c
				if !g.upperIncl {
					slack = c + 1
				}
				flds := pathFields(g.slice)
				var killed ssa.Instruction
				allInstrs(fn, func(k ssa.Instruction) {
					// (a path back to the site that runs the call again starts afresh)
					isCallAgain := func(j ssa.Instruction) bool { return j == ssa.Instruction(call) }
					if killed == nil && w.killsKey(k, key, flds) && reach(fn, call, func(j ssa.Instruction) bool { return j == k }, isCallAgain, nil) != nil && reach(fn, k, func(j ssa.Instruction) bool { return j == g.site }, isCallAgain, nil) != nil {
						killed = k
					}
				})
				switch {
				case killed != nil:
				case slack <= 0:
					return true, "index is the result of " + staticCallee(call).Name() + " on the same slice (≤ len)"
				case slack == 1:
					// under result != len(x)
					guard := onlyVia(fn, g.site, func(a, b *ssa.BasicBlock) bool {
						x, op, y, ok := edgeFact(a, b)
						if !ok || op != token.NEQ {
							return false
						}
						if y == ssa.Value(call) {
							x, y = y, x
						}
						if x != ssa.Value(call) {
							return false
						}
						lc, isLen := y.(*ssa.Call)
						return isLen && calleeName(lc) == "builtin.len" && sameKey(w.keyOf(lc.Call.Args[0]), key)
					})
					if guard {
						return true, "index is the result of " + staticCallee(call).Name() + " on the same slice, under result != len (found)"
					}
				}
			}
		}
		// range index over the same slice
		if isRangeIndexOf(g.index) && c == 0 {
			// the loop's bound is len of the ranged slice: find the header condition
			if okR, whyR := w.rangeIndexOver(fn, g.index, key); okR {
				return true, whyR
			}
		}
		if !g.upperIncl && w.rangeIndexIntoMake(g.index, g.slice) {
			return true, "range index over xs into make(…, len(xs))"
		}
		// a slice bound one past a position: 0 ≤ r+1 ≤ len(x) follows from 0 ≤ r < len(x), i.e. from r
		// being an index of x (the tail x[r+1:] behind an element x[r])
		if _, rIsPhi := r.(*ssa.Phi); rIsPhi && g.upperIncl && c == 1 && depth < 3 {
			if okP, whyP := w.prove(boundsGoal{fn: fn, site: g.site, slice: g.slice, index: r}, lib, depth+1); okP {
				return true, "one past an index of the slice: " + whyP
			}
		}
		// φ index: prove every alternative at its own edge
		if phi, isPhi := g.index.(*ssa.Phi); isPhi && depth < 3 {
			if okP, whyP := w.provePhiIndex(g, phi, lib, depth); okP {
				return true, whyP
			}
		}
	}
	flds := pathFields(g.slice)
	whyS := ""
	// dataflow
	init := bstate{R: topVal(), L: rangeVal(0, inf), D: inf, valid: true}
	// known lengths from the definition of the slice
	defLo, defHi, defWhy := w.lenFromDef(g.slice, lib, fn, g.site)
	if g.index == nil && defLo >= g.minLen {
		return true, defWhy
	}
	in := map[*ssa.BasicBlock]bstate{}
	blocks := fn.Blocks
	if len(blocks) == 0 {
		return false, "no body"
	}
	defBlockOf := func(v ssa.Value) *ssa.BasicBlock {
		if ins, ok := v.(ssa.Instruction); ok {
			return ins.Block()
		}
		return nil
	}
	var rDef, lDef *ssa.BasicBlock
	if r != nil {
		rDef = defBlockOf(r)
	}
	if key.reg != nil {
		lDef = defBlockOf(key.reg)
	}
	// transfer through the instructions of a block (up to, not including, stop)
	transfer := func(b *ssa.BasicBlock, s bstate, stop ssa.Instruction) bstate {
		if rDef == b {
			s.R, s.D = topVal(), inf
		}
		if lDef == b {
			s.L = rangeVal(0, inf)
			s.D = inf
		}
		if key.reg != nil {
			return s
		}
		for _, ins := range b.Instrs {
			if ins == stop {
				break
			}
			if w.killsKey(ins, key, flds) {
				s.L, s.D = rangeVal(0, inf), inf
				s.staleAll = true
				s.fresh = map[ssa.Value]bool{}
				continue
			}
			if v, ok := ins.(ssa.Value); ok && s.staleAll {
				if u, isLoad := v.(*ssa.UnOp); isLoad && u.Op == token.MUL && sameKey(w.keyOf(v), key) {
					nf := map[ssa.Value]bool{}
					for k := range s.fresh {
						nf[k] = true
					}
					nf[v] = true
					s.fresh = nf
				}
			}
		}
		return s
	}
	refineEdge := func(s bstate, a, b *ssa.BasicBlock) bstate {
		x, op, y, ok := edgeFact(a, b)
		if !ok {
			return s
		}
		xr, xc := rootOffset(x)
		yr, yc := rootOffset(y)
		xl, xload, xIsLen := w.lenOfKeyLoad(x, key)
		yl, yload, yIsLen := w.lenOfKeyLoad(y, key)
		if xIsLen && !s.usable(xload) {
			xIsLen = false
		}
		if yIsLen && !s.usable(yload) {
			yIsLen = false
		}
		ky, yK := constInt(yr)
		kx, xK := constInt(xr)
		switch {
		case r != nil && xr == r && yK && !xIsLen:
			s.R = s.R.refine(op, ky+yc-xc)
		case r != nil && yr == r && xK && !yIsLen:
			s.R = s.R.refine(flipOp(op), kx+xc-yc)
		case xIsLen && yK:
			s.L = s.L.refine(op, ky+yc-xl)
		case yIsLen && xK:
			s.L = s.L.refine(flipOp(op), kx+xc-yl)
		case r != nil && xr == r && yIsLen:
			switch op {
			case token.LSS:
				s.D = min64(s.D, yl-xc-1)
			case token.LEQ, token.EQL:
				s.D = min64(s.D, yl-xc)
			case token.NEQ:
				if s.D <= yl-xc {
					s.D = min64(s.D, yl-xc-1)
				}
			}
		case r != nil && yr == r && xIsLen:
			switch op {
			case token.GTR:
				s.D = min64(s.D, xl-yc-1)
			case token.GEQ, token.EQL:
				s.D = min64(s.D, xl-yc)
			case token.NEQ:
				if s.D <= xl-yc {
					s.D = min64(s.D, xl-yc-1)
				}
			}
		}
		// a position strictly below the length: v < len(x) with v ≥ lo gives len(x) ≥ lo+1, whatever
		// the goal's own index is (x[len(x)-1] under "found": the last element exists because some
		// element does). v != len(x) says the same when v is the result of an indexOf on this very
		// slice value (∈ [0, len(x)], the contract is checked on the function).
		below := func(v ssa.Value, vc int64, strict bool, lenOff int64) {
			lo, ok := structuralLower(v)
			if call, isCall := v.(*ssa.Call); isCall && len(call.Call.Args) > 0 && w.indexOfContract(staticCallee(call)) {
				lo, ok = 0, true
				if !strict {
					// v != len(x) puts v below the length only if v ≤ len(x) is known: the
					// searched slice is this one, not re-assigned since (its load is current)
					arg := call.Call.Args[0]
					strict = vc == 0 && lenOff == 0 && sameKey(w.keyOf(arg), key) && (key.reg != nil || s.usable(arg))
				}
			}
			if ok && strict {
				s.L = s.L.refine(token.GEQ, lo+vc-lenOff+1)
			}
		}
		switch {
		case yIsLen && !xK && (op == token.LSS || op == token.NEQ):
			below(xr, xc, op == token.LSS, yl)
		case xIsLen && !yK && (op == token.GTR || op == token.NEQ):
			below(yr, yc, op == token.GTR, xl)
		}
		return s
	}
	in[blocks[0]] = init
	work := []*ssa.BasicBlock{blocks[0]}
	iter := map[*ssa.BasicBlock]int{}
	for len(work) > 0 {
		b := work[0]
		work = work[1:]
		s0 := in[b]
		if !s0.valid {
			continue
		}
		s := transfer(b, s0, nil)
		for _, succ := range b.Succs {
			ns := refineEdge(s, b, succ)
			if ns.R.empty() || ns.L.empty() {
				continue // infeasible edge
			}
			old, seenBefore := in[succ]
			j := ns
			if seenBefore && old.valid {
				j = joinState(old, ns)
			}
			iter[succ]++
			if iter[succ] > 12 && seenBefore {
				if j.R.lo < old.R.lo {
					j.R.lo = -inf
				}
				if j.R.hi > old.R.hi {
					j.R.hi = inf
				}
				if j.L.lo < old.L.lo {
					j.L.lo = 0
				}
				if j.L.hi > old.L.hi {
					j.L.hi = inf
				}
				if j.D > old.D {
					j.D = inf
				}
				j.R.set, j.L.set = nil, nil
			}
			if !seenBefore || !sameState(old, j) {
				in[succ] = j
				work = append(work, succ)
			}
		}
	}
	sb := g.site.Block()
	s, reached := in[sb]
	if !reached || !s.valid {
		return true, "site unreachable under the conditions that dominate it"
	}
	s = transfer(sb, s, g.site)
	// the slice operand itself must be a current load
	if key.reg == nil {
		if !s.usable(g.slice) {
			whyS = "the slice was re-assigned after the guards"
		}
	}
	// definition-derived length facts strengthen L
	if defLo > s.L.lo {
		s.L.lo = defLo
	}
	if defHi < s.L.hi {
		s.L.hi = defHi
	}
	if g.index == nil {
		if s.L.lo >= g.minLen {
			return true, fmt.Sprintf("len(%s) ∈ %s at the site", key, s.L)
		}
		return false, fmt.Sprintf("need len(%s) ≥ %d, known %s (%s)", key, g.minLen, s.L, orDash(whyS))
	}
	// lower bound
	lowOK := false
	lowWhy := ""
	if s.R.lo > -inf && s.R.lo+c >= 0 {
		lowOK, lowWhy = true, fmt.Sprintf("index ≥ %d", s.R.lo+c)
	} else if l, ok := structuralLower(r); ok && l+c >= 0 {
		lowOK, lowWhy = true, fmt.Sprintf("index root ≥ %d structurally", l)
	}
	// upper bound
	upOK := false
	upWhy := ""
	need := int64(-1)
	if g.upperIncl {
		need = 0
	}
	if s.D < inf && s.D+c <= need {
		upOK, upWhy = true, fmt.Sprintf("index − len ≤ %d", s.D+c)
	} else if s.R.hi < inf && s.L.lo > 0 && s.R.hi+c <= s.L.lo+need {
		upOK, upWhy = true, fmt.Sprintf("index ≤ %d, len ≥ %d", s.R.hi+c, s.L.lo)
	}
	if lowOK && upOK {
		return true, lowWhy + "; " + upWhy
	}
	var gaps []string
	if !lowOK {
		gaps = append(gaps, "no lower bound for "+valueText(g.index))
	}
	if !upOK {
		gaps = append(gaps, fmt.Sprintf("no guard relates %s to len(%s) (index ∈ %s, len ∈ %s)", valueText(g.index), key, s.R, s.L))
	}
	if whyS != "" {
		gaps = append(gaps, whyS)
	}
	return false, strings.Join(gaps, "; ")
}

func flipOp(op token.Token) token.Token {
	switch op {
	case token.LSS:
		return token.GTR
	case token.LEQ:
		return token.GEQ
	case token.GTR:
		return token.LSS
	case token.GEQ:
		return token.LEQ
	}
	return op
}

// rangeIndexOver: v is the index of `for i := range y` with y the same slice as key.
func (w *World) rangeIndexOver(fn *ssa.Function, v ssa.Value, key sliceKey) (bool, string) {
	bo := v.(*ssa.BinOp)
	hdr := bo.Block()
	ifi := blockIf(hdr)
	if ifi == nil {
		return false, ""
	}
	cond, ok := ifi.Cond.(*ssa.BinOp)
	if !ok || cond.Op != token.LSS || cond.X != ssa.Value(bo) {
		return false, ""
	}
	lc, ok := cond.Y.(*ssa.Call)
	if !ok || calleeName(lc) != "builtin.len" {
		return false, ""
	}
	rk := w.keyOf(lc.Call.Args[0])
	if !sameKey(rk, key) {
		return false, ""
	}
	if key.reg != nil {
		return true, "range index over the same slice value"
	}
	if stable, why := w.keyStable(fn, key, nil); stable {
		return true, "range index over " + key.String() + " (never re-assigned in this function or its callees)"
	} else {
		// the only stores may be the element/field write that uses the index itself; accept stores that happen after the access and leave the loop
		return false, "range index over " + key.String() + " but " + why
	}
}

// rangeIndexIntoMake: v is the index of `for i := range xs` and slice is `make([]T, len(xs))` with xs the
// same (immutable) value: slot i exists, and every slot gets its iteration.
func (w *World) rangeIndexIntoMake(v ssa.Value, slice ssa.Value) bool {
	bo, ok := v.(*ssa.BinOp)
	if !ok || !isRangeIndexOf(v) {
		return false
	}
	ifi := blockIf(bo.Block())
	if ifi == nil {
		return false
	}
	cond, ok := ifi.Cond.(*ssa.BinOp)
	if !ok || cond.Op != token.LSS || cond.X != ssa.Value(bo) {
		return false
	}
	lc, ok := cond.Y.(*ssa.Call)
	if !ok || calleeName(lc) != "builtin.len" {
		return false
	}
	mk, ok := slice.(*ssa.MakeSlice)
	if !ok {
		return false
	}
	ml, ok := mk.Len.(*ssa.Call)
	if !ok || calleeName(ml) != "builtin.len" {
		return false
	}
	a, b := lc.Call.Args[0], ml.Call.Args[0]
	if a != b {
		// two reads of one memory location (`make([]T, len(m.xs))` … `for i := range m.xs`) measure the
		// same slice when nothing that can run between them stores to the location
		return w.sameSliceLoads(bo.Parent(), a, b)
	}
	// the ranged value is a register (a parameter, a call result): it cannot change between the two len()s
	switch a.(type) {
	case *ssa.Parameter, *ssa.Extract, *ssa.Call, *ssa.Slice, *ssa.MakeSlice:
		return true
	}
	return false
}

// onlyReadWrittenCaptured: the address of the local cell is used for nothing but loads, stores into it and
// capture by function literals (whose stores storesTo sees): nobody can assign the variable through a pointer.
func onlyReadWrittenCaptured(cell *ssa.Alloc) bool {
	seen := map[ssa.Value]bool{}
	var ok func(v ssa.Value) bool
	ok = func(v ssa.Value) bool {
		if seen[v] {
			return true
		}
		seen[v] = true
		if v.Referrers() == nil {
			return false
		}
		for _, ref := range *v.Referrers() {
			switch r := ref.(type) {
			case *ssa.Store:
				if r.Addr != v {
					return false
				}
			case *ssa.UnOp, *ssa.DebugRef:
			case *ssa.MakeClosure:
				fn, _ := r.Fn.(*ssa.Function)
				if fn == nil {
					return false
				}
				for i, b := range r.Bindings {
					if b == v && (i >= len(fn.FreeVars) || !ok(fn.FreeVars[i])) {
						return false
					}
				}
			default:
				return false
			}
		}
		return true
	}
	return ok(cell)
}

// sameSliceLoads: a and b are loads of the same access path (a field of a struct, a local cell) and no
// instruction that may re-assign the path — a store in fn, a call whose callees store to one of the
// path's fields — lies on a way from one load to the other: both loads yield the same slice header.
func (w *World) sameSliceLoads(fn *ssa.Function, a, b ssa.Value) bool {
	la, okA := a.(*ssa.UnOp)
	lb, okB := b.(*ssa.UnOp)
	if !okA || !okB || la.Op != token.MUL || lb.Op != token.MUL || fn == nil {
		return false
	}
	ka, kb := w.keyOf(a), w.keyOf(b)
	if ka.reg != nil || kb.reg != nil || !sameKey(ka, kb) {
		return false
	}
	// the key does not say which element of an indexed path or which pointer of a re-loaded one is meant:
	// both addresses must be the same chain of fields from the same SSA value
	var sameAddr func(x, y ssa.Value) bool
	sameAddr = func(x, y ssa.Value) bool {
		if x == y {
			return true
		}
		if lx, ok := x.(*ssa.UnOp); ok && lx.Op == token.MUL {
			// the pointer is read from a local variable that is assigned exactly once (a captured
			// `smreq := …`): every read of it yields the same pointer
			ly, ok := y.(*ssa.UnOp)
			cell, isCell := lx.X.(*ssa.Alloc)
			return ok && ly.Op == token.MUL && isCell && ly.X == lx.X && singleStore(cell) != nil && onlyReadWrittenCaptured(cell)
		}
		fx, okX := x.(*ssa.FieldAddr)
		fy, okY := y.(*ssa.FieldAddr)
		return okX && okY && fx.Field == fy.Field && sameAddr(fx.X, fy.X)
	}
	if !sameAddr(la.X, lb.X) {
		return false
	}
	flds := pathFields(a)
	same := true
	allInstrs(fn, func(k ssa.Instruction) {
		if !same || !w.killsKey(k, ka, flds) {
			return
		}
		is := func(x ssa.Instruction) instrPred { return func(j ssa.Instruction) bool { return j == x } }
		for _, p := range [][2]*ssa.UnOp{{la, lb}, {lb, la}} {
			if reach(fn, p[0], is(k), nil, nil) != nil && reach(fn, k, is(p[1]), nil, nil) != nil {
				same = false
			}
		}
	})
	return same
}

// indexOfContract: f(slice, …) returns an index of a loop over its first argument that is bounded by the
// argument's length, or that length: a value in [0, len(slice)].
func (w *World) indexOfContract(f *ssa.Function) bool {
	if f == nil || len(f.Params) == 0 || len(f.Blocks) == 0 {
		return false
	}
	if _, isSlice := f.Params[0].Type().Underlying().(*types.Slice); !isSlice {
		return false
	}
	if w.idxOfMemo == nil {
		w.idxOfMemo = map[*ssa.Function]bool{}
	}
	if v, ok := w.idxOfMemo[f]; ok {
		return v
	}
	okAll := len(returnsOf(f)) > 0
	for _, ret := range returnsOf(f) {
		if len(ret.Results) != 1 {
			okAll = false
			break
		}
		v := ret.Results[0]
		if c, ok := v.(*ssa.Call); ok && calleeName(c) == "builtin.len" && c.Call.Args[0] == ssa.Value(f.Params[0]) {
			continue
		}
		if phi, ok := v.(*ssa.Phi); ok {
			if l, ok := structuralLower(phi); ok && l >= 0 {
				if onlyVia(f, ret, func(a, b *ssa.BasicBlock) bool {
					x, op, y, ok := edgeFact(a, b)
					if !ok || op != token.LSS || x != ssa.Value(phi) {
						return false
					}
					c, isCall := y.(*ssa.Call)
					return isCall && calleeName(c) == "builtin.len" && c.Call.Args[0] == ssa.Value(f.Params[0])
				}) {
					continue
				}
			}
		}
		okAll = false
	}
	// the function must not write its argument
	allInstrs(f, func(i ssa.Instruction) {
		if st, ok := i.(*ssa.Store); ok {
			if _, local := st.Addr.(*ssa.Alloc); !local {
				okAll = false
			}
		}
	})
	w.idxOfMemo[f] = okAll
	return okAll
}

// provePhiIndex: every alternative of a φ index is provable where it enters the φ.
func (w *World) provePhiIndex(g boundsGoal, phi *ssa.Phi, lib libFacts, depth int) (bool, string) {
	var whys []string
	seen := map[*ssa.Phi]bool{}
	var rec func(p *ssa.Phi) bool
	rec = func(p *ssa.Phi) bool {
		if seen[p] {
			return true
		}
		seen[p] = true
		for i, e := range p.Edges {
			pred := p.Block().Preds[i]
			if p2, ok := e.(*ssa.Phi); ok {
				// a loop counter that leaves its loop by `break`: the guards it has passed on the way to
				// this edge (`idx < len(xs)`) speak about it as about any other value
				if n := len(pred.Instrs); n > 0 && depth < 2 {
					if ok, _ := w.prove(boundsGoal{fn: g.fn, site: pred.Instrs[n-1], slice: g.slice, index: e, upperIncl: g.upperIncl}, lib, depth+1); ok {
						whys = append(whys, valueText(e)+" ok")
						continue
					}
				}
				if !rec(p2) {
					return false
				}
				continue
			}
			// a constant alternative that the guards between the φ and the use rule out (the -1 of a
			// "not found" start value under `if first < 0 { return }`) never arrives at the use
			if k, isK := constInt(e); isK && p == phi && phiConstExcluded(g.fn, phi, k, g.site) {
				whys = append(whys, valueText(e)+" excluded by the guards")
				continue
			}
			// prove at the end of the predecessor block
			if len(pred.Instrs) == 0 {
				return false
			}
			site := pred.Instrs[len(pred.Instrs)-1]
			ok, why := w.prove(boundsGoal{fn: g.fn, site: site, slice: g.slice, index: e, upperIncl: g.upperIncl}, lib, depth+1)
			if !ok {
				whys = append(whys, "alternative "+valueText(e)+": "+why)
				return false
			}
			whys = append(whys, valueText(e)+" ok")
		}
		return true
	}
	ok := rec(phi)
	// the length must not shrink between the φ and the use: only for stable keys. A re-assignment of
	// the slice from which control cannot arrive at the use any more (the compaction that follows the
	// use in straight-line code) is not in between; one that can (earlier in the block, or around a
	// loop) is.
	if ok {
		canArrive := func(st ssa.Instruction) bool {
			return st == g.site || reach(g.fn, st, func(j ssa.Instruction) bool { return j == g.site }, nil, nil) != nil
		}
		if stable, why := w.keyStable(g.fn, w.keyOf(g.slice), canArrive); !stable {
			return false, "φ index alternatives hold but " + why
		}
	}
	return ok, "every φ alternative in range: " + strings.Join(whys, ", ")
}

// phiConstExcluded: the φ does not hold the constant k when control arrives at site: every way from the φ
// to the site (without coming by the φ again, which would give it a new value) takes an edge whose
// comparison of the φ with a constant is false for k.
func phiConstExcluded(fn *ssa.Function, phi *ssa.Phi, k int64, site ssa.Instruction) bool {
	refuted := func(a, b *ssa.BasicBlock) bool {
		x, op, y, ok := edgeFact(a, b)
		if !ok {
			return false
		}
		xr, xc := rootOffset(x)
		yr, yc := rootOffset(y)
		if ky, isK := constInt(yr); isK && xr == ssa.Value(phi) {
			return constVal(k+xc).refine(op, ky+yc).empty()
		}
		if kx, isK := constInt(xr); isK && yr == ssa.Value(phi) {
			return constVal(k+yc).refine(flipOp(op), kx+xc).empty()
		}
		return false
	}
	again := func(i ssa.Instruction) bool { return i == ssa.Instruction(phi) }
	return reach(fn, phi, func(i ssa.Instruction) bool { return i == site }, again, refuted) == nil
}

// lenFromDef derives bounds of len(x) from how x is built.
var lfdBusy = map[ssa.Value]bool{}

func (w *World) lenFromDef(v ssa.Value, lib libFacts, fn *ssa.Function, site ssa.Instruction) (lo, hi int64, why string) {
	lo, hi = 0, inf
	if lfdBusy[v] || len(lfdBusy) > 40 {
		return lo, hi, ""
	}
	lfdBusy[v] = true
	defer delete(lfdBusy, v)
	switch x := v.(type) {
	case *ssa.MakeSlice:
		if k, ok := constInt(x.Len); ok {
			return k, k, fmt.Sprintf("make(_, %d)", k)
		}
	case *ssa.Slice:
		// array or slice re-slice with constant bounds
		if al, ok := x.X.(*ssa.Alloc); ok {
			if p, ok := al.Type().Underlying().(*types.Pointer); ok {
				if arr, ok := p.Elem().Underlying().(*types.Array); ok {
					h := arr.Len()
					if x.High != nil {
						if k, ok := constInt(x.High); ok {
							h = k
						} else {
							return 0, arr.Len(), "slice of array with variable high"
						}
					}
					l := int64(0)
					if x.Low != nil {
						if k, ok := constInt(x.Low); ok {
							l = k
						} else {
							return 0, h, "slice of array with variable low"
						}
					}
					return h - l, h - l, fmt.Sprintf("array slice of length %d", h-l)
				}
			}
		}
		if x.High != nil {
			h, ok1 := constInt(x.High)
			l, ok2 := int64(0), true
			if x.Low != nil {
				l, ok2 = constInt(x.Low)
			}
			if ok1 && ok2 {
				return h - l, h - l, fmt.Sprintf("x[%d:%d]", l, h)
			}
		} else {
			l, ok2 := int64(0), true
			if x.Low != nil {
				l, ok2 = constInt(x.Low)
			}
			if ok2 {
				blo, bhi, bwhy := w.lenFromDef(x.X, lib, fn, site)
				if blo >= l && bwhy != "" {
					if bhi < inf {
						bhi -= l
					}
					return blo - l, bhi, fmt.Sprintf("x[%d:] of %s", l, bwhy)
				}
			}
		}
	case *ssa.Call:
		if calleeName(x) == "builtin.append" {
			blo, bhi, _ := w.lenFromDef(x.Call.Args[0], lib, fn, site)
			// appended element count when the variadic part is a fresh array
			if sl, ok := x.Call.Args[1].(*ssa.Slice); ok {
				if al, ok := sl.X.(*ssa.Alloc); ok {
					if p, ok := al.Type().Underlying().(*types.Pointer); ok {
						if arr, ok := p.Elem().Underlying().(*types.Array); ok {
							n := arr.Len()
							if bhi < inf {
								bhi += n
							}
							return blo + n, bhi, fmt.Sprintf("append of %d elements", n)
						}
					}
				}
			}
			return blo, inf, "append"
		}
		if lib != nil {
			if m, needErr, ok := lib(x, -1); ok && !needErr {
				return m, inf, "library post-condition of " + shortCallee(calleeName(x))
			}
		}
	case *ssa.Extract:
		if call, ok := x.Tuple.(*ssa.Call); ok && lib != nil {
			if m, needErr, ok := lib(call, x.Index); ok {
				if !needErr {
					return m, inf, "library post-condition of " + shortCallee(calleeName(call))
				}
				// needs err == nil on the way to the site
				if ev := errResult(call); ev != nil && site != nil {
					if errGuarded(fn, call, ev, func(i ssa.Instruction) bool { return i == site }) {
						return m, inf, "library post-condition of " + shortCallee(calleeName(call)) + " under err == nil"
					}
				}
			}
		}
	case *ssa.Phi:
		plo, phi2 := int64(inf), int64(0)
		for i, e := range x.Edges {
			if e == ssa.Value(x) {
				continue
			}
			pred := x.Block().Preds[i]
			// an alternative that cannot be the one in use at the site: a sibling φ of the same block (the
			// error result of an expanded helper) is tested against nil on the way to the site, and this
			// alternative's sibling value contradicts the test
			if site != nil && w.phiEdgeExcluded(fn, x, i, site) {
				continue
			}
			// the alternative's length, strengthened by the guards that hold at the end of its predecessor
			l, h, _ := w.lenFromDef(e, lib, fn, nil)
			if len(pred.Instrs) > 0 {
				// query the interval of len(e) at the edge pred→phi block
				il := w.lenIntervalAtEdge(fn, e, pred, x.Block(), lib)
				l = max64(l, il.lo)
				h = min64(h, il.hi)
			}
			plo = min64(plo, l)
			phi2 = max64(phi2, h)
		}
		if plo < inf {
			return plo, phi2, "φ of slices"
		}
	case *ssa.ChangeType:
		return w.lenFromDef(x.X, lib, fn, site)
	case *ssa.UnOp:
		// a location read back right after it was written (same block, nothing in between that may
		// change it) holds the value written: `x.f = append(x.f, e)` followed by `x.f[len(x.f)-1]`
		if x.Op == token.MUL {
			if sv := w.storedJustBefore(x); sv != nil {
				if l, h, why := w.lenFromDef(sv, lib, fn, site); why != "" {
					return l, h, "read back after the store of: " + why
				}
			}
		}
		// a field with a single make(n) writer in the whole program
		if x.Op == token.MUL {
			if fa, ok := x.X.(*ssa.FieldAddr); ok {
				if n, ok := w.singleMakeLen(fieldVar(fa)); ok {
					return n, n, fmt.Sprintf("field .%s has a single writer: make(_, %d)", fieldVar(fa).Name(), n)
				}
			}
		}
	}
	return lo, hi, ""
}

// storedJustBefore: the value that the load of a field or local cell reads because the same location
// (same access path) was stored to earlier in the load's block and no instruction between that store
// and the load may change it (another store to the field through any base, a call that stores to it).
func (w *World) storedJustBefore(load *ssa.UnOp) ssa.Value {
	key := w.keyOf(load)
	if key.reg != nil || (key.cell == nil && key.fld == nil) {
		return nil
	}
	flds := pathFields(load)
	b := load.Block()
	if b == nil {
		return nil
	}
	for i := idxIn(b, load) - 1; i >= 0; i-- {
		ins := b.Instrs[i]
		if st, ok := ins.(*ssa.Store); ok {
			switch a := st.Addr.(type) {
			case *ssa.FieldAddr:
				if key.cell == nil && fieldVar(a) == key.fld && rootedPath(a) == key.path {
					return st.Val
				}
			case *ssa.Alloc:
				if key.cell != nil && ssa.Value(a) == key.cell {
					return st.Val
				}
			}
		}
		if w.killsKey(ins, key, flds) {
			return nil
		}
	}
	return nil
}

// singleMakeLen: every store to the field in the repo stores make(_, const n) (same n).
var smlBusy = map[*types.Var]bool{}
var smlCache = map[*types.Var][2]int64{}

func (w *World) singleMakeLen(fld *types.Var) (int64, bool) {
	if fld == nil || smlBusy[fld] {
		return 0, false
	}
	if c, ok := smlCache[fld]; ok {
		return c[0], c[1] == 1
	}
	smlBusy[fld] = true
	defer func() { delete(smlBusy, fld) }()
	n0, ok0 := w.singleMakeLen0(fld)
	b := int64(0)
	if ok0 {
		b = 1
	}
	smlCache[fld] = [2]int64{n0, b}
	return n0, ok0
}

func (w *World) singleMakeLen0(fld *types.Var) (int64, bool) {
	var n int64 = -1
	ok := true
	cnt := 0
	for _, f := range w.Funcs {
		allInstrs(f, func(i ssa.Instruction) {
			st, isSt := i.(*ssa.Store)
			if !isSt {
				return
			}
			fa, isFA := st.Addr.(*ssa.FieldAddr)
			if !isFA || fieldVar(fa) != fld {
				return
			}
			cnt++
			l, h, _ := w.lenFromDef(st.Val, nil, f, nil)
			if l != h || l >= inf {
				ok = false
				return
			}
			if n >= 0 && n != l {
				ok = false
			}
			n = l
		})
	}
	return n, ok && cnt > 0 && n >= 0
}

// lenIntervalAtEdge: the interval of len(v) that the dataflow knows on the edge a→b.
func (w *World) lenIntervalAtEdge(fn *ssa.Function, v ssa.Value, a, b *ssa.BasicBlock, lib libFacts) ival {
	// run the length-only analysis up to block a and refine with the edge
	key := w.keyOf(v)
	res := rangeVal(0, inf)
	l, h, _ := w.lenFromDef(v, lib, fn, nil)
	res.lo, res.hi = max64(res.lo, l), min64(res.hi, h)
	// collect facts from all edges that dominate a, plus the edge a→b
	type edge struct{ a, b *ssa.BasicBlock }
	var edges []edge
	for _, blk := range fn.Blocks {
		for _, s := range blk.Succs {
			if len(s.Preds) == 1 && (s == a || s.Dominates(a)) {
				edges = append(edges, edge{blk, s})
			}
		}
	}
	edges = append(edges, edge{a, b})
	stable, _ := w.keyStable(fn, key, nil)
	if !stable && key.reg == nil {
		return res
	}
	for _, e := range edges {
		x, op, y, ok := edgeFact(e.a, e.b)
		if !ok {
			continue
		}
		if xl, isLen := w.lenOfKey(x, key); isLen {
			if k, isK := constInt(y); isK {
				res = res.refine(op, k-xl)
			}
		} else if yl, isLen := w.lenOfKey(y, key); isLen {
			if k, isK := constInt(x); isK {
				res = res.refine(flipOp(op), k-yl)
			}
		}
	}
	return res
}

// phiEdgeExcluded: alternative i of φ x cannot be the value at site, because every path from the φ's
// block to the site takes a nil / non-nil edge on a sibling φ y of the same block whose alternative i
// is a constant nil (or is known non-nil) the other way round.
func (w *World) phiEdgeExcluded(fn *ssa.Function, x *ssa.Phi, i int, site ssa.Instruction) bool {
	for _, ins := range x.Block().Instrs {
		y, ok := ins.(*ssa.Phi)
		if !ok {
			break
		}
		if y == x || i >= len(y.Edges) {
			continue
		}
		var wantNil bool
		switch {
		case isNilConst(y.Edges[i]):
			wantNil = false // excluded if the site is only reached under y != nil
		case knownNonNilAt(fn, y.Edges[i], x.Block().Preds[i]) || producesNonNil(y.Edges[i]):
			wantNil = true // excluded if the site is only reached under y == nil
		default:
			continue
		}
		first := x.Block().Instrs[0]
		hit := reach0(fn, first, func(j ssa.Instruction) bool { return j == site }, nil, func(a, b *ssa.BasicBlock) bool {
			return nilnessEdge(a, b, func(v ssa.Value) bool { return v == ssa.Value(y) }, wantNil)
		}, false)
		if hit == nil && site.Block() != x.Block() {
			return true
		}
	}
	return false
}

// producesNonNil: the value is the result of a repo error constructor (every return of the callee is a
// non-nil value) or an explicit interface construction.
func producesNonNil(v ssa.Value) bool { return producesNonNil0(v, 0) }

func producesNonNil0(v ssa.Value, depth int) bool {
	if depth > 3 {
		return false
	}
	switch x := v.(type) {
	case *ssa.MakeInterface:
		return true
	case *ssa.Call:
		switch calleeName(x) {
		case "fmt.Errorf", "errors.New", "errors.Join":
			return true
		}
		g := staticCallee(x)
		if g == nil || g.Blocks == nil {
			return false
		}
		for _, ret := range returnsOf(g) {
			if len(ret.Results) != 1 || !producesNonNil0(ret.Results[0], depth+1) {
				return false
			}
		}
		return true
	}
	return false
}
