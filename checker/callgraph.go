package main

import (
	"go/token"
	"go/types"
	"sort"

	"golang.org/x/tools/go/ssa"
)

type Edge struct {
	Caller *ssa.Function
	Site   ssa.Instruction
	Callee *ssa.Function
	Kind   string // "call", "go", "defer", "funcarg" (function value handed to code we cannot see)
}

type CallGraph struct {
	w   *World
	Out map[*ssa.Function][]*Edge
	In  map[*ssa.Function][]*Edge
}

func (w *World) CG() *CallGraph {
	if w.cg != nil {
		return w.cg
	}
	cg := &CallGraph{w: w, Out: map[*ssa.Function][]*Edge{}, In: map[*ssa.Function][]*Edge{}}
	for _, f := range w.Funcs {
		f := f
		allInstrs(f, func(i ssa.Instruction) {
			c, ok := i.(ssa.CallInstruction)
			if !ok {
				return
			}
			kind := "call"
			switch i.(type) {
			case *ssa.Go:
				kind = "go"
			case *ssa.Defer:
				kind = "defer"
			}
			for _, callee := range w.callees(c) {
				cg.add(&Edge{Caller: f, Site: i, Callee: callee, Kind: kind})
			}
			// function values passed as arguments to callees without a repo body
			cc := c.Common()
			hasBody := false
			for _, callee := range w.callees(c) {
				if callee.Blocks != nil {
					hasBody = true
				}
			}
			if !hasBody {
				for _, a := range cc.Args {
					if fn := closureOf(stripConv(a)); fn != nil && fn.Blocks != nil {
						k := "funcarg"
						if kind == "go" {
							k = "go"
						}
						cg.add(&Edge{Caller: f, Site: i, Callee: fn, Kind: k})
					}
				}
			}
		})
	}
	w.cg = cg
	return cg
}

func (cg *CallGraph) add(e *Edge) {
	cg.Out[e.Caller] = append(cg.Out[e.Caller], e)
	cg.In[e.Callee] = append(cg.In[e.Callee], e)
}

// callees resolves a call site to the repo functions it may run.
func (w *World) callees(c ssa.CallInstruction) []*ssa.Function {
	cc := c.Common()
	if cc.IsInvoke() {
		return w.implementations(cc.Value.Type(), cc.Method)
	}
	if f := staticCallee(c); f != nil {
		return []*ssa.Function{f}
	}
	// function value loaded from a package-level variable initialised once
	if u, ok := cc.Value.(*ssa.UnOp); ok && u.Op == token.MUL {
		if g, ok := u.X.(*ssa.Global); ok {
			if f := w.globalFunc(g); f != nil {
				return []*ssa.Function{f}
			}
		}
	}
	return nil
}

func (w *World) globalFunc(g *ssa.Global) *ssa.Function {
	if g.Pkg == nil {
		return nil
	}
	init := g.Pkg.Func("init")
	if init == nil {
		return nil
	}
	var f *ssa.Function
	n := 0
	allInstrs(init, func(i ssa.Instruction) {
		if st, ok := i.(*ssa.Store); ok && st.Addr == g {
			n++
			f = closureOf(st.Val)
		}
	})
	if n == 1 {
		return f
	}
	return nil
}

// implementations: class-hierarchy resolution restricted to types declared in the repo.
func (w *World) implementations(iface types.Type, m *types.Func) []*ssa.Function {
	it, ok := iface.Underlying().(*types.Interface)
	if !ok {
		return nil
	}
	var out []*ssa.Function
	seen := map[*ssa.Function]bool{}
	for _, sp := range w.SSAPkgs {
		for _, mem := range sp.Members {
			t, ok := mem.(*ssa.Type)
			if !ok {
				continue
			}
			if _, isIface := t.Type().Underlying().(*types.Interface); isIface {
				continue
			}
			for _, cand := range []types.Type{t.Type(), types.NewPointer(t.Type())} {
				if !types.Implements(cand, it) {
					continue
				}
				sel := w.Prog.MethodSets.MethodSet(cand).Lookup(m.Pkg(), m.Name())
				if sel == nil {
					continue
				}
				fn := w.Prog.MethodValue(sel)
				if fn == nil || seen[fn] {
					continue
				}
				// a wrapper for a promoted or value-receiver method: use the declared method
				if fn.Synthetic != "" {
					if obj, ok := sel.Obj().(*types.Func); ok {
						if decl := w.Prog.FuncValue(obj); decl != nil {
							fn = decl
						}
					}
				}
				if seen[fn] {
					continue
				}
				seen[fn] = true
				out = append(out, fn)
			}
		}
	}
	sort.Slice(out, func(i, j int) bool { return w.FuncName(out[i]) < w.FuncName(out[j]) })
	return out
}

// Reachable computes the set of repo functions reachable from roots over edges accepted by follow.
func (cg *CallGraph) Reachable(roots []*ssa.Function, follow func(*Edge) bool) map[*ssa.Function]bool {
	seen := map[*ssa.Function]bool{}
	var work []*ssa.Function
	for _, r := range roots {
		if r != nil && !seen[r] {
			seen[r] = true
			work = append(work, r)
		}
	}
	for len(work) > 0 {
		f := work[len(work)-1]
		work = work[:len(work)-1]
		for _, e := range cg.Out[f] {
			if follow != nil && !follow(e) {
				continue
			}
			if !seen[e.Callee] {
				seen[e.Callee] = true
				work = append(work, e.Callee)
			}
		}
	}
	return seen
}

// reaches: can a call at site (transitively, over call/defer edges) run target?
func (cg *CallGraph) siteReaches(site ssa.CallInstruction, target func(*ssa.Function) bool) bool {
	for _, callee := range cg.w.callees(site) {
		if target(callee) {
			return true
		}
		r := cg.Reachable([]*ssa.Function{callee}, func(e *Edge) bool { return e.Kind != "go" })
		for f := range r {
			if target(f) {
				return true
			}
		}
	}
	return false
}

// callersOf lists the call edges into f.
func (cg *CallGraph) callersOf(f *ssa.Function) []*Edge { return cg.In[f] }
