package main

import (
	"bytes"
	"fmt"
	"go/ast"
	"go/printer"
	"go/token"
	"go/types"
	"sort"
	"strings"

	"golang.org/x/tools/go/ast/astutil"
	"golang.org/x/tools/go/ssa"
)

// ---------- instruction-level path queries on the SSA CFG ----------

type instrPred func(ssa.Instruction) bool
type edgePred func(from, to *ssa.BasicBlock) bool

func idxIn(b *ssa.BasicBlock, ins ssa.Instruction) int {
	for i, x := range b.Instrs {
		if x == ins {
			return i
		}
	}
	return -1
}

// reach walks forward from `from` (nil = function entry; otherwise the instruction after
// `from`) and returns the first instruction satisfying target that can be reached along a
// path which executes no instruction satisfying avoid and takes no edge satisfying cut.
func reach(fn *ssa.Function, from ssa.Instruction, target, avoid instrPred, cut edgePred) ssa.Instruction {
	return reach0(fn, from, target, avoid, cut, true)
}

// reach0: with sensitive == true the walk remembers the edge it entered a block by, and a branch
// whose condition is decided by the φ-inputs of that edge (constants, nil, values known non-nil at
// the predecessor) only follows the decided successor. This is what makes the rules indifferent to
// `a && b` lowering and to helpers that return a verdict or an error (after inlining, the verdict is
// a φ of constants in the continuation block).
func reach0(fn *ssa.Function, from ssa.Instruction, target, avoid instrPred, cut edgePred, sensitive bool) ssa.Instruction {
	return reach1(fn, from, nil, target, avoid, cut, sensitive)
}

// reach1: as reach0; with enteredBy != nil the walk starts in from's block as entered over the edge
// enteredBy→block, so that the first branch, too, is decided by the φ-inputs of that edge.
func reach1(fn *ssa.Function, from ssa.Instruction, enteredBy *ssa.BasicBlock, target, avoid instrPred, cut edgePred, sensitive bool) ssa.Instruction {
	if len(fn.Blocks) == 0 {
		return nil
	}
	type start struct {
		p, b *ssa.BasicBlock
		i    int
	}
	type key struct{ p, b *ssa.BasicBlock }
	var work []start
	visited := map[key]bool{}
	if from == nil {
		work = append(work, start{nil, fn.Blocks[0], 0})
		visited[key{nil, fn.Blocks[0]}] = true
	} else {
		b := from.Block()
		work = append(work, start{enteredBy, b, idxIn(b, from) + 1})
	}
	for len(work) > 0 {
		s := work[len(work)-1]
		work = work[:len(work)-1]
		stopped := false
		for i := s.i; i < len(s.b.Instrs); i++ {
			ins := s.b.Instrs[i]
			if target != nil && target(ins) {
				return ins
			}
			if avoid != nil && avoid(ins) {
				stopped = true
				break
			}
		}
		if stopped {
			continue
		}
		succs := s.b.Succs
		if sensitive && s.p != nil && len(succs) == 2 {
			if val, known := condFromPred(fn, s.b, s.p); known {
				if val {
					succs = succs[:1]
				} else {
					succs = succs[1:]
				}
			}
		}
		for _, succ := range succs {
			if cut != nil {
				saved := edgeCtx
				if sensitive {
					edgeCtx.pred, edgeCtx.blk = s.p, s.b
				}
				isCut := cut(s.b, succ)
				edgeCtx = saved
				if isCut {
					continue
				}
			}
			k := key{s.b, succ}
			if !sensitive {
				k = key{nil, succ}
			}
			if !visited[k] {
				visited[k] = true
				work = append(work, start{s.b, succ, 0})
			}
		}
	}
	return nil
}

var condCache = map[[2]*ssa.BasicBlock]int8{}

// condFromPred: the value of b's branch condition when b is entered from p, if the φ-inputs of that
// edge decide it.
// nonNegative: an unsigned value, an unsigned value widened into a signed type, a length, an up-counter from 0.
func nonNegative(v ssa.Value) bool {
	if _, sg, ok := widthOf(v.Type()); ok && !sg {
		return true
	}
	switch x := v.(type) {
	case *ssa.Convert:
		fb, fs, ok1 := widthOf(x.X.Type())
		tb, _, ok2 := widthOf(x.Type())
		return ok1 && ok2 && !fs && fb < tb
	case *ssa.Call:
		if b, ok := x.Call.Value.(*ssa.Builtin); ok && (b.Name() == "len" || b.Name() == "cap") {
			return true
		}
	case *ssa.Phi:
		// a counter that starts at constants ≥ 0 and only moves up (`for i := 0; …; i++`)
		if l, ok := structuralLower(x); ok && l >= 0 {
			return true
		}
	}
	return false
}

func condFromPred(fn *ssa.Function, b, p *ssa.BasicBlock) (bool, bool) {
	ck := [2]*ssa.BasicBlock{b, p}
	if c, ok := condCache[ck]; ok {
		return c == 1, c != 0
	}
	res := int8(0)
	defer func() { condCache[ck] = res }()
	ifi := blockIf(b)
	if ifi == nil {
		return false, false
	}
	pi := -1
	for i, q := range b.Preds {
		if q == p {
			pi = i
		}
	}
	if pi < 0 {
		return false, false
	}
	// substitute the φs of b by their input from p
	subst := func(v ssa.Value) ssa.Value {
		for k := 0; k < 4; k++ {
			phi, ok := v.(*ssa.Phi)
			if !ok || phi.Block() != b || pi >= len(phi.Edges) {
				return v
			}
			v = phi.Edges[pi]
		}
		return v
	}
	var eval func(v ssa.Value, d int) (bool, bool)
	eval = func(v ssa.Value, d int) (bool, bool) {
		if d > 6 {
			return false, false
		}
		v = subst(v)
		if c, isK := constBool(v); isK {
			return c, true
		}
		ins, isIns := v.(ssa.Instruction)
		if isIns && ins.Block() != b {
			return false, false // computed elsewhere: not decided by the edge
		}
		switch x := v.(type) {
		case *ssa.UnOp:
			if x.Op == token.NOT {
				if c, ok := eval(x.X, d+1); ok {
					return !c, true
				}
			}
		case *ssa.BinOp:
			// integer comparison of values the edge makes constant (first iteration of a range loop
			// over a fixed-size array: φ(-1)+1 < N)
			if a, okA := intFromPred(x.X, b, pi, 0); okA {
				if c, okC := intFromPred(x.Y, b, pi, 0); okC {
					switch x.Op {
					case token.LSS:
						return a < c, true
					case token.LEQ:
						return a <= c, true
					case token.GTR:
						return a > c, true
					case token.GEQ:
						return a >= c, true
					case token.EQL:
						return a == c, true
					case token.NEQ:
						return a != c, true
					}
				}
			}
			// 0 against a value that cannot be negative
			if a, okA := intFromPred(x.X, b, pi, 0); okA && a == 0 && nonNegative(subst(x.Y)) {
				switch x.Op {
				case token.LEQ:
					return true, true // 0 <= u
				case token.GTR:
					return false, true // 0 > u
				}
			}
			if c, okC := intFromPred(x.Y, b, pi, 0); okC && c == 0 && nonNegative(subst(x.X)) {
				switch x.Op {
				case token.GEQ:
					return true, true // u >= 0
				case token.LSS:
					return false, true // u < 0
				}
			}
			if x.Op != token.EQL && x.Op != token.NEQ {
				return false, false
			}
			l, r := subst(x.X), subst(x.Y)
			var other ssa.Value
			switch {
			case isNilConst(l):
				other = r
			case isNilConst(r):
				other = l
			default:
				return false, false
			}
			if isNilConst(other) {
				return x.Op == token.EQL, true
			}
			if knownNonNilAt(fn, other, p) {
				return x.Op == token.NEQ, true
			}
		}
		return false, false
	}
	if c, ok := eval(ifi.Cond, 0); ok {
		if c {
			res = 1
		} else {
			res = 2
		}
		return c, true
	}
	return false, false
}

// knownNonNilAt: v cannot be nil when control is at the end of block p.
func knownNonNilAt(fn *ssa.Function, v ssa.Value, p *ssa.BasicBlock) bool {
	switch v.(type) {
	case *ssa.MakeInterface, *ssa.Alloc, *ssa.MakeSlice, *ssa.MakeMap, *ssa.MakeChan, *ssa.MakeClosure, *ssa.FieldAddr, *ssa.IndexAddr, *ssa.Function, *ssa.Global:
		return true
	}
	if len(p.Instrs) == 0 {
		return false
	}
	// every path to p takes an edge that establishes v != nil
	hit := reach0(fn, nil, func(i ssa.Instruction) bool { return i == p.Instrs[0] }, nil, func(a, b *ssa.BasicBlock) bool {
		return nilnessEdge(a, b, func(x ssa.Value) bool { return x == v }, false)
	}, false)
	return hit == nil && p != fn.Blocks[0]
}

// mustPass: every path from `from` to an instruction satisfying target executes an
// instruction satisfying through first. Returns the offending target if not.
func mustPass(fn *ssa.Function, from ssa.Instruction, target, through instrPred) ssa.Instruction {
	return reach(fn, from, target, through, nil)
}

// instrDominates: a executes before b on every path from entry to b.
func instrDominates(a, b ssa.Instruction) bool {
	ba, bb := a.Block(), b.Block()
	if ba == bb {
		return idxIn(ba, a) < idxIn(bb, b)
	}
	return ba.Dominates(bb)
}

func isReturn(i ssa.Instruction) bool { _, ok := i.(*ssa.Return); return ok }

// res returns the i-th result of a return, looking through the result cells that go/ssa
// introduces in functions with defers (store; rundefers; load; return).
func res(ret *ssa.Return, i int) ssa.Value {
	v := res0(ret, i)
	// an error value that every way to this return has found to be nil is nil (bare `return` with named
	// results after `if err != nil { return }`, `return conf, err` after the same test)
	if _, isC := v.(*ssa.Const); !isC && isErrorType(v.Type()) {
		key := [2]interface{}{ret, i}
		if c, ok := resNilCache[key]; ok {
			if c != nil {
				return c
			}
			return v
		}
		var out ssa.Value
		fn := ret.Parent()
		if reach0(fn, nil, func(j ssa.Instruction) bool { return j == ssa.Instruction(ret) }, nil, func(a, b *ssa.BasicBlock) bool {
			return nilnessEdge(a, b, func(x ssa.Value) bool { return x == v }, true)
		}, false) == nil && ret.Block() != fn.Blocks[0] {
			out = ssa.NewConst(nil, v.Type())
		}
		resNilCache[key] = out
		if out != nil {
			return out
		}
	}
	return v
}

var resNilCache = map[[2]interface{}]ssa.Value{}

func res0(ret *ssa.Return, i int) ssa.Value {
	v := ret.Results[i]
	u, ok := v.(*ssa.UnOp)
	if !ok || u.Op != token.MUL {
		return v
	}
	al, ok := u.X.(*ssa.Alloc)
	if !ok {
		return v
	}
	b := ret.Block()
	var last ssa.Value
	for _, ins := range b.Instrs {
		if ins == ssa.Instruction(u) {
			break
		}
		if st, ok := ins.(*ssa.Store); ok && st.Addr == ssa.Value(al) {
			last = st.Val
		}
	}
	if last != nil {
		return last
	}
	// named results in a function with defers live in cells: the value returned is the last store on the
	// way here — followed back through blocks with a single way in — or the zero value when there is none
	private := true
	if refs := al.Referrers(); refs != nil {
		for _, ref := range *refs {
			switch x := ref.(type) {
			case *ssa.Store:
				if x.Addr != ssa.Value(al) {
					private = false
				}
			case *ssa.UnOp, *ssa.DebugRef:
			default:
				private = false
			}
		}
	}
	if private {
		for cur := b; ; {
			if len(cur.Preds) != 1 || cur.Preds[0] == cur {
				if len(cur.Preds) == 0 {
					return ssa.NewConst(nil, al.Type().Underlying().(*types.Pointer).Elem())
				}
				break
			}
			cur = cur.Preds[0]
			var st *ssa.Store
			for _, ins := range cur.Instrs {
				if s, ok := ins.(*ssa.Store); ok && s.Addr == ssa.Value(al) {
					st = s
				}
			}
			if st != nil {
				return st.Val
			}
		}
	}
	// single store anywhere
	if st := singleStore(al); st != nil {
		return st.Val
	}
	return v
}

func returnsOf(fn *ssa.Function) []*ssa.Return {
	var out []*ssa.Return
	for _, b := range fn.Blocks {
		if b == fn.Recover {
			continue
		}
		for _, i := range b.Instrs {
			if r, ok := i.(*ssa.Return); ok {
				out = append(out, r)
			}
		}
	}
	return out
}

func allInstrs(fn *ssa.Function, f func(ssa.Instruction)) {
	for _, b := range fn.Blocks {
		for _, i := range b.Instrs {
			f(i)
		}
	}
}

// ---------- call resolution ----------

// staticCallee resolves a call to a function with a known identity: a static call, a call
// of a closure value built in the same function (directly, or through a single-store cell).
func staticCallee(c ssa.CallInstruction) *ssa.Function {
	cc := c.Common()
	if cc.IsInvoke() {
		return nil
	}
	if f := cc.StaticCallee(); f != nil {
		return f
	}
	return closureOf(cc.Value)
}

// unbound resolves the synthetic wrapper of a method value (x.m used as a func) to the method.
func unbound(f *ssa.Function) *ssa.Function {
	if f == nil || f.Synthetic == "" || !strings.HasSuffix(f.Name(), "$bound") {
		return f
	}
	if obj, ok := f.Object().(*types.Func); ok && f.Prog != nil {
		if m := f.Prog.FuncValue(obj); m != nil {
			return m
		}
	}
	return f
}

func closureOf(v ssa.Value) *ssa.Function {
	switch v := v.(type) {
	case *ssa.MakeClosure:
		if f, ok := v.Fn.(*ssa.Function); ok {
			return unbound(f)
		}
	case *ssa.Function:
		return unbound(v)
	case *ssa.UnOp:
		if v.Op == token.MUL {
			if st := singleStore(v.X); st != nil {
				return closureOf(st.Val)
			}
		}
	case *ssa.Phi:
		var f *ssa.Function
		for _, e := range v.Edges {
			g := closureOf(e)
			if g == nil || (f != nil && g != f) {
				return nil
			}
			f = g
		}
		return f
	}
	return nil
}

// singleStore returns the only store into the cell addr (an Alloc or a FreeVar bound to
// one), or nil when there are several or none.
func singleStore(addr ssa.Value) *ssa.Store {
	addr = cellOf(addr)
	if addr == nil {
		return nil
	}
	var st *ssa.Store
	n := 0
	for _, s := range storesTo(addr) {
		st = s
		n++
	}
	if n == 1 {
		return st
	}
	return nil
}

// cellOf maps a FreeVar to the Alloc it is bound to in the enclosing function.
func cellOf(addr ssa.Value) ssa.Value {
	switch a := addr.(type) {
	case *ssa.Alloc:
		return a
	case *ssa.FreeVar:
		fn := a.Parent()
		par := fn.Parent()
		if par == nil {
			return nil
		}
		idx := -1
		for i, fv := range fn.FreeVars {
			if fv == a {
				idx = i
			}
		}
		var bound ssa.Value
		allInstrs(par, func(i ssa.Instruction) {
			if mc, ok := i.(*ssa.MakeClosure); ok && mc.Fn == fn && idx < len(mc.Bindings) {
				bound = mc.Bindings[idx]
			}
		})
		if bound == nil {
			return nil
		}
		return cellOf(bound)
	}
	return nil
}

// storesTo lists every store whose address is exactly the cell, in the cell's function and
// in every closure that captures it.
func storesTo(cell ssa.Value) []*ssa.Store {
	var out []*ssa.Store
	var visit func(v ssa.Value)
	seen := map[ssa.Value]bool{}
	visit = func(v ssa.Value) {
		if seen[v] {
			return
		}
		seen[v] = true
		refs := v.Referrers()
		if refs == nil {
			return
		}
		for _, r := range *refs {
			switch r := r.(type) {
			case *ssa.Store:
				if r.Addr == v {
					out = append(out, r)
				}
			case *ssa.MakeClosure:
				fn, _ := r.Fn.(*ssa.Function)
				if fn == nil {
					continue
				}
				for i, b := range r.Bindings {
					if b == v && i < len(fn.FreeVars) {
						visit(fn.FreeVars[i])
					}
				}
			}
		}
	}
	visit(cell)
	return out
}

// callsIn lists the call instructions (call, go, defer) of fn whose callee satisfies pred.
func callsIn(fn *ssa.Function, pred func(c ssa.CallInstruction) bool) []ssa.CallInstruction {
	var out []ssa.CallInstruction
	allInstrs(fn, func(i ssa.Instruction) {
		if c, ok := i.(ssa.CallInstruction); ok && pred(c) {
			out = append(out, c)
		}
	})
	return out
}

func callsTo(fn *ssa.Function, callee *ssa.Function) []ssa.CallInstruction {
	return callsIn(fn, func(c ssa.CallInstruction) bool { return staticCallee(c) == callee })
}

// calleeIs matches a call against an external function by package path and name, or a
// method by receiver type name: "io.ReadAll", "(*sync.Map).Store", "(net.Conn).Close" (invoke).
func calleeIs(c ssa.CallInstruction, full string) bool {
	return calleeName(c) == full
}

// calleeName renders the resolved callee: "pkg.Func", "(*pkg.T).M", "(pkg.I).M" for
// interface invokes, "builtin.len", "" for dynamic calls of unknown function values.
func calleeName(c ssa.CallInstruction) string {
	cc := c.Common()
	if cc.IsInvoke() {
		recv := cc.Value.Type()
		return fmt.Sprintf("(%s).%s", typeName(recv), cc.Method.Name())
	}
	if b, ok := cc.Value.(*ssa.Builtin); ok {
		return "builtin." + b.Name()
	}
	f := staticCallee(c)
	if f == nil {
		return ""
	}
	return ssaFuncFullName(f)
}

func typeName(t types.Type) string {
	return types.TypeString(t, func(p *types.Package) string { return p.Path() })
}

func ssaFuncFullName(f *ssa.Function) string {
	if f.Parent() != nil {
		p := f.Parent()
		for i, a := range p.AnonFuncs {
			if a == f {
				return fmt.Sprintf("%s$%d", ssaFuncFullName(p), i+1)
			}
		}
	}
	if recv := f.Signature.Recv(); recv != nil {
		return fmt.Sprintf("(%s).%s", typeName(recv.Type()), f.Name())
	}
	if f.Object() != nil && f.Object().Pkg() != nil {
		return f.Object().Pkg().Path() + "." + f.Name()
	}
	if f.Pkg != nil {
		return f.Pkg.Pkg.Path() + "." + f.Name()
	}
	return f.Name()
}

// ---------- constants and small value helpers ----------

func constInt(v ssa.Value) (int64, bool) {
	for {
		switch x := v.(type) {
		case *ssa.Convert:
			v = x.X
			continue
		case *ssa.ChangeType:
			v = x.X
			continue
		}
		break
	}
	c, ok := v.(*ssa.Const)
	if !ok || c.Value == nil {
		return 0, false
	}
	if c.Value.Kind().String() != "Int" {
		return 0, false
	}
	if i, ok := constInt64(c); ok {
		return i, true
	}
	return 0, false
}

func constInt64(c *ssa.Const) (int64, bool) {
	if c.Value == nil {
		return 0, false
	}
	if bt, ok := c.Type().Underlying().(*types.Basic); ok && bt.Info()&types.IsUnsigned != 0 {
		u := c.Uint64()
		return int64(u), true
	}
	return c.Int64(), true
}

func isNilConst(v ssa.Value) bool {
	c, ok := v.(*ssa.Const)
	return ok && c.IsNil()
}

func stripConv(v ssa.Value) ssa.Value {
	for {
		switch x := v.(type) {
		case *ssa.Convert:
			v = x.X
		case *ssa.ChangeType:
			v = x.X
		case *ssa.ChangeInterface:
			v = x.X
		case *ssa.MakeInterface:
			v = x.X
		default:
			return v
		}
	}
}

// ---------- source text for construct keys ----------

type srcIndex struct {
	w     *World
	files map[*token.File]*ast.File
}

func (w *World) fileOf(pos token.Pos) *ast.File {
	if !pos.IsValid() {
		return nil
	}
	tf := w.Fset.File(pos)
	for _, p := range w.Pkgs {
		for _, f := range p.Syntax {
			if w.Fset.File(f.Pos()) == tf {
				return f
			}
		}
	}
	return nil
}

func exprText(fset *token.FileSet, n ast.Node) string {
	var buf bytes.Buffer
	cfg := printer.Config{Mode: printer.RawFormat}
	_ = cfg.Fprint(&buf, fset, n)
	s := buf.String()
	s = strings.Join(strings.Fields(s), " ")
	if len(s) > 120 {
		s = s[:117] + "..."
	}
	return s
}

// srcExpr returns the text of the smallest expression of one of the wanted kinds that
// encloses pos.
func (w *World) srcExpr(pos token.Pos, want func(ast.Node) bool) string {
	f := w.fileOf(pos)
	if f == nil {
		return ""
	}
	path, _ := astutil.PathEnclosingInterval(f, pos, pos)
	for _, n := range path {
		if want(n) {
			return exprText(w.Fset, n)
		}
	}
	return ""
}

// srcExprNorm is srcExpr plus the same text with every local variable, parameter and receiver
// replaced by ‹its type› (numbered from the second distinct variable of a type on).
func (w *World) srcExprNorm(pos token.Pos, want func(ast.Node) bool) (string, string) {
	f := w.fileOf(pos)
	if f == nil {
		return "", ""
	}
	var info *types.Info
	tf := w.Fset.File(pos)
	for _, p := range w.Pkgs {
		for _, sf := range p.Syntax {
			if w.Fset.File(sf.Pos()) == tf {
				info = p.TypesInfo
			}
		}
	}
	path, _ := astutil.PathEnclosingInterval(f, pos, pos)
	for _, n := range path {
		if !want(n) {
			continue
		}
		raw := exprText(w.Fset, n)
		if info == nil {
			return raw, raw
		}
		type saved struct {
			id   *ast.Ident
			name string
		}
		var undo []saved
		names := map[*types.Var]string{}
		perType := map[string]int{}
		// a send statement is about the channel: what is sent enters the key by its type only, as a
		// variable does, whether it is written as a variable, an element or a call (`ch <- x`, `ch <- xs[i]`)
		var send *ast.SendStmt
		var sent ast.Expr
		if st, isSend := n.(*ast.SendStmt); isSend {
			if _, plain := st.Value.(*ast.Ident); !plain && info.TypeOf(st.Value) != nil {
				send, sent = st, st.Value
				st.Value = &ast.Ident{NamePos: sent.Pos(), Name: "_"} // not a variable: left alone below
			}
		}
		ast.Inspect(n, func(m ast.Node) bool {
			id, ok := m.(*ast.Ident)
			if !ok {
				return true
			}
			obj := info.Uses[id]
			if obj == nil {
				obj = info.Defs[id]
			}
			v, ok := obj.(*types.Var)
			if !ok || v.IsField() || v.Parent() == nil || v.Pkg() == nil || v.Parent() == v.Pkg().Scope() {
				return true
			}
			nm, seen := names[v]
			if !seen {
				ts := types.TypeString(v.Type(), func(*types.Package) string { return "" })
				ts = strings.TrimPrefix(ts, "*")
				perType[ts]++
				nm = "‹" + ts + "›"
				if perType[ts] > 1 {
					nm += fmt.Sprint(perType[ts])
				}
				names[v] = nm
			}
			undo = append(undo, saved{id, id.Name})
			id.Name = nm
			return true
		})
		if send != nil {
			ts := strings.TrimPrefix(types.TypeString(info.TypeOf(sent), func(*types.Package) string { return "" }), "*")
			perType[ts]++
			send.Value.(*ast.Ident).Name = "‹" + ts + "›"
			if perType[ts] > 1 {
				send.Value.(*ast.Ident).Name += fmt.Sprint(perType[ts])
			}
		}
		norm := exprText(w.Fset, n)
		for _, u := range undo {
			u.id.Name = u.name
		}
		if send != nil {
			send.Value = sent
		}
		return raw, norm
	}
	return "", ""
}

// valueText renders an SSA value as an access path when it is one, else its SSA name.
func valueText(v ssa.Value) string {
	switch x := v.(type) {
	case nil:
		return "<nil>"
	case *ssa.Parameter:
		return x.Name()
	case *ssa.FreeVar:
		return x.Name()
	case *ssa.Global:
		return x.Name()
	case *ssa.Const:
		if x.Value == nil {
			return "nil"
		}
		return x.Value.String()
	case *ssa.Alloc:
		if x.Comment != "" {
			return x.Comment
		}
		return x.Name()
	case *ssa.FieldAddr:
		st := derefStruct(x.X.Type())
		name := fmt.Sprintf("#%d", x.Field)
		if st != nil && x.Field < st.NumFields() {
			name = st.Field(x.Field).Name()
		}
		return valueText(x.X) + "." + name
	case *ssa.Field:
		st, _ := x.X.Type().Underlying().(*types.Struct)
		name := fmt.Sprintf("#%d", x.Field)
		if st != nil && x.Field < st.NumFields() {
			name = st.Field(x.Field).Name()
		}
		return valueText(x.X) + "." + name
	case *ssa.IndexAddr:
		return valueText(x.X) + "[" + valueText(x.Index) + "]"
	case *ssa.Index:
		return valueText(x.X) + "[" + valueText(x.Index) + "]"
	case *ssa.UnOp:
		if x.Op == token.MUL {
			return valueText(x.X)
		}
		return x.Op.String() + valueText(x.X)
	case *ssa.Convert:
		return valueText(x.X)
	case *ssa.ChangeType:
		return valueText(x.X)
	case *ssa.MakeInterface:
		return valueText(x.X)
	case *ssa.Extract:
		return fmt.Sprintf("%s#%d", valueText(x.Tuple), x.Index)
	case *ssa.Call:
		n := calleeName(x)
		if n == "" {
			n = "dyn"
		}
		if i := strings.LastIndex(n, "/"); i >= 0 {
			n = n[i+1:]
		}
		var args []string
		for _, a := range x.Call.Args {
			args = append(args, valueText(a))
		}
		if x.Call.IsInvoke() {
			return valueText(x.Call.Value) + "." + x.Call.Method.Name() + "(" + strings.Join(args, ",") + ")"
		}
		return n + "(" + strings.Join(args, ",") + ")"
	case *ssa.BinOp:
		return "(" + valueText(x.X) + x.Op.String() + valueText(x.Y) + ")"
	case *ssa.Phi:
		if x.Comment != "" {
			return x.Comment
		}
		return x.Name()
	case *ssa.Slice:
		return valueText(x.X) + "[:]"
	}
	return v.Name()
}

func derefStruct(t types.Type) *types.Struct {
	if p, ok := t.Underlying().(*types.Pointer); ok {
		t = p.Elem()
	}
	st, _ := t.Underlying().(*types.Struct)
	return st
}

// fieldVar returns the types.Var selected by a FieldAddr or Field instruction.
func fieldVar(v ssa.Value) *types.Var {
	switch x := v.(type) {
	case *ssa.FieldAddr:
		if st := derefStruct(x.X.Type()); st != nil && x.Field < st.NumFields() {
			return st.Field(x.Field)
		}
	case *ssa.Field:
		if st, ok := x.X.Type().Underlying().(*types.Struct); ok && x.Field < st.NumFields() {
			return st.Field(x.Field)
		}
	}
	return nil
}

func sortedKeys(m map[string]bool) []string {
	var out []string
	for k := range m {
		out = append(out, k)
	}
	sort.Strings(out)
	return out
}

// errorsPropagate checks error discipline in f: for every call accepted by `want` that returns an
// error, every instruction accepted by `success` (typically the success returns of f, or the
// datapath call that must not happen after a failure) is unreachable from the call unless the
// error was examined and found nil. An error that is overwritten or never looked at fails.
func errorsPropagate(w *World, r *Report, rule string, f *ssa.Function, want func(*ssa.Call) bool, success instrPred, what string) int {
	n := 0
	fn := w.FuncName(f)
	allInstrs(f, func(i ssa.Instruction) {
		c, ok := i.(*ssa.Call)
		if !ok || !want(c) {
			return
		}
		sig := c.Call.Signature()
		if sig == nil || sig.Results().Len() == 0 || !isErrorType(sig.Results().At(sig.Results().Len()-1).Type()) {
			return
		}
		n++
		name := shortCallee(calleeName(c))
		construct := fmt.Sprintf("an error of %s (#%d) %s", name, ordinalIn(f, c), what)
		ev := errResult(c)
		if ev == nil {
			r.bad(rule, fn, construct, w.Pos(c.Pos()), "the error result of "+name+" is discarded")
			return
		}
		okAll := true
		allInstrs(f, func(j ssa.Instruction) {
			if !success(j) {
				return
			}
			if j.Block() == c.Block() && idxIn(j.Block(), j) < idxIn(c.Block(), c) && !reachesBlock(firstSucc(c.Block()), c.Block()) {
				return
			}
			if !errGuarded(f, c, ev, func(k ssa.Instruction) bool { return k == j }) {
				okAll = false
			}
		})
		r.check(okAll, rule, fn, construct, w.Pos(c.Pos()), "success unreachable unless err == nil", "the error of "+name+" is overwritten or never examined before "+fn+" goes on as if the call had succeeded")
	})
	return n
}

func firstSucc(b *ssa.BasicBlock) *ssa.BasicBlock {
	if len(b.Succs) > 0 {
		return b.Succs[0]
	}
	return b
}

// successReturns: returns of f whose error result is the nil constant (all returns when f has no error result).
func successReturns(f *ssa.Function) instrPred {
	res0 := f.Signature.Results()
	hasErr := res0.Len() > 0 && isErrorType(res0.At(res0.Len()-1).Type())
	return func(i ssa.Instruction) bool {
		ret, ok := i.(*ssa.Return)
		if !ok {
			return false
		}
		if !hasErr {
			return true
		}
		return isNilConst(res(ret, res0.Len()-1))
	}
}

// intFromPred: the integer value of v in block b when b is entered through its pi-th predecessor.
func intFromPred(v ssa.Value, b *ssa.BasicBlock, pi int, d int) (int64, bool) {
	if d > 5 {
		return 0, false
	}
	if k, ok := constInt(v); ok {
		if c, isC := v.(*ssa.Const); isC && c.Value != nil {
			if bt, isB := c.Type().Underlying().(*types.Basic); isB && bt.Info()&types.IsInteger != 0 {
				return k, true
			}
		}
		return 0, false
	}
	switch x := v.(type) {
	case *ssa.Phi:
		if x.Block() == b && pi < len(x.Edges) {
			return intFromPred(x.Edges[pi], b, pi, d+1)
		}
	case *ssa.BinOp:
		if x.Block() != b {
			return 0, false
		}
		l, ok1 := intFromPred(x.X, b, pi, d+1)
		r, ok2 := intFromPred(x.Y, b, pi, d+1)
		if ok1 && ok2 {
			switch x.Op {
			case token.ADD:
				return l + r, true
			case token.SUB:
				return l - r, true
			}
		}
	case *ssa.Call:
		// len of a fixed-size array
		if bi, ok := x.Call.Value.(*ssa.Builtin); ok && bi.Name() == "len" && len(x.Call.Args) == 1 {
			t := x.Call.Args[0].Type().Underlying()
			if p, ok := t.(*types.Pointer); ok {
				t = p.Elem().Underlying()
			}
			if a, ok := t.(*types.Array); ok {
				return a.Len(), true
			}
		}
	}
	return 0, false
}

// walkUnder explores every path from the entry of f along which each branch whose condition decide can
// settle goes the settled way (the others go both ways). visit sees each instruction together with a
// resolver for integer φs: a φ is the constant that came in over the edge the path took. ok is false when
// the exploration was cut short.
func walkUnder(f *ssa.Function, decide func(cond ssa.Value) (val, known bool), visit func(i ssa.Instruction, phiConst func(ssa.Value) (int64, bool))) (ok bool) {
	if len(f.Blocks) == 0 {
		return true
	}
	type state struct {
		b, prev *ssa.BasicBlock
		env     string
	}
	type item struct {
		b, prev *ssa.BasicBlock
		env     map[*ssa.Phi]int64
	}
	envKey := func(e map[*ssa.Phi]int64) string {
		var ks []string
		for p, v := range e {
			ks = append(ks, fmt.Sprintf("%s=%d", p.Name(), v))
		}
		sort.Strings(ks)
		return strings.Join(ks, ",")
	}
	seen := map[state]bool{}
	work := []item{{f.Blocks[0], nil, map[*ssa.Phi]int64{}}}
	for steps := 0; len(work) > 0; steps++ {
		if steps > 50000 {
			return false
		}
		it := work[len(work)-1]
		work = work[:len(work)-1]
		st := state{it.b, it.prev, envKey(it.env)}
		if seen[st] {
			continue
		}
		seen[st] = true
		env := map[*ssa.Phi]int64{}
		for k, v := range it.env {
			env[k] = v
		}
		var resolve func(v ssa.Value) (int64, bool)
		resolve = func(v ssa.Value) (int64, bool) {
			for {
				switch x := v.(type) {
				case *ssa.Convert:
					v = x.X
					continue
				case *ssa.ChangeType:
					v = x.X
					continue
				}
				break
			}
			if k, isK := constInt(v); isK {
				return k, true
			}
			if p, isPhi := v.(*ssa.Phi); isPhi {
				k, ok := env[p]
				return k, ok
			}
			return 0, false
		}
		for _, ins := range it.b.Instrs {
			if p, isPhi := ins.(*ssa.Phi); isPhi {
				delete(env, p)
				for k, pred := range it.b.Preds {
					if pred == it.prev {
						if c, ok := resolve(p.Edges[k]); ok {
							env[p] = c
						}
					}
				}
				continue
			}
			visit(ins, resolve)
		}
		if cond := blockIf(it.b); cond != nil && len(it.b.Succs) == 2 {
			if v, known := decide(cond.Cond); known {
				if v {
					work = append(work, item{it.b.Succs[0], it.b, env})
				} else {
					work = append(work, item{it.b.Succs[1], it.b, env})
				}
				continue
			}
		}
		for _, sc := range it.b.Succs {
			work = append(work, item{sc, it.b, env})
		}
	}
	return true
}
