package main

import (
	"go/constant"
	"go/token"
	"go/types"
	"strings"

	"golang.org/x/tools/go/ssa"
)

// A tiny abstract evaluator for *pure* integer/boolean functions (no loads from the heap, no
// calls other than to other pure repo functions): used to extract the truth table of small
// predicates over a finite domain (decision-table extraction, DESIGN §2.3.4). It is applied
// only to functions whose whole input domain (a uint8, or the finite set of order classes
// of a pair of uint16) is enumerated, so the table is exact, not a sample.

type evalVal struct {
	u      uint64
	isBool bool
	fields []evalVal // struct value (array value, result tuple)
	ok     bool
	// exec only:
	obj    *evalObj // slice value: its backing store (nil for the nil slice)
	isNil  bool     // nil slice / pointer / interface
	opaque bool     // a non-nil value whose content is not modelled (a constructed error)
}

// evalObj is the backing store of a slice built by an interpreted function.
type evalObj struct{ elems []evalVal }

type evaluator struct {
	steps int
	fail  string
}

func widthOf(t types.Type) (bits int, signed bool, ok bool) {
	b, isB := t.Underlying().(*types.Basic)
	if !isB {
		return 0, false, false
	}
	switch b.Kind() {
	case types.Bool, types.UntypedBool:
		return 1, false, true
	case types.Uint8:
		return 8, false, true
	case types.Uint16:
		return 16, false, true
	case types.Uint32:
		return 32, false, true
	case types.Uint64, types.Uint, types.Uintptr:
		return 64, false, true
	case types.Int8:
		return 8, true, true
	case types.Int16:
		return 16, true, true
	case types.Int32:
		return 32, true, true
	case types.Int64, types.Int, types.UntypedInt:
		return 64, true, true
	}
	return 0, false, false
}

func trunc(u uint64, t types.Type) uint64 {
	bits, signed, ok := widthOf(t)
	if !ok || bits >= 64 {
		return u
	}
	if bits == 1 {
		return u & 1
	}
	mask := (uint64(1) << uint(bits)) - 1
	u &= mask
	if signed && u&(uint64(1)<<uint(bits-1)) != 0 {
		u |= ^mask // sign-extend
	}
	return u
}

func (e *evaluator) call(fn *ssa.Function, args []evalVal) (evalVal, bool) {
	if fn == nil || fn.Blocks == nil || len(args) != len(fn.Params) {
		e.fail = "unsupported callee"
		return evalVal{}, false
	}
	env := map[ssa.Value]evalVal{}
	for i, p := range fn.Params {
		env[p] = args[i]
	}
	cells := map[ssa.Value]evalVal{}
	var prev *ssa.BasicBlock
	b := fn.Blocks[0]
	for {
		for _, ins := range b.Instrs {
			e.steps++
			if e.steps > 200000 {
				e.fail = "step limit"
				return evalVal{}, false
			}
			switch x := ins.(type) {
			case *ssa.Phi:
				for i, p := range b.Preds {
					if p == prev {
						v, ok := e.val(env, x.Edges[i])
						if !ok {
							return evalVal{}, false
						}
						env[x] = v
					}
				}
			case *ssa.DebugRef:
			case *ssa.Alloc:
				// local cell (spilled value receiver / struct param)
				cells[x] = evalVal{ok: true}
			case *ssa.Store:
				v, ok := e.val(env, x.Val)
				if !ok {
					return evalVal{}, false
				}
				if al, isAl := x.Addr.(*ssa.Alloc); isAl {
					cells[al] = v
				} else {
					e.fail = "store to non-local"
					return evalVal{}, false
				}
			case *ssa.FieldAddr:
				// resolved at load
			case *ssa.If:
				c, ok := e.val(env, x.Cond)
				if !ok {
					return evalVal{}, false
				}
				prev = b
				if c.u != 0 {
					b = b.Succs[0]
				} else {
					b = b.Succs[1]
				}
				goto next
			case *ssa.Jump:
				prev = b
				b = b.Succs[0]
				goto next
			case *ssa.Return:
				if len(x.Results) != 1 {
					e.fail = "multi-result"
					return evalVal{}, false
				}
				return e.val(env, x.Results[0])
			case ssa.Value:
				v, ok := e.instr(env, cells, x)
				if !ok {
					return evalVal{}, false
				}
				env[x] = v
			default:
				e.fail = "unsupported instruction"
				return evalVal{}, false
			}
		}
		e.fail = "fell off block"
		return evalVal{}, false
	next:
	}
}

func (e *evaluator) val(env map[ssa.Value]evalVal, v ssa.Value) (evalVal, bool) {
	if c, ok := v.(*ssa.Const); ok {
		if c.Value == nil {
			e.fail = "nil const"
			return evalVal{}, false
		}
		switch c.Value.Kind() {
		case constant.Bool:
			if constant.BoolVal(c.Value) {
				return evalVal{u: 1, isBool: true, ok: true}, true
			}
			return evalVal{u: 0, isBool: true, ok: true}, true
		case constant.Int:
			if i, ok := constant.Int64Val(c.Value); ok {
				return evalVal{u: uint64(i), ok: true}, true
			}
			if u, ok := constant.Uint64Val(c.Value); ok {
				return evalVal{u: u, ok: true}, true
			}
		}
		e.fail = "const kind"
		return evalVal{}, false
	}
	r, ok := env[v]
	if !ok {
		e.fail = "unbound value " + v.Name()
	}
	return r, ok
}

func (e *evaluator) instr(env map[ssa.Value]evalVal, cells map[ssa.Value]evalVal, v ssa.Value) (evalVal, bool) {
	switch x := v.(type) {
	case *ssa.BinOp:
		a, ok1 := e.val(env, x.X)
		b, ok2 := e.val(env, x.Y)
		if !ok1 || !ok2 {
			return evalVal{}, false
		}
		_, signed, _ := widthOf(x.X.Type())
		var res uint64
		isBool := false
		bv := func(c bool) uint64 {
			isBool = true
			if c {
				return 1
			}
			return 0
		}
		switch x.Op {
		case token.ADD:
			res = a.u + b.u
		case token.SUB:
			res = a.u - b.u
		case token.MUL:
			res = a.u * b.u
		case token.QUO:
			if b.u == 0 {
				e.fail = "div0"
				return evalVal{}, false
			}
			if signed {
				res = uint64(int64(a.u) / int64(b.u))
			} else {
				res = a.u / b.u
			}
		case token.REM:
			if b.u == 0 {
				e.fail = "div0"
				return evalVal{}, false
			}
			if signed {
				res = uint64(int64(a.u) % int64(b.u))
			} else {
				res = a.u % b.u
			}
		case token.AND:
			res = a.u & b.u
		case token.OR:
			res = a.u | b.u
		case token.XOR:
			res = a.u ^ b.u
		case token.AND_NOT:
			res = a.u &^ b.u
		case token.SHL:
			if b.u >= 64 {
				res = 0
			} else {
				res = a.u << b.u
			}
		case token.SHR:
			if signed {
				if b.u >= 64 {
					b.u = 63
				}
				res = uint64(int64(a.u) >> b.u)
			} else if b.u >= 64 {
				res = 0
			} else {
				res = a.u >> b.u
			}
		case token.EQL:
			res = bv(a.u == b.u)
		case token.NEQ:
			res = bv(a.u != b.u)
		case token.LSS:
			if signed {
				res = bv(int64(a.u) < int64(b.u))
			} else {
				res = bv(a.u < b.u)
			}
		case token.LEQ:
			if signed {
				res = bv(int64(a.u) <= int64(b.u))
			} else {
				res = bv(a.u <= b.u)
			}
		case token.GTR:
			if signed {
				res = bv(int64(a.u) > int64(b.u))
			} else {
				res = bv(a.u > b.u)
			}
		case token.GEQ:
			if signed {
				res = bv(int64(a.u) >= int64(b.u))
			} else {
				res = bv(a.u >= b.u)
			}
		default:
			e.fail = "binop " + x.Op.String()
			return evalVal{}, false
		}
		if !isBool {
			res = trunc(res, x.Type())
		}
		return evalVal{u: res, isBool: isBool, ok: true}, true
	case *ssa.UnOp:
		switch x.Op {
		case token.NOT:
			a, ok := e.val(env, x.X)
			if !ok {
				return evalVal{}, false
			}
			return evalVal{u: a.u ^ 1, isBool: true, ok: true}, true
		case token.SUB:
			a, ok := e.val(env, x.X)
			if !ok {
				return evalVal{}, false
			}
			return evalVal{u: trunc(-a.u, x.Type()), ok: true}, true
		case token.XOR:
			a, ok := e.val(env, x.X)
			if !ok {
				return evalVal{}, false
			}
			return evalVal{u: trunc(^a.u, x.Type()), ok: true}, true
		case token.MUL:
			// load from a local cell or a field of one
			switch a := x.X.(type) {
			case *ssa.Alloc:
				cv, ok := cells[a]
				if !ok {
					e.fail = "load of unknown cell"
				}
				return cv, ok
			case *ssa.FieldAddr:
				if al, ok := a.X.(*ssa.Alloc); ok {
					cv := cells[al]
					if a.Field < len(cv.fields) {
						return cv.fields[a.Field], true
					}
				}
			}
			e.fail = "heap load"
			return evalVal{}, false
		}
	case *ssa.Convert:
		a, ok := e.val(env, x.X)
		if !ok {
			return evalVal{}, false
		}
		// normalise source by its own type first (sign/zero extension is already in u)
		return evalVal{u: trunc(a.u, x.Type()), ok: true}, true
	case *ssa.ChangeType:
		return e.val(env, x.X)
	case *ssa.Field:
		a, ok := e.val(env, x.X)
		if !ok || x.Field >= len(a.fields) {
			e.fail = "field of non-struct"
			return evalVal{}, false
		}
		return a.fields[x.Field], true
	case *ssa.Call:
		callee := staticCallee(x)
		if callee == nil || callee.Blocks == nil {
			e.fail = "call to " + calleeName(x)
			return evalVal{}, false
		}
		var args []evalVal
		for _, a := range x.Call.Args {
			v, ok := e.val(env, a)
			if !ok {
				return evalVal{}, false
			}
			args = append(args, v)
		}
		return e.call(callee, args)
	}
	e.fail = "unsupported value"
	return evalVal{}, false
}

// evalUint8Predicate evaluates fn(uint8) bool on all 256 inputs.
func evalUint8Predicate(fn *ssa.Function) ([256]bool, bool) {
	var tt [256]bool
	if len(fn.Params) != 1 {
		return tt, false
	}
	for v := 0; v < 256; v++ {
		e := &evaluator{}
		r, ok := e.call(fn, []evalVal{{u: uint64(v), ok: true}})
		if !ok {
			return tt, false
		}
		tt[v] = r.u != 0
	}
	return tt, true
}

// trace walks fn's CFG from entry with the given arguments, evaluating what is pure and
// treating everything else as unknown. It stops at a Return, or at an If whose condition is
// unknown, and returns the blocks visited and the instruction it stopped at. This extracts
// the control skeleton of a function whose branch conditions are pure predicates of its
// inputs (decision-table extraction); no heap effects are simulated.
func (e *evaluator) trace(fn *ssa.Function, args []evalVal) (visited []*ssa.BasicBlock, end ssa.Instruction) {
	env := map[ssa.Value]evalVal{}
	for i, p := range fn.Params {
		if i < len(args) {
			env[p] = args[i]
		}
	}
	cells := map[ssa.Value]evalVal{}
	var prev *ssa.BasicBlock
	b := fn.Blocks[0]
	for steps := 0; steps < 10000; steps++ {
		visited = append(visited, b)
		var next *ssa.BasicBlock
		for _, ins := range b.Instrs {
			switch x := ins.(type) {
			case *ssa.Phi:
				for i, p := range b.Preds {
					if p == prev {
						sub := &evaluator{}
						if v, ok := sub.val(env, x.Edges[i]); ok && v.ok {
							env[x] = v
						}
					}
				}
			case *ssa.Alloc:
				cells[x] = evalVal{ok: true}
			case *ssa.Store:
				if al, isAl := x.Addr.(*ssa.Alloc); isAl {
					sub := &evaluator{}
					if v, ok := sub.val(env, x.Val); ok {
						cells[al] = v
					} else {
						delete(cells, al)
					}
				}
			case *ssa.If:
				sub := &evaluator{}
				c, ok := sub.val(env, x.Cond)
				if !ok || !c.ok {
					return visited, ins
				}
				if c.u != 0 {
					next = b.Succs[0]
				} else {
					next = b.Succs[1]
				}
			case *ssa.Jump:
				next = b.Succs[0]
			case *ssa.Return, *ssa.Panic:
				return visited, ins
			case ssa.Value:
				sub := &evaluator{}
				if v, ok := sub.instr(env, cells, x); ok && v.ok {
					env[x] = v
				}
			}
			if next != nil {
				break
			}
		}
		if next == nil {
			return visited, nil
		}
		prev, b = b, next
	}
	return visited, nil
}

// ---------- exec: functions that build a list ----------

// evalRef is an address inside the interpreted function's own storage: a local cell, a field of one,
// an element of a local array or of a slice the function made.
type evalRef struct {
	get func() (evalVal, bool)
	set func(evalVal)
}

// evalZero is the zero value of t as exec models it.
func evalZero(t types.Type) evalVal {
	switch u := t.Underlying().(type) {
	case *types.Basic:
		return evalVal{ok: true, isBool: u.Info()&types.IsBoolean != 0}
	case *types.Struct:
		fs := make([]evalVal, u.NumFields())
		for i := range fs {
			fs[i] = evalZero(u.Field(i).Type())
		}
		return evalVal{ok: true, fields: fs}
	case *types.Array:
		fs := make([]evalVal, int(u.Len()))
		for i := range fs {
			fs[i] = evalZero(u.Elem())
		}
		return evalVal{ok: true, fields: fs}
	}
	return evalVal{ok: true, isNil: true}
}

func evalCopy(v evalVal) evalVal {
	if v.fields != nil {
		fs := make([]evalVal, len(v.fields))
		for i := range fs {
			fs[i] = evalCopy(v.fields[i])
		}
		v.fields = fs
	}
	return v
}

// exec runs fn on concrete arguments and returns its results. Beyond the pure integer/boolean code of
// call it models what a function needs to *build a list*: local cells and composite literals, slices it
// makes (make, append, s[i] = v, re-slicing), len, calls of repo functions with the same means, and
// multiple results. What it does not model (a call outside the repo, a load through a pointer it was
// handed) leaves the value unknown; a constructed error is an opaque non-nil value. exec gives up
// (ok=false, e.fail says why) when control depends on an unknown value, on a panic (an index out of
// range is reported as such) and at the step limit (a loop that does not terminate).
func (e *evaluator) exec(fn *ssa.Function, args []evalVal) ([]evalVal, bool) {
	if fn == nil || fn.Blocks == nil || len(args) != len(fn.Params) {
		e.fail = "unsupported callee"
		return nil, false
	}
	env := map[ssa.Value]evalVal{}
	refs := map[ssa.Value]*evalRef{}
	for i, p := range fn.Params {
		if args[i].ok {
			env[p] = args[i]
		}
	}
	val := func(v ssa.Value) (evalVal, bool) {
		if c, ok := v.(*ssa.Const); ok {
			if c.Value == nil {
				if _, isBasic := c.Type().Underlying().(*types.Basic); isBasic {
					return evalZero(c.Type()), true
				}
				if _, isStruct := c.Type().Underlying().(*types.Struct); isStruct {
					return evalZero(c.Type()), true
				}
				return evalVal{ok: true, isNil: true}, true
			}
			sub := &evaluator{}
			return sub.val(nil, v)
		}
		r, ok := env[v]
		return r, ok && r.ok
	}
	intOf := func(v ssa.Value, dflt int) (int, bool) {
		if v == nil {
			return dflt, true
		}
		x, ok := val(v)
		if !ok || x.fields != nil || x.obj != nil {
			return 0, false
		}
		return int(int64(x.u)), true
	}
	// the elements an address or a slice value designates
	elemsOf := func(v ssa.Value) (get func() []evalVal, ok bool) {
		if _, isPtr := v.Type().Underlying().(*types.Pointer); isPtr {
			r := refs[v]
			if r == nil {
				return nil, false
			}
			return func() []evalVal { a, _ := r.get(); return a.fields }, true
		}
		x, known := val(v)
		if !known {
			return nil, false
		}
		if x.obj == nil {
			return func() []evalVal { return nil }, x.isNil
		}
		return func() []evalVal { return x.obj.elems }, true
	}
	var prev *ssa.BasicBlock
	b := fn.Blocks[0]
	for {
		var next *ssa.BasicBlock
		for _, ins := range b.Instrs {
			e.steps++
			if e.steps > 400000 {
				e.fail = "step limit (the function does not terminate)"
				return nil, false
			}
			switch x := ins.(type) {
			case *ssa.Phi:
				for i, p := range b.Preds {
					if p == prev {
						if v, ok := val(x.Edges[i]); ok {
							env[x] = v
						} else {
							delete(env, x)
						}
					}
				}
			case *ssa.DebugRef:
			case *ssa.Alloc:
				cell := evalZero(x.Type().Underlying().(*types.Pointer).Elem())
				known := true
				refs[x] = &evalRef{
					get: func() (evalVal, bool) { return evalCopy(cell), known },
					set: func(v evalVal) { cell, known = evalCopy(v), v.ok },
				}
			case *ssa.FieldAddr:
				base, field := refs[x.X], x.Field
				delete(refs, x)
				if base != nil {
					refs[x] = &evalRef{
						get: func() (evalVal, bool) {
							s, ok := base.get()
							if !ok || field >= len(s.fields) {
								return evalVal{}, false
							}
							return s.fields[field], s.fields[field].ok
						},
						set: func(v evalVal) {
							if s, ok := base.get(); ok && field < len(s.fields) {
								s.fields[field] = v
								base.set(s)
							}
						},
					}
				}
			case *ssa.IndexAddr:
				delete(refs, x)
				idx, okI := intOf(x.Index, 0)
				if _, isPtr := x.X.Type().Underlying().(*types.Pointer); isPtr {
					base := refs[x.X]
					if base == nil || !okI {
						break
					}
					if a, ok := base.get(); ok && (idx < 0 || idx >= len(a.fields)) {
						e.fail = "index out of range"
						return nil, false
					}
					refs[x] = &evalRef{
						get: func() (evalVal, bool) {
							a, ok := base.get()
							if !ok {
								return evalVal{}, false
							}
							return a.fields[idx], a.fields[idx].ok
						},
						set: func(v evalVal) {
							if a, ok := base.get(); ok {
								a.fields[idx] = v
								base.set(a)
							}
						},
					}
					break
				}
				sl, okS := val(x.X)
				if !okS || !okI {
					break
				}
				if sl.obj == nil || idx < 0 || idx >= len(sl.obj.elems) {
					e.fail = "index out of range"
					return nil, false
				}
				obj := sl.obj
				refs[x] = &evalRef{
					get: func() (evalVal, bool) { return evalCopy(obj.elems[idx]), obj.elems[idx].ok },
					set: func(v evalVal) { obj.elems[idx] = evalCopy(v) },
				}
			case *ssa.Store:
				r := refs[x.Addr]
				if r == nil {
					break // not into storage that is modelled
				}
				v, _ := val(x.Val)
				r.set(v)
			case *ssa.If:
				c, ok := val(x.Cond)
				if !ok {
					e.fail = "control depends on a value that is not modelled"
					return nil, false
				}
				if c.u != 0 {
					next = b.Succs[0]
				} else {
					next = b.Succs[1]
				}
			case *ssa.Jump:
				next = b.Succs[0]
			case *ssa.Return:
				out := make([]evalVal, len(x.Results))
				for i, rv := range x.Results {
					out[i], _ = val(rv)
				}
				return out, true
			case *ssa.Panic:
				e.fail = "panics"
				return nil, false
			case *ssa.RunDefers, *ssa.Defer, *ssa.Go, *ssa.Send, *ssa.MapUpdate:
				e.fail = "unsupported instruction"
				return nil, false
			case ssa.Value:
				delete(env, x)
				if v, ok := e.execValue(x, val, intOf, elemsOf, refs); ok {
					env[x] = v
				} else if e.fail != "" {
					return nil, false
				}
			}
			if next != nil {
				break
			}
		}
		if next == nil {
			e.fail = "fell off block"
			return nil, false
		}
		prev, b = b, next
	}
}

// execFault: exec stopped because the interpreted execution goes wrong (as opposed to: cannot be followed).
func execFault(why string) bool {
	switch why {
	case "panics", "index out of range", "slice bounds out of range", "makeslice: len out of range", "division by zero":
		return true
	}
	return strings.HasPrefix(why, "step limit")
}

// execValue computes one value-producing instruction of exec; ok=false with e.fail empty means unknown.
func (e *evaluator) execValue(v ssa.Value, val func(ssa.Value) (evalVal, bool), intOf func(ssa.Value, int) (int, bool),
	elemsOf func(ssa.Value) (func() []evalVal, bool), refs map[ssa.Value]*evalRef) (evalVal, bool) {
	switch x := v.(type) {
	case *ssa.UnOp:
		if x.Op == token.MUL {
			if r := refs[x.X]; r != nil {
				return r.get()
			}
			return evalVal{}, false
		}
	case *ssa.MakeInterface:
		return val(x.X)
	case *ssa.ChangeInterface:
		return val(x.X)
	case *ssa.MakeSlice:
		n, ok := intOf(x.Len, 0)
		if !ok {
			return evalVal{}, false
		}
		if n < 0 || n > 1<<20 {
			e.fail = "makeslice: len out of range"
			return evalVal{}, false
		}
		obj := &evalObj{elems: make([]evalVal, n)}
		for i := range obj.elems {
			obj.elems[i] = evalZero(x.Type().Underlying().(*types.Slice).Elem())
		}
		return evalVal{ok: true, obj: obj}, true
	case *ssa.Slice:
		get, ok := elemsOf(x.X)
		if !ok {
			return evalVal{}, false
		}
		all := get()
		lo, ok1 := intOf(x.Low, 0)
		hi, ok2 := intOf(x.High, len(all))
		if !ok1 || !ok2 {
			return evalVal{}, false
		}
		if lo < 0 || hi < lo || hi > len(all) {
			e.fail = "slice bounds out of range" // (capacity beyond the length is not modelled)
			return evalVal{}, false
		}
		if src, known := val(x.X); known && src.obj != nil && lo == 0 && hi == len(all) {
			return src, true
		}
		obj := &evalObj{}
		for _, el := range all[lo:hi] {
			obj.elems = append(obj.elems, evalCopy(el))
		}
		return evalVal{ok: true, obj: obj}, true
	case *ssa.Extract:
		t, ok := val(x.Tuple)
		if !ok || x.Index >= len(t.fields) {
			return evalVal{}, false
		}
		return t.fields[x.Index], t.fields[x.Index].ok
	case *ssa.BinOp:
		if x.Op == token.EQL || x.Op == token.NEQ {
			a, ok1 := val(x.X)
			c, ok2 := val(x.Y)
			if ok1 && ok2 && (a.isNil || c.isNil) {
				// comparison with nil: a made slice, an opaque value are not nil
				nilA, nilC := a.isNil && a.obj == nil, c.isNil && c.obj == nil
				r := uint64(0)
				if (nilA == nilC) == (x.Op == token.EQL) {
					r = 1
				}
				return evalVal{u: r, isBool: true, ok: true}, true
			}
			if ok1 && ok2 && (a.opaque || c.opaque || a.obj != nil || c.obj != nil) {
				return evalVal{}, false
			}
		}
	case *ssa.Call:
		name := calleeName(x)
		switch name {
		case "builtin.len":
			get, ok := elemsOf(x.Call.Args[0])
			if !ok {
				return evalVal{}, false
			}
			return evalVal{u: uint64(len(get())), ok: true}, true
		case "builtin.append":
			g0, ok0 := elemsOf(x.Call.Args[0])
			g1, ok1 := elemsOf(x.Call.Args[1])
			if !ok0 || !ok1 {
				return evalVal{}, false
			}
			obj := &evalObj{}
			for _, el := range g0() {
				obj.elems = append(obj.elems, evalCopy(el))
			}
			for _, el := range g1() {
				obj.elems = append(obj.elems, evalCopy(el))
			}
			return evalVal{ok: true, obj: obj}, true
		}
		isErr := isErrorType(x.Type())
		callee := staticCallee(x)
		if callee != nil && callee.Blocks != nil && !x.Call.IsInvoke() && len(callee.FreeVars) == 0 {
			args := make([]evalVal, len(x.Call.Args))
			for i, a := range x.Call.Args {
				args[i], _ = val(a)
			}
			sub := &evaluator{steps: e.steps}
			res, ok := sub.exec(callee, args)
			e.steps = sub.steps
			if ok {
				if len(res) == 1 {
					return res[0], res[0].ok
				}
				return evalVal{ok: true, fields: res}, true
			}
			if execFault(sub.fail) {
				e.fail = sub.fail
				return evalVal{}, false
			}
		}
		if isErr {
			// a constructed error whose construction is not modelled: some non-nil error
			return evalVal{ok: true, opaque: true}, true
		}
		return evalVal{}, false
	}
	// pure integer / boolean code
	if _, isCall := v.(*ssa.Call); isCall {
		return evalVal{}, false
	}
	sub := &evaluator{}
	env := map[ssa.Value]evalVal{}
	var ops []*ssa.Value
	if in, ok := v.(ssa.Instruction); ok {
		for _, op := range in.Operands(ops) {
			if *op == nil {
				continue
			}
			if _, isK := (*op).(*ssa.Const); isK {
				continue
			}
			o, known := val(*op)
			if !known || o.obj != nil || o.opaque || o.isNil {
				return evalVal{}, false
			}
			env[*op] = o
		}
	}
	r, ok := sub.instr(env, nil, v)
	if !ok && sub.fail == "div0" {
		e.fail = "division by zero"
	}
	return r, ok && r.ok
}
