package main

import (
	"go/constant"
	"go/token"
	"go/types"

	"golang.org/x/tools/go/ssa"
)

// A tiny abstract evaluator for *pure* integer/boolean functions (no loads from the heap, no
// calls other than to other pure repo functions): used to extract the truth table of small
// predicates over a finite domain (decision-table extraction, DESIGN §2.3.4). It is applied
// only to functions whose whole input domain (a uint8, or the finite set of order classes
// of a pair of uint16) is enumerated, so the table is exact, not a sample.

type evalVal struct {
	u      uint64
	isBool bool
	fields []evalVal // struct value
	ok     bool
}

type evaluator struct {
	steps int
	fail  string
}

func widthOf(t types.Type) (bits int, signed bool, ok bool) {
	b, isB := t.Underlying().(*types.Basic)
	if !isB {
		return 0, false, false
	}
	switch b.Kind() {
	case types.Bool, types.UntypedBool:
		return 1, false, true
	case types.Uint8:
		return 8, false, true
	case types.Uint16:
		return 16, false, true
	case types.Uint32:
		return 32, false, true
	case types.Uint64, types.Uint, types.Uintptr:
		return 64, false, true
	case types.Int8:
		return 8, true, true
	case types.Int16:
		return 16, true, true
	case types.Int32:
		return 32, true, true
	case types.Int64, types.Int, types.UntypedInt:
		return 64, true, true
	}
	return 0, false, false
}

func trunc(u uint64, t types.Type) uint64 {
	bits, signed, ok := widthOf(t)
	if !ok || bits >= 64 {
		return u
	}
	if bits == 1 {
		return u & 1
	}
	mask := (uint64(1) << uint(bits)) - 1
	u &= mask
	if signed && u&(uint64(1)<<uint(bits-1)) != 0 {
		u |= ^mask // sign-extend
	}
	return u
}

func (e *evaluator) call(fn *ssa.Function, args []evalVal) (evalVal, bool) {
	if fn == nil || fn.Blocks == nil || len(args) != len(fn.Params) {
		e.fail = "unsupported callee"
		return evalVal{}, false
	}
	env := map[ssa.Value]evalVal{}
	for i, p := range fn.Params {
		env[p] = args[i]
	}
	cells := map[ssa.Value]evalVal{}
	var prev *ssa.BasicBlock
	b := fn.Blocks[0]
	for {
		for _, ins := range b.Instrs {
			e.steps++
			if e.steps > 200000 {
				e.fail = "step limit"
				return evalVal{}, false
			}
			switch x := ins.(type) {
			case *ssa.Phi:
				for i, p := range b.Preds {
					if p == prev {
						v, ok := e.val(env, x.Edges[i])
						if !ok {
							return evalVal{}, false
						}
						env[x] = v
					}
				}
			case *ssa.DebugRef:
			case *ssa.Alloc:
				// local cell (spilled value receiver / struct param)
				cells[x] = evalVal{ok: true}
			case *ssa.Store:
				v, ok := e.val(env, x.Val)
				if !ok {
					return evalVal{}, false
				}
				if al, isAl := x.Addr.(*ssa.Alloc); isAl {
					cells[al] = v
				} else {
					e.fail = "store to non-local"
					return evalVal{}, false
				}
			case *ssa.FieldAddr:
				// resolved at load
			case *ssa.If:
				c, ok := e.val(env, x.Cond)
				if !ok {
					return evalVal{}, false
				}
				prev = b
				if c.u != 0 {
					b = b.Succs[0]
				} else {
					b = b.Succs[1]
				}
				goto next
			case *ssa.Jump:
				prev = b
				b = b.Succs[0]
				goto next
			case *ssa.Return:
				if len(x.Results) != 1 {
					e.fail = "multi-result"
					return evalVal{}, false
				}
				return e.val(env, x.Results[0])
			case ssa.Value:
				v, ok := e.instr(env, cells, x)
				if !ok {
					return evalVal{}, false
				}
				env[x] = v
			default:
				e.fail = "unsupported instruction"
				return evalVal{}, false
			}
		}
		e.fail = "fell off block"
		return evalVal{}, false
	next:
	}
}

func (e *evaluator) val(env map[ssa.Value]evalVal, v ssa.Value) (evalVal, bool) {
	if c, ok := v.(*ssa.Const); ok {
		if c.Value == nil {
			e.fail = "nil const"
			return evalVal{}, false
		}
		switch c.Value.Kind() {
		case constant.Bool:
			if constant.BoolVal(c.Value) {
				return evalVal{u: 1, isBool: true, ok: true}, true
			}
			return evalVal{u: 0, isBool: true, ok: true}, true
		case constant.Int:
			if i, ok := constant.Int64Val(c.Value); ok {
				return evalVal{u: uint64(i), ok: true}, true
			}
			if u, ok := constant.Uint64Val(c.Value); ok {
				return evalVal{u: u, ok: true}, true
			}
		}
		e.fail = "const kind"
		return evalVal{}, false
	}
	r, ok := env[v]
	if !ok {
		e.fail = "unbound value " + v.Name()
	}
	return r, ok
}

func (e *evaluator) instr(env map[ssa.Value]evalVal, cells map[ssa.Value]evalVal, v ssa.Value) (evalVal, bool) {
	switch x := v.(type) {
	case *ssa.BinOp:
		a, ok1 := e.val(env, x.X)
		b, ok2 := e.val(env, x.Y)
		if !ok1 || !ok2 {
			return evalVal{}, false
		}
		_, signed, _ := widthOf(x.X.Type())
		var res uint64
		isBool := false
		bv := func(c bool) uint64 {
			isBool = true
			if c {
				return 1
			}
			return 0
		}
		switch x.Op {
		case token.ADD:
			res = a.u + b.u
		case token.SUB:
			res = a.u - b.u
		case token.MUL:
			res = a.u * b.u
		case token.QUO:
			if b.u == 0 {
				e.fail = "div0"
				return evalVal{}, false
			}
			if signed {
				res = uint64(int64(a.u) / int64(b.u))
			} else {
				res = a.u / b.u
			}
		case token.REM:
			if b.u == 0 {
				e.fail = "div0"
				return evalVal{}, false
			}
			if signed {
				res = uint64(int64(a.u) % int64(b.u))
			} else {
				res = a.u % b.u
			}
		case token.AND:
			res = a.u & b.u
		case token.OR:
			res = a.u | b.u
		case token.XOR:
			res = a.u ^ b.u
		case token.AND_NOT:
			res = a.u &^ b.u
		case token.SHL:
			if b.u >= 64 {
				res = 0
			} else {
				res = a.u << b.u
			}
		case token.SHR:
			if signed {
				if b.u >= 64 {
					b.u = 63
				}
				res = uint64(int64(a.u) >> b.u)
			} else if b.u >= 64 {
				res = 0
			} else {
				res = a.u >> b.u
			}
		case token.EQL:
			res = bv(a.u == b.u)
		case token.NEQ:
			res = bv(a.u != b.u)
		case token.LSS:
			if signed {
				res = bv(int64(a.u) < int64(b.u))
			} else {
				res = bv(a.u < b.u)
			}
		case token.LEQ:
			if signed {
				res = bv(int64(a.u) <= int64(b.u))
			} else {
				res = bv(a.u <= b.u)
			}
		case token.GTR:
			if signed {
				res = bv(int64(a.u) > int64(b.u))
			} else {
				res = bv(a.u > b.u)
			}
		case token.GEQ:
			if signed {
				res = bv(int64(a.u) >= int64(b.u))
			} else {
				res = bv(a.u >= b.u)
			}
		default:
			e.fail = "binop " + x.Op.String()
			return evalVal{}, false
		}
		if !isBool {
			res = trunc(res, x.Type())
		}
		return evalVal{u: res, isBool: isBool, ok: true}, true
	case *ssa.UnOp:
		switch x.Op {
		case token.NOT:
			a, ok := e.val(env, x.X)
			if !ok {
				return evalVal{}, false
			}
			return evalVal{u: a.u ^ 1, isBool: true, ok: true}, true
		case token.SUB:
			a, ok := e.val(env, x.X)
			if !ok {
				return evalVal{}, false
			}
			return evalVal{u: trunc(-a.u, x.Type()), ok: true}, true
		case token.XOR:
			a, ok := e.val(env, x.X)
			if !ok {
				return evalVal{}, false
			}
			return evalVal{u: trunc(^a.u, x.Type()), ok: true}, true
		case token.MUL:
			// load from a local cell or a field of one
			switch a := x.X.(type) {
			case *ssa.Alloc:
				cv, ok := cells[a]
				if !ok {
					e.fail = "load of unknown cell"
				}
				return cv, ok
			case *ssa.FieldAddr:
				if al, ok := a.X.(*ssa.Alloc); ok {
					cv := cells[al]
					if a.Field < len(cv.fields) {
						return cv.fields[a.Field], true
					}
				}
			}
			e.fail = "heap load"
			return evalVal{}, false
		}
	case *ssa.Convert:
		a, ok := e.val(env, x.X)
		if !ok {
			return evalVal{}, false
		}
		// normalise source by its own type first (sign/zero extension is already in u)
		return evalVal{u: trunc(a.u, x.Type()), ok: true}, true
	case *ssa.ChangeType:
		return e.val(env, x.X)
	case *ssa.Field:
		a, ok := e.val(env, x.X)
		if !ok || x.Field >= len(a.fields) {
			e.fail = "field of non-struct"
			return evalVal{}, false
		}
		return a.fields[x.Field], true
	case *ssa.Call:
		callee := staticCallee(x)
		if callee == nil || callee.Blocks == nil {
			e.fail = "call to " + calleeName(x)
			return evalVal{}, false
		}
		var args []evalVal
		for _, a := range x.Call.Args {
			v, ok := e.val(env, a)
			if !ok {
				return evalVal{}, false
			}
			args = append(args, v)
		}
		return e.call(callee, args)
	}
	e.fail = "unsupported value"
	return evalVal{}, false
}

// evalUint8Predicate evaluates fn(uint8) bool on all 256 inputs.
func evalUint8Predicate(fn *ssa.Function) ([256]bool, bool) {
	var tt [256]bool
	if len(fn.Params) != 1 {
		return tt, false
	}
	for v := 0; v < 256; v++ {
		e := &evaluator{}
		r, ok := e.call(fn, []evalVal{{u: uint64(v), ok: true}})
		if !ok {
			return tt, false
		}
		tt[v] = r.u != 0
	}
	return tt, true
}

// trace walks fn's CFG from entry with the given arguments, evaluating what is pure and
// treating everything else as unknown. It stops at a Return, or at an If whose condition is
// unknown, and returns the blocks visited and the instruction it stopped at. This extracts
// the control skeleton of a function whose branch conditions are pure predicates of its
// inputs (decision-table extraction); no heap effects are simulated.
func (e *evaluator) trace(fn *ssa.Function, args []evalVal) (visited []*ssa.BasicBlock, end ssa.Instruction) {
	env := map[ssa.Value]evalVal{}
	for i, p := range fn.Params {
		if i < len(args) {
			env[p] = args[i]
		}
	}
	cells := map[ssa.Value]evalVal{}
	var prev *ssa.BasicBlock
	b := fn.Blocks[0]
	for steps := 0; steps < 10000; steps++ {
		visited = append(visited, b)
		var next *ssa.BasicBlock
		for _, ins := range b.Instrs {
			switch x := ins.(type) {
			case *ssa.Phi:
				for i, p := range b.Preds {
					if p == prev {
						sub := &evaluator{}
						if v, ok := sub.val(env, x.Edges[i]); ok && v.ok {
							env[x] = v
						}
					}
				}
			case *ssa.Alloc:
				cells[x] = evalVal{ok: true}
			case *ssa.Store:
				if al, isAl := x.Addr.(*ssa.Alloc); isAl {
					sub := &evaluator{}
					if v, ok := sub.val(env, x.Val); ok {
						cells[al] = v
					} else {
						delete(cells, al)
					}
				}
			case *ssa.If:
				sub := &evaluator{}
				c, ok := sub.val(env, x.Cond)
				if !ok || !c.ok {
					return visited, ins
				}
				if c.u != 0 {
					next = b.Succs[0]
				} else {
					next = b.Succs[1]
				}
			case *ssa.Jump:
				next = b.Succs[0]
			case *ssa.Return, *ssa.Panic:
				return visited, ins
			case ssa.Value:
				sub := &evaluator{}
				if v, ok := sub.instr(env, cells, x); ok && v.ok {
					env[x] = v
				}
			}
			if next != nil {
				break
			}
		}
		if next == nil {
			return visited, nil
		}
		prev, b = b, next
	}
	return visited, nil
}
