package main

import (
	"fmt"
	"go/constant"
	"go/token"
	"go/types"
	"os"
	"path/filepath"
	"sort"
	"strings"

	"golang.org/x/tools/go/packages"
	"golang.org/x/tools/go/ssa"
	"golang.org/x/tools/go/ssa/ssautil"
)

const modPath = "github.com/omec-project/upf-epc"

// World is the type-checked, SSA-lowered view of /repo's current working tree.
type World struct {
	Repo         string
	Fset         *token.FileSet
	Pkgs         []*packages.Package
	Prog         *ssa.Program
	SSAPkgs      map[string]*ssa.Package // by import path
	Funcs        []*ssa.Function         // every source function of the repo packages, anonymous ones included
	byName       map[string]*ssa.Function
	Renamed      []string                 // functions recognised under a new name (normalize.go)
	fnAlias      map[string]*ssa.Function // pinned name → function that took its place (method ↔ function)
	fnPinned     map[*ssa.Function]string
	idxOfMemo    map[*ssa.Function]bool
	acqMemo      map[*ssa.Function]map[*types.Var]string
	cg           *CallGraph
	modsets      map[*ssa.Function]*modSet
	locks        *lockAnalysis
	Inlined      []string                          // calls of new helpers expanded by normalize()
	InlinedFuncs map[*ssa.Function][]*ssa.Function // caller → new helpers expanded into it (the helpers themselves stay analysable as units)
	SplitReturns int                               // functions whose merged return was written out again
	Adopted      []string                          // new go/defer/function-value targets made anonymous functions of their only user
}

// brokenf ends the run with exit 2: the checker could not decide. It never prints a
// VIOLATION line, so an honest "cannot analyse" is not read as an alarm.
func brokenf(prop, rule, format string, args ...interface{}) {
	fmt.Printf("UNDECIDED property=%s rule=%s reason=%s\n", prop, rule, fmt.Sprintf(format, args...))
	os.Exit(2)
}

func cleanEnv() []string {
	var env []string
	for _, kv := range os.Environ() {
		k := kv
		if i := strings.IndexByte(kv, '='); i >= 0 {
			k = kv[:i]
		}
		switch k {
		case "GOTOOLCHAIN", "GOSUMDB", "GOWORK", "GOFLAGS", "GOPROXY", "GO111MODULE", "GOOS", "GOARCH", "CGO_ENABLED":
			continue
		}
		env = append(env, kv)
	}
	// The repo needs go >= 1.24; the default go auto-switches to the cached toolchain
	// only while GOSUMDB is untouched and GOTOOLCHAIN is auto.
	env = append(env, "GOFLAGS=-mod=mod", "GOPROXY=off", "GOWORK=off", "CGO_ENABLED=0")
	return env
}

func loadWorld(repo string, prop string) *World {
	abs, err := filepath.Abs(repo)
	if err != nil {
		brokenf(prop, "load", "bad repo path: %v", err)
	}
	fset := token.NewFileSet()
	cfg := &packages.Config{
		Mode: packages.LoadSyntax | packages.NeedModule,
		Dir:  abs,
		Fset: fset,
		Env:  cleanEnv(),
		// go list -export compiles the listed packages; with -trimpath the cache key of a package does not
		// contain its directory, so scratch copies of the repository share cache entries with each other
		BuildFlags: []string{"-trimpath"},
	}
	pkgs, err := packages.Load(cfg, "./...")
	if err != nil {
		brokenf(prop, "load", "packages.Load: %v", err)
	}
	if len(pkgs) == 0 {
		brokenf(prop, "load", "zero packages loaded from %s", abs)
	}
	check := func(pkgs []*packages.Package, fatal bool) bool {
		sort.Slice(pkgs, func(i, j int) bool { return pkgs[i].PkgPath < pkgs[j].PkgPath })
		for _, p := range pkgs {
			for _, e := range p.Errors {
				if !fatal {
					return false
				}
				brokenf(prop, "load", "package %s does not type-check: %v", p.PkgPath, e)
			}
			if p.Types == nil || p.TypesInfo == nil {
				if !fatal {
					return false
				}
				brokenf(prop, "load", "package %s has no type information", p.PkgPath)
			}
		}
		return true
	}
	check(pkgs, true)
	if dumpSyms {
		dumpSymbols(pkgs)
		os.Exit(0)
	}
	// renamed declarations get their frozen names back (alpha.go): second load through an overlay
	var renamed []string
	if !noNormalize {
		if ren, notes := detectRenames(pkgs); len(ren) > 0 {
			if overlay, err := renameOverlay(pkgs, fset, ren); err == nil {
				fset2 := token.NewFileSet()
				cfg2 := &packages.Config{Mode: cfg.Mode, Dir: abs, Fset: fset2, Env: cleanEnv(), Overlay: overlay, BuildFlags: cfg.BuildFlags}
				if pkgs2, err := packages.Load(cfg2, "./..."); err == nil && len(pkgs2) == len(pkgs) && check(pkgs2, false) {
					pkgs, fset, renamed = pkgs2, fset2, notes
				}
			}
		}
	}
	prog, spkgs := ssautil.Packages(pkgs, ssa.InstantiateGenerics)
	w := &World{Repo: abs, Fset: fset, Pkgs: pkgs, Prog: prog, SSAPkgs: map[string]*ssa.Package{}, byName: map[string]*ssa.Function{}}
	for i, sp := range spkgs {
		if sp == nil {
			brokenf(prop, "load", "no SSA package for %s", pkgs[i].PkgPath)
		}
		sp.Build()
		w.SSAPkgs[pkgs[i].PkgPath] = sp
	}
	if w.SSAPkgs[modPath+"/pfcpiface"] == nil {
		brokenf(prop, "load", "package %s/pfcpiface not found", modPath)
	}
	// collect source functions
	seen := map[*ssa.Function]bool{}
	var add func(f *ssa.Function)
	add = func(f *ssa.Function) {
		if f == nil || seen[f] || f.Blocks == nil {
			return
		}
		seen[f] = true
		w.Funcs = append(w.Funcs, f)
		for _, a := range f.AnonFuncs {
			add(a)
		}
	}
	for _, sp := range spkgs {
		for _, m := range sp.Members {
			switch m := m.(type) {
			case *ssa.Function:
				add(m)
			case *ssa.Type:
				for _, t := range []types.Type{m.Type(), types.NewPointer(m.Type())} {
					ms := prog.MethodSets.MethodSet(t)
					for i := 0; i < ms.Len(); i++ {
						fn := prog.MethodValue(ms.At(i))
						if fn != nil && fn.Pkg == sp && fn.Synthetic == "" {
							add(fn)
						}
					}
				}
			}
		}
	}
	sort.Slice(w.Funcs, func(i, j int) bool { return w.FuncName(w.Funcs[i]) < w.FuncName(w.Funcs[j]) })
	for _, f := range w.Funcs {
		w.byName[w.FuncName(f)] = f
	}
	w.Renamed = renamed
	if !noNormalize {
		w.normalize(prop)
	}
	return w
}

// noNormalize: set by -dump-funcs (the frozen list is made from the tree as it is).
var noNormalize bool

// dumpSyms: set by -dump-symbols.
var dumpSyms bool

// FuncName gives a stable, line-free name: "pfcpiface.(*PFCPConn).Serve", "pfcpiface.(*PFCPConn).Serve$1".
func (w *World) FuncName(f *ssa.Function) string {
	if f == nil {
		return "<nil>"
	}
	if n, ok := w.fnPinned[f]; ok {
		return strings.TrimPrefix(n, modPath+"/")
	}
	if f.Parent() != nil {
		// anonymous: parent name + ordinal
		p := f.Parent()
		for i, a := range p.AnonFuncs {
			if a == f {
				return fmt.Sprintf("%s$%d", w.FuncName(p), i+1)
			}
		}
	}
	pkg := ""
	if f.Pkg != nil {
		pkg = strings.TrimPrefix(f.Pkg.Pkg.Path(), modPath+"/")
	} else if f.Object() != nil && f.Object().Pkg() != nil {
		pkg = f.Object().Pkg().Path()
	}
	if recv := f.Signature.Recv(); recv != nil {
		t := recv.Type()
		star := ""
		if p, ok := t.(*types.Pointer); ok {
			t = p.Elem()
			star = "*"
		}
		n := "?"
		if nt, ok := t.(*types.Named); ok {
			n = nt.Obj().Name()
		}
		return fmt.Sprintf("%s.(%s%s).%s", pkg, star, n, f.Name())
	}
	return pkg + "." + f.Name()
}

// Fn resolves an anchor. A missing anchor is "checker broken", not a violation.
func (w *World) Fn(prop, name string) *ssa.Function {
	f := w.FnOpt(name)
	if f == nil {
		brokenf(prop, "anchor", "function %s not found in the tree", name)
	}
	return f
}

// FnOpt finds a function by the name it has on the pinned tree. A method that was turned into a function
// taking the former receiver as its first parameter (or the reverse) is the same unit to every rule — in
// SSA the receiver is the first parameter either way — and keeps its pinned name in the reports.
func (w *World) FnOpt(name string) *ssa.Function {
	if f := w.byName[name]; f != nil {
		return f
	}
	if f := w.fnAlias[name]; f != nil {
		return f
	}
	var found *ssa.Function
	if i := strings.Index(name, ".("); i >= 0 {
		// pkg.(*T).m → pkg.m(recv *T, …)
		j := strings.Index(name[i:], ").")
		if j < 0 {
			return nil
		}
		recv, meth := name[i+2:i+j], name[i+j+2:]
		if g := w.byName[name[:i]+"."+meth]; g != nil && len(g.Params) > 0 && g.Signature.Recv() == nil {
			t := g.Params[0].Type()
			star := ""
			if p, ok := t.(*types.Pointer); ok {
				t, star = p.Elem(), "*"
			}
			if n, ok := t.(*types.Named); ok && star+n.Obj().Name() == recv {
				found = g
			}
		}
	} else if i := strings.LastIndex(name, "."); i >= 0 {
		// pkg.m(x *T, …) → pkg.(*T).m(…): unique method of that name in the package
		n := 0
		for k, g := range w.byName {
			if strings.HasPrefix(k, name[:i]+".(") && strings.HasSuffix(k, ")."+name[i+1:]) && g.Signature.Recv() != nil {
				found = g
				n++
			}
		}
		if n != 1 {
			found = nil
		}
	}
	if found != nil {
		if w.fnAlias == nil {
			w.fnAlias = map[string]*ssa.Function{}
			w.fnPinned = map[*ssa.Function]string{}
		}
		w.fnAlias[name] = found
		w.fnPinned[found] = name
	}
	return found
}

func (w *World) Pos(p token.Pos) string {
	if !p.IsValid() {
		return "-"
	}
	pos := w.Fset.Position(p)
	rel, err := filepath.Rel(w.Repo, pos.Filename)
	if err != nil {
		rel = pos.Filename
	}
	return fmt.Sprintf("%s:%d", rel, pos.Line)
}

func (w *World) PkgTypes(path string) *types.Package {
	for _, p := range w.Pkgs {
		if p.PkgPath == path {
			return p.Types
		}
	}
	// a dependency known from export data
	for _, p := range w.Pkgs {
		if imp, ok := p.Imports[path]; ok && imp.Types != nil {
			return imp.Types
		}
	}
	return nil
}

func (w *World) Package(path string) *packages.Package {
	for _, p := range w.Pkgs {
		if p.PkgPath == path {
			return p
		}
	}
	return nil
}

// NamedType finds a named type in a repo package.
func (w *World) NamedType(prop, pkgPath, name string) *types.Named {
	p := w.PkgTypes(pkgPath)
	if p == nil {
		brokenf(prop, "anchor", "package %s not loaded", pkgPath)
	}
	o := p.Scope().Lookup(name)
	if o == nil {
		brokenf(prop, "anchor", "type %s.%s not found", pkgPath, name)
	}
	n, ok := o.Type().(*types.Named)
	if !ok {
		brokenf(prop, "anchor", "%s.%s is not a named type", pkgPath, name)
	}
	return n
}

// Field resolves a struct field (possibly promoted through one embedded level) to its types.Var.
func (w *World) Field(prop string, n *types.Named, name string) *types.Var {
	st, ok := n.Underlying().(*types.Struct)
	if !ok {
		brokenf(prop, "anchor", "%s is not a struct", n.Obj().Name())
	}
	for i := 0; i < st.NumFields(); i++ {
		if st.Field(i).Name() == name {
			return st.Field(i)
		}
	}
	brokenf(prop, "anchor", "field %s.%s not found", n.Obj().Name(), name)
	return nil
}

// ConstInt evaluates a package-level constant.
func (w *World) ConstInt(prop, pkgPath, name string) int64 {
	p := w.PkgTypes(pkgPath)
	if p == nil {
		brokenf(prop, "anchor", "package %s not loaded", pkgPath)
	}
	o, ok := p.Scope().Lookup(name).(*types.Const)
	if !ok {
		brokenf(prop, "anchor", "constant %s.%s not found", pkgPath, name)
	}
	v, exact := constant.Int64Val(constant.ToInt(o.Val()))
	if !exact {
		u, ok2 := constant.Uint64Val(constant.ToInt(o.Val()))
		if !ok2 {
			brokenf(prop, "anchor", "constant %s.%s is not an integer", pkgPath, name)
		}
		return int64(u)
	}
	return v
}

const pfcpPkg = modPath + "/pfcpiface"

// isRepoFunc reports whether f has a body built from the repo's sources.
func (w *World) isRepoFunc(f *ssa.Function) bool {
	return f != nil && f.Blocks != nil && f.Pkg != nil && strings.HasPrefix(f.Pkg.Pkg.Path(), modPath)
}

// allFuncs: every repo function (methods and closures included).
func (w *World) allFuncs() map[*ssa.Function]bool {
	out := map[*ssa.Function]bool{}
	for _, f := range w.byName {
		out[f] = true
	}
	return out
}

// teardownBody: the function that holds the association teardown. Shutdown itself, or, when
// Shutdown only runs a function once (sync.Once.Do), that function.
func (w *World) teardownBody(prop string) *ssa.Function {
	sh := w.Fn(prop, "pfcpiface.(*PFCPConn).Shutdown")
	var body *ssa.Function
	n := 0
	allInstrs(sh, func(i ssa.Instruction) {
		c, ok := i.(*ssa.Call)
		if !ok {
			return
		}
		n++
		if calleeName(c) == "(*sync.Once).Do" && len(c.Call.Args) == 2 {
			body = closureOf(c.Call.Args[1])
		}
	})
	if body != nil && n == 1 {
		// Do(func() { pConn.shutdownConn() }): a literal that only forwards to a repo function is that function
		for k := 0; k < 3; k++ {
			if body.Parent() == nil || len(body.Blocks) != 1 {
				break
			}
			var only *ssa.Function
			calls := 0
			for _, i := range body.Blocks[0].Instrs {
				if c, ok := i.(ssa.CallInstruction); ok {
					calls++
					only = staticCallee(c)
				}
			}
			if calls != 1 || only == nil || !w.isRepoFunc(only) {
				break
			}
			body = only
		}
		return body
	}
	return sh
}
