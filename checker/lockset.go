package main

import (
	"fmt"
	"go/token"
	"go/types"
	"sort"
	"strings"

	"golang.org/x/tools/go/ssa"
)

// Must-lockset analysis (Eraser's discipline decided statically).
//
//   lock identity : the mutex *field* (types.Var) or package-level mutex variable; instances of
//                   the owning struct are not distinguished (every struct with a mutex in this
//                   repository is either a singleton or its methods lock their own receiver —
//                   rule LK.self checks the latter for the guarded types)
//   intra         : forward must-analysis over the SSA CFG, join = intersection;
//                   Lock/RLock add, Unlock/RUnlock remove, `defer Unlock` is applied at RunDefers
//   inter         : entry lockset of g = ∩ over call/defer edges of the lockset at the site;
//                   go edges and callbacks handed to code without a body enter with ∅ (except the
//                   synchronous callers listed in syncCallbackCallers)
//   balance       : every function returns with the lockset it was entered with (LK.balanced);
//                   this is what licenses treating repo calls as lock-neutral

const (
	modeR = 1
	modeW = 2
)

type lockset map[*types.Var]int

func (l lockset) clone() lockset {
	o := lockset{}
	for k, v := range l {
		o[k] = v
	}
	return o
}

func (l lockset) String() string {
	var parts []string
	for k, m := range l {
		parts = append(parts, k.Name()+ifelse(m == modeR, "(R)", ""))
	}
	sort.Strings(parts)
	return "{" + strings.Join(parts, ",") + "}"
}

func meetLS(a, b lockset) lockset {
	o := lockset{}
	for k, m := range a {
		if m2, ok := b[k]; ok {
			if m2 < m {
				m = m2
			}
			o[k] = m
		}
	}
	return o
}

func sameLS(a, b lockset) bool {
	if len(a) != len(b) {
		return false
	}
	for k, v := range a {
		if b[k] != v {
			return false
		}
	}
	return true
}

type lsState struct {
	top      bool
	held     lockset
	deferred lockset // unlocks registered by defer on every path so far
}

func (s lsState) clone() lsState {
	return lsState{top: s.top, held: s.held.clone(), deferred: s.deferred.clone()}
}

func meetState(a, b lsState) lsState {
	if a.top {
		return b.clone()
	}
	if b.top {
		return a.clone()
	}
	return lsState{held: meetLS(a.held, b.held), deferred: meetLS(a.deferred, b.deferred)}
}

func sameState2(a, b lsState) bool {
	return a.top == b.top && sameLS(a.held, b.held) && sameLS(a.deferred, b.deferred)
}

// lockOp classifies a call as an operation on a mutex.
// op: "Lock","RLock","Unlock","RUnlock"; mu identifies the mutex; base is the struct value it lives in.
func lockOp(c ssa.CallInstruction) (op string, mu *types.Var, base ssa.Value, ok bool) {
	cc := c.Common()
	if cc.IsInvoke() || cc.StaticCallee() == nil || len(cc.Args) == 0 {
		return
	}
	name := calleeName(c)
	switch name {
	case "(*sync.Mutex).Lock", "(*sync.RWMutex).Lock":
		op = "Lock"
	case "(*sync.Mutex).Unlock", "(*sync.RWMutex).Unlock":
		op = "Unlock"
	case "(*sync.RWMutex).RLock":
		op = "RLock"
	case "(*sync.RWMutex).RUnlock":
		op = "RUnlock"
	case "(*sync.Mutex).TryLock", "(*sync.RWMutex).TryLock", "(*sync.RWMutex).TryRLock":
		return "", nil, nil, false
	default:
		return
	}
	switch x := cc.Args[0].(type) {
	case *ssa.FieldAddr:
		mu, base = fieldVar(x), x.X
	case *ssa.Global:
		if v, isVar := x.Object().(*types.Var); isVar {
			mu = v
		}
	}
	return op, mu, base, mu != nil
}

type lockAnalysis struct {
	w       *World
	entry   map[*ssa.Function]lsState
	heldAt  map[ssa.Instruction]lockset
	exitBad map[*ssa.Function][]string // unbalanced returns
	ops     int
}

// syncCallbackCallers: library functions that run the function value they are given before
// they return, on the calling goroutine.
var syncCallbackCallers = map[string]bool{
	"(*sync.Map).Range":  true,
	"sort.Slice":         true,
	"sort.SliceStable":   true,
	"(*sync.Once).Do":    true,
	"strings.FieldsFunc": true,
}

func (w *World) Locks() *lockAnalysis {
	if w.locks != nil {
		return w.locks
	}
	la := &lockAnalysis{w: w, entry: map[*ssa.Function]lsState{}, heldAt: map[ssa.Instruction]lockset{}, exitBad: map[*ssa.Function][]string{}}
	cg := w.CG()
	for _, f := range w.Funcs {
		if len(cg.In[f]) == 0 {
			la.entry[f] = lsState{held: lockset{}, deferred: lockset{}}
		} else {
			la.entry[f] = lsState{top: true}
		}
	}
	for iter := 0; iter < 20; iter++ {
		changed := false
		la.heldAt = map[ssa.Instruction]lockset{}
		la.exitBad = map[*ssa.Function][]string{}
		la.ops = 0
		for _, f := range w.Funcs {
			la.runFunc(f)
		}
		for _, f := range w.Funcs {
			if len(cg.In[f]) == 0 {
				continue
			}
			ns := lsState{top: true}
			for _, e := range cg.In[f] {
				var at lsState
				switch e.Kind {
				case "go":
					at = lsState{held: lockset{}, deferred: lockset{}}
				case "funcarg":
					if ci, ok := e.Site.(ssa.CallInstruction); ok && syncCallbackCallers[calleeName(ci)] {
						if h, ok := la.heldAt[e.Site]; ok {
							at = lsState{held: h, deferred: lockset{}}
						} else {
							at = lsState{top: true}
						}
					} else {
						at = lsState{held: lockset{}, deferred: lockset{}}
					}
				case "defer":
					// runs at the caller's RunDefers: locks released by earlier-registered defers may be
					// gone; take the lockset at registration minus everything deferred-unlocked there
					if h, ok := la.heldAt[e.Site]; ok {
						at = lsState{held: h.clone(), deferred: lockset{}}
					} else {
						at = lsState{top: true}
					}
				default:
					if h, ok := la.heldAt[e.Site]; ok {
						at = lsState{held: h, deferred: lockset{}}
					} else {
						at = lsState{top: true} // site not reached yet (caller itself still top)
					}
				}
				ns = meetState(ns, at)
			}
			if !ns.top {
				ns.deferred = lockset{}
			}
			if !sameState2(ns, la.entry[f]) {
				la.entry[f] = ns
				changed = true
			}
		}
		if !changed {
			break
		}
	}
	w.locks = la
	return la
}

func (la *lockAnalysis) runFunc(f *ssa.Function) {
	if f.Blocks == nil {
		return
	}
	ent := la.entry[f]
	if ent.top {
		return
	}
	in := map[*ssa.BasicBlock]lsState{}
	out := map[*ssa.BasicBlock]lsState{}
	for _, b := range f.Blocks {
		in[b] = lsState{top: true}
		out[b] = lsState{top: true}
	}
	in[f.Blocks[0]] = ent.clone()
	for changed := true; changed; {
		changed = false
		for _, b := range f.Blocks {
			if b == f.Recover {
				continue
			}
			s := in[b]
			if b != f.Blocks[0] {
				s = lsState{top: true}
				for _, p := range b.Preds {
					s = meetState(s, out[p])
				}
				in[b] = s
			}
			if s.top {
				continue
			}
			s = s.clone()
			for _, ins := range b.Instrs {
				la.transfer(f, ins, &s, false)
			}
			if !sameState2(s, out[b]) {
				out[b] = s
				changed = true
			}
		}
	}
	// record
	for _, b := range f.Blocks {
		s := in[b]
		if s.top {
			continue
		}
		s = s.clone()
		for _, ins := range b.Instrs {
			la.heldAt[ins] = s.held.clone()
			la.transfer(f, ins, &s, true)
			if ret, ok := ins.(*ssa.Return); ok {
				if !sameLS(s.held, ent.held) {
					la.exitBad[f] = append(la.exitBad[f], fmt.Sprintf("%s: returns holding %s, entered with %s", la.w.Pos(ret.Pos()), s.held, ent.held))
				}
			}
		}
	}
}

func (la *lockAnalysis) transfer(f *ssa.Function, ins ssa.Instruction, s *lsState, record bool) {
	switch x := ins.(type) {
	case *ssa.Call:
		if op, mu, _, ok := lockOp(x); ok {
			if record {
				la.ops++
			}
			switch op {
			case "Lock":
				s.held[mu] = modeW
			case "RLock":
				if s.held[mu] < modeR {
					s.held[mu] = modeR
				}
			case "Unlock", "RUnlock":
				delete(s.held, mu)
			}
		}
	case *ssa.Defer:
		if op, mu, _, ok := lockOp(x); ok && (op == "Unlock" || op == "RUnlock") {
			s.deferred[mu] = modeW
		}
		// defer func() { mu.Unlock() }()
		if g := closureOf(x.Call.Value); g != nil && g.Blocks != nil {
			allInstrs(g, func(i ssa.Instruction) {
				if c, ok := i.(*ssa.Call); ok {
					if op, mu, _, ok := lockOp(c); ok && (op == "Unlock" || op == "RUnlock") {
						s.deferred[mu] = modeW
					}
				}
			})
		}
	case *ssa.RunDefers:
		for mu := range s.deferred {
			delete(s.held, mu)
		}
	}
}

// ---------------------------------------------------------------------------------------------
// field accesses

type fieldAccess struct {
	fn    *ssa.Function
	ins   ssa.Instruction
	owner *types.Named
	fld   *types.Var // first-level field of owner
	write bool
	what  string // "store", "map update", "delete", "element store", "load", "lookup", …
	path  string // field path below owner ("ts.remote")
	base  ssa.Value
	fresh bool // base object was allocated in this function and has not escaped before the access
}

func namedOf(t types.Type) *types.Named {
	for {
		switch x := t.(type) {
		case *types.Pointer:
			t = x.Elem()
		case *types.Named:
			return x
		default:
			if a, ok := t.(*types.Alias); ok {
				t = types.Unalias(a)
				continue
			}
			return nil
		}
	}
}

// threadSafeType: values whose own methods synchronise.
func threadSafeType(t types.Type) bool {
	if _, ok := t.Underlying().(*types.Chan); ok {
		return true
	}
	n := namedOf(t)
	if n == nil || n.Obj().Pkg() == nil {
		return false
	}
	switch n.Obj().Pkg().Path() {
	case "sync", "sync/atomic":
		return true
	case "context":
		return n.Obj().Name() == "Context" // a CancelFunc may be called concurrently, but the variable holding it is plain memory
	}
	return false
}

// accessesOf lists the accesses to first-level fields of the given struct types in all repo functions.
func (w *World) accessesOf(owners map[string]bool) []fieldAccess {
	var out []fieldAccess
	for _, f := range w.Funcs {
		f := f
		allInstrs(f, func(i ssa.Instruction) {
			var fld *types.Var
			var base ssa.Value
			var val ssa.Value // the address (FieldAddr) or the value (Field)
			switch x := i.(type) {
			case *ssa.FieldAddr:
				fld, base, val = fieldVar(x), x.X, x
			case *ssa.Field:
				// value copy of a struct: reading a field of a copy is not an access to shared memory
				return
			default:
				return
			}
			n := namedOf(base.Type())
			if n == nil || n.Obj().Pkg() == nil || !owners[n.Obj().Name()] || !w.isRepoType(n) {
				return
			}
			if fld == nil || threadSafeType(fld.Type()) {
				return
			}
			fresh := isFreshAlloc(base)
			for _, acc := range w.classifyUses(val, fld.Name(), 0) {
				out = append(out, fieldAccess{fn: f, ins: acc.ins, owner: n, fld: fld, write: acc.write, what: acc.what, path: acc.path, base: base, fresh: fresh})
			}
		})
	}
	return out
}

func (w *World) isRepoType(n *types.Named) bool {
	p := n.Obj().Pkg()
	if p == nil {
		return false
	}
	for _, sp := range w.SSAPkgs {
		if sp.Pkg == p {
			return true
		}
	}
	return false
}

func isFreshAlloc(v ssa.Value) bool {
	switch x := v.(type) {
	case *ssa.Alloc:
		return true
	case *ssa.FieldAddr:
		return isFreshAlloc(x.X)
	case *ssa.Phi:
		return false
	}
	return false
}

type useAcc struct {
	ins   ssa.Instruction
	write bool
	what  string
	path  string
}

// classifyUses follows an address (or a loaded container value) to the instructions that read or
// write the memory behind it.
func (w *World) classifyUses(addr ssa.Value, path string, depth int) []useAcc {
	var out []useAcc
	if depth > 4 || addr.Referrers() == nil {
		return nil
	}
	for _, ref := range *addr.Referrers() {
		switch x := ref.(type) {
		case *ssa.Store:
			if x.Addr == addr {
				out = append(out, useAcc{x, true, "store", path})
			} else {
				// the address itself is stored somewhere: escapes
				out = append(out, useAcc{x, false, "address taken", path})
			}
		case *ssa.UnOp:
			if x.Op != token.MUL {
				continue
			}
			out = append(out, useAcc{x, false, "load", path})
			for _, cu := range containerUses(x) {
				cu.path = path
				out = append(out, cu)
			}
		case *ssa.FieldAddr:
			// nested struct field: classify by what happens to the inner address
			if threadSafeType(derefType(x.Type())) {
				continue
			}
			sub := path
			if fv := fieldVar(x); fv != nil {
				sub = path + "." + fv.Name()
			}
			out = append(out, w.classifyUses(x, sub, depth+1)...)
		case *ssa.IndexAddr:
			// array field
			out = append(out, w.classifyUses(x, path, depth+1)...)
		case ssa.CallInstruction:
			// &field handed to a call (method with pointer receiver on a struct-typed field, json.Unmarshal, …)
			name := calleeName(x)
			wr := w.calleeWritesThrough(x, addr)
			out = append(out, useAcc{x.(ssa.Instruction), wr, "address passed to " + name, path})
		}
	}
	return out
}

// calleeWritesThrough: does any callee of the call store through the parameter that receives addr?
func (w *World) calleeWritesThrough(c ssa.CallInstruction, addr ssa.Value) bool {
	callees := w.callees(c)
	if len(callees) == 0 {
		name := calleeName(c)
		// library calls: readers we know
		for _, ro := range []string{").String", ".Sprintf", ".Sprint", "ln", ").Len", "json.Marshal", "(net.IP)", "Infof", "Debugf", "Errorf", "Warnf"} {
			if strings.HasSuffix(name, ro) || strings.Contains(name, ro) {
				return false
			}
		}
		return true
	}
	cc := c.Common()
	for _, g := range callees {
		if g.Blocks == nil {
			return true
		}
		off := 0
		if cc.IsInvoke() {
			off = 1
		}
		for i, a := range cc.Args {
			if a != addr || i+off >= len(g.Params) {
				continue
			}
			p := g.Params[i+off]
			if w.paramWritten(p, 0, map[ssa.Value]bool{}) {
				return true
			}
		}
	}
	return false
}

func (w *World) paramWritten(v ssa.Value, depth int, seen map[ssa.Value]bool) bool {
	if depth > 6 || v.Referrers() == nil || seen[v] {
		return false
	}
	seen[v] = true
	for _, ref := range *v.Referrers() {
		switch x := ref.(type) {
		case *ssa.Store:
			if x.Addr == v {
				return true
			}
		case *ssa.FieldAddr:
			if w.paramWritten(x, depth+1, seen) {
				return true
			}
		case *ssa.IndexAddr:
			if w.paramWritten(x, depth+1, seen) {
				return true
			}
		case ssa.CallInstruction:
			cc := x.Common()
			callees := w.callees(x)
			if len(callees) == 0 {
				name := calleeName(x)
				if strings.Contains(name, "Lock") || strings.Contains(name, "Unlock") || strings.Contains(name, "String") || strings.Contains(name, "Equal") || strings.Contains(name, "log") {
					continue
				}
				return true
			}
			off := 0
			if cc.IsInvoke() {
				off = 1
			}
			for _, g := range callees {
				if g.Blocks == nil {
					return true
				}
				for i, a := range cc.Args {
					if a == v && i+off < len(g.Params) && w.paramWritten(g.Params[i+off], depth+1, seen) {
						return true
					}
				}
			}
		}
	}
	return false
}

func derefType(t types.Type) types.Type {
	if p, ok := t.Underlying().(*types.Pointer); ok {
		return p.Elem()
	}
	return t
}

// containerUses: v is the loaded value of a field; for maps and slices the contents are shared memory.
func containerUses(v ssa.Value) []useAcc {
	var out []useAcc
	if v.Referrers() == nil {
		return nil
	}
	switch v.Type().Underlying().(type) {
	case *types.Map, *types.Slice:
	default:
		return nil
	}
	for _, ref := range *v.Referrers() {
		switch x := ref.(type) {
		case *ssa.MapUpdate:
			if x.Map == v {
				out = append(out, useAcc{x, true, "map update", ""})
			}
		case *ssa.Lookup:
			if x.X == v {
				out = append(out, useAcc{x, false, "map lookup", ""})
			}
		case *ssa.Range:
			out = append(out, useAcc{x, false, "map range", ""})
		case *ssa.IndexAddr:
			if x.X != v {
				continue
			}
			w := false
			if x.Referrers() != nil {
				for _, r2 := range *x.Referrers() {
					if st, ok := r2.(*ssa.Store); ok && st.Addr == ssa.Value(x) {
						w = true
					}
					if fa, ok := r2.(*ssa.FieldAddr); ok && fa.Referrers() != nil {
						for _, r3 := range *fa.Referrers() {
							if st, ok := r3.(*ssa.Store); ok && st.Addr == ssa.Value(fa) {
								w = true
							}
						}
					}
				}
			}
			out = append(out, useAcc{x, w, ifelse(w, "element store", "element load"), ""})
		case *ssa.Call:
			if b, ok := x.Call.Value.(*ssa.Builtin); ok {
				switch b.Name() {
				case "delete":
					out = append(out, useAcc{x, true, "map delete", ""})
				case "clear":
					out = append(out, useAcc{x, true, "clear", ""})
				case "len", "cap":
					out = append(out, useAcc{x, false, b.Name(), ""})
				case "append":
					if len(x.Call.Args) > 0 && x.Call.Args[0] == v {
						// may write into the shared backing array
						out = append(out, useAcc{x, true, "append", ""})
					} else {
						out = append(out, useAcc{x, false, "append from", ""})
					}
				case "copy":
					if len(x.Call.Args) > 0 && x.Call.Args[0] == v {
						out = append(out, useAcc{x, true, "copy into", ""})
					} else {
						out = append(out, useAcc{x, false, "copy from", ""})
					}
				}
			}
		case *ssa.Slice:
			out = append(out, useAcc{x, false, "slice", ""})
		}
	}
	return out
}

// ---------------------------------------------------------------------------------------------
// goroutine contexts

type goRoot struct {
	fn    *ssa.Function
	name  string
	multi bool   // several instances may run at once
	why   string // where it is started
}

// goroutineRoots: main, every target of a go statement, HTTP handlers.
func (w *World) goroutineRoots() []*goRoot {
	cg := w.CG()
	var roots []*goRoot
	seen := map[*ssa.Function]*goRoot{}
	add := func(f *ssa.Function, multi bool, why string) {
		if f == nil || f.Blocks == nil {
			return
		}
		if r, ok := seen[f]; ok {
			r.multi = true // started from two places
			_ = r
			return
		}
		r := &goRoot{fn: f, name: w.FuncName(f), multi: multi, why: why}
		seen[f] = r
		roots = append(roots, r)
	}
	for _, f := range w.Funcs {
		if f.Name() == "main" && f.Pkg != nil && f.Pkg.Pkg.Name() == "main" {
			add(f, false, "program entry")
		}
	}
	for _, f := range w.Funcs {
		for _, e := range cg.Out[f] {
			if e.Kind != "go" {
				continue
			}
			// several instances: started in a loop, or from a function that itself runs many times
			b := e.Site.Block()
			inLoop := false
			for _, s := range b.Succs {
				if reachesBlock(s, b) {
					inLoop = true
				}
			}
			add(e.Callee, inLoop, "go at "+w.Pos(e.Site.Pos()))
		}
	}
	for _, f := range w.Funcs {
		if f.Name() == "ServeHTTP" && len(cg.In[f]) == 0 {
			add(f, true, "net/http handler")
		}
	}
	// a root started (transitively) from a multi-instance root, or from code that runs once per
	// connection/request, is multi-instance as well
	for changed := true; changed; {
		changed = false
		for _, r := range roots {
			if r.multi {
				continue
			}
			for _, e := range cg.In[r.fn] {
				if e.Kind != "go" {
					continue
				}
				for _, r2 := range roots {
					if r2.fn == r.fn {
						continue
					}
					reach := cg.Reachable([]*ssa.Function{r2.fn}, func(e *Edge) bool { return e.Kind != "go" })
					if reach[e.Caller] && (r2.multi || callerRunsRepeatedly(w, r2.fn, e.Caller)) {
						r.multi = true
						changed = true
					}
				}
			}
		}
	}
	sort.Slice(roots, func(i, j int) bool { return roots[i].name < roots[j].name })
	return roots
}

// callerRunsRepeatedly: within root, is `target` reachable through a call site that sits in a loop?
func callerRunsRepeatedly(w *World, root, target *ssa.Function) bool {
	cg := w.CG()
	type st struct {
		f      *ssa.Function
		looped bool
	}
	seen := map[st]bool{{root, false}: true}
	work := []st{{root, false}}
	for len(work) > 0 {
		cur := work[len(work)-1]
		work = work[:len(work)-1]
		if cur.f == target && cur.looped {
			return true
		}
		for _, e := range cg.Out[cur.f] {
			if e.Kind == "go" {
				continue
			}
			l := cur.looped
			b := e.Site.Block()
			for _, s := range b.Succs {
				if reachesBlock(s, b) {
					l = true
				}
			}
			n := st{e.Callee, l}
			if !seen[n] {
				seen[n] = true
				work = append(work, n)
			}
		}
	}
	return false
}

// contextsOf: which goroutine roots can execute each function (call/defer/sync-callback edges).
func (w *World) contextsOf(roots []*goRoot) map[*ssa.Function][]*goRoot {
	cg := w.CG()
	out := map[*ssa.Function][]*goRoot{}
	for _, r := range roots {
		reach := cg.Reachable([]*ssa.Function{r.fn}, func(e *Edge) bool { return e.Kind != "go" })
		for f := range reach {
			out[f] = append(out[f], r)
		}
	}
	return out
}

// ---------------------------------------------------------------------------------------------
// re-acquisition of a held mutex (sync.Mutex / RWMutex are not reentrant: the goroutine blocks for ever,
// and with it everybody who needs the lock afterwards)

type relock struct {
	fn  *ssa.Function
	ins ssa.Instruction
	mu  *types.Var
	via string
}

// acquiresFromEntry: the mutex fields f may lock (itself or through static callees) on a path from its
// entry on which it has not unlocked them first. Value: how.
func (w *World) acquiresFromEntry(f *ssa.Function, depth int, busy map[*ssa.Function]bool) map[*types.Var]string {
	if w.acqMemo == nil {
		w.acqMemo = map[*ssa.Function]map[*types.Var]string{}
	}
	if m, ok := w.acqMemo[f]; ok {
		return m
	}
	out := map[*types.Var]string{}
	if f == nil || f.Blocks == nil || depth > 6 || busy[f] {
		return out
	}
	busy[f] = true
	defer delete(busy, f)
	type cand struct {
		ins ssa.Instruction
		mu  *types.Var
		how string
	}
	var cands []cand
	allInstrs(f, func(i ssa.Instruction) {
		c, ok := i.(*ssa.Call)
		if !ok {
			return
		}
		if op, mu, _, ok := lockOp(c); ok {
			if op == "Lock" || op == "RLock" {
				cands = append(cands, cand{i, mu, w.FuncName(f) + " " + op + "s " + mu.Name() + " at " + w.Pos(c.Pos())})
			}
			return
		}
		if g := staticCallee(c); g != nil && w.isRepoFunc(g) {
			for mu, how := range w.acquiresFromEntry(g, depth+1, busy) {
				cands = append(cands, cand{i, mu, how})
			}
		}
	})
	for _, c := range cands {
		if _, have := out[c.mu]; have {
			continue
		}
		mu := c.mu
		// reachable from the entry without releasing mu first
		hit := reach(f, nil, func(i ssa.Instruction) bool { return i == c.ins }, func(i ssa.Instruction) bool {
			cc, ok := i.(*ssa.Call)
			if !ok {
				return false
			}
			op, m2, _, ok := lockOp(cc)
			return ok && m2 == mu && (op == "Unlock" || op == "RUnlock")
		}, nil)
		if hit != nil {
			out[mu] = c.how
		}
	}
	if depth == 0 {
		w.acqMemo[f] = out
	}
	return out
}

// stringerOf: the repo method fmt would call to print a value of type t (String, Error, GoString, Format).
func (w *World) stringerOf(t types.Type) *ssa.Function {
	for _, name := range []string{"String", "Error", "GoString", "Format"} {
		for _, tt := range []types.Type{t, types.NewPointer(t)} {
			if _, isPtr := t.(*types.Pointer); isPtr && tt != t {
				continue
			}
			ms := w.Prog.MethodSets.MethodSet(tt)
			for i := 0; i < ms.Len(); i++ {
				if ms.At(i).Obj().Name() == name {
					if fn := w.Prog.MethodValue(ms.At(i)); fn != nil && w.isRepoFunc(fn) {
						return fn
					}
				}
			}
		}
	}
	return nil
}

func (w *World) reentrantLocks(funcs map[*ssa.Function]bool) ([]relock, int) {
	la := w.Locks()
	var out []relock
	sites := 0
	for _, f := range sortedFuncs(w, funcs) {
		allInstrs(f, func(i ssa.Instruction) {
			held := la.heldAt[i]
			if len(held) == 0 {
				return
			}
			switch x := i.(type) {
			case *ssa.Call:
				sites++
				if op, mu, _, ok := lockOp(x); ok {
					if (op == "Lock" || op == "RLock") && held[mu] != 0 && !(op == "RLock" && held[mu] == modeR) {
						out = append(out, relock{f, i, mu, "directly"})
					}
					return
				}
				if g := staticCallee(x); g != nil && w.isRepoFunc(g) {
					for mu, how := range w.acquiresFromEntry(g, 0, map[*ssa.Function]bool{}) {
						if held[mu] != 0 {
							out = append(out, relock{f, i, mu, "through the call: " + how})
						}
					}
				}
			case *ssa.MakeInterface:
				// a value handed to a printing function as interface{}: fmt calls its String()/Error() method
				if it, ok := x.Type().Underlying().(*types.Interface); !ok || it.NumMethods() > 1 {
					return
				}
				if s := w.stringerOf(x.X.Type()); s != nil {
					sites++
					for mu, how := range w.acquiresFromEntry(s, 0, map[*ssa.Function]bool{}) {
						if held[mu] != 0 {
							out = append(out, relock{f, i, mu, "the value is printed, which runs " + how})
						}
					}
				}
			}
		})
	}
	return out, sites
}

// ---------------------------------------------------------------------------------------------
// check-then-act across two critical sections
//
// A value read from a structure under its mutex is only valid while the mutex is held. When a function
// reads under the lock, releases it, takes it again and then writes the structure at a place computed
// from what it read (the free slot it found, the entry it looked up), two goroutines that interleave
// between the two critical sections act on the same stale answer — both allocate the same identifier.

type splitSection struct {
	fn          *ssa.Function
	read, write ssa.Instruction
	mu          *types.Var
	what        string
}

func (w *World) splitCriticalSections(funcs []*ssa.Function) ([]splitSection, int) {
	la := w.Locks()
	var out []splitSection
	examined := 0
	for _, f := range funcs {
		locks := map[*types.Var]int{}
		allInstrs(f, func(i ssa.Instruction) {
			if c, ok := i.(*ssa.Call); ok {
				if op, mu, _, ok := lockOp(c); ok && (op == "Lock" || op == "RLock") {
					locks[mu]++
				}
			}
		})
		for mu, k := range locks {
			if k < 2 {
				continue
			}
			owner := fieldOwner(w, mu)
			if owner == nil {
				continue
			}
			isUnlock := func(i ssa.Instruction) bool {
				c, ok := i.(*ssa.Call)
				if !ok {
					return false
				}
				op, m2, _, ok := lockOp(c)
				return ok && m2 == mu && (op == "Unlock" || op == "RUnlock")
			}
			ownedField := func(addr ssa.Value) bool {
				for d := 0; d < 4; d++ {
					switch x := addr.(type) {
					case *ssa.FieldAddr:
						if nt := namedOf(x.X.Type()); nt != nil && nt == owner {
							return fieldVar(x) != mu
						}
						addr = x.X
					case *ssa.IndexAddr:
						addr = x.X
					case *ssa.UnOp:
						if x.Op != token.MUL {
							return false
						}
						addr = x.X
					default:
						return false
					}
				}
				return false
			}
			allInstrs(f, func(i ssa.Instruction) {
				if la.heldAt[i][mu] == 0 {
					return
				}
				var ops []ssa.Value
				what := ""
				switch x := i.(type) {
				case *ssa.MapUpdate:
					if !ownedField(x.Map) {
						return
					}
					ops, what = []ssa.Value{x.Key, x.Value}, "map update of "+symOf(x.Map).String()
				case *ssa.Store:
					if !ownedField(x.Addr) {
						return
					}
					ops, what = []ssa.Value{x.Val}, "store to "+symOf(x.Addr).String()
					if ia, ok := x.Addr.(*ssa.IndexAddr); ok {
						ops = append(ops, ia.Index)
					}
				default:
					return
				}
				examined++
				// guarded reads the operands depend on
				seen := map[ssa.Value]bool{}
				var reads []ssa.Instruction
				var back func(v ssa.Value, d int)
				back = func(v ssa.Value, d int) {
					if v == nil || d > 10 || seen[v] {
						return
					}
					seen[v] = true
					switch x := v.(type) {
					case *ssa.UnOp:
						if x.Op == token.MUL && ownedField(x.X) && la.heldAt[x][mu] != 0 {
							reads = append(reads, x)
							return
						}
						back(x.X, d+1)
					case *ssa.Lookup:
						if ownedField(x.X) && la.heldAt[x][mu] != 0 {
							reads = append(reads, x)
							return
						}
						back(x.X, d+1)
						back(x.Index, d+1)
					case *ssa.BinOp:
						back(x.X, d+1)
						back(x.Y, d+1)
					case *ssa.Convert:
						back(x.X, d+1)
					case *ssa.ChangeType:
						back(x.X, d+1)
					case *ssa.Extract:
						back(x.Tuple, d+1)
					case *ssa.Phi:
						for _, e := range x.Edges {
							back(e, d+1)
						}
					case *ssa.Field:
						back(x.X, d+1)
					case *ssa.MakeInterface:
						back(x.X, d+1)
					}
				}
				for _, o := range ops {
					back(o, 0)
				}
				for _, rd := range reads {
					isW := func(j ssa.Instruction) bool { return j == i }
					if reach(f, rd, isW, nil, nil) == nil {
						continue // the write does not follow the read
					}
					if reach(f, rd, isW, isUnlock, nil) != nil {
						continue // same critical section on some path: the ordinary read-modify-write
					}
					out = append(out, splitSection{f, rd, i, mu, what})
					return
				}
			})
		}
	}
	return out, examined
}

// fieldOwner: the named struct type that declares the field.
func fieldOwner(w *World, fld *types.Var) *types.Named {
	if fld == nil || !fld.IsField() || fld.Pkg() == nil {
		return nil
	}
	sc := fld.Pkg().Scope()
	for _, name := range sc.Names() {
		tn, ok := sc.Lookup(name).(*types.TypeName)
		if !ok {
			continue
		}
		nt, ok := tn.Type().(*types.Named)
		if !ok {
			continue
		}
		st, ok := nt.Underlying().(*types.Struct)
		if !ok {
			continue
		}
		for i := 0; i < st.NumFields(); i++ {
			if st.Field(i) == fld {
				return nt
			}
		}
	}
	return nil
}
