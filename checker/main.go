// upfcheck decides structural clauses of the properties in /verif/properties.jsonl by static
// analysis of /repo's current working tree (type-checked Go lowered to SSA, plus the
// shipped P4Info, up4.bess and route_control.py). It never executes the agent.
package main

import (
	"flag"
	"fmt"
	"os"
	"path/filepath"
	"runtime/debug"
	"sort"
	"strconv"
	"time"
)

type ruleFn func(w *World, r *Report)

// thoroughExtras: what the thorough tier adds to the quick rule run (see DESIGN.md §3.3).
func thoroughExtras(w *World, r *Report, vdir, repo string) {
	if len(r.Viol) == 0 || allKnown(r, vdir) {
		rs := replaySeeds(r.Prop, vdir, repo)
		th, base := treeHash(repo), recordedBase(vdir)
		if base == "" {
			brokenf(r.Prop, "thorough.seed-replay", "seeded/BASE_TREE.json is missing: the tree the replay expectations belong to is unknown")
		}
		checkReplay(r.Prop, rs, th == base)
		if r.Extra == nil {
			r.Extra = map[string]interface{}{}
		}
		r.Extra["seed_replay"] = rs
		r.Extra["seeded_changes_replayed"] = len(rs)
		r.Extra["analysed_tree_hash"] = th
		r.Extra["replay_expectations_recorded_on_tree"] = base
		r.Extra["replay_enforced"] = th == base
	}
	bceCrossCheck(w, r, repo)
}

func allKnown(r *Report, vdir string) bool {
	known := map[string]bool{}
	for _, e := range loadKnown(vdir) {
		if e.Kind == "finding" && e.Property == r.Prop {
			known[e.Key] = true
		}
	}
	for _, v := range r.Viol {
		if !known[v.Key] {
			return false
		}
	}
	return true
}

var rules = map[string]ruleFn{}

// procStart: evidence wall_s includes loading and type-checking the repository.
var procStart = time.Now()

func main() {
	prop := flag.String("prop", "", "property id (C01..C20) or 'all'")
	tier := flag.String("tier", "", "quick|thorough (default: $VERIF_TIER or quick)")
	dumpSymbolsFlag := flag.Bool("dump-symbols", false, "print the declarations of the repo (to regenerate known_symbols.txt)")
	renameOne := flag.String("rename-one", "", "dev tool: 'kind|scope|name|newname' — rewrite that declaration and all its uses in -repo (a scratch copy!) in place")
	treeHashOnly := flag.Bool("tree-hash", false, "print the content hash of -repo and exit")
	repo := flag.String("repo", "/repo", "repository to analyse")
	verif := flag.String("verif", "", "verif directory (default: directory above the binary, or cwd)")
	list := flag.Bool("list", false, "list properties with a rule set")
	out := flag.String("out", "", "directory for the evidence file (default <verif>/evidence)")
	verbose := flag.Bool("v", false, "print every obligation")
	dump := flag.Bool("dump-funcs", false, "print the names of all repo functions (to regenerate known_funcs.txt)")
	flag.Parse()
	if *dumpSymbolsFlag {
		noNormalize, dumpSyms = true, true
		loadWorld(*repo, "-")
		return
	}
	if *renameOne != "" {
		renameInPlace(*repo, *renameOne)
		return
	}
	if *treeHashOnly {
		fmt.Println(treeHash(*repo))
		return
	}
	if *dump {
		noNormalize = true
		w := loadWorld(*repo, "-")
		for _, f := range w.Funcs {
			if f.Parent() == nil {
				fmt.Printf("%s\t%s\n", w.FuncName(f), sigKey(f))
			}
		}
		return
	}
	if *list {
		var ids []string
		for k := range rules {
			ids = append(ids, k)
		}
		sort.Strings(ids)
		for _, k := range ids {
			fmt.Println(k)
		}
		return
	}
	if *tier == "" {
		*tier = os.Getenv("VERIF_TIER")
	}
	if *tier != "thorough" {
		*tier = "quick"
	}
	seed := int64(0)
	if s := os.Getenv("VERIF_SEED"); s != "" {
		if v, err := strconv.ParseInt(s, 10, 64); err == nil {
			seed = v
		}
	}
	vdir := *verif
	if vdir == "" {
		if exe, err := os.Executable(); err == nil {
			vdir = filepath.Dir(filepath.Dir(exe))
		}
		if _, err := os.Stat(filepath.Join(vdir, "properties.jsonl")); err != nil {
			vdir, _ = os.Getwd()
		}
	}
	fn, ok := rules[*prop]
	if !ok {
		fmt.Fprintf(os.Stderr, "unknown property %q\n", *prop)
		os.Exit(2)
	}
	defer func() {
		if e := recover(); e != nil {
			fmt.Printf("UNDECIDED property=%s rule=panic reason=analyser panicked: %v\n%s\n", *prop, e, debug.Stack())
			os.Exit(2)
		}
	}()
	w := loadWorld(*repo, *prop)
	r := newReport(*prop, *tier, seed)
	if len(w.Renamed) > 0 {
		r.Extra["normalized_renamed_functions"] = w.Renamed
	}
	if len(w.Adopted) > 0 {
		r.Extra["normalized_adopted_functions"] = w.Adopted
	}
	if len(w.Inlined) > 0 {
		r.Extra["normalized_calls_inlined"] = w.Inlined
	}
	if !round6pre(w, r) {
		fn(w, r)
		round6(w, r)
	}
	r.evDir = *out
	if *tier == "thorough" {
		thoroughExtras(w, r, vdir, *repo)
	}
	if *verbose {
		for _, o := range r.Obls {
			st := "ok "
			if !o.Discharged {
				st = "BAD"
			}
			fmt.Printf("%s %-6s %-60s | %s | %s | %s\n", st, o.Rule, o.Func, o.Construct, o.Pos, o.How)
		}
	}
	os.Exit(r.finish(vdir))
}
