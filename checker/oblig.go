package main

import (
	"fmt"
	"go/ast"
	"go/token"
	"go/types"
	"os"
	"sort"
	"strings"

	"golang.org/x/tools/go/ssa"
)

// Obligation engine (DESIGN §2.3.1): every instruction of a listed kind inside a set of
// functions generates an obligation; each is discharged by a dominating guard, an interval
// argument, a who-writes fact, a library post-condition, or a line of the justification table.

// ---- library post-conditions (D9), confirmed against go-pfcp v0.0.24 and the Go standard library
var pinnedGoPfcp = "v0.0.24"

func libLenFacts(call *ssa.Call, resultIdx int) (minLen int64, needErrNil bool, ok bool) {
	n := calleeName(call)
	switch {
	case n == "strings.Split" || n == "strings.SplitN":
		return 1, false, true // Split returns at least one element for a non-empty separator
	case strings.HasSuffix(n, "go-pfcp/ie.IE).ApplyAction") && resultIdx == 0:
		return 1, true, true // returns i.Payload only after checking len(i.Payload) >= 1
	}
	return 0, false, false
}

// justification table: KIND|function|construct → reason. One line per site, no wildcards. The construct
// is written with local variables abstracted to ‹type› (srcExprNorm), so a rename does not orphan a line;
// UPFCHECK_NORMKEYS=1 prints the key of every unjustified obligation.
var justifications = map[string]string{
	"IDX|pfcpiface.(*UP4).sendCreate|‹PacketForwardingRules›.pdrs[‹int›]":                                               "relational: sendCreate is only called for an establishment, where the handler appends every PDR to session.pdrs and to addPDRs in lock-step from empty lists, so len(all.pdrs) == len(updated.pdrs) (secondary check R01.J1: the establishment loop appends to both on every path)",
	"IDX|pfcpiface.(*UP4).sendCreate|‹PacketForwardingRules›.pdrs[‹int›] #2":                                            "same relational argument as the previous line (second use of the same index in the loop body)",
	"NIL|pfcpiface.releaseAllocatedIPs|‹IPPool›.DeallocIP(‹PFCPSession›.localSEID)":                                     "reached only for a PDR with allocIPFlag set, which parseUEAddressIE sets only after ippool.LookupOrAllocIP succeeded on a non-nil pool (secondary check R01.J5: the store of allocIPFlag is dominated by the nil check and the successful allocation)",
	"BLK|pfcpiface.(*PFCPConn).shutdownConn|‹PFCPConn›.done <- ‹string›":                                                "node-level completion channel with capacity 100, drained by PFCPNode.Serve and, at stop, by waitForPFCPConns; never closed (C10 R10.2)",
	"BLK|pfcpiface.(*bess).SendEndMarkers|‹bess›.endMarkerChan <- ‹[]byte›":                                             "channel of capacity 1024 created in SetUpfInfo; reported under C14/C10 scope only if the consumer loop is missing (R01.J3 checks that SetUpfInfo starts endMarkerSendLoop whenever end markers are enabled and the socket was dialled)",
	"BLK|pfcpiface.(*UP4).SendEndMarkers|‹UP4›.endMarkerChan <- ‹[]byte›":                                               "channel of capacity 1024 created together with its consumer goroutine inside initOnce (R01.J3)",
	"EXIT|pfcpiface.(*pdr).parseApplicationID|logger.PfcpLog.Fatalln(\"mismatch in App ID\", ‹string›, ‹appPFD›.appID)": "unreachable while every writer of PFCPConn.appPFDs stores a record whose appID equals its key (secondary check R01.J4 on the map's writers)",
}

type obl struct {
	kind      string
	fn        *ssa.Function
	ins       ssa.Instruction
	construct string
	ok        bool
	trivial   bool
	how       string
}

type oblEngine struct {
	w     *World
	r     *Report
	rule  string
	funcs map[*ssa.Function]bool
	seenC map[string]int
	used  map[string]bool // justification lines used

	seenLookup map[*ssa.Lookup]bool
	norm       map[string]string // function|construct → construct with local names abstracted
}

func (e *oblEngine) constructOf(f *ssa.Function, pos token.Pos, want func(ast.Node) bool, fallback string) string {
	txt, norm := e.w.srcExprNorm(pos, want)
	if txt == "" {
		txt, norm = fallback, fallback
	}
	key := e.w.FuncName(f) + "|" + txt
	e.seenC[key]++
	if n := e.seenC[key]; n > 1 {
		txt = fmt.Sprintf("%s #%d", txt, n)
	}
	// the justification table is keyed by the construct with its local names abstracted to their
	// types, so that renaming a variable does not orphan a justification
	nkey := e.w.FuncName(f) + "|\x00" + norm
	e.seenC[nkey]++
	if n := e.seenC[nkey]; n > 1 {
		norm = fmt.Sprintf("%s #%d", norm, n)
	}
	if e.norm == nil {
		e.norm = map[string]string{}
	}
	e.norm[e.w.FuncName(f)+"|"+txt] = norm
	return txt
}

func isIndexOrSlice(n ast.Node) bool {
	switch n.(type) {
	case *ast.IndexExpr, *ast.SliceExpr:
		return true
	}
	return false
}

func (e *oblEngine) record(kind string, f *ssa.Function, ins ssa.Instruction, construct string, ok bool, trivial bool, how string) {
	fn := e.w.FuncName(f)
	pos := e.w.Pos(ins.Pos())
	if kind == "IDX" {
		if e.r.idxLines == nil {
			e.r.idxLines = map[string]bool{}
		}
		e.r.idxLines[pos] = true
	}
	if !ok {
		nc := e.norm[fn+"|"+construct]
		if nc == "" {
			nc = construct
		}
		if why, has := justifications[kind+"|"+fn+"|"+nc]; has {
			e.used[kind+"|"+fn+"|"+nc] = true
			e.r.ok(e.rule+"."+kind, fn, construct, pos, "justification table: "+why)
			return
		}
		if os.Getenv("UPFCHECK_NORMKEYS") != "" {
			fmt.Fprintf(os.Stderr, "NORMKEY %s|%s|%s\n", kind, fn, nc)
		}
		e.r.bad(e.rule+"."+kind, fn, construct, pos, how)
		return
	}
	if trivial {
		e.r.trivial(e.rule+"."+kind, fn, construct, pos, how)
	} else {
		e.r.ok(e.rule+"."+kind, fn, construct, pos, how)
	}
}

// ---------- IDX

func (e *oblEngine) idx(f *ssa.Function) {
	w := e.w
	if syn := f.Syntax(); syn != nil {
		if e.r.idxFuncs == nil {
			e.r.idxFuncs = map[string][3]interface{}{}
		}
		p0, p1 := w.Fset.Position(syn.Pos()), w.Fset.Position(syn.End())
		e.r.idxFuncs[w.FuncName(f)] = [3]interface{}{w.Pos(syn.Pos())[:strings.LastIndex(w.Pos(syn.Pos()), ":")], p0.Line, p1.Line}
	}
	allInstrs(f, func(i ssa.Instruction) {
		switch x := i.(type) {
		case *ssa.IndexAddr:
			// pointer to array with constant index: checked by the compiler
			if p, ok := x.X.Type().Underlying().(*types.Pointer); ok {
				if arr, ok := p.Elem().Underlying().(*types.Array); ok {
					if k, isK := constInt(x.Index); isK && k >= 0 && k < arr.Len() {
						return
					}
					// variable index into a fixed array
					c := e.constructOf(f, x.Pos(), isIndexOrSlice, valueText(x.X)+"["+valueText(x.Index)+"]")
					ok2, why := w.proveArrayIndex(f, x, arr.Len())
					e.record("IDX", f, i, c, ok2, false, why)
					return
				}
			}
			c := e.constructOf(f, x.Pos(), isIndexOrSlice, valueText(x.X)+"["+valueText(x.Index)+"]")
			ok, why := w.prove(boundsGoal{fn: f, site: i, slice: x.X, index: x.Index}, libLenFacts, 0)
			if !ok {
				ok, why = e.liftIndexParam(f, i, x.X, x.Index, why)
			}
			e.record("IDX", f, i, c, ok, false, why)
		case *ssa.Index:
			if _, isStr := x.X.Type().Underlying().(*types.Basic); isStr {
				c := e.constructOf(f, x.Pos(), isIndexOrSlice, valueText(x.X)+"["+valueText(x.Index)+"]")
				ok, why := w.prove(boundsGoal{fn: f, site: i, slice: x.X, index: x.Index}, libLenFacts, 0)
				e.record("IDX", f, i, c, ok, false, why)
			}
		case *ssa.Slice:
			e.sliceObl(f, x)
		case *ssa.Call:
			// encoding/binary fixed-width accessors
			n := calleeName(x)
			need := int64(0)
			switch {
			case strings.HasSuffix(n, "ndian).Uint16") || strings.HasSuffix(n, "ndian).PutUint16"):
				need = 2
			case strings.HasSuffix(n, "ndian).Uint32") || strings.HasSuffix(n, "ndian).PutUint32"):
				need = 4
			case strings.HasSuffix(n, "ndian).Uint64") || strings.HasSuffix(n, "ndian).PutUint64"):
				need = 8
			}
			if need > 0 && strings.HasPrefix(n, "(encoding/binary.") {
				buf := x.Call.Args[1]
				c := e.constructOf(f, x.Pos(), func(n ast.Node) bool { _, ok := n.(*ast.CallExpr); return ok }, n+"("+valueText(buf)+")")
				ok, why := w.prove(boundsGoal{fn: f, site: i, slice: buf, minLen: need}, libLenFacts, 0)
				if !ok {
					ok, why = e.liftLenParam(f, i, buf, need, why)
				}
				e.record("IDX", f, i, c, ok, false, why)
			}
		}
	})
}

// proveArrayIndex: variable index into a fixed-size array (methods[method]).
func (w *World) proveArrayIndex(f *ssa.Function, x *ssa.IndexAddr, n int64) (bool, string) {
	// reuse the interval engine with a synthetic length: track R only
	r, c := rootOffset(x.Index)
	g := boundsGoal{fn: f, site: x, slice: x.X, index: x.Index}
	_ = g
	vals := w.valueSetAt(f, x, r)
	if vals.empty() {
		return true, "unreachable"
	}
	if vals.lo > -inf && vals.hi < inf && vals.lo+c >= 0 && vals.hi+c < n {
		return true, fmt.Sprintf("index ∈ %s, array length %d", vals, n)
	}
	return false, fmt.Sprintf("index %s ∈ %s is not confined to [0,%d)", valueText(x.Index), vals, n)
}

// valueSetAt: the possible values of integer SSA value v when control reaches site.
func (w *World) valueSetAt(f *ssa.Function, site ssa.Instruction, v ssa.Value) ival {
	in := map[*ssa.BasicBlock]ival{}
	has := map[*ssa.BasicBlock]bool{}
	start := topVal()
	if l, ok := structuralLower(v); ok {
		start.lo = l
	}
	if bits, signed, ok := widthOf(v.Type()); ok && !signed && bits < 63 {
		start.hi = (int64(1) << uint(bits)) - 1
	}
	in[f.Blocks[0]] = start
	has[f.Blocks[0]] = true
	work := []*ssa.BasicBlock{f.Blocks[0]}
	iter := map[*ssa.BasicBlock]int{}
	var defB *ssa.BasicBlock
	if ins, ok := v.(ssa.Instruction); ok {
		defB = ins.Block()
	}
	for len(work) > 0 {
		b := work[0]
		work = work[1:]
		s := in[b]
		if defB == b {
			s = start
		}
		for _, succ := range b.Succs {
			ns := s
			if x, op, y, ok := edgeFact(b, succ); ok {
				xr, xc := rootOffset(x)
				yr, yc := rootOffset(y)
				if xr == v {
					if k, isK := constInt(yr); isK {
						ns = ns.refine(op, k+yc-xc)
					}
				} else if yr == v {
					if k, isK := constInt(xr); isK {
						ns = ns.refine(flipOp(op), k+xc-yc)
					}
				}
			}
			if ns.empty() {
				continue
			}
			j := ns
			if has[succ] {
				j = joinVal(in[succ], ns)
			}
			iter[succ]++
			if iter[succ] > 12 {
				j = ival{lo: min64(j.lo, start.lo), hi: max64(j.hi, start.hi)}
				if has[succ] && j.lo == in[succ].lo && j.hi == in[succ].hi {
					continue
				}
			}
			if !has[succ] || j.lo != in[succ].lo || j.hi != in[succ].hi || len(j.set) != len(in[succ].set) {
				in[succ] = j
				has[succ] = true
				work = append(work, succ)
			}
		}
	}
	sb := site.Block()
	if !has[sb] {
		return ival{lo: 1, hi: 0}
	}
	return in[sb]
}

func (e *oblEngine) sliceObl(f *ssa.Function, x *ssa.Slice) {
	w := e.w
	// x[a:b]: need 0 ≤ a ≤ b ≤ len (cap for slices, but len is what the guards talk about)
	if al, ok := x.X.(*ssa.Alloc); ok {
		if p, ok := al.Type().Underlying().(*types.Pointer); ok {
			if arr, ok := p.Elem().Underlying().(*types.Array); ok {
				// array: constant bounds are checked by the compiler
				lowK, highK := true, true
				if x.Low != nil {
					_, lowK = constInt(x.Low)
				}
				if x.High != nil {
					_, highK = constInt(x.High)
				}
				if lowK && highK {
					return
				}
				_ = arr
			}
		}
	}
	if x.Low == nil && x.High == nil {
		return
	}
	c := e.constructOf(f, x.Pos(), isIndexOrSlice, valueText(x.X)+"[:]")
	okAll := true
	var whys []string
	if x.High != nil {
		// library post-condition: n of Read/ReadFrom on the same buffer
		if ok, why := readCountOf(x.High, x.X); ok {
			whys = append(whys, why)
		} else {
			ok, why := w.prove(boundsGoal{fn: f, site: x, slice: x.X, index: x.High, upperIncl: true}, libLenFacts, 0)
			if !ok {
				ok, why = e.liftIndexParam(f, x, x.X, x.High, why)
			}
			okAll = okAll && ok
			whys = append(whys, "high: "+why)
		}
	}
	if x.Low != nil {
		if x.High == nil {
			ok, why := w.prove(boundsGoal{fn: f, site: x, slice: x.X, index: x.Low, upperIncl: true}, libLenFacts, 0)
			okAll = okAll && ok
			whys = append(whys, "low: "+why)
		} else {
			// low ≤ high with both constant
			l, lk := constInt(x.Low)
			h, hk := constInt(x.High)
			if lk && hk {
				okAll = okAll && l >= 0 && l <= h
				whys = append(whys, fmt.Sprintf("low %d ≤ high %d", l, h))
			} else {
				okAll = false
				whys = append(whys, "low/high relation not decided")
			}
		}
	}
	e.record("IDX", f, x, c, okAll, false, strings.Join(whys, "; "))
}

// readCountOf: high is the byte count returned by Read/ReadFrom into the same buffer, used
// where the error was nil (0 ≤ n ≤ len(p) is the io.Reader contract).
func readCountOf(high ssa.Value, buf ssa.Value) (bool, string) {
	ex, ok := high.(*ssa.Extract)
	if !ok || ex.Index != 0 {
		return false, ""
	}
	c, ok := ex.Tuple.(*ssa.Call)
	if !ok {
		return false, ""
	}
	name := ""
	if c.Call.IsInvoke() {
		name = c.Call.Method.Name()
	} else if cal := staticCallee(c); cal != nil {
		name = cal.Name()
	}
	if name != "Read" && name != "ReadFrom" {
		return false, ""
	}
	var arg ssa.Value
	if c.Call.IsInvoke() {
		arg = c.Call.Args[0]
	} else if len(c.Call.Args) >= 2 {
		arg = c.Call.Args[1]
	}
	same := arg == buf
	if !same {
		// both are full slices of the same array / the same make
		if s1, ok := arg.(*ssa.Slice); ok {
			if s2, ok := buf.(*ssa.Slice); ok && s1.X == s2.X {
				same = true
			}
		}
	}
	if !same {
		return false, ""
	}
	return true, "io.Reader contract: 0 ≤ n ≤ len(p) for " + name + " into the same buffer"
}

// liftIndexParam: the index (or the slice) is a parameter / captured variable: prove the
// obligation at every call site inside the analysed set instead.
func (e *oblEngine) liftIndexParam(f *ssa.Function, site ssa.Instruction, slice, index ssa.Value, localWhy string) (bool, string) {
	w := e.w
	r, c := rootOffset(index)
	p, isParam := r.(*ssa.Parameter)
	if !isParam {
		return false, localWhy
	}
	pi := -1
	for i, fp := range f.Params {
		if fp == p {
			pi = i
		}
	}
	if pi < 0 {
		return false, localWhy
	}
	// is the index re-checked or modified inside f before the site? (only the plain parameter ± const is lifted)
	key := w.keyOf(slice)
	var sites []string
	n := 0
	for _, edge := range w.CG().callersOf(f) {
		if !e.funcs[edge.Caller] {
			continue
		}
		call, ok := edge.Site.(ssa.CallInstruction)
		if !ok {
			continue
		}
		args := call.Common().Args
		if call.Common().IsInvoke() {
			continue
		}
		if pi >= len(args) {
			return false, localWhy
		}
		n++
		// the slice at the call site: same captured cell, or the caller's argument for a slice parameter
		var callerSlice ssa.Value
		switch {
		case key.cell != nil:
			// a load of the same cell in the caller: synthesise by finding any load of it before the call
			callerSlice = loadOfCell(edge.Caller, key.cell)
		case key.reg != nil:
			if sp, ok := key.reg.(*ssa.Parameter); ok {
				for i, fp := range f.Params {
					if fp == sp && i < len(args) {
						callerSlice = args[i]
					}
				}
			}
		default:
			// a memory path rooted at the receiver / a parameter: single-writer field
			if lo, hi, why := w.lenFromDef(slice, libLenFacts, f, nil); lo == hi && lo < inf {
				k, isK := constInt(args[pi])
				if isK && k+c >= 0 && k+c < lo {
					sites = append(sites, fmt.Sprintf("%s passes %d (%s)", w.FuncName(edge.Caller), k, why))
					continue
				}
			}
		}
		if callerSlice == nil {
			return false, localWhy + "; call site in " + w.FuncName(edge.Caller) + " cannot be related to the slice"
		}
		idx := args[pi]
		goal := boundsGoal{fn: edge.Caller, site: edge.Site, slice: callerSlice, index: idx}
		if c != 0 {
			// index in callee is param + c: need param + c in range
			ok, why := w.proveWithOffset(goal, c)
			if !ok {
				return false, fmt.Sprintf("%s; at the call in %s (%s): %s", localWhy, w.FuncName(edge.Caller), w.Pos(edge.Site.Pos()), why)
			}
			sites = append(sites, w.FuncName(edge.Caller)+": "+why)
			continue
		}
		ok2, why := w.prove(goal, libLenFacts, 1)
		if !ok2 {
			return false, fmt.Sprintf("%s; at the call in %s (%s): %s", localWhy, w.FuncName(edge.Caller), w.Pos(edge.Site.Pos()), why)
		}
		sites = append(sites, w.FuncName(edge.Caller)+" "+w.Pos(edge.Site.Pos())+": "+why)
	}
	if n == 0 {
		return false, localWhy + "; no call site in the analysed set"
	}
	return true, "precondition on parameter " + p.Name() + " holds at every call site: " + strings.Join(sites, " | ")
}

func (w *World) proveWithOffset(g boundsGoal, c int64) (bool, string) {
	// prove (index + c) in range: wrap the index value conceptually by adjusting through rootOffset:
	// index = r + c0, so we need r + c0 + c. Reuse prove on a synthetic goal by exploiting that
	// prove works on rootOffset(index): emulate by checking both ends separately.
	r, c0 := rootOffset(g.index)
	if k, isK := constInt(r); isK {
		return w.prove(boundsGoal{fn: g.fn, site: g.site, slice: g.slice, minLen: k + c0 + c + 1}, libLenFacts, 1)
	}
	return false, "offset lifting not supported for non-constant arguments"
}

func loadOfCell(f *ssa.Function, cell ssa.Value) ssa.Value {
	var out ssa.Value
	allInstrs(f, func(i ssa.Instruction) {
		if u, ok := i.(*ssa.UnOp); ok && u.Op == token.MUL {
			if c := cellOf(u.X); c == cell || u.X == cell {
				if out == nil {
					out = u
				}
			}
		}
	})
	return out
}

// liftLenParam: a length requirement on a parameter slice is proved at the call sites.
func (e *oblEngine) liftLenParam(f *ssa.Function, site ssa.Instruction, buf ssa.Value, need int64, localWhy string) (bool, string) {
	w := e.w
	p, ok := stripConv(buf).(*ssa.Parameter)
	if !ok {
		if ct, isCT := buf.(*ssa.ChangeType); isCT {
			p, ok = ct.X.(*ssa.Parameter)
		}
		if !ok {
			return false, localWhy
		}
	}
	pi := -1
	for i, fp := range f.Params {
		if fp == p {
			pi = i
		}
	}
	var sites []string
	n := 0
	for _, edge := range w.CG().callersOf(f) {
		if !e.funcs[edge.Caller] {
			continue
		}
		call, ok := edge.Site.(ssa.CallInstruction)
		if !ok || call.Common().IsInvoke() || pi >= len(call.Common().Args) {
			continue
		}
		n++
		arg := call.Common().Args[pi]
		ok2, why := w.prove(boundsGoal{fn: edge.Caller, site: edge.Site, slice: arg, minLen: need}, libLenFacts, 1)
		if !ok2 {
			return false, fmt.Sprintf("%s; caller %s (%s) passes %s: %s", localWhy, w.FuncName(edge.Caller), w.Pos(edge.Site.Pos()), valueText(arg), why)
		}
		sites = append(sites, w.FuncName(edge.Caller))
	}
	if n == 0 {
		return false, localWhy
	}
	return true, fmt.Sprintf("len ≥ %d holds at every call site (%s)", need, strings.Join(sites, ", "))
}

// ---------- NIL

// nullableIEField: a field of type *ie.IE of a struct declared in go-pfcp/message: absent IEs are nil after Parse.
func nullableIEField(v ssa.Value) (string, bool) {
	u, ok := v.(*ssa.UnOp)
	if !ok || u.Op != token.MUL {
		return "", false
	}
	fa, ok := u.X.(*ssa.FieldAddr)
	if !ok {
		return "", false
	}
	fv := fieldVar(fa)
	if fv == nil || typeName(fv.Type()) != "*"+iePkg+".IE" {
		return "", false
	}
	if fv.Pkg() == nil || fv.Pkg().Path() != msgPkg {
		return "", false
	}
	return symOf(v).String(), true
}

// nullable repo fields (N3): field name → reason it can be nil on the receive path
var nullableRepoFields = map[string]string{
	"upf.ippool":     "assigned in NewUPF only under enableUeIPAlloc",
	"endpoint.IPNet": "set by parseNet only when the flow description has the from/to part",
}

func nullableRepoField(v ssa.Value) (string, bool) {
	u, ok := v.(*ssa.UnOp)
	if !ok || u.Op != token.MUL {
		return "", false
	}
	fa, ok := u.X.(*ssa.FieldAddr)
	if !ok {
		return "", false
	}
	fv := fieldVar(fa)
	if fv == nil {
		return "", false
	}
	k := rootTypeName(fa.X.Type()) + "." + fv.Name()
	if _, ok := nullableRepoFields[k]; ok {
		return symOf(v).String(), true
	}
	return "", false
}

// nonNilGuard: site is reachable only through an edge that establishes path != nil, where
// path is matched by provenance text (message structs and the upf object are not written on
// the receive path; checked separately).
func (w *World) nonNilGuard(f *ssa.Function, site ssa.Instruction, path string, same func(ssa.Value) bool) bool {
	return onlyVia(f, site, func(a, b *ssa.BasicBlock) bool {
		return nilnessEdge(a, b, func(x ssa.Value) bool {
			if same != nil && same(x) {
				return true
			}
			return path != "" && symOf(x).String() == path
		}, false)
	})
}

func (e *oblEngine) nilObls(f *ssa.Function) {
	w := e.w
	var checkRecv func(i ssa.Instruction, recv ssa.Value, what string)
	checkRecv = func(i ssa.Instruction, recv ssa.Value, what string) {
		recv0 := recv
		if ct, ok := recv.(*ssa.ChangeType); ok {
			recv0 = ct.X
		}
		if phi, ok := recv0.(*ssa.Phi); ok {
			// a merge of candidates: each one that is a plain (no presence bit) pointer map element is an obligation
			for _, ev := range phi.Edges {
				if lk, ok := ev.(*ssa.Lookup); ok && !lk.CommaOk {
					if _, isPtr := lk.Type().Underlying().(*types.Pointer); isPtr {
						if e.seenLookup == nil {
							e.seenLookup = map[*ssa.Lookup]bool{}
						}
						if e.seenLookup[lk] {
							continue
						}
						e.seenLookup[lk] = true
						c := e.constructOf(f, lk.Pos(), func(n ast.Node) bool { _, ok := n.(*ast.IndexExpr); return ok }, valueText(lk))
						g := w.nonNilGuard(f, i, "", func(x ssa.Value) bool { return x == ssa.Value(phi) || x == ssa.Value(lk) })
						how := "dominated by a nil check"
						if !g {
							if k, isK := constInt(lk.Index); isK {
								if okK, why := w.mapKeyAlwaysPresent(lk.X, k); okK {
									g, how = true, why
								}
							}
						}
						e.record("NIL", f, lk, c, g, false, ifelse(g, how, "element of "+valueText(lk.X)+" read without the presence bit is nil for an absent key; it flows into a value that is dereferenced ("+what+")"))
					}
				}
			}
			return
		}
		// N1
		if path, ok := nullableIEField(recv0); ok {
			c := e.constructOf(f, i.Pos(), func(n ast.Node) bool {
				switch n.(type) {
				case *ast.CallExpr, *ast.SelectorExpr:
					return true
				}
				return false
			}, what)
			g := w.nonNilGuard(f, i, path, nil)
			e.record("NIL", f, i, c, g, false, ifelse(g, "dominated by "+path+" != nil", "IE field "+path+" is nil when the element is absent from the message; it is dereferenced without a nil check: the agent panics on such a datagram"))
			return
		}
		// N3
		if path, ok := nullableRepoField(recv0); ok {
			c := e.constructOf(f, i.Pos(), func(n ast.Node) bool {
				switch n.(type) {
				case *ast.CallExpr, *ast.SelectorExpr:
					return true
				}
				return false
			}, what)
			g := w.nonNilGuard(f, i, path, nil)
			how := "dominated by " + path + " != nil"
			if !g && keyOfRepoField(recv0) == "endpoint.IPNet" {
				// post-condition of the tokenizer: a rule returned without error has both networks
				if okP, why := w.flowDescPostcondition(); okP && strings.Contains(path, "parseFlowDesc#0(") {
					if call := producerCall(recv0); call != nil {
						if ev := errResult(call); ev != nil && errGuarded(f, call, ev, func(j ssa.Instruction) bool { return j == i }) {
							g, how = true, "parseFlowDesc returned err == nil, and "+why
						}
					}
				}
			}
			e.record("NIL", f, i, c, g, false, ifelse(g, how, path+" can be nil ("+nullableRepoFields[keyOfRepoField(recv0)]+") and is used without a nil check"))
			return
		}
		// N6: pointer-typed element of a map read without the presence bit
		if lk, ok := recv0.(*ssa.Lookup); ok && !lk.CommaOk {
			if _, isMap := lk.X.Type().Underlying().(*types.Map); isMap {
				if _, isPtr := lk.Type().Underlying().(*types.Pointer); isPtr {
					c := e.constructOf(f, i.Pos(), func(n ast.Node) bool {
						switch n.(type) {
						case *ast.CallExpr, *ast.SelectorExpr:
							return true
						}
						return false
					}, what)
					g := w.nonNilGuard(f, i, "", func(x ssa.Value) bool { return x == ssa.Value(lk) })
					e.record("NIL", f, i, c, g, false, ifelse(g, "dominated by a nil check of the element", "element of "+valueText(lk.X)+" read without the presence bit is nil for an absent key and is dereferenced"))
					return
				}
			}
		}
		// N2: result of a call that also returns an error
		if ex, ok := recv0.(*ssa.Extract); ok {
			if call, ok := ex.Tuple.(*ssa.Call); ok {
				if ev := errResult(call); ev != nil && ev != ssa.Value(ex) {
					_, isPtr := ex.Type().Underlying().(*types.Pointer)
					_, isIface := ex.Type().Underlying().(*types.Interface)
					if isPtr || isIface {
						c := e.constructOf(f, i.Pos(), func(n ast.Node) bool {
							switch n.(type) {
							case *ast.CallExpr, *ast.SelectorExpr:
								return true
							}
							return false
						}, what)
						g := errGuarded(f, call, ev, func(j ssa.Instruction) bool { return j == i })
						e.record("NIL", f, i, c, g, false, ifelse(g, "used only where the error of "+shortCallee(calleeName(call))+" was nil", "result of "+shortCallee(calleeName(call))+" is used although its error may be non-nil (the result is nil then)"))
					}
				}
			}
			return
		}
		// parameter: nullable if some caller in the set passes a nullable value
		if p, ok := recv0.(*ssa.Parameter); ok {
			if _, isPtr := p.Type().Underlying().(*types.Pointer); !isPtr {
				return
			}
			if f.Signature.Recv() != nil && len(f.Params) > 0 && p == f.Params[0] {
				return // a nil receiver is the caller's obligation (checked at the call site)
			}
			if src, nullable := e.paramNullable(f, p, 0); nullable {
				c := e.constructOf(f, i.Pos(), func(n ast.Node) bool {
					switch n.(type) {
					case *ast.CallExpr, *ast.SelectorExpr:
						return true
					}
					return false
				}, what)
				g := w.nonNilGuard(f, i, "", func(x ssa.Value) bool { return x == ssa.Value(p) })
				e.record("NIL", f, i, c, g, false, ifelse(g, "dominated by "+p.Name()+" != nil", "parameter "+p.Name()+" can be nil ("+src+") and is dereferenced without a check"))
			}
		}
	}
	allInstrs(f, func(i ssa.Instruction) {
		switch x := i.(type) {
		case ssa.CallInstruction:
			cc := x.Common()
			if cc.IsInvoke() {
				// N5: a method call on an error value that a call returned: nil on the success path
				if isErrorType(cc.Value.Type()) {
					if ex, ok := cc.Value.(*ssa.Extract); ok {
						if _, isCall := ex.Tuple.(*ssa.Call); isCall {
							c := e.constructOf(f, i.Pos(), func(n ast.Node) bool { _, ok := n.(*ast.CallExpr); return ok }, valueText(cc.Value)+"."+cc.Method.Name()+"()")
							g := onlyVia(f, i, func(a, b *ssa.BasicBlock) bool {
								return nilnessEdge(a, b, func(v ssa.Value) bool { return v == cc.Value }, false)
							})
							e.record("NIL", f, i, c, g, false, ifelse(g, "only where the error is non-nil", "the error value is nil when the call succeeded; ."+cc.Method.Name()+"() is reached on a path that did not establish err != nil (e.g. `err != nil || other`): nil dereference"))
							return
						}
					}
				}
				checkRecv(i, cc.Value, valueText(cc.Value)+"."+cc.Method.Name()+"()")
				return
			}
			callee := staticCallee(x)
			if callee == nil || callee.Signature.Recv() == nil || len(cc.Args) == 0 {
				return
			}
			if _, isPtr := callee.Signature.Recv().Type().Underlying().(*types.Pointer); !isPtr {
				return
			}
			checkRecv(i, cc.Args[0], valueText(cc.Args[0])+"."+callee.Name()+"()")
		case *ssa.FieldAddr:
			if _, isPtr := x.X.Type().Underlying().(*types.Pointer); isPtr {
				checkRecv(i, x.X, valueText(x))
			}
		}
	})
}

func keyOfRepoField(v ssa.Value) string {
	u := v.(*ssa.UnOp)
	fa := u.X.(*ssa.FieldAddr)
	return rootTypeName(fa.X.Type()) + "." + fieldVar(fa).Name()
}

func ifelse(c bool, a, b string) string {
	if c {
		return a
	}
	return b
}

// paramNullable: some call site in the analysed set passes a value that may be nil.
func (e *oblEngine) paramNullable(f *ssa.Function, p *ssa.Parameter, depth int) (string, bool) {
	if depth > 3 {
		return "", false
	}
	pi := -1
	for i, fp := range f.Params {
		if fp == p {
			pi = i
		}
	}
	for _, edge := range e.w.CG().callersOf(f) {
		if !e.funcs[edge.Caller] {
			continue
		}
		call, ok := edge.Site.(ssa.CallInstruction)
		if !ok || call.Common().IsInvoke() || pi >= len(call.Common().Args) {
			continue
		}
		arg := call.Common().Args[pi]
		if path, ok := nullableIEField(arg); ok {
			if !e.w.nonNilGuard(edge.Caller, edge.Site, path, nil) {
				return path + " passed by " + e.w.FuncName(edge.Caller), true
			}
		}
		if path, ok := nullableRepoField(arg); ok {
			if !e.w.nonNilGuard(edge.Caller, edge.Site, path, nil) {
				return path + " passed by " + e.w.FuncName(edge.Caller), true
			}
		}
		if isNilConst(arg) {
			return "nil passed by " + e.w.FuncName(edge.Caller), true
		}
		if ap, ok := arg.(*ssa.Parameter); ok {
			if src, n := e.paramNullable(edge.Caller, ap, depth+1); n {
				if !e.w.nonNilGuard(edge.Caller, edge.Site, "", func(x ssa.Value) bool { return x == ssa.Value(ap) }) {
					return src, true
				}
			}
		}
	}
	return "", false
}

// ---------- TA

func (e *oblEngine) taObls(f *ssa.Function) {
	w := e.w
	allInstrs(f, func(i ssa.Instruction) {
		ta, ok := i.(*ssa.TypeAssert)
		if !ok || ta.CommaOk {
			return
		}
		c := e.constructOf(f, ta.Pos(), func(n ast.Node) bool { _, ok := n.(*ast.TypeAssertExpr); return ok }, valueText(ta.X)+".("+ta.AssertedType.String()+")")
		// (a) inside a type switch / after a comma-ok assertion of the same value and type
		guard := onlyVia(f, ta, func(a, b *ssa.BasicBlock) bool {
			v, truth, ok := boolEdge(a, b)
			if !ok || !truth {
				return false
			}
			ex, isEx := v.(*ssa.Extract)
			if !isEx || ex.Index != 1 {
				return false
			}
			t2, isTA := ex.Tuple.(*ssa.TypeAssert)
			return isTA && t2.X == ta.X && types.Identical(t2.AssertedType, ta.AssertedType)
		})
		if guard {
			e.record("TA", f, i, c, true, false, "dominated by a successful comma-ok assertion of the same value and type (type switch)")
			return
		}
		// (b) who-writes: value loaded from a container whose every writer stores the asserted type
		if ok2, why := w.containerHolds(ta); ok2 {
			e.record("TA", f, i, c, true, false, why)
			return
		}
		// (c) library fact: LocalAddr/RemoteAddr of a UDP socket
		if call, ok := ta.X.(*ssa.Call); ok && call.Call.IsInvoke() && (call.Call.Method.Name() == "LocalAddr" || call.Call.Method.Name() == "RemoteAddr") && ta.AssertedType.String() == "*net.UDPAddr" {
			if ok3, why := w.isUDPConn(f, call.Call.Value); ok3 {
				e.record("TA", f, i, c, true, false, why)
				return
			}
		}
		// (d) sync.Pool: the value comes from the pool's New function or from a Put; all of them hand in the asserted type
		if call, ok := ta.X.(*ssa.Call); ok && calleeName(call) == "(*sync.Pool).Get" {
			if ok4, why := w.poolHolds(call.Call.Args[0], ta.AssertedType); ok4 {
				e.record("TA", f, i, c, true, false, why)
				return
			}
		}
		e.record("TA", f, i, c, false, false, "type assertion without comma-ok on a value whose dynamic type is not established ("+symOf(ta.X).String()+"): a value of another type panics")
	})
}

// poolHolds: pool is the address of a package-level sync.Pool whose New function returns the asserted
// type on every return, and every Put into that pool in the repo passes a value of that static type.
func (w *World) poolHolds(pool ssa.Value, want types.Type) (bool, string) {
	g, ok := pool.(*ssa.Global)
	if !ok || g.Pkg == nil {
		return false, ""
	}
	okNew := false
	if init := g.Pkg.Func("init"); init != nil {
		allInstrs(init, func(i ssa.Instruction) {
			st, ok := i.(*ssa.Store)
			if !ok {
				return
			}
			fa, ok := st.Addr.(*ssa.FieldAddr)
			if !ok || fa.X != ssa.Value(g) || fieldVar(fa) == nil || fieldVar(fa).Name() != "New" {
				return
			}
			nf := closureOf(st.Val)
			if nf == nil || nf.Blocks == nil {
				return
			}
			all := true
			for _, ret := range returnsOf(nf) {
				var inner types.Type
				switch x := res(ret, 0).(type) {
				case *ssa.MakeInterface:
					inner = x.X.Type()
				case *ssa.ChangeInterface:
					inner = x.X.Type()
				}
				if inner == nil || !(types.Identical(inner, want) || types.AssignableTo(inner, want)) {
					all = false
				}
			}
			okNew = all
		})
	}
	if !okNew {
		return false, ""
	}
	for _, f := range w.Funcs {
		bad := false
		allInstrs(f, func(i ssa.Instruction) {
			c, ok := i.(ssa.CallInstruction)
			if !ok || calleeName(c) != "(*sync.Pool).Put" || c.Common().Args[0] != ssa.Value(g) {
				return
			}
			v := c.Common().Args[1]
			switch x := v.(type) {
			case *ssa.MakeInterface:
				if types.Identical(x.X.Type(), want) || types.AssignableTo(x.X.Type(), want) {
					return
				}
			case *ssa.ChangeInterface:
				if types.Identical(x.X.Type(), want) || types.AssignableTo(x.X.Type(), want) {
					return
				}
			default:
				if types.Identical(v.Type(), want) {
					return
				}
			}
			bad = true
		})
		if bad {
			return false, ""
		}
	}
	return true, "sync.Pool " + g.Name() + ": New and every Put hand in a " + want.String()
}

// containerHolds: the asserted value comes out of a sync.Map field / golang-set field and
// every Store/Add into that field in the repo stores the asserted static type.
func (w *World) containerHolds(ta *ssa.TypeAssert) (bool, string) {
	src := ta.X
	var field string
	var kind string
	switch x := src.(type) {
	case *ssa.Extract:
		if c, ok := x.Tuple.(*ssa.Call); ok && (calleeName(c) == "(*sync.Map).Load" || calleeName(c) == "(*sync.Map).LoadAndDelete") && x.Index == 0 {
			field = strings.TrimPrefix(symOf(c.Call.Args[0]).String(), "&")
			kind = "syncmap"
		}
	case *ssa.Call:
		if x.Call.IsInvoke() && x.Call.Method.Name() == "Pop" {
			field = symOf(x.Call.Value).String()
			kind = "set"
		}
	case *ssa.Parameter:
		// callback of sync.Map.Range: value parameter
		fn := x.Parent()
		if fn.Parent() != nil && len(fn.Params) == 2 && x == fn.Params[1] {
			allInstrs(fn.Parent(), func(i ssa.Instruction) {
				if c, ok := i.(*ssa.Call); ok && calleeName(c) == "(*sync.Map).Range" {
					if closureOf(c.Call.Args[1]) == fn {
						field = strings.TrimPrefix(symOf(c.Call.Args[0]).String(), "&")
						kind = "syncmap"
					}
				}
			})
		}
	}
	if field == "" {
		return false, ""
	}
	// strip the root variable differences: compare by the last two components
	short := field
	if i := strings.LastIndex(short, "."); i >= 0 {
		if j := strings.LastIndex(short[:i], "."); j >= 0 {
			short = short[j+1:]
		}
	}
	writers, bad := 0, ""
	for _, f := range w.Funcs {
		allInstrs(f, func(i ssa.Instruction) {
			c, ok := i.(*ssa.Call)
			if !ok {
				return
			}
			var stored ssa.Value
			switch kind {
			case "syncmap":
				if n := calleeName(c); n == "(*sync.Map).Store" || n == "(*sync.Map).LoadOrStore" || n == "(*sync.Map).Swap" {
					if strings.HasSuffix(strings.TrimPrefix(symOf(c.Call.Args[0]).String(), "&"), short) {
						stored = c.Call.Args[2]
					}
				}
			case "set":
				if c.Call.IsInvoke() && c.Call.Method.Name() == "Add" && strings.HasSuffix(symOf(c.Call.Value).String(), short) {
					stored = c.Call.Args[0]
				}
			}
			if stored == nil {
				return
			}
			writers++
			mi, isMI := stored.(*ssa.MakeInterface)
			if !isMI || !types.Identical(mi.X.Type(), ta.AssertedType) {
				t := "?"
				if isMI {
					t = mi.X.Type().String()
				}
				bad = fmt.Sprintf("%s stores a %s", w.FuncName(f), t)
			}
		})
	}
	if writers == 0 || bad != "" {
		return false, ""
	}
	return true, fmt.Sprintf("who-writes: all %d writers of %s store %s", writers, short, ta.AssertedType.String())
}

// isUDPConn: the connection value was produced by a Dial/ListenPacket with network "udp".
func (w *World) isUDPConn(f *ssa.Function, conn ssa.Value) (bool, string) {
	s := strings.ReplaceAll(symOf(conn).String(), "#0(", "(")
	if strings.Contains(s, `Dial("udp"`) || strings.Contains(s, `ListenPacket("udp"`) {
		return true, "library fact: a socket dialled with network \"udp\" reports *net.UDPAddr addresses"
	}
	// the PFCPConn's embedded Conn: its single writer is NewPFCPConn with reuse.Dial("udp", …)
	if strings.HasSuffix(s, "PFCPConn.Conn") {
		okAll, n := true, 0
		for _, g := range w.Funcs {
			for _, st := range fieldStores(g, "PFCPConn")["Conn"] {
				n++
				if !strings.Contains(strings.ReplaceAll(symOf(st.Val).String(), "#0(", "("), `Dial("udp"`) {
					okAll = false
				}
			}
		}
		if okAll && n > 0 {
			return true, fmt.Sprintf("who-writes: PFCPConn.Conn has %d writer(s), all reuse.Dial(\"udp\", …); such sockets report *net.UDPAddr", n)
		}
	}
	return false, ""
}

// ---------- EXIT

var levelCallees = map[string]bool{
	"(*go.uber.org/zap.SugaredLogger).Log": true, "(*go.uber.org/zap.SugaredLogger).Logf": true, "(*go.uber.org/zap.SugaredLogger).Logln": true, "(*go.uber.org/zap.SugaredLogger).Logw": true,
	"(*go.uber.org/zap.Logger).Log": true,
}

var exitCallees = map[string]bool{
	"os.Exit": true, "builtin.panic": true, "log.Fatal": true, "log.Fatalf": true, "log.Fatalln": true, "log.Panic": true, "log.Panicf": true, "log.Panicln": true,
	"(*go.uber.org/zap.SugaredLogger).Fatal": true, "(*go.uber.org/zap.SugaredLogger).Fatalf": true, "(*go.uber.org/zap.SugaredLogger).Fatalln": true, "(*go.uber.org/zap.SugaredLogger).Fatalw": true,
	"(*go.uber.org/zap.SugaredLogger).Panic": true, "(*go.uber.org/zap.SugaredLogger).Panicf": true, "(*go.uber.org/zap.SugaredLogger).Panicln": true, "(*go.uber.org/zap.SugaredLogger).Panicw": true,
	"(*go.uber.org/zap.SugaredLogger).DPanic": true, "(*go.uber.org/zap.SugaredLogger).DPanicf": true, "(*go.uber.org/zap.SugaredLogger).DPanicln": true,
	"(*go.uber.org/zap.Logger).Fatal": true, "(*go.uber.org/zap.Logger).Panic": true,
	"runtime.Goexit": true,
}

func (e *oblEngine) exitObls(f *ssa.Function) {
	allInstrs(f, func(i ssa.Instruction) {
		switch x := i.(type) {
		case *ssa.Panic:
			if !x.Pos().IsValid() {
				return // synthetic (blocking select with no matching case)
			}
			c := e.constructOf(f, x.Pos(), func(n ast.Node) bool { _, ok := n.(*ast.CallExpr); return ok }, "panic")
			e.record("EXIT", f, i, c, false, false, "explicit panic on the receive path")
		case ssa.CallInstruction:
			n := calleeName(x)
			if levelCallees[n] {
				// zap's Log*(level, …): a level that is not a constant below DPanic can be Panic (panics) or
				// Fatal (os.Exit) — e.g. the configured log level handed on as the level of a message
				args := x.Common().Args
				if len(args) >= 2 {
					if k, isK := constInt(args[1]); !isK || k >= 3 {
						c := e.constructOf(f, x.Pos(), func(n ast.Node) bool { _, ok := n.(*ast.CallExpr); return ok }, n)
						e.record("EXIT", f, i, c, false, false, n+" with a level that is not a constant below DPanic: at level panic zap panics, at level fatal it ends the process")
					}
				}
				return
			}
			if !exitCallees[n] {
				return
			}
			c := e.constructOf(f, x.Pos(), func(n ast.Node) bool { _, ok := n.(*ast.CallExpr); return ok }, n)
			e.record("EXIT", f, i, c, false, false, n+" on the receive path terminates the agent")
		}
	})
}

// ---------- DIV

func (e *oblEngine) divObls(f *ssa.Function) {
	allInstrs(f, func(i ssa.Instruction) {
		bo, ok := i.(*ssa.BinOp)
		if !ok || (bo.Op != token.QUO && bo.Op != token.REM) {
			return
		}
		if bt, ok := bo.Type().Underlying().(*types.Basic); !ok || bt.Info()&types.IsInteger == 0 {
			return
		}
		if k, isK := constInt(bo.Y); isK {
			if k != 0 {
				return
			}
		}
		c := e.constructOf(f, bo.Pos(), func(n ast.Node) bool { _, ok := n.(*ast.BinaryExpr); return ok }, valueText(bo))
		vals := e.w.valueSetAt(f, i, bo.Y)
		ok2 := vals.lo > 0 || vals.hi < 0 || (vals.set != nil && !vals.set[0])
		e.record("DIV", f, i, c, ok2, false, ifelse(ok2, "divisor ∈ "+vals.String(), "integer division by a value that may be zero"))
	})
}

// ---------- BLK (only on the synchronous tree)

func (e *oblEngine) blkObls(f *ssa.Function) {
	w := e.w
	allInstrs(f, func(i ssa.Instruction) {
		switch x := i.(type) {
		case *ssa.Send:
			c := e.constructOf(f, x.Pos(), func(n ast.Node) bool { _, ok := n.(*ast.SendStmt); return ok }, valueText(x.Chan)+" <- ")
			e.record("BLK", f, i, c, false, false, "plain channel send in the receive loop's synchronous call tree: it blocks for ever once the channel is full or has no receiver, the association's reader is then wedged")
		case *ssa.Select:
			if !x.Blocking {
				return
			}
			c := e.constructOf(f, x.Pos(), func(n ast.Node) bool { _, ok := n.(*ast.SelectStmt); return ok }, "select")
			// bounded if one case is a timer / After / Done channel
			bounded := false
			for _, st := range x.States {
				s := symOf(st.Chan).String()
				if strings.Contains(s, "time.After") || strings.Contains(s, "time.NewTimer") || strings.Contains(s, ".Done()") || strings.Contains(s, "time.Ticker") {
					bounded = true
				}
			}
			e.record("BLK", f, i, c, bounded, false, ifelse(bounded, "select has a timer/Done case", "blocking select without a timeout in the receive loop's synchronous call tree"))
		case *ssa.UnOp:
			if x.Op == token.ARROW {
				c := e.constructOf(f, x.Pos(), func(n ast.Node) bool { _, ok := n.(*ast.UnaryExpr); return ok }, "<-"+valueText(x.X))
				e.record("BLK", f, i, c, false, false, "blocking channel receive in the receive loop's synchronous call tree")
			}
		case *ssa.Range:
			if _, isChan := x.X.Type().Underlying().(*types.Chan); isChan {
				c := e.constructOf(f, x.Pos(), func(n ast.Node) bool { _, ok := n.(*ast.RangeStmt); return ok }, "range "+valueText(x.X))
				e.record("BLK", f, i, c, false, false, "range over a channel in the receive loop's synchronous call tree")
			}
		case ssa.CallInstruction:
			n := calleeName(x)
			if n == "(*sync.WaitGroup).Wait" || n == "(*sync.Cond).Wait" || n == "time.Sleep" {
				c := e.constructOf(f, x.Pos(), func(n ast.Node) bool { _, ok := n.(*ast.CallExpr); return ok }, n)
				e.record("BLK", f, i, c, false, false, n+" in the receive loop's synchronous call tree")
			}
		}
	})
	_ = w
}

func sortedFuncs(w *World, m map[*ssa.Function]bool) []*ssa.Function {
	var out []*ssa.Function
	for f := range m {
		if w.isRepoFunc(f) {
			out = append(out, f)
		}
	}
	sort.Slice(out, func(i, j int) bool { return w.FuncName(out[i]) < w.FuncName(out[j]) })
	return out
}

// producerCall: the call whose result the (possibly nested) field load is taken from.
func producerCall(v ssa.Value) *ssa.Call {
	for i := 0; i < 8; i++ {
		switch x := v.(type) {
		case *ssa.UnOp:
			v = x.X
		case *ssa.FieldAddr:
			v = x.X
		case *ssa.Field:
			v = x.X
		case *ssa.Extract:
			c, _ := x.Tuple.(*ssa.Call)
			return c
		case *ssa.Call:
			return x
		default:
			return nil
		}
	}
	return nil
}

// flowDescPostcondition: every return of parseFlowDesc with a nil error is reachable only through
// edges that establish ipf.src.IPNet != nil and ipf.dst.IPNet != nil.
func (w *World) flowDescPostcondition() (bool, string) {
	f := w.FnOpt("pfcpiface.parseFlowDesc")
	if f == nil {
		return false, ""
	}
	for _, ret := range returnsOf(f) {
		if !isNilConst(res(ret, 1)) {
			continue
		}
		for _, side := range []string{"src", "dst"} {
			side := side
			g := onlyVia(f, ret, func(a, b *ssa.BasicBlock) bool {
				return nilnessEdge(a, b, func(x ssa.Value) bool {
					s := symOf(x).String()
					return strings.HasSuffix(s, "."+side+".IPNet")
				}, false)
			})
			if !g {
				return false, ""
			}
		}
	}
	return true, "parseFlowDesc succeeds only with both networks set (src.IPNet != nil and dst.IPNet != nil on every success return)"
}

// mapKeyAlwaysPresent: m is a load of a struct field holding a map. The field is assigned in exactly
// one function (the initialiser), nothing else adds to or deletes from the map, and every return of
// the initialiser is reachable only through "key k was found" or through a store of a non-nil value
// under key k.
func (w *World) mapKeyAlwaysPresent(m ssa.Value, k int64) (bool, string) {
	u, ok := m.(*ssa.UnOp)
	if !ok {
		return false, ""
	}
	fa, ok := u.X.(*ssa.FieldAddr)
	if !ok || fieldVar(fa) == nil {
		return false, ""
	}
	fld := fieldVar(fa)
	isFld := func(v ssa.Value) bool {
		uu, ok := v.(*ssa.UnOp)
		if !ok {
			return false
		}
		f2, ok := uu.X.(*ssa.FieldAddr)
		return ok && fieldVar(f2) == fld
	}
	// the function that assigns the map field is the one that has to establish the key; any other
	// writer may only add entries (a constant key other than k, or a value that cannot be nil)
	var init *ssa.Function
	okAll := true
	for _, f := range w.Funcs {
		if strings.HasPrefix(w.FuncName(f), "test/") {
			continue
		}
		f := f
		allInstrs(f, func(i ssa.Instruction) {
			if x, ok := i.(*ssa.Store); ok {
				if f2, ok := x.Addr.(*ssa.FieldAddr); ok && fieldVar(f2) == fld {
					if init != nil && init != f {
						okAll = false
					}
					init = f
				}
			}
		})
	}
	for _, f := range w.Funcs {
		if strings.HasPrefix(w.FuncName(f), "test/") || f == init {
			continue
		}
		allInstrs(f, func(i ssa.Instruction) {
			switch x := i.(type) {
			case *ssa.MapUpdate:
				if !isFld(x.Map) {
					return
				}
				if kk, isK := constInt(x.Key); isK && kk != k {
					return
				}
				switch x.Value.(type) {
				case *ssa.Alloc, *ssa.MakeInterface, *ssa.MakeMap, *ssa.MakeSlice, *ssa.MakeChan, *ssa.MakeClosure:
					return
				}
				okAll = false
			case *ssa.Call:
				if b, isB := x.Call.Value.(*ssa.Builtin); isB && (b.Name() == "delete" || b.Name() == "clear") && len(x.Call.Args) > 0 && isFld(x.Call.Args[0]) {
					okAll = false
				}
			}
		})
	}
	if init != nil {
		allInstrs(init, func(i ssa.Instruction) {
			if x, ok := i.(*ssa.Call); ok {
				if b, isB := x.Call.Value.(*ssa.Builtin); isB && (b.Name() == "delete" || b.Name() == "clear") && len(x.Call.Args) > 0 && isFld(x.Call.Args[0]) {
					okAll = false
				}
			}
		})
	}
	if init == nil || !okAll {
		return false, ""
	}
	// inside the initialising function the table may be assembled in a local map that is stored into the field
	// on every path to the return
	isTab := func(v ssa.Value) bool {
		if isFld(v) {
			return true
		}
		mm, ok := v.(*ssa.MakeMap)
		if !ok || mm.Parent() != init {
			return false
		}
		for _, ref := range *mm.Referrers() {
			if st, ok := ref.(*ssa.Store); ok && st.Val == ssa.Value(mm) {
				if f2, ok := st.Addr.(*ssa.FieldAddr); ok && fieldVar(f2) == fld {
					return mustPass(init, nil, isReturn, func(i ssa.Instruction) bool { return i == ssa.Instruction(st) }) == nil
				}
			}
		}
		return false
	}
	for _, ret := range returnsOf(init) {
		// paths to the return that neither find k nor store k
		hit := reach(init, nil, func(i ssa.Instruction) bool { return i == ssa.Instruction(ret) }, func(i ssa.Instruction) bool {
			mu, ok := i.(*ssa.MapUpdate)
			if !ok || !isTab(mu.Map) {
				return false
			}
			kk, isK := constInt(mu.Key)
			return isK && kk == k && !isNilConst(mu.Value)
		}, func(a, b *ssa.BasicBlock) bool {
			// table[k] != nil
			if x, op, y, ok := edgeFact(a, b); ok && op == token.NEQ && isNilConst(y) {
				if lk, isLk := x.(*ssa.Lookup); isLk && !lk.CommaOk && isTab(lk.X) {
					if kk, isK := constInt(lk.Index); isK && kk == k {
						return true
					}
				}
			}
			v, truth, ok := boolEdge(a, b)
			if !ok || !truth {
				return false
			}
			ex, isEx := v.(*ssa.Extract)
			if !isEx || ex.Index != 1 {
				return false
			}
			lk, isLk := ex.Tuple.(*ssa.Lookup)
			if !isLk || !isTab(lk.X) {
				return false
			}
			kk, isK := constInt(lk.Index)
			return isK && kk == k
		})
		if hit != nil {
			return false, ""
		}
	}
	return true, fmt.Sprintf("%s guarantees key %d: every return is behind 'key found' or a store under that key, and nothing else writes or deletes the map", w.FuncName(init), k)
}

// ---------- NARROW (text parsers only)
//
// A conversion to a narrower or differently signed integer type inside the flow-description
// tokenizer silently changes a number the text spelled out (65616 → 80, 200 → -56): the filter then
// differs from the one written. The operand must be the result of strconv.ParseUint with a constant
// bitSize that fits the target, a constant, or a value of a type that already fits.
func (e *oblEngine) narrowObls(f *ssa.Function) {
	allInstrs(f, func(i ssa.Instruction) {
		cv, ok := i.(*ssa.Convert)
		if !ok {
			return
		}
		tb, ok := cv.Type().Underlying().(*types.Basic)
		if !ok || tb.Info()&types.IsInteger == 0 {
			return
		}
		sb, ok := cv.X.Type().Underlying().(*types.Basic)
		if !ok || sb.Info()&types.IsInteger == 0 {
			return
		}
		tw, _ := goWidth(cv.Type())
		sw, _ := goWidth(cv.X.Type())
		tUns, sUns := tb.Info()&types.IsUnsigned != 0, sb.Info()&types.IsUnsigned != 0
		fits := (sUns == tUns && sw <= tw) || (sUns && !tUns && sw < tw)
		if fits {
			return
		}
		if _, isK := constInt(cv.X); isK {
			return
		}
		c := e.constructOf(f, cv.Pos(), func(n ast.Node) bool { _, ok := n.(*ast.CallExpr); return ok }, cv.Type().String()+"("+valueText(cv.X)+")")
		good, how := false, ""
		if ex, ok := cv.X.(*ssa.Extract); ok && ex.Index == 0 {
			if call, ok := ex.Tuple.(*ssa.Call); ok && calleeName(call) == "strconv.ParseUint" && tUns {
				if bits, isK := constInt(call.Call.Args[2]); isK && bits > 0 && bits <= tw {
					if ev := errResult(call); ev != nil && errGuarded(f, call, ev, func(j ssa.Instruction) bool { return j == ssa.Instruction(cv) }) {
						good, how = true, fmt.Sprintf("ParseUint(…, %d) succeeded: the value fits %s", bits, cv.Type())
					}
				}
			}
		}
		e.record("NARROW", f, cv, c, good, false, ifelse(good, how, fmt.Sprintf("a %s is converted to %s without a bound that fits: a number in the text that is out of range wraps around instead of being refused (the filter differs from the one written)", cv.X.Type(), cv.Type())))
	})
}

// ---------- WRAP: loop counters of a narrow integer type that can wrap past the loop bound
//
// `for i := lo; i <= hi; i++` with i of a fixed-width type narrower than 64 bits never ends when hi can
// be the largest value of the type (the increment wraps and the test stays true); the mirror image is
// `for i := hi; i >= lo; i--` on an unsigned type with lo == 0. The obligation is on the loop test; it
// is discharged when the bound is provably away from the limit of the type (a constant, a value that
// was widened from a narrower type, a dominating guard).
func (e *oblEngine) wrapObls(f *ssa.Function) {
	for _, b := range f.Blocks {
		ifi := blockIf(b)
		if ifi == nil {
			continue
		}
		cmp, ok := ifi.Cond.(*ssa.BinOp)
		if !ok {
			continue
		}
		for _, side := range []int{0, 1} {
			iv, bound := cmp.X, cmp.Y
			op := cmp.Op
			if side == 1 {
				iv, bound = cmp.Y, cmp.X
				op = flipOp(op)
			}
			phi, ok := iv.(*ssa.Phi)
			if !ok || phi.Block() != b {
				continue
			}
			bits, signed, okW := widthOf(phi.Type())
			if !okW || bits >= 64 || bits < 8 {
				continue
			}
			// the φ is advanced by a constant step around the loop
			step := int64(0)
			for _, ed := range phi.Edges {
				if bo, isB := ed.(*ssa.BinOp); isB && (bo.Op == token.ADD || bo.Op == token.SUB) && bo.X == ssa.Value(phi) {
					if k, isK := constInt(bo.Y); isK {
						if bo.Op == token.SUB {
							k = -k
						}
						step = k
					}
				}
			}
			if step == 0 {
				continue
			}
			var limit int64
			var need string
			switch {
			case op == token.LEQ && step > 0:
				if signed {
					limit = int64(1)<<uint(bits-1) - 1
				} else {
					limit = int64(1)<<uint(bits) - 1
				}
				need = fmt.Sprintf("bound ≤ %d", limit-step)
			case op == token.GEQ && step < 0:
				if signed {
					limit = -(int64(1) << uint(bits-1))
				} else {
					limit = 0
				}
				need = fmt.Sprintf("bound ≥ %d", limit-step)
			default:
				continue
			}
			c := e.constructOf(f, cmp.Pos(), func(n ast.Node) bool { _, ok := n.(*ast.BinaryExpr); return ok }, valueText(iv)+" "+op.String()+" "+valueText(bound))
			okB, how := false, ""
			// structural: the bound was widened from a narrower type, or is a constant
			hull := e.w.valueSetAt(f, ifi, bound)
			if cv, isC := bound.(*ssa.Convert); isC {
				if nb, ns, okN := widthOf(cv.X.Type()); okN && nb < bits {
					if ns {
						hull.hi = min64(hull.hi, int64(1)<<uint(nb-1)-1)
					} else {
						hull.hi = min64(hull.hi, int64(1)<<uint(nb)-1)
						hull.lo = max64(hull.lo, 0)
					}
				}
			}
			if step > 0 && hull.hi <= limit-step {
				okB, how = true, fmt.Sprintf("bound ∈ [%s,%s], the counter cannot pass %d", boundStr(hull.lo), boundStr(hull.hi), limit)
			}
			if step < 0 && hull.lo >= limit-step {
				okB, how = true, fmt.Sprintf("bound ∈ [%s,%s], the counter cannot pass %d", boundStr(hull.lo), boundStr(hull.hi), limit)
			}
			if !okB {
				how = fmt.Sprintf("loop counter of type %s is compared with %s against a bound that can be %d: the step wraps around and the test stays true — the loop never ends (%s needed, known [%s,%s])", phi.Type(), op, limit, need, boundStr(hull.lo), boundStr(hull.hi))
			}
			e.record("WRAP", f, cmp, c, okB, false, how)
		}
	}
}

func boundStr(v int64) string {
	if v >= inf {
		return "∞"
	}
	if v <= -inf {
		return "-∞"
	}
	return fmt.Sprint(v)
}
