package main

import (
	"fmt"
	"os"
	"path/filepath"
	"strconv"
	"strings"
	"unicode"
)

// A small parser for protobuf text format, enough for conf/p4/bin/p4info.txt. The file is
// parsed on every run; nothing of it is frozen in the checker.

type pbNode struct {
	fields []pbField
}

type pbField struct {
	name string
	str  string  // scalar (unquoted / unescaped)
	node *pbNode // message
}

func (n *pbNode) all(name string) []pbField {
	var out []pbField
	for _, f := range n.fields {
		if f.name == name {
			out = append(out, f)
		}
	}
	return out
}

func (n *pbNode) msgs(name string) []*pbNode {
	var out []*pbNode
	for _, f := range n.all(name) {
		if f.node != nil {
			out = append(out, f.node)
		}
	}
	return out
}

func (n *pbNode) msg(name string) *pbNode {
	m := n.msgs(name)
	if len(m) == 0 {
		return &pbNode{}
	}
	return m[0]
}

func (n *pbNode) scalar(name string) string {
	for _, f := range n.all(name) {
		if f.node == nil {
			return f.str
		}
	}
	return ""
}

func (n *pbNode) num(name string) int64 {
	v, _ := strconv.ParseInt(n.scalar(name), 10, 64)
	return v
}

type pbParser struct {
	s   string
	pos int
}

func (p *pbParser) skip() {
	for p.pos < len(p.s) {
		c := p.s[p.pos]
		if c == '#' {
			for p.pos < len(p.s) && p.s[p.pos] != '\n' {
				p.pos++
			}
			continue
		}
		if unicode.IsSpace(rune(c)) {
			p.pos++
			continue
		}
		break
	}
}

func (p *pbParser) ident() string {
	p.skip()
	st := p.pos
	for p.pos < len(p.s) && (p.s[p.pos] == '_' || p.s[p.pos] == '.' || unicode.IsLetter(rune(p.s[p.pos])) || unicode.IsDigit(rune(p.s[p.pos])) || p.s[p.pos] == '-') {
		p.pos++
	}
	return p.s[st:p.pos]
}

func (p *pbParser) parseString() (string, error) {
	// p.s[p.pos] == '"'
	p.pos++
	var out []byte
	for p.pos < len(p.s) {
		c := p.s[p.pos]
		if c == '"' {
			p.pos++
			return string(out), nil
		}
		if c == '\\' && p.pos+1 < len(p.s) {
			p.pos++
			e := p.s[p.pos]
			switch {
			case e >= '0' && e <= '7':
				v := 0
				n := 0
				for n < 3 && p.pos < len(p.s) && p.s[p.pos] >= '0' && p.s[p.pos] <= '7' {
					v = v*8 + int(p.s[p.pos]-'0')
					p.pos++
					n++
				}
				out = append(out, byte(v))
				continue
			case e == 'n':
				out = append(out, '\n')
			case e == 't':
				out = append(out, '\t')
			case e == 'r':
				out = append(out, '\r')
			case e == 'x':
				p.pos++
				v, _ := strconv.ParseUint(p.s[p.pos:p.pos+2], 16, 8)
				out = append(out, byte(v))
				p.pos += 2
				continue
			default:
				out = append(out, e)
			}
			p.pos++
			continue
		}
		out = append(out, c)
		p.pos++
	}
	return "", fmt.Errorf("unterminated string")
}

func (p *pbParser) parseNode(top bool) (*pbNode, error) {
	n := &pbNode{}
	for {
		p.skip()
		if p.pos >= len(p.s) {
			if top {
				return n, nil
			}
			return nil, fmt.Errorf("unexpected end of input")
		}
		if p.s[p.pos] == '}' {
			if top {
				return nil, fmt.Errorf("unexpected } at %d", p.pos)
			}
			p.pos++
			return n, nil
		}
		name := p.ident()
		if name == "" {
			return nil, fmt.Errorf("expected field name at offset %d", p.pos)
		}
		p.skip()
		if p.pos < len(p.s) && p.s[p.pos] == ':' {
			p.pos++
			p.skip()
		}
		if p.pos < len(p.s) && p.s[p.pos] == '{' {
			p.pos++
			sub, err := p.parseNode(false)
			if err != nil {
				return nil, err
			}
			n.fields = append(n.fields, pbField{name: name, node: sub})
			continue
		}
		if p.pos < len(p.s) && p.s[p.pos] == '"' {
			s, err := p.parseString()
			if err != nil {
				return nil, err
			}
			n.fields = append(n.fields, pbField{name: name, str: s})
			continue
		}
		v := p.ident()
		n.fields = append(n.fields, pbField{name: name, str: v})
	}
}

// ---- typed view

type p4MatchField struct {
	ID       int64
	Name     string
	Bitwidth int64
	Kind     string // EXACT, LPM, TERNARY, RANGE, OPTIONAL
}

type p4ActionRef struct {
	ID          int64
	DefaultOnly bool
}

type p4Table struct {
	ID     int64
	Name   string
	Alias  string
	Fields []p4MatchField
	Refs   []p4ActionRef
	Size   int64
}

type p4Param struct {
	ID       int64
	Name     string
	Bitwidth int64
}

type p4Action struct {
	ID     int64
	Name   string
	Alias  string
	Params []p4Param
}

type p4Sized struct {
	ID   int64
	Name string
	Size int64
}

type p4EnumMember struct {
	Name  string
	Value uint64
}

type p4Enum struct {
	Name    string
	Width   int64
	Members []p4EnumMember
}

type P4Info struct {
	Tables         []p4Table
	Actions        []p4Action
	Counters       []p4Sized
	DirectCounters []p4Sized
	Meters         []p4Sized
	DirectMeters   []p4Sized
	ActionProfiles []p4Sized
	PacketMeta     []p4Sized
	Registers      []p4Sized
	Digests        []p4Sized
	Enums          []p4Enum
}

func (p *P4Info) table(id int64) *p4Table {
	for i := range p.Tables {
		if p.Tables[i].ID == id {
			return &p.Tables[i]
		}
	}
	return nil
}

func (p *P4Info) action(id int64) *p4Action {
	for i := range p.Actions {
		if p.Actions[i].ID == id {
			return &p.Actions[i]
		}
	}
	return nil
}

func (t *p4Table) field(name string) *p4MatchField {
	for i := range t.Fields {
		if t.Fields[i].Name == name {
			return &t.Fields[i]
		}
	}
	return nil
}

func (a *p4Action) param(name string) *p4Param {
	for i := range a.Params {
		if a.Params[i].Name == name {
			return &a.Params[i]
		}
	}
	return nil
}

func (t *p4Table) needsPriority() bool {
	for _, f := range t.Fields {
		if f.Kind == "TERNARY" || f.Kind == "RANGE" || f.Kind == "OPTIONAL" {
			return true
		}
	}
	return false
}

func loadP4Info(repo, prop string) *P4Info {
	path := filepath.Join(repo, "conf/p4/bin/p4info.txt")
	b, err := os.ReadFile(path)
	if err != nil {
		brokenf(prop, "p4info", "cannot read %s: %v", path, err)
	}
	pp := &pbParser{s: string(b)}
	root, err := pp.parseNode(true)
	if err != nil {
		brokenf(prop, "p4info", "cannot parse %s: %v", path, err)
	}
	info := &P4Info{}
	sized := func(kind string) []p4Sized {
		var out []p4Sized
		for _, n := range root.msgs(kind) {
			pre := n.msg("preamble")
			out = append(out, p4Sized{ID: pre.num("id"), Name: pre.scalar("name"), Size: n.num("size")})
		}
		return out
	}
	for _, t := range root.msgs("tables") {
		pre := t.msg("preamble")
		tb := p4Table{ID: pre.num("id"), Name: pre.scalar("name"), Alias: pre.scalar("alias"), Size: t.num("size")}
		for _, f := range t.msgs("match_fields") {
			kind := f.scalar("match_type")
			if kind == "" {
				kind = "OTHER"
			}
			tb.Fields = append(tb.Fields, p4MatchField{ID: f.num("id"), Name: f.scalar("name"), Bitwidth: f.num("bitwidth"), Kind: kind})
		}
		for _, a := range t.msgs("action_refs") {
			tb.Refs = append(tb.Refs, p4ActionRef{ID: a.num("id"), DefaultOnly: a.scalar("scope") == "DEFAULT_ONLY"})
		}
		info.Tables = append(info.Tables, tb)
	}
	for _, a := range root.msgs("actions") {
		pre := a.msg("preamble")
		ac := p4Action{ID: pre.num("id"), Name: pre.scalar("name"), Alias: pre.scalar("alias")}
		for _, p := range a.msgs("params") {
			ac.Params = append(ac.Params, p4Param{ID: p.num("id"), Name: p.scalar("name"), Bitwidth: p.num("bitwidth")})
		}
		info.Actions = append(info.Actions, ac)
	}
	info.Counters = sized("counters")
	info.DirectCounters = sized("direct_counters")
	info.Meters = sized("meters")
	info.DirectMeters = sized("direct_meters")
	info.ActionProfiles = sized("action_profiles")
	info.PacketMeta = sized("controller_packet_metadata")
	info.Registers = sized("registers")
	info.Digests = sized("digests")
	for _, e := range root.msg("type_info").msgs("serializable_enums") {
		en := p4Enum{Name: e.scalar("key")}
		val := e.msg("value")
		en.Width = val.msg("underlying_type").num("bitwidth")
		for _, m := range val.msgs("members") {
			raw := m.scalar("value")
			var v uint64
			for _, c := range []byte(raw) {
				v = v<<8 | uint64(c)
			}
			en.Members = append(en.Members, p4EnumMember{Name: m.scalar("name"), Value: v})
		}
		info.Enums = append(info.Enums, en)
	}
	if len(info.Tables) == 0 || len(info.Actions) == 0 {
		brokenf(prop, "p4info", "%s has no tables or actions", path)
	}
	return info
}

// normName reduces an identifier to lower-case alphanumerics: the generator's PascalCase
// transformation and the P4 name agree on exactly this.
func normName(s string) string {
	var b strings.Builder
	for _, c := range s {
		if unicode.IsLetter(c) || unicode.IsDigit(c) {
			b.WriteRune(unicode.ToLower(c))
		}
	}
	return b.String()
}
