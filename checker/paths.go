package main

import (
	"go/token"
	"go/types"

	"golang.org/x/tools/go/ssa"
)

// A Path is one walk through a function's CFG from entry to a Return (or Panic).
type Path struct {
	Blocks []*ssa.BasicBlock
}

// resolve: a φ denotes, on this path, what came in over the edge the path took into the φ's block (the last
// time it entered it); anything else denotes itself.
func (p *Path) resolve(v ssa.Value) ssa.Value {
	for n := 0; n < 8 && p != nil; n++ {
		phi, ok := v.(*ssa.Phi)
		if !ok {
			return v
		}
		at := -1
		for i := 1; i < len(p.Blocks); i++ {
			if p.Blocks[i] == phi.Block() {
				at = i
			}
		}
		if at < 0 {
			return v
		}
		found := false
		for k, pred := range phi.Block().Preds {
			if pred == p.Blocks[at-1] {
				v, found = phi.Edges[k], true
				break
			}
		}
		if !found {
			return v
		}
	}
	return v
}

// edgeTaken reports whether the path goes from a to b consecutively.
func (p *Path) edgeTaken(a, b *ssa.BasicBlock) bool {
	for i := 0; i+1 < len(p.Blocks); i++ {
		if p.Blocks[i] == a && p.Blocks[i+1] == b {
			return true
		}
	}
	return false
}

// instrs yields the instructions of the path in execution order.
func (p *Path) instrs(f func(ssa.Instruction)) {
	for _, b := range p.Blocks {
		for _, i := range b.Instrs {
			f(i)
		}
	}
}

func (p *Path) last() ssa.Instruction {
	b := p.Blocks[len(p.Blocks)-1]
	return b.Instrs[len(b.Instrs)-1]
}

// phiValue resolves a phi along the path: the edge value for the predecessor through
// which the path entered the phi's block (last entry).
func (p *Path) phiValue(phi *ssa.Phi) ssa.Value {
	b := phi.Block()
	for i := len(p.Blocks) - 1; i > 0; i-- {
		if p.Blocks[i] == b {
			pred := p.Blocks[i-1]
			for j, pb := range b.Preds {
				if pb == pred {
					return phi.Edges[j]
				}
			}
		}
	}
	return nil
}

// enumPaths enumerates entry→exit paths; every block may be visited at most maxVisit
// times on one path (2 unrolls a loop body once). Returns false if more than limit paths.
func enumPaths(fn *ssa.Function, maxVisit, limit int, visit func(*Path)) bool {
	if len(fn.Blocks) == 0 {
		return true
	}
	count := 0
	visits := map[*ssa.BasicBlock]int{}
	var cur []*ssa.BasicBlock
	ok := true
	var rec func(b *ssa.BasicBlock)
	rec = func(b *ssa.BasicBlock) {
		if !ok {
			return
		}
		if visits[b] >= maxVisit {
			return
		}
		visits[b]++
		cur = append(cur, b)
		if len(b.Succs) == 0 {
			count++
			if count > limit {
				ok = false
			} else {
				cp := make([]*ssa.BasicBlock, len(cur))
				copy(cp, cur)
				visit(&Path{Blocks: cp})
			}
		} else {
			for _, s := range b.Succs {
				rec(s)
			}
		}
		cur = cur[:len(cur)-1]
		visits[b]--
	}
	rec(fn.Blocks[0])
	return ok
}

// condEdge describes what an If's condition says on the edge to successor idx (0=true).
// It decomposes `x OP y` and returns (x, op, y) with op negated on the false edge.
func condOnEdge(ifi *ssa.If, succIdx int) (x ssa.Value, op token.Token, y ssa.Value, ok bool) {
	c := ifi.Cond
	neg := succIdx == 1
	for {
		if u, isU := c.(*ssa.UnOp); isU && u.Op == token.NOT {
			neg = !neg
			c = u.X
			continue
		}
		if v, via := condVia(c, ifi.Block()); via {
			c = v
			continue
		}
		break
	}
	b, isB := c.(*ssa.BinOp)
	if !isB {
		return nil, 0, nil, false
	}
	op = b.Op
	if neg {
		switch op {
		case token.EQL:
			op = token.NEQ
		case token.NEQ:
			op = token.EQL
		case token.LSS:
			op = token.GEQ
		case token.GEQ:
			op = token.LSS
		case token.GTR:
			op = token.LEQ
		case token.LEQ:
			op = token.GTR
		default:
			return nil, 0, nil, false
		}
	}
	switch op {
	case token.EQL, token.NEQ, token.LSS, token.GEQ, token.GTR, token.LEQ:
		return b.X, op, b.Y, true
	}
	return nil, 0, nil, false
}

// edgeCtx: while a predecessor-sensitive walk (reach) asks its cut predicate about the edges that leave
// block blk, which it entered from pred, the edge predicates see the branch condition of blk as that walk
// sees it (condVia).
var edgeCtx struct{ pred, blk *ssa.BasicBlock }

// condVia: `m := a && b; if m { … }` leaves a join block that is nothing but m = φ(false, b) and the If.
// Entered from the block that evaluated b, the branch tests b: on either edge the comparison that holds is
// b's (entered from the other side the φ is a constant, and reach folds the branch). Only this lowering is
// looked through — no instruction but φs ahead of the If, the operand computed in the predecessor with
// nothing but the jump after it — so that a fact about a load still speaks of the memory the branch sees.
func condVia(c ssa.Value, blk *ssa.BasicBlock) (ssa.Value, bool) {
	phi, ok := c.(*ssa.Phi)
	if !ok || edgeCtx.blk != blk || phi.Block() != blk || edgeCtx.pred == nil {
		return nil, false
	}
	for _, ins := range blk.Instrs[:len(blk.Instrs)-1] {
		switch ins.(type) {
		case *ssa.Phi, *ssa.DebugRef:
		default:
			return nil, false
		}
	}
	entries := 0
	for _, p := range blk.Preds {
		if p == edgeCtx.pred {
			entries++
		}
	}
	for i, p := range blk.Preds {
		if p != edgeCtx.pred || i >= len(phi.Edges) || entries != 1 {
			continue
		}
		v := phi.Edges[i]
		if _, isK := v.(*ssa.Const); isK {
			return nil, false
		}
		if def, isIns := v.(ssa.Instruction); isIns {
			if def.Block() != p {
				return nil, false
			}
			for _, later := range p.Instrs[idxIn(p, def)+1:] {
				switch later.(type) {
				case *ssa.Jump, *ssa.DebugRef:
				default:
					return nil, false
				}
			}
		}
		return v, true
	}
	return nil, false
}

// zeroTest: the edge a→b establishes that v is zero (isZero) or is not zero (!isZero), in any spelling:
// v == 0 / v != 0 (also "" and nil), and for a value that cannot be negative v < 1, v <= 0 / v >= 1, v > 0.
// The length of a string stands for the string (len(s) < 1 is s == "").
func zeroTest(a, b *ssa.BasicBlock) (v ssa.Value, isZero bool, ok bool) {
	x, op, y, ok := edgeFact(a, b)
	if !ok {
		return nil, false, false
	}
	if _, isK := x.(*ssa.Const); isK {
		x, y, op = y, x, flipOp(op)
	}
	k, isInt := constInt(y)
	switch {
	case isZeroConst(y) && op == token.EQL:
		isZero = true
	case isZeroConst(y) && op == token.NEQ:
		isZero = false
	case isInt && nonNegative(x) && ((op == token.LEQ && k == 0) || (op == token.LSS && k == 1)):
		isZero = true
	case isInt && nonNegative(x) && ((op == token.GTR && k == 0) || (op == token.GEQ && k == 1)):
		isZero = false
	default:
		return nil, false, false
	}
	if lc, isCall := x.(*ssa.Call); isCall && calleeName(lc) == "builtin.len" {
		if bt, isB := lc.Call.Args[0].Type().Underlying().(*types.Basic); isB && bt.Info()&types.IsString != 0 {
			x = lc.Call.Args[0]
		}
	}
	return x, isZero, true
}

// blockIf returns the If terminating b, if any.
func blockIf(b *ssa.BasicBlock) *ssa.If {
	if len(b.Instrs) == 0 {
		return nil
	}
	i, _ := b.Instrs[len(b.Instrs)-1].(*ssa.If)
	return i
}

// edgeFact returns the comparison that holds on the CFG edge a→b, if a ends in an If with
// distinct successors.
func edgeFact(a, b *ssa.BasicBlock) (x ssa.Value, op token.Token, y ssa.Value, ok bool) {
	ifi := blockIf(a)
	if ifi == nil || len(a.Succs) != 2 || a.Succs[0] == a.Succs[1] {
		return nil, 0, nil, false
	}
	idx := 0
	if a.Succs[1] == b {
		idx = 1
	} else if a.Succs[0] != b {
		return nil, 0, nil, false
	}
	return condOnEdge(ifi, idx)
}

// nilnessEdge: does edge a→b establish that v is nil (want=true) or non-nil (want=false)?
func nilnessEdge(a, b *ssa.BasicBlock, same func(x ssa.Value) bool, wantNil bool) bool {
	x, op, y, ok := edgeFact(a, b)
	if !ok {
		return false
	}
	var other ssa.Value
	switch {
	case same(x):
		other = y
	case same(y):
		other = x
	default:
		return false
	}
	if !isNilConst(other) {
		return false
	}
	if wantNil {
		return op == token.EQL
	}
	return op == token.NEQ
}

// errGuarded checks that target is not reachable from call along any path on which the
// error value err has not been established nil: all "err is nil" edges are cut, so any
// remaining route to the target is one where err may be non-nil.
// Returns true when the target is protected.
func errGuarded(fn *ssa.Function, from ssa.Instruction, err ssa.Value, target instrPred) bool {
	same := func(x ssa.Value) bool {
		if x == err {
			return true
		}
		// the error may be merged with the errors of sibling arms before it is tested
		if phi, ok := x.(*ssa.Phi); ok {
			for _, e := range phi.Edges {
				if e == err {
					return true
				}
			}
		}
		return false
	}
	hit := reach(fn, from, target, nil, func(a, b *ssa.BasicBlock) bool {
		return nilnessEdge(a, b, same, true)
	})
	return hit == nil
}

// errResult returns the error-typed result of a call: the value itself or the Extract of
// the last tuple component.
func errResult(c *ssa.Call) ssa.Value {
	sig := c.Call.Signature()
	res := sig.Results()
	if res.Len() == 0 {
		return nil
	}
	last := res.At(res.Len() - 1).Type()
	if !isErrorType(last) {
		return nil
	}
	if res.Len() == 1 {
		return c
	}
	if refs := c.Referrers(); refs != nil {
		for _, r := range *refs {
			if e, ok := r.(*ssa.Extract); ok && e.Index == res.Len()-1 {
				return e
			}
		}
	}
	return nil
}

func extractOf(c ssa.Value, idx int) ssa.Value {
	if refs := c.Referrers(); refs != nil {
		for _, r := range *refs {
			if e, ok := r.(*ssa.Extract); ok && e.Index == idx {
				return e
			}
		}
	}
	return nil
}

// boolEdge: edge a→b establishes that boolean value v is true/false, for Ifs whose
// condition is a plain boolean (possibly negated), not a comparison.
func boolEdge(a, b *ssa.BasicBlock) (v ssa.Value, truth bool, ok bool) {
	ifi := blockIf(a)
	if ifi == nil || len(a.Succs) != 2 || a.Succs[0] == a.Succs[1] {
		return nil, false, false
	}
	truth = true
	if a.Succs[1] == b {
		truth = false
	} else if a.Succs[0] != b {
		return nil, false, false
	}
	c := ifi.Cond
	for {
		if u, isU := c.(*ssa.UnOp); isU && u.Op == token.NOT {
			truth = !truth
			c = u.X
			continue
		}
		if v, via := condVia(c, a); via {
			c = v
			continue
		}
		// x == false, x != true (a switch over a boolean)
		if bo, isB := c.(*ssa.BinOp); isB && (bo.Op == token.EQL || bo.Op == token.NEQ) {
			x, k := bo.X, bo.Y
			kv, isK := constBool(k)
			if !isK {
				x, k = bo.Y, bo.X
				kv, isK = constBool(k)
			}
			if isK {
				if (bo.Op == token.EQL) != kv {
					truth = !truth
				}
				c = x
				continue
			}
		}
		break
	}
	return c, truth, true
}

// onlyVia: every path from entry to target takes an edge accepted by via.
func onlyVia(fn *ssa.Function, target ssa.Instruction, via edgePred) bool {
	return reach(fn, nil, func(i ssa.Instruction) bool { return i == target }, nil, via) == nil
}

// valuesAt: the values v can hold when control arrives at site. A φ stands for those of its inputs whose
// edge can be followed by the site: input k is left out when, entering the φ's block from predecessor k,
// the branches that the φ-inputs of that very edge decide (a `found` flag merged together with the value
// it vouches for, tested before the value is used) lead away from the site. Coming by the block again
// gives the φ a new value, which the other inputs account for. One level only: an input that is itself
// a φ is returned as it is.
func valuesAt(v ssa.Value, site ssa.Instruction) []ssa.Value {
	phi, ok := v.(*ssa.Phi)
	if !ok || site == nil || site.Parent() != phi.Parent() {
		return []ssa.Value{v}
	}
	blk := phi.Block()
	first := blk.Instrs[0]
	var out []ssa.Value
	for k, e := range phi.Edges {
		if k >= len(blk.Preds) {
			return []ssa.Value{v}
		}
		hit := reach1(phi.Parent(), first, blk.Preds[k], func(i ssa.Instruction) bool { return i == site },
			func(i ssa.Instruction) bool { return i == first }, nil, true)
		if hit == nil {
			continue
		}
		dup := false
		for _, o := range out {
			dup = dup || o == e
		}
		if !dup {
			out = append(out, e)
		}
	}
	if len(out) == 0 {
		return []ssa.Value{v}
	}
	return out
}

// boolImplies: the boolean v can have the value truth only on executions on which base holds. base judges
// a (value, truth) pair directly ("this is the lookup's ok, false"); what is added here is the ways a
// program carries such a fact in another variable:
//   - a negation or a comparison with a boolean constant (as boolEdge),
//   - a local (possibly captured by the literal that tests it) that is written once, before any use,
//   - a φ of constants, or a comparison of one with a constant (`kind := A; if c { kind = B }; … kind == B`):
//     every input that gives v the value truth must come in from a block that is reached only over
//     edges on which base holds.
//
//   - a boolean φ input that is not a constant but itself implies base in this sense (`a || b`).
//
// Anything else (an integer φ input that is not a constant, a cell with several stores) is not an implication.
func boolImplies(v ssa.Value, truth bool, base func(v ssa.Value, truth bool) bool) bool {
	return boolImplies0(v, truth, base, 0)
}

func boolImplies0(v ssa.Value, truth bool, base func(v ssa.Value, truth bool) bool, depth int) bool {
	if v == nil || depth > 6 {
		return false
	}
	if base(v, truth) {
		return true
	}
	via := func(a, b *ssa.BasicBlock) bool {
		c, t, ok := boolEdge(a, b)
		return ok && boolImplies0(c, t, base, depth+1)
	}
	// the inputs of φ that make `hit` true arrive only over base edges
	phiInputs := func(phi *ssa.Phi, whole bool, hit func(e ssa.Value) (is, known bool)) bool {
		fn := phi.Parent()
		for k, e := range phi.Edges {
			is, known := hit(e)
			_, isK := e.(*ssa.Const)
			if !known && (isK || !whole) {
				return false
			}
			if known && !is {
				continue
			}
			// the input gives (a constant) or may give (a boolean that is not one) v the value: it comes
			// in over base edges only, or it has the value itself only where base holds
			p := phi.Block().Preds[k]
			if via(p, phi.Block()) {
				continue
			}
			if len(p.Instrs) != 0 && onlyVia(fn, p.Instrs[len(p.Instrs)-1], via) {
				continue
			}
			if !known && boolImplies0(e, truth, base, depth+1) {
				continue
			}
			return false
		}
		return true
	}
	switch x := v.(type) {
	case *ssa.UnOp:
		switch x.Op {
		case token.NOT:
			return boolImplies0(x.X, !truth, base, depth+1)
		case token.MUL:
			if st := onlyStoreBeforeUse(x); st != nil {
				return boolImplies0(st.Val, truth, base, depth+1)
			}
		}
	case *ssa.Phi:
		return phiInputs(x, true, func(e ssa.Value) (bool, bool) {
			k, ok := constBool(e)
			return k == truth, ok
		})
	case *ssa.BinOp:
		if x.Op != token.EQL && x.Op != token.NEQ {
			return false
		}
		a, b := x.X, x.Y
		if _, isK := a.(*ssa.Const); isK {
			a, b = b, a
		}
		if kb, isB := constBool(b); isB {
			return boolImplies0(a, truth == (kb == (x.Op == token.EQL)), base, depth+1)
		}
		k, isK := constInt(b)
		if !isK {
			return false
		}
		if ld, isLd := a.(*ssa.UnOp); isLd && ld.Op == token.MUL {
			if st := onlyStoreBeforeUse(ld); st != nil {
				a = st.Val
			}
		}
		phi, isPhi := a.(*ssa.Phi)
		if !isPhi {
			return false
		}
		return phiInputs(phi, false, func(e ssa.Value) (bool, bool) {
			c, ok := constInt(e)
			return ((c == k) == (x.Op == token.EQL)) == truth, ok
		})
	}
	return false
}

// onlyStoreBeforeUse: the load reads a local cell (or, in a function literal, a captured one) that is
// written exactly once, in the function that declares it, before the load (before the literal is made);
// the cell's address goes nowhere else. Returns that store.
func onlyStoreBeforeUse(ld *ssa.UnOp) *ssa.Store {
	cell, _ := cellOf(ld.X).(*ssa.Alloc)
	if cell == nil {
		return nil
	}
	st := singleStore(cell)
	if st == nil || st.Parent() != cell.Parent() {
		return nil
	}
	ok := true
	var scan func(v ssa.Value, top bool)
	scan = func(v ssa.Value, top bool) {
		if v.Referrers() == nil {
			ok = false
			return
		}
		for _, r := range *v.Referrers() {
			switch r := r.(type) {
			case *ssa.Store:
				if r.Addr != v {
					ok = false
				}
			case *ssa.UnOp:
				if r.Op != token.MUL || (top && !instrDominates(st, r)) {
					ok = false
				}
			case *ssa.MakeClosure:
				if top && !instrDominates(st, r) {
					ok = false
				}
				fn, _ := r.Fn.(*ssa.Function)
				if fn == nil {
					ok = false
					continue
				}
				for i, b := range r.Bindings {
					if b == v && i < len(fn.FreeVars) {
						scan(fn.FreeVars[i], false)
					}
				}
			case *ssa.DebugRef:
			default:
				ok = false
			}
		}
	}
	scan(cell, true)
	if !ok {
		return nil
	}
	return st
}
