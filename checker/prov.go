package main

import (
	"fmt"
	"go/token"
	"go/types"
	"sort"
	"strings"

	"golang.org/x/tools/go/ssa"
)

// Sym is a backward def-use slice of an SSA value, as an expression over struct fields,
// parameters, constants and calls. It is flow-insensitive for local cells (all stores are
// merged under "phi"), which is what composite literals and single-assignment locals need.
type Sym struct {
	Op   string // "field", "const", "param", "global", "call", "bin", "un", "conv", "phi", "elem", "unknown"
	Name string // field path / param name / callee / operator / type
	Args []*Sym
	C    *ssa.Const
	V    ssa.Value
	Root ssa.Value // for field paths: the parameter / call / cell the path starts from
}

// Roots returns the distinct roots of all field leaves.
func (s *Sym) Roots() []ssa.Value {
	seen := map[ssa.Value]bool{}
	var out []ssa.Value
	var rec func(x *Sym)
	rec = func(x *Sym) {
		if x.Op == "field" && x.Root != nil && !seen[x.Root] {
			seen[x.Root] = true
			out = append(out, x.Root)
		}
		for _, a := range x.Args {
			rec(a)
		}
	}
	rec(s)
	return out
}

func (s *Sym) String() string {
	switch s.Op {
	case "field", "param", "global", "unknown":
		return s.Name
	case "const":
		if s.C == nil || s.C.Value == nil {
			return "nil"
		}
		return s.C.Value.ExactString()
	case "conv":
		return s.Name + "(" + s.Args[0].String() + ")"
	case "un":
		return s.Name + s.Args[0].String()
	case "bin":
		return "(" + s.Args[0].String() + " " + s.Name + " " + s.Args[1].String() + ")"
	case "phi":
		var p []string
		for _, a := range s.Args {
			p = append(p, a.String())
		}
		sort.Strings(p)
		return "φ{" + strings.Join(p, " | ") + "}"
	case "call":
		var p []string
		for _, a := range s.Args {
			p = append(p, a.String())
		}
		return shortCallee(s.Name) + "(" + strings.Join(p, ", ") + ")"
	case "elem":
		if s.Name == "#1" && s.V != nil {
			if ex, ok := s.V.(*ssa.Extract); ok {
				if _, isLookup := ex.Tuple.(*ssa.Lookup); isLookup {
					return s.Args[0].String() + "[]#ok"
				}
			}
		}
		return s.Args[0].String() + "[]"
	}
	return "?"
}

func shortCallee(n string) string {
	n = strings.ReplaceAll(n, modPath+"/", "")
	return n
}

// Leaves collects the leaf descriptions ("F:pdr.srcIface", "C:5", "P:cause", "CALL:x").
func (s *Sym) Leaves() []string {
	m := map[string]bool{}
	var rec func(x *Sym)
	rec = func(x *Sym) {
		switch x.Op {
		case "field":
			m["F:"+x.Name] = true
		case "const":
			m["C:"+x.String()] = true
		case "param":
			m["P:"+x.Name] = true
		case "global":
			m["G:"+x.Name] = true
		case "unknown":
			// "cycle" marks the point where a value feeds back into itself (a local copied to a field and
			// read back): it names no further origin
			if x.Name != "cycle" {
				m["?:"+x.Name] = true
			}
		case "call":
			m["CALL:"+shortCallee(x.Name)] = true
		}
		for _, a := range x.Args {
			rec(a)
		}
	}
	rec(s)
	return sortedKeys(m)
}

// Fields returns only the struct-field leaves.
func (s *Sym) Fields() []string {
	var out []string
	for _, l := range s.Leaves() {
		if strings.HasPrefix(l, "F:") {
			out = append(out, l[2:])
		}
	}
	return out
}

func (s *Sym) hasLeaf(l string) bool {
	for _, x := range s.Leaves() {
		if x == l {
			return true
		}
	}
	return false
}

type symCtx struct {
	depth   int
	active  map[ssa.Value]bool
	inline  func(f *ssa.Function) bool // inline single-result repo helpers
	callers map[*ssa.Parameter]ssa.Value
}

func symOf(v ssa.Value) *Sym {
	c := &symCtx{active: map[ssa.Value]bool{}}
	return c.sym(v)
}

// symOfInline follows calls to repo functions accepted by inline, substituting arguments
// for parameters (only for functions with a single return instruction value per path; all
// returns are merged under phi).
func symOfInline(v ssa.Value, inline func(f *ssa.Function) bool) *Sym {
	c := &symCtx{active: map[ssa.Value]bool{}, inline: inline, callers: map[*ssa.Parameter]ssa.Value{}}
	return c.sym(v)
}

func rootTypeName(t types.Type) string {
	for {
		if p, ok := t.(*types.Pointer); ok {
			t = p.Elem()
			continue
		}
		break
	}
	if n, ok := t.(*types.Named); ok {
		return n.Obj().Name()
	}
	return t.String()
}

func mkPhi(args []*Sym) *Sym {
	seen := map[string]bool{}
	var out []*Sym
	for _, a := range args {
		if a.Op == "phi" {
			for _, b := range a.Args {
				if !seen[b.String()] {
					seen[b.String()] = true
					out = append(out, b)
				}
			}
			continue
		}
		if !seen[a.String()] {
			seen[a.String()] = true
			out = append(out, a)
		}
	}
	if len(out) == 1 {
		return out[0]
	}
	sort.Slice(out, func(i, j int) bool { return out[i].String() < out[j].String() })
	return &Sym{Op: "phi", Args: out}
}

func (c *symCtx) sym(v ssa.Value) *Sym {
	if v == nil {
		return &Sym{Op: "unknown", Name: "nil-value"}
	}
	if c.active[v] {
		return &Sym{Op: "unknown", Name: "cycle"}
	}
	if c.depth > 40 {
		return &Sym{Op: "unknown", Name: "deep"}
	}
	c.active[v] = true
	c.depth++
	defer func() { delete(c.active, v); c.depth-- }()

	switch x := v.(type) {
	case *ssa.Const:
		return &Sym{Op: "const", C: x, V: v}
	case *ssa.Parameter:
		if c.callers != nil {
			if a, ok := c.callers[x]; ok {
				return c.sym(a)
			}
		}
		if args := closureCallArgs(x); len(args) > 0 {
			// a parameter of a local closure: what its call sites (all within the enclosing function) pass
			var syms []*Sym
			for _, a := range args {
				syms = append(syms, c.sym(a))
			}
			return mkPhi(syms)
		}
		if _, isStruct := derefUnder(x.Type()).(*types.Struct); isStruct {
			return &Sym{Op: "field", Name: rootTypeName(x.Type()), V: v, Root: x}
		}
		return &Sym{Op: "param", Name: x.Name(), V: v, Root: x}
	case *ssa.Global:
		return &Sym{Op: "global", Name: x.Name(), V: v}
	case *ssa.Function:
		return &Sym{Op: "global", Name: "func:" + x.Name(), V: v}
	case *ssa.Convert:
		a := c.sym(x.X)
		return &Sym{Op: "conv", Name: types.TypeString(x.Type(), nil), Args: []*Sym{a}, V: v}
	case *ssa.ChangeType:
		return c.sym(x.X)
	case *ssa.ChangeInterface:
		return c.sym(x.X)
	case *ssa.MakeInterface:
		return c.sym(x.X)
	case *ssa.BinOp:
		return &Sym{Op: "bin", Name: x.Op.String(), Args: []*Sym{c.sym(x.X), c.sym(x.Y)}, V: v}
	case *ssa.UnOp:
		if x.Op == token.MUL {
			if fw := forwardedStore(x); fw != nil {
				return c.sym(fw)
			}
			return c.load(x.X)
		}
		return &Sym{Op: "un", Name: x.Op.String(), Args: []*Sym{c.sym(x.X)}, V: v}
	case *ssa.Phi:
		var args []*Sym
		for _, e := range x.Edges {
			args = append(args, c.sym(e))
		}
		return mkPhi(args)
	case *ssa.Field:
		base := c.sym(x.X)
		fv := fieldVar(x)
		return c.fieldOf(base, fv, x)
	case *ssa.FieldAddr, *ssa.IndexAddr, *ssa.Alloc, *ssa.FreeVar:
		// address used as a value (pointer passed around): describe what it points to
		return &Sym{Op: "un", Name: "&", Args: []*Sym{c.load(v)}, V: v}
	case *ssa.Index:
		return &Sym{Op: "elem", Args: []*Sym{c.sym(x.X)}, V: v}
	case *ssa.Lookup:
		return &Sym{Op: "elem", Args: []*Sym{c.sym(x.X)}, V: v}
	case *ssa.Extract:
		if call, ok := x.Tuple.(*ssa.Call); ok {
			s := c.call(call)
			if s.Op == "call" {
				s = &Sym{Op: "call", Name: fmt.Sprintf("%s#%d", s.Name, x.Index), Args: s.Args, V: v}
			}
			return s
		}
		if nx, ok := x.Tuple.(*ssa.Next); ok {
			if rg, ok := nx.Iter.(*ssa.Range); ok {
				return &Sym{Op: "elem", Name: fmt.Sprintf("#%d", x.Index), Args: []*Sym{c.sym(rg.X)}, V: v}
			}
		}
		if l, ok := x.Tuple.(*ssa.Lookup); ok {
			return &Sym{Op: "elem", Name: fmt.Sprintf("#%d", x.Index), Args: []*Sym{c.sym(l.X)}, V: v}
		}
		if ta, ok := x.Tuple.(*ssa.TypeAssert); ok {
			return c.sym(ta.X)
		}
		return &Sym{Op: "unknown", Name: "extract:" + x.Tuple.Name(), V: v}
	case *ssa.Call:
		return c.call(x)
	case *ssa.Slice:
		return c.sym(x.X)
	case *ssa.TypeAssert:
		return c.sym(x.X)
	case *ssa.MakeClosure:
		return &Sym{Op: "global", Name: "closure", V: v}
	case *ssa.MakeSlice:
		return &Sym{Op: "call", Name: "make", V: v}
	case *ssa.MakeMap:
		return &Sym{Op: "call", Name: "makemap", V: v}
	}
	return &Sym{Op: "unknown", Name: fmt.Sprintf("%T", v), V: v}
}

func derefUnder(t types.Type) types.Type {
	if p, ok := t.Underlying().(*types.Pointer); ok {
		return p.Elem().Underlying()
	}
	return t.Underlying()
}

func firstRoot(s *Sym) ssa.Value {
	if s.Root != nil {
		return s.Root
	}
	if s.Op == "call" {
		return s.V
	}
	for _, a := range s.Args {
		if r := firstRoot(a); r != nil {
			return r
		}
	}
	return nil
}

func (c *symCtx) fieldOf(base *Sym, fv *types.Var, v ssa.Value) *Sym {
	name := "?"
	if fv != nil {
		name = fv.Name()
	}
	switch base.Op {
	case "field":
		return &Sym{Op: "field", Name: base.Name + "." + name, V: v, Root: base.Root}
	case "phi":
		var args []*Sym
		for _, a := range base.Args {
			args = append(args, c.fieldOf(a, fv, v))
		}
		return mkPhi(args)
	case "elem":
		return &Sym{Op: "field", Name: base.String() + "." + name, V: v, Root: firstRoot(base)}
	case "call":
		return &Sym{Op: "field", Name: base.String() + "." + name, V: v, Root: base.V}
	case "un":
		if base.Name == "&" {
			return c.fieldOf(base.Args[0], fv, v)
		}
	}
	return &Sym{Op: "field", Name: "(" + base.String() + ")." + name, V: v}
}

// load describes the value stored at addr.
func (c *symCtx) load(addr ssa.Value) *Sym {
	switch a := addr.(type) {
	case *ssa.Alloc:
		return c.cellValue(a, nil)
	case *ssa.FreeVar:
		if cell := cellOf(a); cell != nil {
			return c.cellValue(cell, nil)
		}
		return &Sym{Op: "param", Name: "free:" + a.Name(), V: a}
	case *ssa.Global:
		return &Sym{Op: "global", Name: a.Name(), V: a}
	case *ssa.FieldAddr:
		fv := fieldVar(a)
		// local struct cell: merge stores to the same field and whole-struct stores
		if cell := rootCell(a.X); cell != nil {
			if s := c.cellField(cell, a); s != nil {
				return s
			}
		}
		base := c.load(a.X) // *a.X is the struct
		if _, isPtr := a.X.Type().Underlying().(*types.Pointer); isPtr {
			if _, isAddrInstr := a.X.(*ssa.FieldAddr); !isAddrInstr {
				if _, isAlloc := a.X.(*ssa.Alloc); !isAlloc {
					if _, isIdx := a.X.(*ssa.IndexAddr); !isIdx {
						if _, isFV := a.X.(*ssa.FreeVar); !isFV {
							// a.X is a pointer *value* (param, load, call): the struct it points to
							base = c.pointee(a.X)
						}
					}
				}
			}
		}
		return c.fieldOf(base, fv, a)
	case *ssa.IndexAddr:
		if al, ok := a.X.(*ssa.Alloc); ok {
			// array cell (varargs): merge all stores into elements
			var args []*Sym
			if refs := al.Referrers(); refs != nil {
				for _, r := range *refs {
					if ia, ok := r.(*ssa.IndexAddr); ok {
						if i1, ok1 := constInt(ia.Index); ok1 {
							if i2, ok2 := constInt(a.Index); ok2 && i1 != i2 {
								continue
							}
						}
						for _, st := range directStores(ia) {
							args = append(args, c.sym(st.Val))
						}
					}
				}
			}
			if len(args) > 0 {
				return mkPhi(args)
			}
		}
		if mk, ok := a.X.(*ssa.MakeSlice); ok {
			// a slice made here that stays local (only indexed and measured: never appended to, re-sliced,
			// stored or passed on) is a row of cells like the array above: an element holds what was stored
			// into an element
			if stores, local := localSliceStores(mk); local && len(stores) > 0 {
				var args []*Sym
				for _, st := range stores {
					args = append(args, c.sym(st.Val))
				}
				return mkPhi(args)
			}
		}
		var base *Sym
		if _, isPtrToArr := a.X.Type().Underlying().(*types.Pointer); isPtrToArr {
			base = c.load(a.X)
		} else {
			base = c.sym(a.X)
		}
		return &Sym{Op: "elem", Args: []*Sym{base}, V: a}
	}
	// pointer value: describe pointee
	return c.pointee(addr)
}

// pointee describes *p for a pointer-typed value p.
func (c *symCtx) pointee(p ssa.Value) *Sym {
	s := c.sym(p)
	if s.Op == "un" && s.Name == "&" {
		return s.Args[0]
	}
	return s // a struct pointer param renders as its type name already
}

func rootCell(v ssa.Value) *ssa.Alloc {
	switch a := v.(type) {
	case *ssa.Alloc:
		return a
	case *ssa.FreeVar:
		if cell, ok := cellOf(a).(*ssa.Alloc); ok {
			return cell
		}
	}
	return nil
}

// localSliceStores: the whole-element stores into a slice made by mk, and whether that is all that can ever
// write it: the slice value is only indexed (each element address only loaded from or stored to) and
// measured with len/cap. Anything else — append, a re-slice, a store of the slice, an argument, a φ —
// lets the elements be written, or the slice be replaced, where this function does not see it.
func localSliceStores(mk *ssa.MakeSlice) ([]*ssa.Store, bool) {
	refs := mk.Referrers()
	if refs == nil {
		return nil, false
	}
	var out []*ssa.Store
	for _, r := range *refs {
		switch x := r.(type) {
		case *ssa.DebugRef:
		case *ssa.Call:
			if n := calleeName(x); n != "builtin.len" && n != "builtin.cap" {
				return nil, false
			}
		case *ssa.IndexAddr:
			if x.X != ssa.Value(mk) || x.Referrers() == nil {
				return nil, false
			}
			for _, er := range *x.Referrers() {
				switch y := er.(type) {
				case *ssa.DebugRef:
				case *ssa.UnOp:
					if y.Op != token.MUL {
						return nil, false
					}
				case *ssa.Store:
					if y.Addr != ssa.Value(x) {
						return nil, false
					}
					out = append(out, y)
				default:
					return nil, false
				}
			}
		default:
			return nil, false
		}
	}
	return out, true
}

func directStores(addr ssa.Value) []*ssa.Store {
	var out []*ssa.Store
	if refs := addr.Referrers(); refs != nil {
		for _, r := range *refs {
			if st, ok := r.(*ssa.Store); ok && st.Addr == addr {
				out = append(out, st)
			}
		}
	}
	return out
}

// cellValue merges everything stored into a local cell.
func (c *symCtx) cellValue(cell ssa.Value, _ *types.Var) *Sym {
	var args []*Sym
	for _, st := range storesTo(cell) {
		args = append(args, c.sym(st.Val))
	}
	if len(args) == 0 {
		if al, ok := cell.(*ssa.Alloc); ok {
			if _, isStruct := derefUnder(al.Type()).(*types.Struct); isStruct {
				return &Sym{Op: "field", Name: "local:" + rootTypeName(al.Type()), V: cell}
			}
			return &Sym{Op: "const", C: nil, V: cell} // zero value
		}
		return &Sym{Op: "unknown", Name: "cell", V: cell}
	}
	return mkPhi(args)
}

// cellField merges the stores to one field of a local struct cell: field-wise stores
// through any FieldAddr of the same cell and field, plus whole-struct stores.
func (c *symCtx) cellField(cell *ssa.Alloc, fa *ssa.FieldAddr) *Sym {
	var args []*Sym
	var visit func(v ssa.Value)
	seen := map[ssa.Value]bool{}
	visit = func(v ssa.Value) {
		if seen[v] {
			return
		}
		seen[v] = true
		refs := v.Referrers()
		if refs == nil {
			return
		}
		for _, r := range *refs {
			switch r := r.(type) {
			case *ssa.FieldAddr:
				if r.X == v && r.Field == fa.Field {
					for _, st := range directStores(r) {
						args = append(args, c.sym(st.Val))
					}
				}
			case *ssa.Store:
				if r.Addr == v {
					// a composite literal is assembled field by field in a temporary and copied whole
					// (`x := T{f: v}` for a captured x): the field holds what the temporary's field holds
					if ld, ok := r.Val.(*ssa.UnOp); ok && ld.Op == token.MUL && !c.active[ld] {
						if src, ok := ld.X.(*ssa.Alloc); ok && src != cell && forwardedStore(ld) == nil {
							c.active[ld] = true
							args = append(args, c.cellField(src, fa))
							delete(c.active, ld)
							continue
						}
					}
					whole := c.sym(r.Val)
					args = append(args, c.fieldOf(whole, fieldVar(fa), fa))
				}
			case *ssa.MakeClosure:
				if fn, ok := r.Fn.(*ssa.Function); ok {
					for i, b := range r.Bindings {
						if b == v && i < len(fn.FreeVars) {
							visit(fn.FreeVars[i])
						}
					}
				}
			}
		}
	}
	visit(cell)
	if len(args) == 0 {
		return &Sym{Op: "const", C: nil, V: fa} // never written: zero value
	}
	return mkPhi(args)
}

func (c *symCtx) call(call *ssa.Call) *Sym {
	name := calleeName(call)
	if name == "" {
		name = "dyn:" + valueText(call.Call.Value)
	}
	var args []*Sym
	if call.Call.IsInvoke() {
		args = append(args, c.sym(call.Call.Value))
	}
	for _, a := range call.Call.Args {
		args = append(args, c.sym(a))
	}
	if c.inline != nil {
		if f := staticCallee(call); f != nil && f.Blocks != nil && c.inline(f) {
			saved := map[*ssa.Parameter]ssa.Value{}
			for i, p := range f.Params {
				if old, ok := c.callers[p]; ok {
					saved[p] = old
				}
				if i < len(call.Call.Args) {
					c.callers[p] = call.Call.Args[i]
				}
			}
			var rets []*Sym
			for _, r := range returnsOf(f) {
				if len(r.Results) == 1 {
					rets = append(rets, c.sym(r.Results[0]))
				}
			}
			for _, p := range f.Params {
				delete(c.callers, p)
				if old, ok := saved[p]; ok {
					c.callers[p] = old
				}
			}
			if len(rets) > 0 {
				return mkPhi(rets)
			}
		}
	}
	return &Sym{Op: "call", Name: name, Args: args, V: call}
}

// ---------- constant-factor extraction ----------

// linFactor decides whether s computes leaf * num/den with exact integer division, looking
// through width-preserving conversions. ok=false when s is not of that shape.
type lin struct {
	leaf     string
	num, den int64
	exact    bool
}

func linearIn(s *Sym) (lin, bool) {
	switch s.Op {
	case "field", "param":
		return lin{leaf: s.Name, num: 1, den: 1, exact: true}, true
	case "conv":
		return linearIn(s.Args[0])
	case "bin":
		l, lok := linearIn(s.Args[0])
		var k int64
		kok := false
		if s.Args[1].Op == "const" && s.Args[1].C != nil {
			k, kok = constInt64(s.Args[1].C)
		} else if s.Args[1].Op == "conv" && s.Args[1].Args[0].Op == "const" && s.Args[1].Args[0].C != nil {
			k, kok = constInt64(s.Args[1].Args[0].C)
		}
		switch s.Name {
		case "*":
			if lok && kok {
				l.num *= k
				return l, true
			}
			// const * x
			r, rok := linearIn(s.Args[1])
			if rok && s.Args[0].Op == "const" && s.Args[0].C != nil {
				if k0, ok := constInt64(s.Args[0].C); ok {
					r.num *= k0
					return r, true
				}
			}
		case "/":
			if lok && kok && k != 0 {
				// exact iff the divisor divides the accumulated multiplier
				if l.den == 1 && l.num%k == 0 {
					l.num /= k
				} else {
					l.den *= k
					l.exact = false
				}
				return l, true
			}
		}
	}
	return lin{}, false
}

// closureCallArgs: for a parameter of a function literal that is only ever called (never passed on, stored
// in a field or returned), the argument each call site passes for it. nil when the literal escapes or is not
// called.
func closureCallArgs(p *ssa.Parameter) []ssa.Value {
	fn := p.Parent()
	if fn == nil || fn.Parent() == nil {
		return nil
	}
	idx := -1
	for i, q := range fn.Params {
		if q == p {
			idx = i
		}
	}
	if idx < 0 {
		return nil
	}
	root := fn
	for root.Parent() != nil {
		root = root.Parent()
	}
	var fam []*ssa.Function
	var walk func(f *ssa.Function)
	walk = func(f *ssa.Function) {
		fam = append(fam, f)
		for _, a := range f.AnonFuncs {
			walk(a)
		}
	}
	walk(root)
	var args []ssa.Value
	for _, f := range fam {
		for _, b := range f.Blocks {
			for _, ins := range b.Instrs {
				switch x := ins.(type) {
				case ssa.CallInstruction:
					if staticCallee(x) == fn && !x.Common().IsInvoke() && x.Common().StaticCallee() == nil {
						if idx < len(x.Common().Args) {
							args = append(args, x.Common().Args[idx])
						}
					}
					// the literal handed to somebody else
					for _, a := range x.Common().Args {
						if closureOf(a) == fn {
							return nil
						}
					}
				case *ssa.Return:
					for _, a := range x.Results {
						if closureOf(a) == fn {
							return nil
						}
					}
				case *ssa.Store:
					if closureOf(x.Val) == fn {
						if _, local := x.Addr.(*ssa.Alloc); !local {
							return nil
						}
					}
				}
			}
		}
	}
	return args
}

// forwardedStore: a load of a local cell that directly follows a store to the same cell in its block (no
// call, no other store to the cell, no send/select in between) reads what was just stored — the merge of
// everything ever stored to the cell, which is what a cell otherwise denotes, would lose that.
func forwardedStore(ld *ssa.UnOp) ssa.Value {
	cell, ok := ld.X.(*ssa.Alloc)
	if !ok {
		return nil
	}
	b := ld.Block()
	if b == nil || cell.Referrers() == nil {
		return nil
	}
	for _, ref := range *cell.Referrers() {
		switch r := ref.(type) {
		case *ssa.Store:
			if r.Addr != ssa.Value(cell) {
				return nil // the address itself is stored somewhere
			}
		case *ssa.UnOp, *ssa.MakeClosure, *ssa.DebugRef:
		default:
			return nil
		}
	}
	at := -1
	for i, ins := range b.Instrs {
		if ins == ssa.Instruction(ld) {
			at = i
		}
	}
	for i := at - 1; i >= 0; i-- {
		switch x := b.Instrs[i].(type) {
		case *ssa.Store:
			if x.Addr == ssa.Value(cell) {
				return x.Val
			}
			// a store through another address cannot hit a local cell whose address is only taken by closures
		case ssa.CallInstruction, *ssa.Send, *ssa.Select, *ssa.RunDefers:
			return nil
		}
	}
	return nil
}
