#!/usr/bin/env python3
"""C20 — static rules over conf/route_control.py (Python ast; nothing is executed).

The route controller is Python, so the Go loader cannot see it. This file is the same kind of
checker as ../rules_c*.go: it parses /repo/conf/route_control.py on every run, derives rule
instances from the source (call sites, container accesses, `with self._lock` regions, helper
bodies) and reports each instance as an obligation that is discharged or a violation with
file:line. Exit 0 = every obligation discharged (known findings are printed), 1 = VIOLATION,
2 = UNDECIDED (anchor missing, floor not met, analyser error)."""
import argparse
import ast, re
import copy
import hashlib
import json
import os
import sys
import time

PROP = "C20"


def undecided(rule, why):
    print(f"UNDECIDED property={PROP} rule={rule} reason={why}")
    sys.exit(2)


class Report:
    def __init__(self, tier, verif, out):
        self.tier, self.verif, self.out = tier, verif, out
        self.obls, self.viol, self.floors = [], [], []
        self.functions = set()
        self.extra = {}
        self.start = time.time()

    def _add(self, rule, fn, construct, pos, ok, trivial, how, msg=""):
        self.functions.add(fn)
        self.obls.append({"rule": rule, "function": fn, "construct": construct, "pos": pos,
                          "discharged": ok, "trivial": trivial, "how": how if ok else msg})
        if not ok:
            self.viol.append({"key": f"{PROP}|{rule}|{fn}|{construct}", "rule": rule, "function": fn,
                              "construct": construct, "pos": pos, "msg": msg})

    def ok(self, rule, fn, construct, pos, how):
        self._add(rule, fn, construct, pos, True, False, how)

    def trivial(self, rule, fn, construct, pos, how):
        self._add(rule, fn, construct, pos, True, True, how)

    def bad(self, rule, fn, construct, pos, msg):
        self._add(rule, fn, construct, pos, False, False, "", msg)

    def check(self, cond, rule, fn, construct, pos, how, msg):
        self._add(rule, fn, construct, pos, bool(cond), False, how, msg)
        return bool(cond)

    def floor(self, what, got, want):
        self.floors.append(f"{what}: {got} instances (floor {want})")
        if got < want:
            undecided(what, f"rule matched {got} instances, fewer than the {want} confirmed on the pinned tree (anchor moved or rule blind)")

    def finish(self, explanation, not_decided):
        known = {}
        try:
            with open(os.path.join(self.verif, "known_findings.jsonl")) as f:
                for line in f:
                    line = line.strip()
                    if not line or line.startswith("#"):
                        continue
                    try:
                        e = json.loads(line)
                    except ValueError as err:
                        undecided("known_findings", f"malformed line in known_findings.jsonl: {err}")
                    if e.get("kind") == "finding" and e.get("property") == PROP:
                        known[e["key"]] = e
        except FileNotFoundError:
            pass
        seen, viol = set(), []
        for v in self.viol:
            if v["key"] in seen:
                continue
            seen.add(v["key"])
            v["known"] = v["key"] in known
            viol.append(v)
        viol.sort(key=lambda v: v["key"])
        ev_dir = self.out or os.path.join(self.verif, "evidence")
        os.makedirs(ev_dir, exist_ok=True)
        vdir = os.path.join(ev_dir, PROP + ".violations")
        if os.path.isdir(vdir):
            for n in os.listdir(vdir):
                os.unlink(os.path.join(vdir, n))
            os.rmdir(vdir)
        total = len(self.obls)
        discharged = sum(1 for o in self.obls if o["discharged"])
        trivial = sum(1 for o in self.obls if o["trivial"])
        distinct = {(o["rule"], o["function"], o["construct"]) for o in self.obls if not o["trivial"]}
        per_rule, samples, per_sample = {}, [], {}
        for o in self.obls:
            c = per_rule.setdefault(o["rule"], [0, 0])
            c[0] += 1
            c[1] += 1 if o["discharged"] else 0
            if not o["trivial"] and per_sample.get(o["rule"], 0) < 3:
                per_sample[o["rule"]] = per_sample.get(o["rule"], 0) + 1
                samples.append(o)
        unknown = 0
        for v in viol:
            if v["known"]:
                print(f"KNOWN-FINDING: property={PROP} {known[v['key']]['what']} [{v['key']}] {v['pos']}")
            else:
                unknown += 1
        if unknown:
            os.makedirs(vdir, exist_ok=True)
            for v in viol:
                if v["known"]:
                    continue
                p = os.path.join(vdir, hashlib.sha1(v["key"].encode()).hexdigest()[:12] + ".json")
                with open(p, "w") as f:
                    json.dump(v, f, indent=2)
                print(f"VIOLATION property={PROP} replay={p}")
                print(f"  rule={v['rule']} at {v['pos']} in {v['function']}\n  construct: {v['construct']}\n  {v['msg']}")
        wall = time.time() - self.start
        cov = {
            "explanation": explanation, "not_decided": not_decided,
            "obligations": total, "discharged": discharged, "evaluations": total,
            "distinct_nontrivial": len(distinct), "trivial": trivial,
            "rule": "one obligation per rule instance found in /repo/conf/route_control.py (call site, container access, lock region, helper body); distinct = distinct rule|function|construct keys",
            "samples": samples or ["no obligations generated"],
            "per_rule": {k: f"{c[1]}/{c[0]} discharged" for k, c in per_rule.items()},
            "floors": self.floors, "functions_analysed": sorted(self.functions),
            "checker_cmd": f"python3 checker/py/route_rules.py --prop {PROP} --tier {self.tier}",
            "trusted_base": ["CPython ast module", "semantics of dict/list methods named in the rules (setdefault, append, remove, get, del)"],
            "known_findings": len(viol) - unknown, "exhaustive": True,
        }
        cov.update(self.extra)
        ev = {"property_id": PROP, "tier": self.tier, "seed": 0, "level": "other", "coverage": cov,
              "assumptions": ["pybess/pyroute2 behave as their names say; the handlers are only entered through the registration sites in this file"],
              "wall_s": wall, "violations": unknown}
        with open(os.path.join(ev_dir, PROP + ".json"), "w") as f:
            json.dump(ev, f, indent=1)
        print(f"{PROP} tier={self.tier} obligations={total} discharged={discharged} nontrivial={len(distinct)} violations={unknown} known={len(viol) - unknown} functions={len(self.functions)} wall={wall:.1f}s")
        if total == 0:
            undecided("coverage", "no obligations were generated")
        return 1 if unknown else 0


# ------------------------------------------------------------------------------------------------
# normalisation: the rules below are written against the shape of the pinned file. Edits that keep
# the behaviour but change the shape are undone first, so that they are not reported:
#   N1  `if not (x := e):`            → `x = e` followed by `if not x:`
#   N2  `if not c: A else: B`         → `if c: B else: A`
#   N3  a call of a method that did not exist in the pinned file (an extracted helper) whose body is
#       straight-line up to an optional final return is expanded at its call site
KNOWN_METHODS = {
    "BessController": {"__init__", "_get_bess", "add_route_to_module", "delete_module_route_entry", "create_module", "link_modules", "delete_module"},
    "RouteController": {"__init__", "register_handlers", "start_pinging_missing_entries", "bootstrap_routes", "add_new_route_entry", "_add_neighbor",
                        "_create_update_module", "add_unresolved_new_neighbor", "_create_module_links", "delete_route_entry", "_forget_unresolved_route",
                        "_ping_missing_entries", "_probe_addr", "_get_gate_idx", "_netlink_neighbor_handler", "_netlink_route_handler", "cleanup",
                        "reconfigure", "_parse_route_entry_msg"},
}


def _blocks(node):
    for field in ("body", "orelse", "finalbody"):
        b = getattr(node, field, None)
        if isinstance(b, list) and b and isinstance(b[0], ast.stmt):
            yield b
    for h in getattr(node, "handlers", []) or []:
        yield h.body


def _hoist_walrus(tree):
    n = 0
    for node in ast.walk(tree):
        for blk in _blocks(node):
            i = 0
            while i < len(blk):
                st = blk[i]
                if isinstance(st, ast.If):
                    t = st.test
                    holder, attr = st, "test"
                    if isinstance(t, ast.UnaryOp) and isinstance(t.op, ast.Not):
                        holder, attr, t = t, "operand", t.operand
                    elif isinstance(t, ast.Compare):
                        holder, attr, t = t, "left", t.left
                    if isinstance(t, ast.NamedExpr) and isinstance(t.target, ast.Name):
                        asg = ast.Assign(targets=[ast.Name(id=t.target.id, ctx=ast.Store())], value=t.value, lineno=st.lineno, col_offset=st.col_offset)
                        ast.copy_location(asg, st)
                        setattr(holder, attr, ast.copy_location(ast.Name(id=t.target.id, ctx=ast.Load()), t))
                        blk.insert(i, asg)
                        i += 1
                        n += 1
                i += 1
    return n


def _invert_ifs(tree):
    n = 0
    for node in ast.walk(tree):
        if isinstance(node, ast.If) and node.orelse and isinstance(node.test, ast.UnaryOp) and isinstance(node.test.op, ast.Not):
            node.test = node.test.operand
            node.body, node.orelse = node.orelse, node.body
            n += 1
    return n


class _Subst(ast.NodeTransformer):
    def __init__(self, mapping):
        self.mapping = mapping

    def visit_Name(self, node):
        if isinstance(node.ctx, ast.Load) and node.id in self.mapping:
            return copy.deepcopy(self.mapping[node.id])
        return node


def _inline_helpers(tree):
    n = 0
    for cls in tree.body:
        if not isinstance(cls, ast.ClassDef) or cls.name not in KNOWN_METHODS:
            continue
        methods = {m.name: m for m in cls.body if isinstance(m, ast.FunctionDef)}
        fresh = {k: v for k, v in methods.items() if k not in KNOWN_METHODS[cls.name]}

        def expandable(f):
            if f.decorator_list or f.args.vararg or f.args.kwarg or f.args.kwonlyargs:
                return False
            body = [st for st in f.body if not (isinstance(st, ast.Expr) and isinstance(st.value, ast.Constant))]
            if not body:
                return False
            for st in body[:-1]:
                if any(isinstance(x, (ast.Return, ast.Yield, ast.YieldFrom)) for x in ast.walk(st)):
                    return False
            last = body[-1]
            if not isinstance(last, ast.Return) and any(isinstance(x, (ast.Return, ast.Yield, ast.YieldFrom)) for x in ast.walk(last)):
                return False
            return True

        def expansion(f, call):
            params = [a.arg for a in f.args.args][1:]
            defaults = dict(zip(reversed(params), reversed(f.args.defaults))) if f.args.defaults else {}
            b = bind_args(call, params)
            for p_, d in defaults.items():
                b.setdefault(p_, d)
            if set(b) != set(params):
                return None
            pre, mapping = [], {}
            stored = {x.id for x in ast.walk(f) if isinstance(x, ast.Name) and isinstance(x.ctx, ast.Store)}
            for p_ in params:
                a = b[p_]
                simple = isinstance(a, (ast.Name, ast.Constant)) or (isinstance(a, ast.Attribute) and all(isinstance(x, (ast.Attribute, ast.Name, ast.Load)) for x in ast.walk(a)))
                if simple and p_ not in stored:
                    mapping[p_] = a
                else:
                    pre.append(ast.copy_location(ast.Assign(targets=[ast.Name(id=p_, ctx=ast.Store())], value=a, lineno=call.lineno, col_offset=0), call))
            body = [copy.deepcopy(st) for st in f.body if not (isinstance(st, ast.Expr) and isinstance(st.value, ast.Constant))]
            body = [_Subst(mapping).visit(st) for st in body]
            ret = None
            if isinstance(body[-1], ast.Return):
                ret = body[-1].value
                body = body[:-1]
            return pre + body, ret

        for _ in range(4):
            changed = False
            for f in methods.values():
                for node in ast.walk(f):
                    for blk in _blocks(node):
                        i = 0
                        while i < len(blk):
                            st = blk[i]
                            call = None
                            if isinstance(st, ast.Expr) and isinstance(st.value, ast.Call):
                                call = st.value
                            elif isinstance(st, (ast.Assign, ast.Return)) and isinstance(st.value, ast.Call):
                                call = st.value
                            if call is not None and is_self_attr(call.func) and call.func.attr in fresh and fresh[call.func.attr] is not f and expandable(fresh[call.func.attr]):
                                exp = expansion(fresh[call.func.attr], call)
                                if exp is not None:
                                    stmts, ret = exp
                                    if isinstance(st, ast.Expr):
                                        tail = [] if ret is None else [ast.copy_location(ast.Expr(value=ret), st)]
                                    else:
                                        st.value = ret if ret is not None else ast.Constant(value=None)
                                        tail = [st]
                                    blk[i:i + 1] = stmts + tail
                                    i += len(stmts) + len(tail)
                                    n += 1
                                    changed = True
                                    continue
                            i += 1
            if not changed:
                break
        # helpers that are no longer called are dropped from the class, so that the per-class rules
        # (who touches the caches, who is called under the lock) see the expanded code only
        called = {c.func.attr for m_ in methods.values() for c in ast.walk(m_) if isinstance(c, ast.Call) and is_self_attr(c.func)}
        referenced = {x.attr for m_ in methods.values() for x in ast.walk(m_) if is_self_attr(x)}
        cls.body = [st for st in cls.body if not (isinstance(st, ast.FunctionDef) and st.name in fresh and st.name not in called and st.name not in referenced and expandable(st))]
    return n


KNOWN_FUNCS = {"get_route_module_name": 1, "get_update_module_name": 2, "get_merge_module_name": 1, "validate_ipv4": 1, "send_ping": 1,
               "fetch_mac": 2, "mac_to_int": 1, "mac_to_hex": 1, "parse_args": 0, "register_signal_handlers": 1}
KNOWN_PARAMS = {
    ("RouteController", "add_new_route_entry"): 2, ("RouteController", "_add_neighbor"): 3, ("RouteController", "_create_update_module"): 3,
    ("RouteController", "add_unresolved_new_neighbor"): 2, ("RouteController", "_create_module_links"): 5, ("RouteController", "delete_route_entry"): 2,
    ("RouteController", "_forget_unresolved_route"): 2, ("RouteController", "_probe_addr"): 2, ("RouteController", "_get_gate_idx"): 3,
    ("RouteController", "_netlink_neighbor_handler"): 3, ("RouteController", "_netlink_route_handler"): 3, ("RouteController", "_parse_route_entry_msg"): 2,
    ("RouteController", "_ping_missing_entries"): 1, ("RouteController", "bootstrap_routes"): 1, ("RouteController", "register_handlers"): 1,
    ("RouteController", "start_pinging_missing_entries"): 1, ("RouteController", "cleanup"): 2, ("RouteController", "reconfigure"): 2,
    ("BessController", "add_route_to_module"): 4, ("BessController", "delete_module_route_entry"): 2, ("BessController", "create_module"): 4,
    ("BessController", "link_modules"): 5, ("BessController", "delete_module"): 2, ("BessController", "_get_bess"): 3,
}


KNOWN_ATTRS = {
    # class: attribute names in declaration order (instance attributes assigned in __init__, dataclass fields)
    "RouteEntry": ["next_hop_ip", "interface", "dest_prefix", "prefix_len"],
    "NeighborEntry": ["gate_idx", "mac_address", "route_count"],
    "BessController": ["_bess"],
    "RouteController": ["_unresolved_arp_queries_cache", "_neighbor_cache", "_module_gate_count_cache", "_lock", "_ndb", "_ipr",
                        "_bess_controller", "_ping_missing_thread", "_interfaces"],
}


def _restore_attrs(tree):
    """N0b: an attribute of the frozen list that is gone and a new attribute declared at the same position of the
    same class (same number of attributes) is the same attribute under a new name."""
    notes, ren = [], {}
    for cls in tree.body:
        if not isinstance(cls, ast.ClassDef) or cls.name not in KNOWN_ATTRS:
            continue
        cur = [st.target.id for st in cls.body if isinstance(st, ast.AnnAssign) and isinstance(st.target, ast.Name)]
        for mth in cls.body:
            if isinstance(mth, ast.FunctionDef) and mth.name == "__init__":
                for st in mth.body:
                    tgt = st.targets[0] if isinstance(st, ast.Assign) and len(st.targets) == 1 else (st.target if isinstance(st, ast.AnnAssign) else None)
                    if isinstance(tgt, ast.Attribute) and isinstance(tgt.value, ast.Name) and tgt.value.id == "self" and tgt.attr not in cur:
                        cur.append(tgt.attr)
        kn = KNOWN_ATTRS[cls.name]
        if len(cur) != len(kn):
            continue
        for a, b in zip(kn, cur):
            if a != b and a not in cur and b not in kn:
                ren[b] = a
                notes.append(f"{cls.name}.{b} is {a}")
    if ren:
        for n in ast.walk(tree):
            if isinstance(n, ast.Attribute) and n.attr in ren:
                n.attr = ren[n.attr]
            elif isinstance(n, ast.AnnAssign) and isinstance(n.target, ast.Name) and n.target.id in ren and isinstance(getattr(n, "_cls", None), str):
                n.target.id = ren[n.target.id]
            elif isinstance(n, ast.keyword) and n.arg in ren:
                n.arg = ren[n.arg]
        for cls in tree.body:
            if isinstance(cls, ast.ClassDef) and cls.name in KNOWN_ATTRS:
                for st in cls.body:
                    if isinstance(st, ast.AnnAssign) and isinstance(st.target, ast.Name) and st.target.id in ren:
                        st.target.id = ren[st.target.id]
    return notes


def _restore_names(tree):
    """N0: a frozen function or method that is gone and a new one with the same number of parameters — one
    candidate on each side — are one declaration under two names; it gets the frozen name back."""
    notes = []
    ren_attr, ren_name = {}, {}
    for cls in tree.body:
        if isinstance(cls, ast.ClassDef) and cls.name in KNOWN_METHODS:
            have = {m.name: m for m in cls.body if isinstance(m, ast.FunctionDef)}
            missing = [k for k in KNOWN_METHODS[cls.name] if k not in have and (cls.name, k) in KNOWN_PARAMS]
            fresh = [m for k, m in have.items() if k not in KNOWN_METHODS[cls.name]]
            for k in missing:
                cand = [m for m in fresh if len(m.args.args) == KNOWN_PARAMS[(cls.name, k)]]
                others = [k2 for k2 in missing if KNOWN_PARAMS[(cls.name, k2)] == KNOWN_PARAMS[(cls.name, k)]]
                if len(cand) == 1 and len(others) == 1:
                    notes.append(f"{cls.name}.{cand[0].name} is {k}")
                    ren_attr[cand[0].name] = k
                    cand[0].name = k
    have = {f.name: f for f in tree.body if isinstance(f, ast.FunctionDef)}
    missing = [k for k in KNOWN_FUNCS if k not in have]
    fresh = [f for k, f in have.items() if k not in KNOWN_FUNCS]
    for k in missing:
        cand = [f for f in fresh if len(f.args.args) == KNOWN_FUNCS[k]]
        others = [k2 for k2 in missing if KNOWN_FUNCS[k2] == KNOWN_FUNCS[k]]
        if len(cand) == 1 and len(others) == 1:
            notes.append(f"{cand[0].name} is {k}")
            ren_name[cand[0].name] = k
            cand[0].name = k
    if ren_attr or ren_name:
        for n in ast.walk(tree):
            if isinstance(n, ast.Attribute) and n.attr in ren_attr:
                n.attr = ren_attr[n.attr]
            elif isinstance(n, ast.Name) and n.id in ren_name:
                n.id = ren_name[n.id]
    return notes


def _functions(tree):
    for n in tree.body:
        if isinstance(n, ast.FunctionDef):
            yield n.name, n
        elif isinstance(n, ast.ClassDef):
            for mth in n.body:
                if isinstance(mth, ast.FunctionDef):
                    yield f"{n.name}.{mth.name}", mth


def dump_locals(tree):
    """name -> defining expression of the single-assignment locals of every function (frozen in known_py_locals.json)."""
    return {q: {k: ast.unparse(v) for k, v in single_assignments(f).items()} for q, f in _functions(tree)}


def _restore_locals(tree):
    """N4: a frozen local that is gone and a local that is not frozen, defined by the same expression in the
    same function, are one variable under two names; it gets the frozen name back."""
    try:
        known = json.load(open(os.path.join(os.path.dirname(os.path.abspath(__file__)), "known_py_locals.json")))
    except (OSError, ValueError):
        return []
    notes = []
    for q, f in _functions(tree):
        kn = known.get(q)
        if not kn:
            continue
        for _ in range(6):
            cur = single_assignments(f)
            assigned = {x.id for x in ast.walk(f) if isinstance(x, ast.Name) and isinstance(x.ctx, ast.Store)} | {a.arg for a in f.args.args}
            missing = [k for k in kn if k not in assigned]
            done = False
            for name, val in cur.items():
                if name in kn:
                    continue
                cands = [k for k in missing if kn[k] == ast.unparse(val)]
                if len(cands) == 1:
                    for x in ast.walk(f):
                        if isinstance(x, ast.Name) and x.id == name:
                            x.id = cands[0]
                    notes.append(f"{q}: {name} is {cands[0]}")
                    done = True
                    break
            if not done:
                break
    return notes


def _fold_lock_try(tree):
    """`L.acquire(); try: BODY finally: L.release()` is `with L: BODY` written out (for a threading.Lock the two are
    the same: acquire outside the try, release on every exit)."""
    n = 0
    for node in ast.walk(tree):
        for fld in ("body", "orelse", "finalbody"):
            lst = getattr(node, fld, None)
            if not isinstance(lst, list):
                continue
            i = 0
            while i + 1 < len(lst):
                a, t = lst[i], lst[i + 1]
                ok = (isinstance(a, ast.Expr) and isinstance(a.value, ast.Call) and isinstance(a.value.func, ast.Attribute) and a.value.func.attr == "acquire"
                      and not a.value.args and not a.value.keywords
                      and isinstance(t, ast.Try) and not t.handlers and not t.orelse and len(t.finalbody) == 1)
                if ok:
                    f = t.finalbody[0]
                    ok = (isinstance(f, ast.Expr) and isinstance(f.value, ast.Call) and isinstance(f.value.func, ast.Attribute) and f.value.func.attr == "release"
                          and not f.value.args and ast.unparse(f.value.func.value) == ast.unparse(a.value.func.value))
                if ok:
                    w = ast.With(items=[ast.withitem(context_expr=a.value.func.value, optional_vars=None)], body=t.body, type_comment=None)
                    ast.copy_location(w, a)
                    lst[i:i + 2] = [w]
                    n += 1
                i += 1
    return n


def _fold_try_keyerror(tree):
    """`try: x = d[k]` / `except KeyError: x = D` is `x = d.get(k, D)` written out (for a plain dict; the try holds
    nothing but the subscript)."""
    n = 0
    for node in ast.walk(tree):
        for fld in ("body", "orelse", "finalbody"):
            lst = getattr(node, fld, None)
            if not isinstance(lst, list):
                continue
            for i, t in enumerate(lst):
                if not (isinstance(t, ast.Try) and len(t.body) == 1 and len(t.handlers) == 1 and not t.orelse and not t.finalbody):
                    continue
                b, h = t.body[0], t.handlers[0]
                if not (isinstance(b, ast.Assign) and len(b.targets) == 1 and isinstance(b.targets[0], ast.Name) and isinstance(b.value, ast.Subscript)):
                    continue
                if not (h.type is not None and ast.unparse(h.type) == "KeyError" and len(h.body) == 1):
                    continue
                d = h.body[0]
                if not (isinstance(d, ast.Assign) and len(d.targets) == 1 and isinstance(d.targets[0], ast.Name) and d.targets[0].id == b.targets[0].id):
                    continue
                args = [b.value.slice]
                if not (isinstance(d.value, ast.Constant) and d.value.value is None):
                    args.append(d.value)
                call = ast.Call(func=ast.Attribute(value=b.value.value, attr="get", ctx=ast.Load()), args=args, keywords=[])
                new = ast.Assign(targets=b.targets, value=call, type_comment=None)
                ast.copy_location(new, b)
                ast.copy_location(call, b.value)
                ast.copy_location(call.func, b.value)
                lst[i] = new
                n += 1
    return n


def _fold_split_augassign(tree):
    """`t = o.a - c` directly followed by `o.a = t` is `o.a -= c` with a name for the new value: the pair becomes
    the augmented assignment and the other reads of t (a name assigned once, while o.a is not stored again) read
    o.a."""
    n = 0
    for fnode in [x for x in ast.walk(tree) if isinstance(x, (ast.FunctionDef, ast.AsyncFunctionDef))]:
        for node in ast.walk(fnode):
            for fld in ("body", "orelse", "finalbody"):
                lst = getattr(node, fld, None)
                if not isinstance(lst, list):
                    continue
                i = 0
                while i + 1 < len(lst):
                    a, b = lst[i], lst[i + 1]
                    i += 1
                    if not (isinstance(a, ast.Assign) and len(a.targets) == 1 and isinstance(a.targets[0], ast.Name) and isinstance(a.value, ast.BinOp)
                            and isinstance(a.value.op, (ast.Add, ast.Sub)) and isinstance(a.value.left, ast.Attribute)):
                        continue
                    t = a.targets[0].id
                    if not (isinstance(b, ast.Assign) and len(b.targets) == 1 and isinstance(b.targets[0], ast.Attribute) and isinstance(b.value, ast.Name) and b.value.id == t
                            and ast.unparse(b.targets[0]) == ast.unparse(a.value.left)):
                        continue
                    attr_src = ast.unparse(a.value.left)
                    stores_t = [x for x in ast.walk(fnode) if isinstance(x, ast.Name) and x.id == t and isinstance(x.ctx, ast.Store)]
                    stores_a = [x for x in ast.walk(fnode) if isinstance(x, ast.Attribute) and isinstance(x.ctx, ast.Store) and ast.unparse(x) == attr_src]
                    if len(stores_t) != 1 or len(stores_a) != 1:
                        continue
                    aug = ast.AugAssign(target=b.targets[0], op=a.value.op, value=a.value.right)
                    ast.copy_location(aug, a)
                    lst[i - 1:i + 1] = [aug]

                    class _R(ast.NodeTransformer):
                        def visit_Name(self, nd):
                            if nd.id == t and isinstance(nd.ctx, ast.Load):
                                return ast.copy_location(ast.parse(attr_src, mode="eval").body, nd)
                            return nd
                    _R().visit(fnode)
                    n += 1
    return n


def normalize_tree(tree):
    out = {"renamed": _restore_names(tree) + _restore_attrs(tree)}
    out["lock_try_folded"] = _fold_lock_try(tree)
    out["try_keyerror_folded"] = _fold_try_keyerror(tree)
    out["split_augassign_folded"] = _fold_split_augassign(tree)
    out.update({"walrus_hoisted": _hoist_walrus(tree), "helpers_expanded": _inline_helpers(tree)})
    out["locals_restored"] = _restore_locals(tree)
    out["walrus_hoisted"] += _hoist_walrus(tree)
    out["ifs_inverted"] = _invert_ifs(tree)
    ast.fix_missing_locations(tree)
    return out


# ------------------------------------------------------------------------------------------------
# program model

class Model:
    def __init__(self, path, rel):
        self.rel = rel
        src = open(path).read()
        self.tree = ast.parse(src, filename=path)
        self.normalized = normalize_tree(self.tree)
        self.classes, self.funcs = {}, {}
        for n in self.tree.body:
            if isinstance(n, ast.ClassDef):
                self.classes[n.name] = {m.name: m for m in n.body if isinstance(m, ast.FunctionDef)}
            elif isinstance(n, ast.FunctionDef):
                self.funcs[n.name] = n
        # parent links
        for parent in ast.walk(self.tree):
            for ch in ast.iter_child_nodes(parent):
                ch._parent = parent

    def pos(self, node):
        return f"{self.rel}:{getattr(node, 'lineno', 0)}"

    def method(self, cls, name, rule):
        m = self.classes.get(cls, {}).get(name)
        if m is None:
            undecided(rule, f"anchor {cls}.{name} not found in {self.rel}")
        return m

    def helper_template(self, name):
        """A module-level function whose body is a docstring and one `return expr`."""
        f = self.funcs.get(name)
        if f is None:
            return None
        body = [s for s in f.body if not (isinstance(s, ast.Expr) and isinstance(s.value, ast.Constant))]
        if len(body) == 1 and isinstance(body[0], ast.Return) and body[0].value is not None and self._simple(body[0].value):
            return [a.arg for a in f.args.args], body[0].value
        return None

    def _simple(self, e):
        """Concatenations of names, constants and calls of module-level helpers: safe to inline."""
        if isinstance(e, (ast.Name, ast.Constant)):
            return True
        if isinstance(e, ast.BinOp) and isinstance(e.op, ast.Add):
            return self._simple(e.left) and self._simple(e.right)
        if isinstance(e, ast.Call) and isinstance(e.func, ast.Name) and e.func.id in self.funcs and not e.keywords:
            return all(self._simple(a) for a in e.args)
        return False


def single_assignments(fn):
    """name -> value for names assigned exactly once in fn (plain assignment or walrus)."""
    counts, vals = {}, {}
    for n in ast.walk(fn):
        if isinstance(n, ast.Assign) and len(n.targets) == 1 and isinstance(n.targets[0], ast.Name):
            k = n.targets[0].id
            counts[k] = counts.get(k, 0) + 1
            vals[k] = n.value
        elif isinstance(n, ast.NamedExpr) and isinstance(n.target, ast.Name):
            k = n.target.id
            counts[k] = counts.get(k, 0) + 1
            vals[k] = n.value
        elif isinstance(n, (ast.AugAssign, ast.AnnAssign)) and isinstance(n.target, ast.Name):
            counts[n.target.id] = counts.get(n.target.id, 0) + 2
        elif isinstance(n, (ast.For, ast.comprehension)) and isinstance(n.target, ast.Name):
            counts[n.target.id] = counts.get(n.target.id, 0) + 2
    return {k: v for k, v in vals.items() if counts[k] == 1}


def bind_args(call, params):
    """Map parameter name -> argument expression for a call to a function with positional params."""
    out = {}
    for i, a in enumerate(call.args):
        if i < len(params):
            out[params[i]] = a
    for kw in call.keywords:
        if kw.arg:
            out[kw.arg] = kw.value
    return out


def norm(m, expr, env, depth=0, subst=None):
    """Normal form of an expression: local single-assignment names are replaced by their values,
    one-line helpers are inlined, the rest is unparsed."""
    subst = subst or {}
    if depth > 8:
        return ast.unparse(expr)
    if isinstance(expr, ast.Name):
        if expr.id in subst:
            return subst[expr.id]
        if expr.id in env:
            return norm(m, env[expr.id], env, depth + 1, subst)
        return expr.id
    if isinstance(expr, ast.NamedExpr):
        return norm(m, expr.value, env, depth + 1, subst)
    if isinstance(expr, ast.UnaryOp) and isinstance(expr.op, ast.Not):
        return "not " + norm(m, expr.operand, env, depth + 1, subst)
    if isinstance(expr, ast.Call) and isinstance(expr.func, ast.Name):
        t = m.helper_template(expr.func.id)
        if t:
            params, body = t
            b = bind_args(expr, params)
            s = {p: norm(m, a, env, depth + 1, subst) for p, a in b.items()}
            return norm(m, body, {}, depth + 1, s)
        args = [norm(m, a, env, depth + 1, subst) for a in expr.args]
        args += [f"{k.arg}={norm(m, k.value, env, depth + 1, subst)}" for k in expr.keywords]
        return f"{expr.func.id}({', '.join(args)})"
    if isinstance(expr, ast.BinOp) and isinstance(expr.op, ast.Add):
        return f"{norm(m, expr.left, env, depth + 1, subst)} + {norm(m, expr.right, env, depth + 1, subst)}"
    if isinstance(expr, ast.Attribute):
        return f"{norm(m, expr.value, env, depth + 1, subst)}.{expr.attr}"
    if isinstance(expr, ast.Call):
        args = [norm(m, a, env, depth + 1, subst) for a in expr.args]
        args += [f"{k.arg}={norm(m, k.value, env, depth + 1, subst)}" for k in expr.keywords]
        return f"{norm(m, expr.func, env, depth + 1, subst)}({', '.join(args)})"
    if isinstance(expr, ast.Subscript):
        return f"{norm(m, expr.value, env, depth + 1, subst)}[{norm(m, expr.slice, env, depth + 1, subst)}]"
    return ast.unparse(expr)


def branch_cond(m, node, iff, env):
    """The condition under which node (inside iff) runs, in normal form, and the branch it is in."""
    if iff is None:
        return "", []
    t = norm(m, iff.test, env)
    if any(node in ast.walk(b) for b in iff.body):
        return t, iff.body
    return (t[4:] if t.startswith("not ") else "not " + t), iff.orelse


def is_self_attr(node, name=None):
    return isinstance(node, ast.Attribute) and isinstance(node.value, ast.Name) and node.value.id == "self" and (name is None or node.attr == name)


def calls_in(fn, pred):
    return [n for n in ast.walk(fn) if isinstance(n, ast.Call) and pred(n)]


def self_calls(fn, name):
    return calls_in(fn, lambda c: is_self_attr(c.func, name))


def ctrl_calls(fn, name):
    """self._bess_controller.<name>(...)"""
    return calls_in(fn, lambda c: isinstance(c.func, ast.Attribute) and c.func.attr == name and is_self_attr(c.func.value, "_bess_controller"))


def enclosing(node, kind):
    p = getattr(node, "_parent", None)
    while p is not None:
        if isinstance(p, kind):
            return p
        p = getattr(p, "_parent", None)
    return None


def under_lock(node):
    p = getattr(node, "_parent", None)
    while p is not None:
        if isinstance(p, ast.With):
            for it in p.items:
                if is_self_attr(it.context_expr, "_lock"):
                    return True
        if isinstance(p, ast.FunctionDef):
            return False
        p = getattr(p, "_parent", None)
    return False


CACHES = ["_unresolved_arp_queries_cache", "_neighbor_cache", "_module_gate_count_cache"]


def cache_accesses(fn):
    """(cache, kind, node): kind in read / set / del / aug / call:<method>"""
    out = []
    for n in ast.walk(fn):
        if not is_self_attr(n) or n.attr not in CACHES:
            continue
        p = getattr(n, "_parent", None)
        kind = "read"
        node = n
        if isinstance(p, ast.Subscript) and p.value is n:
            gp = getattr(p, "_parent", None)
            node = p
            if isinstance(p.ctx, ast.Store):
                kind = "aug" if isinstance(gp, ast.AugAssign) else "set"
            elif isinstance(p.ctx, ast.Del):
                kind = "del"
            elif isinstance(gp, ast.Attribute) and isinstance(getattr(gp, "_parent", None), ast.Call) and gp._parent.func is gp:
                kind = "elemcall:" + gp.attr  # cache[k].append(...)
            elif isinstance(gp, ast.AugAssign) and gp.target is p:
                kind = "aug"
            else:
                kind = "read"
        elif isinstance(p, ast.Attribute) and isinstance(getattr(p, "_parent", None), ast.Call) and p._parent.func is p:
            kind = "call:" + p.attr
            node = p._parent
        out.append((n.attr, kind, node))
    return out


MUTATORS = {"set", "del", "aug", "call:clear", "call:pop", "call:popitem", "call:setdefault", "call:update", "elemcall:append", "elemcall:remove", "elemcall:pop", "elemcall:clear", "elemcall:extend"}


def main():
    if "--dump-locals" in sys.argv:
        path = sys.argv[sys.argv.index("--dump-locals") + 1]
        t = ast.parse(open(path).read())
        _hoist_walrus(t)
        print(json.dumps(dump_locals(t), indent=1, sort_keys=True))
        return
    ap = argparse.ArgumentParser()
    ap.add_argument("--prop", default=PROP)
    ap.add_argument("--tier", default="quick")
    ap.add_argument("--repo", default="/repo")
    ap.add_argument("--verif", default=os.path.dirname(os.path.dirname(os.path.dirname(os.path.abspath(__file__)))))
    ap.add_argument("--out", default="")
    a = ap.parse_args()
    if a.prop != PROP:
        undecided("args", "this checker decides C20 only")
    rel = "conf/route_control.py"
    path = os.path.join(a.repo, rel)
    if not os.path.exists(path):
        undecided("load", f"{path} not found")
    try:
        m = Model(path, rel)
    except SyntaxError as e:
        undecided("load", f"cannot parse {rel}: {e}")
    r = Report(a.tier, a.verif, a.out)
    try:
        run_rules(m, r)
    except SystemExit:
        raise
    except Exception as e:  # analyser error: never an alarm
        import traceback
        traceback.print_exc()
        undecided("analyser", f"{type(e).__name__}: {e}")
    replay = None
    if a.tier == "thorough" and not [v for v in r.viol]:
        replay = replay_seeds(a.verif, a.repo)
    explanation = (
        "R20.1 module-name agreement: the Update module is created, linked and deleted under the same normal form "
        "(helpers inlined, locals resolved), add and delete address the same lookup module; R20.2 pending routes: the unresolved cache keeps a "
        "collection per next hop (no plain overwrite), resolution installs every waiting route and then forgets the next hop; "
        "R20.3 the delete path removes from every container the add path fills (neighbor cache, unresolved cache); "
        "R20.4 every entry into the state-changing methods from a handler, bootstrap or thread is inside `with self._lock`, cache accesses elsewhere are under the lock; "
        "R20.5 gate counter: only ever += 1, exactly where a new NeighborEntry is created; a known next hop reuses its gate, a new one takes the counter; "
        "R20.6 wiring: link_modules binds (module, next_module, ogate, igate) = (lookup, Update, gate_idx, 0) and (Update, Merge, 0, 0), the wrapper forwards them in order, the route is added with the same gate_idx; "
        "R20.7 reference count: +1 on every add that reached BESS, −1 after a successful BESS delete, Update module destroyed and cache entry removed exactly when the count reaches 0; "
        "R20.8 a route is programmed only with a MAC that is present (truthiness test or a raising subscript). "
        "R20.11 RouteEntry's generated equality covers every field (no compare=False, no eq=False, no hand-written __eq__): the waiting lists find and drop routes by equality."
    )
    not_decided = ("the refinement between an arbitrary netlink event history and the BESS module graph; duplicate RTM_NEWROUTE events for one route "
                   "(the controller keeps no set of installed routes); the SIGHUP reconfigure path; failures inside BESS calls")
    r.extra = {}
    if replay is not None:
        rs, enforce, cur, base = replay
        r.extra = {"seed_replay": rs, "seeded_changes_replayed": len(rs), "replay_enforced": enforce, "analysed_source_hash": cur, "replay_expectations_recorded_on_source": base}
    r.extra["source_normalisation"] = m.normalized
    sys.exit(r.finish(explanation, not_decided))


def replay_seeds(verif, repo):
    """Thorough tier: every recorded change — seeded/ (breaks a property; C20 must report the ones recorded for it)
    and benign/ (keeps the behaviour; C20 must stay silent) — is applied to a scratch copy of the controller
    (outside /repo and /verif, removed afterwards) and the rules are run on the copy in a child process; the
    verdict must be the recorded one. A mismatch is a checker regression: UNDECIDED, not a VIOLATION. The
    expectations belong to the controller source whose hash is in seeded/BASE_TREE.json; on any other source
    the replay is still run and written to the evidence but a mismatch is not enforced."""
    import glob
    import shutil
    import subprocess
    import tempfile
    try:
        base = json.load(open(os.path.join(verif, "seeded", "BASE_TREE.json"))).get("route_control.py")
    except (OSError, ValueError):
        undecided("thorough.seed-replay", "seeded/BASE_TREE.json is missing: the source the replay expectations belong to is unknown")
    cur = hashlib.sha256(open(os.path.join(repo, "conf", "route_control.py"), "rb").read()).hexdigest()
    enforce = cur == base
    jobs = []
    for d in sorted(glob.glob(os.path.join(verif, "seeded", "*"))):
        try:
            meta = json.load(open(os.path.join(d, "meta.json")))
        except (OSError, ValueError):
            continue
        exp = (meta.get("thorough_expectation") or {}).get(PROP)
        if exp:
            jobs.append((os.path.basename(d), os.path.join(d, meta.get("patch_used") or "patch.diff"), exp))
    for pth in sorted(glob.glob(os.path.join(verif, "benign", "*", "patch.diff"))):
        if "route_control.py" in open(pth).read():
            jobs.append(("benign/" + os.path.basename(os.path.dirname(pth)), pth, "silent"))
    out, mismatch = [], 0
    for name, patch, exp in jobs:
        scratch = tempfile.mkdtemp(prefix="route-rules-seed-")
        try:
            os.makedirs(os.path.join(scratch, "repo", "conf"))
            shutil.copy(os.path.join(repo, "conf", "route_control.py"), os.path.join(scratch, "repo", "conf"))
            ap = subprocess.run(["patch", "-p1", "-s", "-f", "-i", patch], cwd=os.path.join(scratch, "repo"), capture_output=True, text=True)
            if ap.returncode != 0:
                got = "patch does not apply"
            else:
                ch = subprocess.run([sys.executable, os.path.abspath(__file__), "--prop", PROP, "--tier", "quick", "--repo", os.path.join(scratch, "repo"),
                                     "--verif", verif, "--out", os.path.join(scratch, "ev")], capture_output=True, text=True)
                got = {0: "silent", 1: "detected"}.get(ch.returncode, "undecided")
        finally:
            shutil.rmtree(scratch, ignore_errors=True)
        out.append({"seed": name, "expected": exp, "got": got})
        if not (exp == got or (exp == "not-decided" and got in ("silent", "detected"))):
            mismatch += 1
            if enforce:
                undecided("thorough.seed-replay", f"recorded change {name}: expected {exp}, got {got} — the rule set no longer behaves as confirmed (checker regression, not a finding about the tree)")
    if enforce:
        print(f"{PROP} thorough: {len(out)} recorded changes replayed, all as recorded")
    else:
        print(f"{PROP} thorough: {len(out)} recorded changes replayed on a source other than the one the expectations were recorded on; {mismatch} differ (listed in the evidence, not enforced)")
    return out, enforce, cur, base


NB_KEY = "self._neighbor_cache[route_entry.next_hop_ip]"


def nb_refs(fnode):
    """Names of fnode that hold the neighbor entry of the route's next hop: every assignment to the name is the cache
    lookup of that next hop, or a new NeighborEntry that the next statement stores under that next hop."""
    cands = {}
    for node in ast.walk(fnode):
        for fld in ("body", "orelse", "finalbody"):
            lst = getattr(node, fld, None)
            if not isinstance(lst, list):
                continue
            for i, st in enumerate(lst):
                if isinstance(st, ast.Assign) and len(st.targets) == 1 and isinstance(st.targets[0], ast.Name):
                    v = st.targets[0].id
                    src = ast.unparse(st.value)
                    ok = src in ("self._neighbor_cache.get(route_entry.next_hop_ip)", NB_KEY)
                    if isinstance(st.value, ast.Call) and ast.unparse(st.value.func) == "NeighborEntry" and i + 1 < len(lst):
                        nx = lst[i + 1]
                        ok = isinstance(nx, ast.Assign) and len(nx.targets) == 1 and ast.unparse(nx.targets[0]) == NB_KEY and isinstance(nx.value, ast.Name) and nx.value.id == v
                    cands.setdefault(v, []).append(ok)
    for n in ast.walk(fnode):
        if isinstance(n, (ast.AugAssign, ast.AnnAssign, ast.For, ast.NamedExpr)) and isinstance(getattr(n, "target", None), ast.Name):
            cands.setdefault(n.target.id, []).append(False)
    return {v for v, oks in cands.items() if all(oks)}


def run_rules(m, r):
    RC, BC = "RouteController", "BessController"
    add_nb = m.method(RC, "_add_neighbor", "R20.1")
    del_rt = m.method(RC, "delete_route_entry", "R20.1")
    add_new = m.method(RC, "add_new_route_entry", "R20.2")
    add_unres = m.method(RC, "add_unresolved_new_neighbor", "R20.2")
    probe = m.method(RC, "_probe_addr", "R20.2")
    get_gate = m.method(RC, "_get_gate_idx", "R20.5")
    mk_links = m.method(RC, "_create_module_links", "R20.6")
    mk_upd = m.method(RC, "_create_update_module", "R20.1")
    fn = lambda f: f"{RC}.{f.name}"

    # ------------------------------------------------------------------ R20.1
    env_add, env_del = single_assignments(add_nb), single_assignments(del_rt)
    # name handed to _create_update_module / _create_module_links / delete_module
    created = []
    for c in self_calls(add_nb, "_create_update_module"):
        b = bind_args(c, ["update_module_name", "destination_mac"])
        if "update_module_name" in b:
            created.append((norm(m, b["update_module_name"], env_add), c, norm(m, b.get("destination_mac", ast.Constant(None)), env_add)))
    linked = []
    for c in self_calls(add_nb, "_create_module_links"):
        b = bind_args(c, ["gate_idx", "update_module_name", "route_module_name", "merge_module_name"])
        linked.append((b, c))
    deleted = [(norm(m, c.args[0] if c.args else c.keywords[0].value, env_del), c) for c in ctrl_calls(del_rt, "delete_module")]
    r.floor("R20.1 update module creation sites", len(created), 1)
    r.floor("R20.1 update module deletion sites", len(deleted), 1)
    # the MAC recorded in the cache is the one the name was built from
    mac_expr = None
    for n in ast.walk(add_nb):
        if isinstance(n, ast.Call) and isinstance(n.func, ast.Name) and n.func.id == "NeighborEntry":
            b = bind_args(n, ["gate_idx", "mac_address", "route_count"])
            if "mac_address" in b:
                mac_expr = norm(m, b["mac_address"], env_add)
    CACHED_MAC = "self._neighbor_cache.get(route_entry.next_hop_ip).mac_address"
    canon = lambda s: s.replace(CACHED_MAC, "<mac>").replace("next_hop.mac_address", "<mac>").replace(mac_expr or "\0", "<mac>")
    for name, c, mac in created:
        r.check(canon(mac) == "<mac>", "R20.1", fn(add_nb), "the Update module rewrites to the MAC the neighbor entry records", m.pos(c), mac, f"the module is created for {mac}, the cache records {mac_expr}")
        for dname, d in deleted:
            r.check(canon(name) == canon(dname), "R20.1", fn(del_rt), "the Update module is destroyed under the name it was created with", m.pos(d),
                    canon(name), f"created as `{canon(name)}` ({m.pos(c)}) but destroyed as `{canon(dname)}`: the destroy fails, the module, its gate link and the neighbor entry stay for ever")
        for b, l in linked:
            ln = norm(m, b.get("update_module_name", ast.Constant(None)), env_add)
            r.check(canon(ln) == canon(name), "R20.1", fn(add_nb), "the module linked is the module created", m.pos(l), canon(ln), f"created `{canon(name)}`, linked `{canon(ln)}`")
    # the destroy uses the deleted route's interface and the cached MAC
    for dname, d in deleted:
        r.check("route_entry.interface" in dname and "<mac>" in canon(dname) and CACHED_MAC in dname, "R20.1", fn(del_rt), "the destroyed module is the deleted route's next hop on its interface", m.pos(d), dname, f"destroyed module name is `{dname}`")
    # lookup module of add vs delete
    add_mod = [norm(m, bind_args(c, ["route_entry", "gate_idx", "module_name"]).get("module_name", ast.Constant(None)), env_add) for c in ctrl_calls(add_nb, "add_route_to_module")]
    bc_del = m.method(BC, "delete_module_route_entry", "R20.1")
    env_bd = single_assignments(bc_del)
    del_mod = []
    for c in calls_in(bc_del, lambda c: isinstance(c.func, ast.Attribute) and c.func.attr == "run_module_command"):
        del_mod.append((norm(m, c.args[0], env_bd), c))
    r.floor("R20.1 route add sites", len(add_mod), 1)
    r.floor("R20.1 route delete commands", len(del_mod), 1)
    for am in add_mod:
        for dm, c in del_mod:
            r.check(am == dm, "R20.1", f"{BC}.delete_module_route_entry", "a route is deleted from the lookup module it was added to", m.pos(c), dm, f"added to `{am}`, deleted from `{dm}`")
    # the wrapper's add/delete commands carry the entry's own prefix
    bc_add = m.method(BC, "add_route_to_module", "R20.1")
    for f, cmd in ((bc_add, "add"), (bc_del, "delete")):
        for c in calls_in(f, lambda c: isinstance(c.func, ast.Attribute) and c.func.attr == "run_module_command"):
            d = c.args[3] if len(c.args) > 3 else None
            if isinstance(d, ast.Name):
                d = single_assignments(f).get(d.id, d)
            okp = False
            if isinstance(d, ast.Dict):
                kv = {k.value: ast.unparse(v) for k, v in zip(d.keys, d.values) if isinstance(k, ast.Constant)}
                okp = kv.get("prefix") == "route_entry.dest_prefix" and "route_entry.prefix_len" in kv.get("prefix_len", "")
                if cmd == "add":
                    okp = okp and kv.get("gate") == "gate_idx"
            r.check(okp and ast.unparse(c.args[1]) == repr(cmd), "R20.1", f"{BC}.{f.name}", f"the {cmd} command carries the route's prefix, length" + (" and gate" if cmd == "add" else ""), m.pos(c), "prefix/prefix_len" + ("/gate" if cmd == "add" else ""), f"the {cmd} command arguments are {ast.unparse(d) if d else '?'}")

    # ------------------------------------------------------------------ R20.2
    UN = "_unresolved_arp_queries_cache"
    writes = [(k, n) for c, k, n in cache_accesses(probe) if c == UN and k in MUTATORS]
    r.floor("R20.2 pending-route writes in _probe_addr", len(writes), 1)
    def empty_collection_init(node):
        asg = getattr(node, "_parent", None)
        if not isinstance(asg, ast.Assign):
            return False
        v = asg.value
        return (isinstance(v, (ast.List, ast.Set, ast.Tuple)) and not v.elts) or (isinstance(v, ast.Dict) and not v.keys) or \
            (isinstance(v, ast.Call) and isinstance(v.func, ast.Name) and v.func.id in ("list", "set", "dict", "deque") and not v.args)
    writes = [(("init" if k == "set" and empty_collection_init(n) else k), n) for k, n in writes]
    for k, n in writes:
        r.check(k != "set", "R20.2", fn(probe), "a waiting route is added to the next hop's collection", m.pos(n), k,
                "`cache[next_hop] = route_entry` keeps ONE waiting route per next hop: a second route through the same unresolved next hop replaces the first, which is never installed")
    # the collection actually receives the route
    appended = False
    env_p = single_assignments(probe)
    for n in ast.walk(probe):
        if isinstance(n, ast.Call) and isinstance(n.func, ast.Attribute) and n.func.attr in ("append", "add") and n.args and ast.unparse(n.args[0]) == "route_entry":
            tgt = norm(m, n.func.value, env_p)
            if UN in tgt:
                appended = True
    has_set = any(k == "set" for k, _ in writes)
    r.check(appended or has_set, "R20.2", fn(probe), "the waiting route itself is recorded", m.pos(probe), "append(route_entry) on the cache's collection", "_probe_addr does not record the route")
    key_ok = all("route_entry.next_hop_ip" in ast.unparse(n) for _, n in writes)
    r.check(key_ok, "R20.2", fn(probe), "waiting routes are indexed by their next hop", m.pos(probe), "next_hop_ip", "the pending cache is keyed by something other than the next hop")
    # resolution: every waiting route is installed
    env_u = single_assignments(add_unres)
    installs = self_calls(add_unres, "_add_neighbor")
    r.floor("R20.2 install calls on resolution", len(installs), 1)
    for c in installs:
        loop = enclosing(c, ast.For)
        it = norm(m, loop.iter, env_u) if loop else ""
        r.check(loop is not None and UN in it and "NDA_DST" in it.replace("KEY_NETWORK_LAYER_DEST_ADDR", "NDA_DST"), "R20.2", fn(add_unres),
                "every route waiting for the resolved next hop is installed", m.pos(c), f"for … in {it}",
                "resolution installs a single route: other routes that were waiting for the same next hop are never installed")
        # the loop has no early exit
        if loop is not None:
            brk = [n for n in ast.walk(loop) if isinstance(n, (ast.Break, ast.Return))]
            r.check(not brk, "R20.2", fn(add_unres), "the installation loop visits every waiting route", m.pos(loop), "no break/return", "the loop can stop before the last waiting route")
    dels = [(k, n) for c, k, n in cache_accesses(add_unres) if c == UN and k in ("del", "call:pop")]
    r.check(len(dels) >= 1, "R20.2", fn(add_unres), "a resolved next hop is no longer pending", m.pos(add_unres), "del cache[next_hop]", "resolved next hops stay in the pending cache (and are pinged for ever)")
    for k, n in dels:
        r.check(enclosing(n, ast.For) is None, "R20.2", fn(add_unres), "the pending entry is dropped after all its routes were installed", m.pos(n), "outside the loop", "the pending entry is deleted inside the installation loop")
    # no early exit: the only way past a resolved neighbour without installing is "nothing is waiting"
    def own_returns(f):
        outr = []
        def walk(n):
            for ch in ast.iter_child_nodes(n):
                if isinstance(ch, (ast.FunctionDef, ast.Lambda)):
                    continue
                if isinstance(ch, (ast.Return, ast.Raise)):
                    outr.append(ch)
                walk(ch)
        walk(f)
        return outr
    pending_names = {k for k, v in env_u.items() if UN in norm(m, v, env_u)}
    for ret in own_returns(add_unres):
        iff = enclosing(ret, ast.If)
        t, _ = branch_cond(m, ret, iff, {})
        okr = iff is not None and t.startswith("not ") and t[4:] in pending_names
        r.check(okr, "R20.2", fn(add_unres), "a resolved neighbour is ignored only when nothing waits for it", m.pos(ret), f"return under `{t}`",
                f"add_unresolved_new_neighbor leaves at line {ret.lineno}" + (f" under `{t}`" if t else "") + ": routes waiting for this next hop are not installed although its MAC is now known")
    # add_new_route_entry: unknown MAC → pending, known MAC → install
    pr, ins = self_calls(add_new, "_probe_addr"), self_calls(add_new, "_add_neighbor")
    r.check(len(pr) == 1 and len(ins) == 1, "R20.2", fn(add_new), "a new route is either parked or installed", m.pos(add_new), "one _probe_addr, one _add_neighbor", f"{len(pr)} _probe_addr / {len(ins)} _add_neighbor calls")

    # ------------------------------------------------------------------ R20.3
    def reach_methods(root):
        seen, work = set(), [root]
        while work:
            f = work.pop()
            if f.name in seen:
                continue
            seen.add(f.name)
            for c in calls_in(f, lambda c: is_self_attr(c.func)):
                g = m.classes[RC].get(c.func.attr)
                if g is not None:
                    work.append(g)
        return [m.classes[RC][n] for n in seen]
    filled = set()
    for f in reach_methods(add_new) + reach_methods(add_unres):
        for c, k, n in cache_accesses(f):
            if k in ("set", "call:setdefault", "elemcall:append"):
                filled.add(c)
    removed = {}
    for f in reach_methods(del_rt):
        for c, k, n in cache_accesses(f):
            if k in ("del", "call:pop", "elemcall:remove"):
                removed.setdefault(c, n)
    r.floor("R20.3 containers filled by the add path", len(filled), 2)
    for c in sorted(filled):
        if c == "_module_gate_count_cache":
            r.trivial("R20.3", fn(del_rt), f"{c} is a monotonic counter (R20.5), nothing to remove", m.pos(del_rt), "exempt")
            continue
        r.check(c in removed, "R20.3", fn(del_rt), f"the delete path removes from {c}", m.pos(removed.get(c, del_rt)), "del/remove present",
                f"routes are recorded in {c} by the add path but the delete path never removes them: a route deleted while it waits for its next hop is installed when the neighbour resolves")
    # the waiting route dropped is the deleted one
    for f in reach_methods(del_rt):
        for n in ast.walk(f):
            if isinstance(n, ast.Call) and isinstance(n.func, ast.Attribute) and n.func.attr == "remove":
                r.check(n.args and ast.unparse(n.args[0]) == "route_entry", "R20.3", fn(f), "the waiting route dropped is the deleted route", m.pos(n), "remove(route_entry)", f"remove({ast.unparse(n.args[0]) if n.args else ''})")

    # ------------------------------------------------------------------ R20.4
    entry = {"add_new_route_entry", "delete_route_entry", "add_unresolved_new_neighbor"}
    n_sites = 0
    for name, f in m.classes[RC].items():
        for c in calls_in(f, lambda c: is_self_attr(c.func) and c.func.attr in entry):
            n_sites += 1
            r.check(under_lock(c), "R20.4", fn(f), f"{c.func.attr} is entered under the controller's lock", m.pos(c), "with self._lock", f"{c.func.attr} is called from {name} without holding self._lock: netlink handlers, bootstrap and the ping thread run concurrently")
    r.floor("R20.4 entries into state-changing methods", n_sites, 4)
    # methods that touch the caches are reachable only through those entries (or hold the lock themselves)
    internal = set()
    for e in entry:
        for f in reach_methods(m.classes[RC][e]):
            internal.add(f.name)
    for name, f in m.classes[RC].items():
        if name in internal or name == "__init__":
            continue
        for c, k, n in cache_accesses(f):
            r.check(under_lock(n), "R20.4", fn(f), f"{c} is accessed under the lock", m.pos(n), "with self._lock", f"{name} touches {c} outside the lock")
    # internal methods are not called from outside the locked region
    for name, f in m.classes[RC].items():
        if name in internal:
            continue
        for c in calls_in(f, lambda c: is_self_attr(c.func) and c.func.attr in internal and c.func.attr not in entry):
            r.check(under_lock(c), "R20.4", fn(f), f"internal method {c.func.attr} is only entered under the lock", m.pos(c), "with self._lock", f"{name} calls {c.func.attr} without the lock")
    # the handlers registered are the locking ones
    reg = m.method(RC, "register_handlers", "R20.4")
    regs = [ast.unparse(c.args[1]) for c in calls_in(reg, lambda c: isinstance(c.func, ast.Attribute) and c.func.attr == "register_handler") if len(c.args) > 1]
    r.check(sorted(regs) == ["self._netlink_neighbor_handler", "self._netlink_route_handler"], "R20.4", fn(reg), "the registered netlink handlers are the two locking handlers", m.pos(reg), ", ".join(regs), f"registered handlers: {regs}")

    # ------------------------------------------------------------------ R20.5
    GC = "_module_gate_count_cache"
    n_gc = 0
    for name, f in m.classes[RC].items():
        for c, k, n in cache_accesses(f):
            if c != GC or k == "read":
                continue
            if name == "__init__" and k == "set":
                continue
            n_gc += 1
            if k == "aug":
                aug = n._parent
                inc = isinstance(aug.op, ast.Add) and isinstance(aug.value, ast.Constant) and aug.value.value == 1
                r.check(inc, "R20.5", fn(f), "the gate counter only ever grows by one", m.pos(n), "+= 1",
                        f"`{ast.unparse(aug)}`: the counter is the next free gate index; lowering it hands out a gate that a live next hop still uses (two next hops share a gate)")
                # same branch as the NeighborEntry creation
                if inc:
                    blk = enclosing(n, ast.If)
                    has_new = False
                    if blk is not None:
                        for branch in (blk.body, blk.orelse):
                            if any(n in ast.walk(b) for b in branch):
                                has_new = any(isinstance(x, ast.Call) and isinstance(x.func, ast.Name) and x.func.id == "NeighborEntry" for b in branch for x in ast.walk(b))
                    r.check(has_new, "R20.5", fn(f), "a gate is consumed exactly when a new neighbor entry is created", m.pos(n), "same branch as NeighborEntry(...)", "the counter is advanced on a path that does not create a neighbor entry (or the other way round)")
            elif k == "call:clear" and name == "reconfigure":
                r.trivial("R20.5", fn(f), "reconfigure clears all caches together (not decided here)", m.pos(n), "SIGHUP path")
            else:
                r.bad("R20.5", fn(f), "the gate counter only ever grows by one", m.pos(n), f"{name} modifies the gate counter with `{k}`")
    r.floor("R20.5 gate counter updates", n_gc, 1)
    # _get_gate_idx: cached gate for a known next hop, else the counter of that module
    rets = [n for n in ast.walk(get_gate) if isinstance(n, ast.Return)]
    env_g = single_assignments(get_gate)
    forms = sorted(norm(m, x.value, env_g) for x in rets if x.value is not None)
    want = sorted(["self._neighbor_cache.get(route_entry.next_hop_ip).gate_idx", "self._module_gate_count_cache[module_name]"])
    r.check(forms == want, "R20.5", fn(get_gate), "a known next hop keeps its gate, a new one takes the module's counter", m.pos(get_gate), " | ".join(forms), f"_get_gate_idx returns {forms}")
    # the NeighborEntry records the gate that was used for the route and the link
    for n in ast.walk(add_nb):
        if isinstance(n, ast.Call) and isinstance(n.func, ast.Name) and n.func.id == "NeighborEntry":
            b = bind_args(n, ["gate_idx", "mac_address", "route_count"])
            g = norm(m, b.get("gate_idx", ast.Constant(None)), env_add)
            r.check(g.startswith("self._get_gate_idx("), "R20.5", fn(add_nb), "the neighbor entry records the gate the route was added with", m.pos(n), g, f"the neighbor entry records gate {g}")
            stored = enclosing(n, ast.Assign)
            key = ast.unparse(stored.targets[0]) if stored else ""
            if stored and isinstance(stored.targets[0], ast.Name) and stored.targets[0].id in nb_refs(add_nb):
                key = NB_KEY  # built in a local that the next statement stores under the route's next hop
            r.check(key == "self._neighbor_cache[route_entry.next_hop_ip]", "R20.5", fn(add_nb), "the neighbor entry is stored under the route's next hop", m.pos(n), key, f"the entry is stored as {key}")
    # the counter key is the lookup module of the route
    for c, k, n in cache_accesses(add_nb):
        if c == GC and k == "aug":
            ks = norm(m, n.slice, env_add)
            r.check(ks == add_mod[0], "R20.5", fn(add_nb), "gates are counted per lookup module", m.pos(n), ks, f"counter key `{ks}` differs from the lookup module `{add_mod[0]}`")

    # ------------------------------------------------------------------ R20.6
    bc_link = m.method(BC, "link_modules", "R20.6")
    params = [a.arg for a in bc_link.args.args if a.arg != "self"]
    r.check(params == ["module", "next_module", "ogate", "igate"], "R20.6", f"{BC}.link_modules", "link_modules(module, next_module, ogate, igate)", m.pos(bc_link), ", ".join(params), f"parameters are {params}")
    fw = calls_in(bc_link, lambda c: isinstance(c.func, ast.Attribute) and c.func.attr == "connect_modules")
    r.floor("R20.6 connect_modules calls", len(fw), 1)
    for c in fw:
        got = [ast.unparse(x) for x in c.args] + [f"{k.arg}={ast.unparse(k.value)}" for k in c.keywords]
        r.check(got == ["module", "next_module", "ogate", "igate"], "R20.6", f"{BC}.link_modules", "the wrapper forwards its arguments in order", m.pos(c), ", ".join(got), f"connect_modules({', '.join(got)})")
    links = ctrl_calls(mk_links, "link_modules")
    r.floor("R20.6 link sites", len(links), 2)
    want_links = [
        {"module": "route_module_name", "next_module": "update_module_name", "ogate": "gate_idx", "igate": "0"},
        {"module": "update_module_name", "next_module": "merge_module_name", "ogate": "0", "igate": "0"},
    ]
    got_links = []
    for c in links:
        b = bind_args(c, params)
        got_links.append(({k: ast.unparse(v) for k, v in b.items()}, c))
    for wl in want_links:
        hit = [c for g, c in got_links if g.get("module") == wl["module"] and g.get("next_module") == wl["next_module"]]
        desc = f"{wl['module']}:{wl['ogate']} -> {wl['igate']}:{wl['next_module']}"
        if not hit:
            r.bad("R20.6", fn(mk_links), "link " + desc, m.pos(mk_links), f"no link from {wl['module']} to {wl['next_module']}")
            continue
        g = [g for g, c in got_links if c is hit[0]][0]
        r.check(g == wl, "R20.6", fn(mk_links), "link " + desc, m.pos(hit[0]), json.dumps(g, sort_keys=True),
                f"the link is made as {g.get('module')}:{g.get('ogate')} -> {g.get('igate')}:{g.get('next_module')}: the lookup module's output gate {wl['ogate']} (the gate the route points to) is not the one connected to the Update module")
    # _add_neighbor hands the same gate to the route and to the link, and the right module names
    for b, l in linked:
        gl = norm(m, b.get("gate_idx", ast.Constant(None)), env_add)
        for c in ctrl_calls(add_nb, "add_route_to_module"):
            ga = norm(m, bind_args(c, ["route_entry", "gate_idx", "module_name"]).get("gate_idx", ast.Constant(None)), env_add)
            r.check(ga == gl, "R20.6", fn(add_nb), "the route points to the gate that is linked to its Update module", m.pos(l), ga, f"route added with gate `{ga}`, link made on gate `{gl}`")
        rm = norm(m, b.get("route_module_name", ast.Constant(None)), env_add)
        mm = norm(m, b.get("merge_module_name", ast.Constant(None)), env_add)
        r.check(rm == add_mod[0], "R20.6", fn(add_nb), "the link starts at the lookup module the route was added to", m.pos(l), rm, f"link starts at `{rm}`, route added to `{add_mod[0]}`")
        r.check(mm == 'route_entry.interface + "Merge"' or mm == "route_entry.interface + 'Merge'", "R20.6", fn(add_nb), "the Update module feeds the interface's Merge module", m.pos(l), mm, f"merge module is `{mm}`")
    # Update module class and field
    for c in ctrl_calls(mk_upd, "create_module"):
        b = bind_args(c, ["module_name", "module_class", "gateway_mac"])
        env_c = single_assignments(mk_upd)
        r.check(ast.unparse(b.get("module_class", ast.Constant(None))) == "'Update'" and norm(m, b.get("gateway_mac", ast.Constant(None)), env_c) == "mac_to_int(destination_mac)", "R20.6", fn(mk_upd), "the MAC-rewrite module is an Update module carrying the next hop's MAC", m.pos(c), "Update / mac_to_int(destination_mac)", f"create_module({ast.unparse(c)})")

    # ------------------------------------------------------------------ R20.7
    # +1: unconditional tail of _add_neighbor, after the BESS add succeeded (the except branch returns)
    # counted along every path through the function: `route_count += k` adds k, a new NeighborEntry(route_count=k)
    # stored for the next hop starts at k (0 when the argument is absent); a path that completes adds exactly 1,
    # a path that gives up inside an exception handler adds nothing
    incs = [n for n in ast.walk(add_nb) if isinstance(n, ast.AugAssign) and isinstance(n.target, ast.Attribute) and n.target.attr == "route_count"]
    UNKNOWN = object()

    def rc_stmt(st, in_exc):
        if isinstance(st, ast.If):
            return rc_paths(st.body, in_exc) + rc_paths(st.orelse, in_exc)
        if isinstance(st, ast.With):
            return rc_paths(st.body, in_exc)
        if isinstance(st, ast.Try):
            out = rc_paths(st.body + st.orelse, in_exc)
            body_counts = any(isinstance(x, ast.AugAssign) and isinstance(x.target, ast.Attribute) and x.target.attr == "route_count" for b in st.body for x in ast.walk(b))
            for h in st.handlers:
                for c, e in rc_paths(h.body, True):
                    out.append((UNKNOWN if body_counts else c, e))
            if st.finalbody:
                out2 = []
                for c, e in out:
                    for c2, e2 in rc_paths(st.finalbody, in_exc):
                        cc = UNKNOWN if (c is UNKNOWN or c2 is UNKNOWN) else c + c2
                        out2.append((cc, e if e is not None else e2))
                out = out2
            return out
        if isinstance(st, ast.Return):
            return [(0, "except-return" if in_exc else "return")]
        if isinstance(st, ast.Raise):
            return [(0, "raise")]
        if isinstance(st, ast.AugAssign) and isinstance(st.target, ast.Attribute) and st.target.attr == "route_count":
            if isinstance(st.op, ast.Add) and isinstance(st.value, ast.Constant) and isinstance(st.value.value, int):
                return [(st.value.value, None)]
            return [(UNKNOWN, None)]
        if isinstance(st, ast.Assign) and isinstance(st.value, ast.Call) and ast.unparse(st.value.func) == "NeighborEntry" and any("_neighbor_cache[" in ast.unparse(t) or (isinstance(t, ast.Name) and t.id in nb_refs(add_nb)) for t in st.targets):
            k = 0
            for kw in st.value.keywords:
                if kw.arg == "route_count":
                    k = kw.value.value if isinstance(kw.value, ast.Constant) and isinstance(kw.value.value, int) else UNKNOWN
            if len(st.value.args) >= 3:
                a = st.value.args[2]
                k = a.value if isinstance(a, ast.Constant) and isinstance(a.value, int) else UNKNOWN
            return [(k, None)]
        if isinstance(st, (ast.For, ast.While)):
            if any(isinstance(x, ast.Attribute) and x.attr == "route_count" and isinstance(getattr(x, "ctx", None), ast.Store) for x in ast.walk(st)):
                return [(UNKNOWN, None)]
            return [(0, None)]
        if any(isinstance(x, ast.Attribute) and x.attr == "route_count" and isinstance(getattr(x, "ctx", None), ast.Store) for x in ast.walk(st)):
            return [(UNKNOWN, None)]
        return [(0, None)]

    def rc_paths(stmts, in_exc):
        paths = [(0, None)]
        for st in stmts:
            nxt = []
            for c, e in paths:
                if e is not None:
                    nxt.append((c, e))
                    continue
                for c2, e2 in rc_stmt(st, in_exc):
                    nxt.append((UNKNOWN if (c is UNKNOWN or c2 is UNKNOWN) else c + c2, e2))
            paths = nxt
        return paths

    rc = rc_paths(add_nb.body, False)
    done = [c for c, e in rc if e in (None, "return")]
    gave_up = [c for c, e in rc if e == "except-return"]
    ok_counts = bool(done) and all(c is not UNKNOWN and c == 1 for c in done) and all(c is not UNKNOWN and c == 0 for c in gave_up)
    shown = ", ".join("?" if c is UNKNOWN else str(c) for c in done)
    r.check(ok_counts, "R20.7", fn(add_nb), "every route that reached BESS is counted once", m.pos(incs[0]) if incs else m.pos(add_nb), f"+1 on each of the {len(done)} completing paths",
            f"the route count is not incremented exactly once per installed route (completing paths add {shown})")
    for inc in incs:
        tgt_ok = ast.unparse(inc.target) == NB_KEY + ".route_count" or (isinstance(inc.target.value, ast.Name) and inc.target.value.id in nb_refs(add_nb))
        r.check(tgt_ok, "R20.7", fn(add_nb), "the count belongs to the route's next hop", m.pos(inc), ast.unparse(inc.target), f"increments {ast.unparse(inc.target)}")
    # the BESS add failure path leaves before any bookkeeping
    for t in [n for n in add_nb.body if isinstance(n, ast.Try)]:
        if any(isinstance(x, ast.Call) and isinstance(x.func, ast.Attribute) and x.func.attr == "add_route_to_module" for x in ast.walk(t)):
            leaves = all(any(isinstance(s, ast.Return) for s in h.body) for h in t.handlers)
            r.check(leaves, "R20.7", fn(add_nb), "a route BESS refused is not counted", m.pos(t), "except: … return", "after a failed add_route_to_module the bookkeeping still runs")
    decs = [n for n in ast.walk(del_rt) if isinstance(n, ast.AugAssign) and isinstance(n.target, ast.Attribute) and n.target.attr == "route_count"]
    r.check(len(decs) == 1 and isinstance(decs[0].op, ast.Sub) and ast.unparse(decs[0].value) == "1", "R20.7", fn(del_rt), "a deleted route is un-counted once", m.pos(decs[0]) if decs else m.pos(del_rt), "route_count -= 1", "the route count is not decremented exactly once per deleted route")
    if decs:
        # after the BESS delete, whose failure returns
        blk = decs[0]._parent.body if hasattr(decs[0]._parent, "body") else []
        idx = blk.index(decs[0]) if decs[0] in blk else -1
        prior_try = [s for s in blk[:idx] if isinstance(s, ast.Try) and any(isinstance(x, ast.Call) and isinstance(x.func, ast.Attribute) and x.func.attr == "delete_module_route_entry" for x in ast.walk(s))]
        okp = bool(prior_try) and all(any(isinstance(s, ast.Return) for s in h.body) for h in prior_try[0].handlers)
        r.check(okp, "R20.7", fn(del_rt), "the count drops only after BESS deleted the route", m.pos(decs[0]), "after delete_module_route_entry, failure returns", "the count is decremented although the BESS delete failed (or before it)")
        # zero test governs destroy + cache removal
        zero_ifs = [n for n in ast.walk(del_rt) if isinstance(n, ast.If) and ast.unparse(n.test) in ("next_hop.route_count == 0", "next_hop.route_count <= 0", "not next_hop.route_count")]
        r.check(len(zero_ifs) == 1, "R20.7", fn(del_rt), "the last route of a next hop is recognised by count == 0", m.pos(del_rt), "if next_hop.route_count == 0", "no test for the count reaching zero")
        if zero_ifs:
            z = zero_ifs[0]
            destroys = [c for c in ctrl_calls(del_rt, "delete_module")]
            r.check(all(any(c in ast.walk(s) for s in z.body) for c in destroys) and destroys, "R20.7", fn(del_rt), "the Update module is destroyed exactly when no route uses it", m.pos(z), "delete_module under count == 0", "delete_module is called while routes still use the module (or never)")
            cdel = [n for c, k, n in cache_accesses(del_rt) if c == "_neighbor_cache" and k in ("del", "call:pop")]
            r.check(cdel and all(any(n in ast.walk(s) for s in z.body) for n in cdel), "R20.7", fn(del_rt), "the neighbor entry is forgotten exactly when its last route went", m.pos(z), "del under count == 0", "the neighbor entry is removed while routes remain (their gate would be re-assigned) or never")
            for n in cdel:
                r.check(ast.unparse(n) == "self._neighbor_cache[route_entry.next_hop_ip]", "R20.7", fn(del_rt), "the entry forgotten is the deleted route's next hop", m.pos(n), ast.unparse(n), f"deletes {ast.unparse(n)}")
    # nothing decides before the neighbor-cache branch: an installed route's delete always reaches BESS
    top = [i for i, st in enumerate(del_rt.body) if isinstance(st, ast.If) and ast.unparse(st.test) in ("next_hop", "next_hop is not None")]
    r.check(len(top) == 1, "R20.7", fn(del_rt), "the delete path branches on the neighbor cache at its top level", m.pos(del_rt), "if next_hop:", "delete_route_entry no longer branches on the neighbor-cache hit at top level")
    if top:
        early = [x for st in del_rt.body[:top[0]] for x in ast.walk(st) if isinstance(x, (ast.Return, ast.Raise))]
        r.check(not early, "R20.7", fn(del_rt), "no exit before the neighbor-cache branch", m.pos(early[0]) if early else m.pos(del_rt), "none",
                f"delete_route_entry can leave at line {early[0].lineno if early else 0} before it looked at the neighbor cache: the delete of a route that IS installed is swallowed (stale prefix in the lookup module, count never drops, Update module outlives its last route)")
        first = del_rt.body[top[0]].body[0] if del_rt.body[top[0]].body else None
        okf = first is not None and any(isinstance(x, ast.Call) and isinstance(x.func, ast.Attribute) and x.func.attr == "delete_module_route_entry" for x in ast.walk(first))
        r.check(okf, "R20.7", fn(del_rt), "for a known next hop the BESS delete is the first action", m.pos(first) if first is not None else m.pos(del_rt), "delete_module_route_entry first", "something precedes the BESS delete in the known-next-hop branch")
    # add path: the only exits of add_new_route_entry are an invalid next hop and a parked route
    env_n = single_assignments(add_new)
    for ret in own_returns(add_new):
        iff = enclosing(ret, ast.If)
        t, branch = branch_cond(m, ret, iff, env_n)
        okr = iff is not None and (("validate_ipv4" in t and t.startswith("not ")) or ("fetch_mac" in t and t.startswith("not ") and any(isinstance(x, ast.Call) and is_self_attr(x.func, "_probe_addr") for b in branch for x in ast.walk(b))))
        r.check(okr, "R20.7", fn(add_new), "a new route is dropped only for an invalid next hop, parked only while its MAC is unknown", m.pos(ret), f"return under `{t}`", f"add_new_route_entry leaves at line {ret.lineno}" + (f" under `{t}`" if t else "") + " without installing or parking the route")
    for ret in own_returns(add_nb):
        r.check(enclosing(ret, ast.ExceptHandler) is not None, "R20.7", fn(add_nb), "_add_neighbor gives up only when BESS refused the route", m.pos(ret), "return inside except", f"_add_neighbor leaves at line {ret.lineno} outside an exception handler: the route or its bookkeeping is skipped")
    # the next hop looked up is the deleted route's
    env_d = env_del
    nh = env_d.get("next_hop")
    r.check(nh is not None and ast.unparse(nh) == "self._neighbor_cache.get(route_entry.next_hop_ip)", "R20.7", fn(del_rt), "the count changed is that of the deleted route's next hop", m.pos(del_rt), ast.unparse(nh) if nh is not None else "?", "next_hop is not looked up by the deleted route's next hop")

    # ------------------------------------------------------------------ R20.9
    # the BESS wrappers retry and, when every attempt failed, raise (for … else: raise): the loop is left by
    # `break` only on the success branch of the try — a break in an except/finally handler skips the raise and
    # the failure is reported as success (the controller then counts a route that was never installed)
    n_loops = 0
    for name, f in m.classes[BC].items():
        for loop in [n for n in ast.walk(f) if isinstance(n, ast.For) and any(isinstance(x, ast.Raise) for st in n.orelse for x in ast.walk(st))]:
            n_loops += 1
            for brk in [x for st in loop.body for x in ast.walk(st) if isinstance(x, ast.Break)]:
                tr = enclosing(brk, ast.Try)
                in_else = tr is not None and any(brk in ast.walk(st) for st in tr.orelse)
                # "already exists" / "does not exist" answers of bessd are the outcome the caller wants
                iff = enclosing(brk, ast.If)
                if not in_else and iff is not None and "errno." in ast.unparse(iff.test) and enclosing(brk, ast.ExceptHandler) is not None:
                    in_else = True
                r.check(in_else, "R20.9", f"{BC}.{name}", "the retry loop is left early only after a successful attempt", m.pos(brk), "break in the try's else branch",
                        f"`break` at line {brk.lineno} leaves the retry loop outside the success branch: the for-else that raises after the last failed attempt is skipped, {name} returns normally although BESS never accepted the command")
    r.floor("R20.9 retry loops that raise when exhausted", n_loops, 2)

    # ------------------------------------------------------------------ R20.10
    # who may drop waiting routes: resolution (after installing them) and the delete path (the deleted route only)
    allowed_droppers = {"add_unresolved_new_neighbor", "_forget_unresolved_route", "reconfigure", "cleanup"}
    n_drop = 0
    for name, f in m.classes[RC].items():
        for c, k, n in cache_accesses(f):
            if c == UN and k in ("del", "call:pop", "call:popitem", "call:clear", "elemcall:remove", "elemcall:pop", "elemcall:clear"):
                n_drop += 1
                r.check(name in allowed_droppers, "R20.10", fn(f), "waiting routes are dropped only when they are installed or deleted", m.pos(n), name,
                        f"{name} removes entries from the pending cache ({k}): routes that wait for this next hop are discarded without being installed")
    r.floor("R20.10 removals from the pending cache", n_drop, 2)

    # ------------------------------------------------------------------ R20.11
    # waiting routes are found, de-duplicated and removed by equality of RouteEntry (`in`, `remove`): two routes
    # are the same only if next hop, interface, prefix and prefix length all agree. The generated __eq__ of the
    # dataclass compares every field unless a field opts out or the class replaces it.
    re_cls = None
    for n in m.tree.body:
        if isinstance(n, ast.ClassDef) and n.name == "RouteEntry":
            re_cls = n
    if re_cls is None:
        # renamed: the record type with the four route fields
        for n in m.tree.body:
            if isinstance(n, ast.ClassDef) and len([x for x in n.body if isinstance(x, ast.AnnAssign)]) >= 4 and re_cls is None:
                re_cls = n
    if re_cls is None:
        undecided("R20.11", "class RouteEntry not found")
    deco_ok = False
    for d in re_cls.decorator_list:
        if ast.unparse(d) in ("dataclass", "dataclasses.dataclass"):
            deco_ok = True
        elif isinstance(d, ast.Call) and ast.unparse(d.func) in ("dataclass", "dataclasses.dataclass"):
            deco_ok = True
            for kw in d.keywords:
                if kw.arg == "eq" and not (isinstance(kw.value, ast.Constant) and kw.value.value is True):
                    deco_ok = False
    r.check(deco_ok, "R20.11", "RouteEntry", "routes are compared field by field (dataclass equality)", m.pos(re_cls), "@dataclass", "RouteEntry is no longer a dataclass with generated equality: `in`/`remove` on the waiting lists compare by identity")
    own_eq = [x.name for x in re_cls.body if isinstance(x, ast.FunctionDef) and x.name in ("__eq__", "__hash__", "__ne__")]
    r.check(not own_eq, "R20.11", "RouteEntry", "no hand-written equality", m.pos(re_cls), "none", f"RouteEntry defines {own_eq}: the rule cannot tell which fields identify a route")
    fields_seen = []
    # the fields that identify a route are the ones the message parser fills from the kernel's message; a field
    # nobody sets from the message (a debug time stamp with a default) may stay out of the comparison
    identity = set()
    for fnode in ast.walk(m.tree):
        if isinstance(fnode, ast.FunctionDef):
            for c in ast.walk(fnode):
                if isinstance(c, ast.Call) and isinstance(c.func, ast.Name) and c.func.id == re_cls.name:
                    identity |= {kw.arg for kw in c.keywords if kw.arg}
                    pos_fields = [x.target.id for x in re_cls.body if isinstance(x, ast.AnnAssign) and isinstance(x.target, ast.Name)]
                    identity |= set(pos_fields[:len(c.args)])
    for st in re_cls.body:
        if isinstance(st, ast.AnnAssign) and isinstance(st.target, ast.Name):
            if st.target.id not in identity:
                r.trivial("R20.11", "RouteEntry", f"field {st.target.id} is never set from a route message", m.pos(st), "not part of a route's identity")
                continue
            fields_seen.append(st.target.id)
            opt_out = False
            if isinstance(st.value, ast.Call) and ast.unparse(st.value.func) in ("field", "dataclasses.field"):
                for kw in st.value.keywords:
                    if kw.arg == "compare" and not (isinstance(kw.value, ast.Constant) and kw.value.value is True):
                        opt_out = True
            if "ClassVar" in ast.unparse(st.annotation):
                opt_out = True
            r.check(not opt_out, "R20.11", "RouteEntry", f"field {st.target.id} takes part in the comparison of routes", m.pos(st), "compared",
                    f"{st.target.id} is left out of RouteEntry's equality: two different routes that differ only in it (10.0.0.0/8 and 10.0.0.0/16 through one next hop) count as one — the second is never queued, and deleting one drops the other from the waiting list")
    r.floor("R20.11 fields of RouteEntry", len(fields_seen), 4)

    # ------------------------------------------------------------------ R20.14
    # the three caches are created once, with the types their users rely on (the gate counter is a defaultdict:
    # a plain dict in its place raises KeyError for every new lookup module): nothing replaces them later
    CACHES = ("_unresolved_arp_queries_cache", "_neighbor_cache", "_module_gate_count_cache")
    n_init = 0
    for fnode in [x for x in ast.walk(m.tree) if isinstance(x, ast.FunctionDef)]:
        for n in ast.walk(fnode):
            tgts = []
            if isinstance(n, ast.Assign):
                tgts = n.targets
            elif isinstance(n, (ast.AnnAssign, ast.AugAssign)):
                tgts = [n.target]
            for t in tgts:
                if isinstance(t, ast.Attribute) and isinstance(t.value, ast.Name) and t.value.id == "self" and t.attr in CACHES:
                    if fnode.name == "__init__":
                        n_init += 1
                        continue
                    r.bad("R20.14", f"{RC}.{fnode.name}", f"{t.attr} is created once", m.pos(n),
                          f"{fnode.name} replaces self.{t.attr} by a new object: the cache loses the type it was created with (the gate counter is a defaultdict — as a plain dict every route through a new lookup module raises KeyError, in the SIGHUP handler and in every netlink event after it) and whoever holds the old object works on a dead copy")
    r.floor("R20.14 caches created in __init__", n_init, 3)
    if n_init >= 3:
        r.ok("R20.14", f"{RC}.__init__", "the caches are created once", m.pos(add_nb), "no re-assignment outside __init__")
    # ------------------------------------------------------------------ R20.15
    # start-up and run time see the same routes: the bootstrap dump is not narrower (a table, a protocol, a scope)
    # than what the netlink route handler mirrors, which takes every IPv4 route message
    boot = m.method(RC, "bootstrap_routes", "R20.15")
    dumps = [c for c in ast.walk(boot) if isinstance(c, ast.Call) and isinstance(c.func, ast.Attribute) and c.func.attr == "get_routes"]
    r.floor("R20.15 route dumps in bootstrap_routes", len(dumps), 1)
    for c in dumps:
        extra = [kw.arg for kw in c.keywords if kw.arg not in ("family",)] + (["<positional>"] if c.args else [])
        r.check(not extra, "R20.15", fn(boot), "the bootstrap dumps every IPv4 route the handler would mirror", m.pos(c), "get_routes(family=AF_INET)",
                f"the bootstrap dump is restricted by {extra} while the netlink handler mirrors routes of every table: a route outside that selection is installed when it appears at run time, missing after a start, and dropped from BESS at the next SIGHUP although the kernel still has it")
    # ------------------------------------------------------------------ R20.16
    # BESS is asked first: nothing of the next hop's bookkeeping (Update module, links, neighbor entry, gate
    # counter) is touched before add_route_to_module succeeded — a refused route must leave nothing behind
    for i_st, st in enumerate(add_nb.body):
        if isinstance(st, ast.Try) and any(isinstance(x, ast.Call) and isinstance(x.func, ast.Attribute) and x.func.attr == "add_route_to_module" for x in ast.walk(st)):
            early = None
            for prev in add_nb.body[:i_st]:
                for x in ast.walk(prev):
                    if isinstance(x, ast.Call) and isinstance(x.func, ast.Attribute) and (x.func.attr.startswith("_create_") or x.func.attr in ("create_module", "link_modules")):
                        early = x
                    if isinstance(x, (ast.Assign, ast.AugAssign)):
                        for t in (x.targets if isinstance(x, ast.Assign) else [x.target]):
                            if any(cn in ast.unparse(t) for cn in CACHES):
                                early = x
            r.check(early is None, "R20.16", fn(add_nb), "the next hop's modules and entries are set up only after BESS took the route", m.pos(early or st), "add_route_to_module first",
                    "the Update module, its links, the neighbor entry or the gate counter are set up before add_route_to_module: when BESS refuses the route (table full) they stay behind with route_count 0 — a module that no installed route uses, and a gate that is never handed out again")
            break
    else:
        r.bad("R20.16", fn(add_nb), "the route is added to BESS in _add_neighbor", m.pos(add_nb), "no top-level try around add_route_to_module in _add_neighbor")
    # ------------------------------------------------------------------ R20.12
    # a route that waits for its next hop is recorded whatever happens to the probe: nothing that can leave
    # _probe_addr (a return in an earlier statement, an exception handler of a try the append sits in or
    # follows) comes before the append
    app = None
    for n in ast.walk(probe):
        if isinstance(n, ast.Call) and isinstance(n.func, ast.Attribute) and n.func.attr in ("append", "add") and n.args and ast.unparse(n.args[0]) == "route_entry":
            app = n
    if app is not None:
        top = app
        while getattr(top, "_parent", None) is not probe and getattr(top, "_parent", None) is not None:
            top = top._parent
        early = None
        for st in probe.body:
            if st is top:
                break
            for x in ast.walk(st):
                if isinstance(x, (ast.Return, ast.Raise)):
                    iff = enclosing(x, ast.If)
                    t = ast.unparse(iff.test) if iff is not None else ""
                    if iff is not None and "route_entry" in t and " in " in t:
                        continue  # "already waiting" guard
                    early = x
        in_try = enclosing(app, ast.Try)
        r.check(early is None and in_try is None, "R20.12", fn(probe), "the waiting route is recorded before anything that can leave _probe_addr", m.pos(early or in_try or app), "append first",
                "_probe_addr can return (or swallow an exception) before the route is appended to the next hop's waiting list: the next hop is in the pending cache, the route is not — when the neighbour resolves the route is never installed")
    # ------------------------------------------------------------------ R20.13
    # every IPv4 prefix length 0..32 is a route the kernel can have: no guard of the message parser rejects one
    parse = m.method(RC, "_parse_route_entry_msg", "R20.13")
    KEYLEN = "KEY_DESTINATION_PREFIX_LENGTH"
    env_pl = single_assignments(parse)
    len_names = {k for k, v in env_pl.items() if KEYLEN in ast.unparse(v)}
    n_guard = 0
    for n in ast.walk(parse):
        if not isinstance(n, ast.If):
            continue
        for test, body in ((n.test, n.body), (ast.UnaryOp(op=ast.Not(), operand=n.test), n.orelse)):
            if not body or not any(isinstance(x, (ast.Return, ast.Raise, ast.Continue)) for st in body for x in ast.walk(st)):
                continue
            src = ast.unparse(test)
            if KEYLEN not in src and not any(re.search(r"\b%s\b" % re.escape(k), src) for k in len_names):
                continue
            # substitute the prefix length by a variable and evaluate for every legal length
            class _Sub(ast.NodeTransformer):
                def visit_Subscript(self, node):
                    return ast.Name(id="__plen", ctx=ast.Load()) if KEYLEN in ast.unparse(node) else self.generic_visit(node)
                def visit_Call(self, node):
                    return ast.Name(id="__plen", ctx=ast.Load()) if (KEYLEN in ast.unparse(node) and isinstance(node.func, ast.Attribute) and node.func.attr == "get") else self.generic_visit(node)
                def visit_Name(self, node):
                    return ast.Name(id="__plen", ctx=ast.Load()) if node.id in len_names else node
            expr = ast.fix_missing_locations(ast.Expression(_Sub().visit(ast.parse(src, mode="eval").body)))
            free = {x.id for x in ast.walk(expr) if isinstance(x, ast.Name)} - {"__plen", "range", "int", "len", "None", "True", "False"}
            if free:
                continue
            n_guard += 1
            rejected = []
            try:
                code = compile(expr, "<guard>", "eval")
                for v in range(0, 33):
                    if eval(code, {"__builtins__": {}}, {"__plen": v, "range": range, "int": int}):
                        rejected.append(v)
            except Exception as e:  # a guard the rule cannot evaluate
                undecided("R20.13", f"guard `{src}` could not be evaluated: {e}")
            r.check(not rejected, "R20.13", fn(parse), "no legal prefix length is refused", m.pos(n), f"`{src}` is false for 0..32",
                    f"`{src}` refuses prefix length(s) {rejected}: such a route (a /32 host route) is never installed or queued, and its deletion is ignored — if it is the last route through a next hop, the Update module goes while the kernel still routes through it")
    if n_guard == 0:
        r.ok("R20.13", fn(parse), "no legal prefix length is refused", m.pos(parse), "the parser has no guard on the prefix length")

    # ------------------------------------------------------------------ R20.8
    for f in (add_new, add_unres):
        env_f = single_assignments(f)
        for c in self_calls(f, "_add_neighbor"):
            b = bind_args(c, ["route_entry", "next_hop_mac"])
            mac = b.get("next_hop_mac")
            src = env_f.get(mac.id) if isinstance(mac, ast.Name) else mac
            how = ""
            if isinstance(src, ast.Subscript):
                how = "raising subscript " + ast.unparse(src)
            elif isinstance(mac, ast.Name):
                # a dominating `if not <mac>` (possibly a walrus) whose body leaves the function
                for n in ast.walk(f):
                    if isinstance(n, ast.If) and isinstance(n.test, ast.UnaryOp) and isinstance(n.test.op, ast.Not):
                        t = n.test.operand
                        names = {x.id for x in ast.walk(t) if isinstance(x, ast.Name)} | {x.target.id for x in ast.walk(t) if isinstance(x, ast.NamedExpr)}
                        if mac.id in names and any(isinstance(s, ast.Return) for s in n.body) and n.lineno < c.lineno:
                            how = f"`if not {mac.id}: … return` at line {n.lineno}"
                    if isinstance(n, ast.If) and mac.id in {x.id for x in ast.walk(n.test) if isinstance(x, ast.Name)} and any(c in ast.walk(s) for s in n.body) and not isinstance(n.test, ast.UnaryOp):
                        if ast.unparse(n.test) == mac.id or ast.unparse(n.test).startswith(mac.id + " and") or (" and " + mac.id) in ast.unparse(n.test):
                            how = f"under `if {ast.unparse(n.test)}`"
            r.check(how != "", "R20.8", fn(f), "a route is programmed only when the next hop's MAC is present", m.pos(c), how,
                    f"`{ast.unparse(mac) if mac is not None else '?'}` can be None here ({ast.unparse(src) if src is not None else '?'}): _add_neighbor first adds the route to the lookup module and only then fails on the MAC — the route is in BESS with no Update module behind its gate and no neighbor entry")


if __name__ == "__main__":
    main()
