package main

import (
	"bufio"
	"crypto/sha1"
	"encoding/hex"
	"encoding/json"
	"fmt"
	"os"
	"path/filepath"
	"sort"
	"strings"
	"time"
)

// An Obligation is one rule instance examined on this run: a site, a path, a table row.
type Obligation struct {
	Rule       string `json:"rule"`
	Func       string `json:"function"`
	Construct  string `json:"construct"`
	Pos        string `json:"pos,omitempty"`
	Discharged bool   `json:"discharged"`
	How        string `json:"how,omitempty"`     // discharging guard / fact
	Trivial    bool   `json:"trivial,omitempty"` // true for instances that hold without any guard (constant index into fixed array, ...)
}

type Violation struct {
	Property  string `json:"property"`
	Rule      string `json:"rule"`
	Func      string `json:"function"`
	Construct string `json:"construct"`
	Pos       string `json:"pos"`
	Msg       string `json:"message"`
	Key       string `json:"key"`
	Known     bool   `json:"known_finding,omitempty"`
}

type Report struct {
	Prop        string
	Tier        string
	Seed        int64
	start       time.Time
	Obls        []Obligation
	Viol        []Violation
	Explanation string
	NotDecided  string
	Assumptions []string
	Functions   map[string]bool
	Extra       map[string]interface{}
	idxLines    map[string]bool           // "file:line" of every IDX obligation
	idxFuncs    map[string][3]interface{} // function -> file, first line, last line (functions whose index operations were enumerated)
	floors      []string
	evDir       string
}

func newReport(prop, tier string, seed int64) *Report {
	return &Report{Prop: prop, Tier: tier, Seed: seed, start: procStart, Functions: map[string]bool{}, Extra: map[string]interface{}{}}
}

// ok records a discharged obligation.
func (r *Report) ok(rule, fn, construct, pos, how string) {
	r.Obls = append(r.Obls, Obligation{Rule: rule, Func: fn, Construct: construct, Pos: pos, Discharged: true, How: how})
	r.Functions[fn] = true
}

func (r *Report) trivial(rule, fn, construct, pos, how string) {
	r.Obls = append(r.Obls, Obligation{Rule: rule, Func: fn, Construct: construct, Pos: pos, Discharged: true, How: how, Trivial: true})
	r.Functions[fn] = true
}

// bad records an undischarged obligation = a violation of the property.
func (r *Report) bad(rule, fn, construct, pos, msg string) {
	r.Obls = append(r.Obls, Obligation{Rule: rule, Func: fn, Construct: construct, Pos: pos, Discharged: false, How: msg})
	r.Functions[fn] = true
	key := strings.Join([]string{r.Prop, rule, fn, construct}, "|")
	r.Viol = append(r.Viol, Violation{Property: r.Prop, Rule: rule, Func: fn, Construct: construct, Pos: pos, Msg: msg, Key: key})
}

// check is ok/bad in one call.
func (r *Report) check(cond bool, rule, fn, construct, pos, how, msg string) bool {
	if cond {
		r.ok(rule, fn, construct, pos, how)
	} else {
		r.bad(rule, fn, construct, pos, msg)
	}
	return cond
}

// floor fails the run (exit 2) when a rule matched fewer instances than were confirmed by
// hand on the pinned tree: a rule matching nothing must not pass vacuously.
func (r *Report) floor(rule string, got, want int) {
	r.floors = append(r.floors, fmt.Sprintf("%s: %d instances (floor %d)", rule, got, want))
	if got < want {
		brokenf(r.Prop, rule, "rule matched %d instances, fewer than the %d confirmed on the pinned tree (anchor moved or rule blind)", got, want)
	}
}

type knownEntry struct {
	Kind     string `json:"kind"` // "finding" | "fixed"
	Property string `json:"property"`
	Key      string `json:"key"`
	What     string `json:"what"`
	Commit   string `json:"commit,omitempty"`
}

func loadKnown(verifDir string) []knownEntry {
	f, err := os.Open(filepath.Join(verifDir, "known_findings.jsonl"))
	if err != nil {
		return nil
	}
	defer f.Close()
	var out []knownEntry
	sc := bufio.NewScanner(f)
	sc.Buffer(make([]byte, 1<<20), 1<<20)
	for sc.Scan() {
		line := strings.TrimSpace(sc.Text())
		if line == "" || strings.HasPrefix(line, "#") {
			continue
		}
		var e knownEntry
		if err := json.Unmarshal([]byte(line), &e); err != nil {
			brokenf("-", "known_findings", "malformed line in known_findings.jsonl: %v", err)
		}
		out = append(out, e)
	}
	return out
}

func shortHash(s string) string {
	h := sha1.Sum([]byte(s))
	return hex.EncodeToString(h[:6])
}

// finish writes the evidence file, prints the verdict lines and returns the exit code.
func (r *Report) finish(verifDir string) int {
	known := map[string]knownEntry{}
	for _, e := range loadKnown(verifDir) {
		if e.Kind == "finding" && e.Property == r.Prop {
			known[e.Key] = e
		}
	}
	// de-duplicate violations by key (the same construct may be reached through several contexts)
	seen := map[string]bool{}
	var viol []Violation
	for _, v := range r.Viol {
		if seen[v.Key] {
			continue
		}
		seen[v.Key] = true
		if _, ok := known[v.Key]; ok {
			v.Known = true
		}
		viol = append(viol, v)
	}
	sort.Slice(viol, func(i, j int) bool { return viol[i].Key < viol[j].Key })

	evDir := filepath.Join(verifDir, "evidence")
	if r.evDir != "" {
		evDir = r.evDir
	}
	_ = os.MkdirAll(evDir, 0o755)
	violDir := filepath.Join(evDir, r.Prop+".violations")
	_ = os.RemoveAll(violDir)

	total, discharged, trivial := 0, 0, 0
	distinct := map[string]bool{}
	var samples []Obligation
	perRule := map[string][2]int{}
	for _, o := range r.Obls {
		total++
		if o.Discharged {
			discharged++
		}
		c := perRule[o.Rule]
		c[0]++
		if o.Discharged {
			c[1]++
		}
		perRule[o.Rule] = c
		if o.Trivial {
			trivial++
			continue
		}
		distinct[o.Rule+"|"+o.Func+"|"+o.Construct] = true
	}
	// samples: first few non-trivial obligations of each rule
	perRuleSample := map[string]int{}
	for _, o := range r.Obls {
		if o.Trivial {
			continue
		}
		if perRuleSample[o.Rule] < 3 {
			perRuleSample[o.Rule]++
			samples = append(samples, o)
		}
	}
	if len(samples) > 60 {
		samples = samples[:60]
	}
	var fns []string
	for f := range r.Functions {
		fns = append(fns, f)
	}
	sort.Strings(fns)
	rules := map[string]string{}
	for k, c := range perRule {
		rules[k] = fmt.Sprintf("%d/%d discharged", c[1], c[0])
	}

	unknownViol := 0
	exit := 0
	for _, v := range viol {
		if v.Known {
			fmt.Printf("KNOWN-FINDING: property=%s %s [%s] %s\n", r.Prop, known[v.Key].What, v.Key, v.Pos)
			continue
		}
		unknownViol++
	}
	if unknownViol > 0 {
		_ = os.MkdirAll(violDir, 0o755)
		for _, v := range viol {
			if v.Known {
				continue
			}
			p := filepath.Join(violDir, shortHash(v.Key)+".json")
			b, _ := json.MarshalIndent(v, "", "  ")
			_ = os.WriteFile(p, b, 0o644)
			fmt.Printf("VIOLATION property=%s replay=%s\n", r.Prop, p)
			fmt.Printf("  rule=%s at %s in %s\n  construct: %s\n  %s\n", v.Rule, v.Pos, v.Func, v.Construct, v.Msg)
		}
		exit = 1
	}

	cov := map[string]interface{}{
		"explanation":         r.Explanation,
		"not_decided":         r.NotDecided,
		"obligations":         total,
		"discharged":          discharged,
		"evaluations":         total,
		"distinct_nontrivial": len(distinct),
		"trivial":             trivial,
		"rule":                "one obligation per rule instance found in /repo's current source (site, path, table row, sibling pair); distinct = distinct rule|function|construct keys; non-trivial = needed a guard, a path enumeration, a provenance slice or a table comparison (constant-safe sites are counted under 'trivial')",
		"samples":             samples,
		"per_rule":            rules,
		"floors":              r.floors,
		"functions_analysed":  fns,
		"checker_cmd":         fmt.Sprintf("./bin/upfcheck -prop %s -tier %s", r.Prop, r.Tier),
		"trusted_base":        []string{"go/types", "go/ssa (x/tools v0.50.0)", "go list / go toolchain of the repo", "library post-condition table (libfacts.go)"},
		"known_findings":      len(viol) - unknownViol,
		"exhaustive":          true,
	}
	for k, v := range r.Extra {
		cov[k] = v
	}
	if len(samples) == 0 {
		cov["samples"] = []string{"no obligations generated"}
	}
	if r.Assumptions == nil {
		r.Assumptions = []string{}
	}
	r.Assumptions = append(r.Assumptions, "the repo is built without cgo/unsafe tricks; reflection and library internals are not modelled")
	ev := map[string]interface{}{
		"property_id": r.Prop,
		"tier":        r.Tier,
		"seed":        r.Seed,
		"level":       "other",
		"coverage":    cov,
		"assumptions": r.Assumptions,
		"wall_s":      time.Since(r.start).Seconds(),
		"violations":  unknownViol,
	}
	b, _ := json.MarshalIndent(ev, "", " ")
	if err := os.WriteFile(filepath.Join(evDir, r.Prop+".json"), b, 0o644); err != nil {
		brokenf(r.Prop, "evidence", "cannot write evidence: %v", err)
	}
	fmt.Printf("%s tier=%s obligations=%d discharged=%d nontrivial=%d violations=%d known=%d functions=%d wall=%.1fs\n",
		r.Prop, r.Tier, total, discharged, len(distinct), unknownViol, len(viol)-unknownViol, len(fns), time.Since(r.start).Seconds())
	if total == 0 {
		brokenf(r.Prop, "coverage", "no obligations were generated")
	}
	return exit
}

// withRule runs fn and files every obligation / violation it adds under rule `as`: a rule set of one
// property reused as a necessary condition of another keeps that property's numbering.
func (r *Report) withRule(as string, fn func()) {
	o0, v0 := len(r.Obls), len(r.Viol)
	fn()
	for i := o0; i < len(r.Obls); i++ {
		r.Obls[i].Construct = "[" + r.Obls[i].Rule + "] " + r.Obls[i].Construct
		r.Obls[i].Rule = as
	}
	for i := v0; i < len(r.Viol); i++ {
		v := &r.Viol[i]
		v.Construct = "[" + v.Rule + "] " + v.Construct
		v.Rule = as
		v.Key = strings.Join([]string{r.Prop, as, v.Func, v.Construct}, "|")
	}
}
