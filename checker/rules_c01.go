package main

import (
	"fmt"
	"go/token"
	"go/types"
	"strings"

	"golang.org/x/tools/go/ssa"
)

func init() { rules["C01"] = ruleC01 }

// receivePathFuncs: repo functions reachable from the PFCP receive path (call, defer and go
// edges: a panic in any goroutine ends the process).
func receivePathFuncs(w *World, prop string) map[*ssa.Function]bool {
	roots := []*ssa.Function{
		w.Fn(prop, "pfcpiface.(*PFCPConn).HandlePFCPMsg"),
		w.Fn(prop, "pfcpiface.(*PFCPNode).handleNewPeers"),
		w.Fn(prop, "pfcpiface.(*PFCPConn).Serve"),
		w.Fn(prop, "pfcpiface.(*PFCPNode).NewPFCPConn"),
		w.Fn(prop, "pfcpiface.(*PFCPConn).sendAssociationRequest"),
	}
	all := w.CG().Reachable(roots, nil)
	out := map[*ssa.Function]bool{}
	for f := range all {
		if w.isRepoFunc(f) {
			out[f] = true
		}
	}
	return out
}

// syncReceiveTree: what runs synchronously inside the per-association reader (no go edges).
func syncReceiveTree(w *World, prop string) map[*ssa.Function]bool {
	roots := []*ssa.Function{w.Fn(prop, "pfcpiface.(*PFCPConn).HandlePFCPMsg")}
	all := w.CG().Reachable(roots, func(e *Edge) bool { return e.Kind != "go" })
	out := map[*ssa.Function]bool{}
	for f := range all {
		if w.isRepoFunc(f) {
			out[f] = true
		}
	}
	return out
}

func newEngine(w *World, r *Report, rule string, funcs map[*ssa.Function]bool) *oblEngine {
	return &oblEngine{w: w, r: r, rule: rule, funcs: funcs, seenC: map[string]int{}, used: map[string]bool{}}
}

func ruleC01(w *World, r *Report) {
	const P = "C01"
	r.Explanation = "R01.1 every index, slice, fixed-width binary read, dereference of a possibly absent IE / error-accompanied result / optional object, unchecked type assertion, Fatal/panic/os.Exit and integer division in the repo functions reachable from the PFCP receive path (call, defer and go edges) is an obligation, discharged by an interval/difference-bound analysis over the SSA CFG (guards on len, range indexes, φ splitting, append/make lengths, single-writer fields), dominating nil / err checks, who-writes facts for containers, library post-conditions, or a line of the justification table backed by a secondary check; " +
		"R01.2 no blocking channel operation in the synchronous call tree of the receive loop other than selects with default/timeout and the table's named sends; R01.3 an undecodable datagram returns before any state access and unsupported types send nothing (shared with C02's dispatch enumeration)."
	r.Explanation += " R01.1.WRAP a loop counter of a type narrower than 64 bits that is compared with <= (>=) against a bound that can be the type's largest (smallest) value never terminates; R01.2.RELOCK no mutex is acquired again while the same goroutine holds it — directly, through a callee, or through the String()/Error() method of a value that is printed under the lock."
	r.Explanation += " R01.2.RWLOCK a field guarded by an RWMutex is written only with the write lock held (a map written under RLock ends the process)."
	r.Explanation += " R01.2.DUR no time.Duration is multiplied by a time unit (a wait scaled twice never ends); the slicing in MarkSessionQer is proved by the engine: idx = findItemIndex(x) ∈ [0,len(x)] used on the same x under idx != len(x)."
	r.NotDecided = "that a later valid request is processed normally (state semantics); panics inside third-party libraries on inputs that satisfy their documented preconditions; memory exhaustion"
	r.Assumptions = append(r.Assumptions,
		"go-pfcp "+pinnedGoPfcp+": message.Parse leaves absent IE fields nil and IE lists free of nil elements; IE accessors return an error (never panic) on a non-nil receiver; constructors skip nil IEs",
		"external functions do not store to the repo's struct fields (no reflection on unexported fields)")
	funcs := receivePathFuncs(w, P)
	eng := newEngine(w, r, "R01.1", funcs)
	for _, f := range sortedFuncs(w, funcs) {
		eng.idx(f)
		eng.nilObls(f)
		eng.taObls(f)
		eng.exitObls(f)
		eng.divObls(f)
		eng.wrapObls(f)
	}
	r.Extra["receive_path_functions"] = len(funcs)
	r.floor("R01.1 functions on the receive path", len(funcs), 150)

	// R01.2
	sync := syncReceiveTree(w, P)
	beng := newEngine(w, r, "R01.2", sync)
	for _, f := range sortedFuncs(w, sync) {
		beng.blkObls(f)
	}
	r.floor("R01.2 functions in the synchronous receive tree", len(sync), 100)
	// R01.2 (wedge by self-deadlock): no mutex is acquired again while the same goroutine holds it —
	// directly, through a callee, or through the String()/Error() method of a value that is logged
	rl, sites := w.reentrantLocks(funcs)
	for _, x := range rl {
		r.bad("R01.2.RELOCK", w.FuncName(x.fn), "no re-acquisition of "+x.mu.Name()+" while it is held", w.Pos(posNear(x.ins)), "the mutex "+x.mu.Name()+" is held here and acquired again "+x.via+": sync mutexes are not reentrant, the handler blocks for ever and so does every later request that needs the lock")
	}
	if len(rl) == 0 {
		r.ok("R01.2.RELOCK", "receive path", "no mutex is re-acquired while held (calls and printed values under a lock)", "-", fmt.Sprintf("%d calls / printed values examined under a non-empty lockset", sites))
	}
	r.floor("R01.2 call sites under a lock", sites, 20)
	// R01.2 (crash by concurrent map write): a map, slice or field that is written while only the READ side of
	// an RWMutex is held is written concurrently with the other readers — for a map the runtime ends the
	// process ("fatal error: concurrent map writes"), which no recover() catches
	{
		la := w.Locks()
		owners := map[string]bool{}
		for _, f := range w.Funcs {
			allInstrs(f, func(i ssa.Instruction) {
				if c, ok := i.(*ssa.Call); ok {
					if op, mu, _, ok := lockOp(c); ok && op == "RLock" {
						if nt := fieldOwner(w, mu); nt != nil {
							owners[nt.Obj().Name()] = true
						}
					}
				}
			})
		}
		nW := 0
		if len(owners) > 0 {
			for _, a := range w.accessesOf(owners) {
				if !a.write || a.fresh || strings.HasPrefix(w.FuncName(a.fn), "test/") {
					continue
				}
				held := la.heldAt[a.ins]
				var rd *types.Var
				excl := false
				for mu, m := range held {
					if fo := fieldOwner(w, mu); fo == nil || fo != a.owner {
						continue
					}
					if m == modeW {
						excl = true
					} else {
						rd = mu
					}
				}
				if rd == nil && !excl {
					continue
				}
				nW++
				rdName := "the mutex"
				if rd != nil {
					rdName = rd.Name()
				}
				r.check(excl, "R01.2.RWLOCK", w.FuncName(a.fn), a.owner.Obj().Name()+"."+a.path+" is written under the write lock", w.Pos(posNear(a.ins)), "exclusive lock held", "the "+a.what+" of "+a.owner.Obj().Name()+"."+a.path+" happens with only the read side of "+rdName+" held: other holders of the read lock (another association releasing its TEIDs at the same time) write or read it concurrently — for a map this is 'fatal error: concurrent map writes' and the whole agent is gone")
			}
		}
		if len(owners) == 0 {
			r.trivial("R01.2.RWLOCK", "receive path", "no RWMutex read locks in the repository", "-", "nothing to check")
		} else {
			r.floor("R01.2.RWLOCK guarded writes under a lock of their owner", nW, 1)
		}
	}

	// the go-pfcp version the library facts were confirmed for
	if p := w.Package(pfcpPkg); p != nil {
		ver := ""
		if imp, ok := p.Imports[iePkg]; ok && imp.Module != nil {
			ver = imp.Module.Version
		}
		r.check(ver == "" || ver == pinnedGoPfcp, "R01.1.LIB", "go.mod", "go-pfcp version matches the library post-condition table", "-", ver, "go.mod pins go-pfcp "+ver+", the library facts were confirmed for "+pinnedGoPfcp)
	}

	ruleC01Secondary(w, r)
	ruleNoDurationSquared(w, r, "R01.2.DUR", funcs)
	ruleC01Shape(w, r)
	ruleC01Reader(w, r)
	ruleC01Labels(w, r)

	// every justification line should have been needed (stale lines are listed, they suppress nothing)
	var stale []string
	defer func() { r.Extra["stale_justification_lines"] = stale }()
	for k := range justifications {
		parts := strings.SplitN(k, "|", 3)
		if !(eng.used[k] || beng.used[k]) {
			// a line may belong to another property's engine (C08/C13/C18 reuse the table)
			if f := w.FnOpt(parts[1]); f != nil && (funcs[f] || sync[f]) {
				// not a property violation: the code changed so that the site discharges on its own (or is gone).
				// Reported in the evidence so that the table can be pruned; it suppresses nothing any more.
				r.trivial("R01.J", parts[1], "justification line no longer needed: "+parts[2], "-", "stale table line (the site no longer produces an open obligation)")
				stale = append(stale, k)
			}
		}
	}
}

// ruleC01Secondary: structural checks that back the justification table.
func ruleC01Secondary(w *World, r *Report) {
	const P = "C01"
	// J1: the establishment loop appends every PDR to session.pdrs and to addPDRs in lock-step
	{
		est := w.Fn(P, "pfcpiface.(*PFCPConn).handleSessionEstablishmentRequest")
		create := w.Fn(P, "pfcpiface.(*PFCPSession).CreatePDR")
		en := w.FuncName(est)
		loops := rangeLoopsOver(est, ".CreatePDR")
		r.floor("R01.J1 loop over Create PDR IEs", len(loops), 1)
		for _, l := range loops {
			// every path from the body back to the header passes CreatePDR and an append to the pdr list
			isCreate := func(i ssa.Instruction) bool { return isCallTo(i, create) }
			isAppend := func(i ssa.Instruction) bool {
				c, ok := i.(*ssa.Call)
				return ok && calleeName(c) == "builtin.append" && strings.Contains(c.Type().String(), "pdr")
			}
			first := l[1].Instrs[0]
			toHdr := func(i ssa.Instruction) bool { return i.Block() == l[0] && idxIn(l[0], i) == 0 }
			m1 := reach(est, first, toHdr, isCreate, nil)
			m2 := reach(est, first, toHdr, isAppend, nil)
			r.check(m1 == nil && m2 == nil, "R01.J1", en, "each iteration appends the PDR to the session and to the message list", w.Pos(est.Pos()), "lock-step appends", "an iteration of the Create PDR loop can add a PDR to only one of the two lists: all.pdrs[i] in UP4.sendCreate then indexes out of range")
		}
		// sendCreate is reached only with the add method, which only the establishment handler uses
		add := w.ConstInt(P, pfcpPkg, "upfMsgTypeAdd")
		n := 0
		for _, f := range w.Funcs {
			if f.Pkg == nil || f.Pkg.Pkg.Path() != pfcpPkg {
				continue
			}
			for _, c := range datapathCalls(f, "SendMsgToUPF") {
				if sendMsgMethod(c) == add {
					n++
					name := f.Name()
					okCaller := f == est || strings.HasPrefix(w.FuncName(f), "pfcpiface.(*upf).sim")
					r.check(okCaller, "R01.J1", w.FuncName(f), "only the establishment handler issues 'add'", w.Pos(c.Pos()), name, name+" issues an add with lists that are not built in lock-step")
				}
			}
		}
		r.floor("R01.J1 add call sites", n, 1)
		// both arguments of the establishment's call: (session rules, lists of this message)
	}
	// J2: findItemIndex returns a loop index of its argument or len(argument)
	{
		f := w.Fn(P, "pfcpiface.findItemIndex")
		r.check(w.indexOfContract(f), "R01.J2", w.FuncName(f), "findItemIndex returns a value in [0, len(slice)]", w.Pos(f.Pos()), "loop index under i < len, or len", "findItemIndex can return a value outside [0, len(slice)]")
		// (the uses are IDX obligations of their own: the result slices the list it was searched in, under result != len(list))
	}
	// J3: end-marker channels have a consumer whenever they can be sent on
	{
		up := w.Fn(P, "pfcpiface.(*UP4).initialize")
		// channel creation and go endMarkerSendLoop in the same block (inside initOnce)
		okUP4 := false
		for _, g := range withClosures(up) {
			var mk, goLoop ssa.Instruction
			allInstrs(g, func(i ssa.Instruction) {
				if _, ok := i.(*ssa.MakeChan); ok {
					mk = i
				}
				if gi, ok := i.(*ssa.Go); ok && staticCallee(gi) != nil && staticCallee(gi).Name() == "endMarkerSendLoop" {
					goLoop = i
				}
			})
			if mk != nil && goLoop != nil && mk.Block() == goLoop.Block() {
				okUP4 = true
			}
		}
		r.check(okUP4, "R01.J3", w.FuncName(up), "UP4 end-marker channel is created together with its consumer", w.Pos(up.Pos()), "make(chan) and go endMarkerSendLoop in one block", "the UP4 end-marker channel can exist without its consumer goroutine")
		mod := w.Fn(P, "pfcpiface.(*PFCPConn).handleSessionModificationRequest")
		for _, c := range datapathCalls(mod, "SendEndMarkers") {
			g := onlyVia(mod, c, func(a, b *ssa.BasicBlock) bool {
				v, truth, ok := boolEdge(a, b)
				return ok && truth && strings.HasSuffix(symOf(v).String(), "upf.enableEndMarker")
			})
			r.check(g, "R01.J3", w.FuncName(mod), "end markers are queued only when enabled", w.Pos(c.Pos()), "under enableEndMarker", "SendEndMarkers is reachable although end markers are disabled (no consumer exists then)")
		}
	}
	// J5: allocIPFlag is set only after a successful allocation from a non-nil pool
	{
		f := w.Fn(P, "pfcpiface.(*pdr).parseUEAddressIE")
		n := 0
		for _, g := range w.Funcs {
			for _, st := range fieldStores(g, "pdr")["allocIPFlag"] {
				if c, ok := st.Val.(*ssa.Const); ok && c.Value != nil && c.Value.String() == "false" {
					continue
				}
				n++
				okJ := g == f
				if okJ {
					var alloc *ssa.Call
					allInstrs(f, func(i ssa.Instruction) {
						if c, ok := i.(*ssa.Call); ok && staticCallee(c) != nil && staticCallee(c).Name() == "LookupOrAllocIP" {
							alloc = c
						}
					})
					okJ = alloc != nil && errGuardedStrict(f, alloc, st)
				} else {
					// carried over from a PDR that already has the mark: the store runs only under that PDR's allocIPFlag
					isMark := func(v ssa.Value, truth bool) bool {
						return truth && (strings.HasSuffix(symOf(v).String(), ".allocIPFlag") || loadsField(v, "allocIPFlag"))
					}
					okJ = onlyVia(g, st, func(a, b *ssa.BasicBlock) bool {
						v, truth, ok := boolEdge(a, b)
						return ok && isMark(v, truth)
					})
					// ... or the value stored is a combination of marks (`own || stored`): true only when one
					// of them is, and false only when the mark it overwrites was false — an assignment that
					// can clear the PDR's own mark is not a carry-over
					ownClear := func(v ssa.Value, truth bool) bool {
						ld, isLd := v.(*ssa.UnOp)
						if truth || !isLd || ld.Op != token.MUL || !instrDominates(ld, st) {
							return false
						}
						from, ok1 := ld.X.(*ssa.FieldAddr)
						to, ok2 := st.Addr.(*ssa.FieldAddr)
						return ok1 && ok2 && from.X == to.X && from.Field == to.Field && len(fieldStores(g, "pdr")["allocIPFlag"]) == 1
					}
					okJ = okJ || (boolImplies(st.Val, true, isMark) && boolImplies(st.Val, false, ownClear))
				}
				r.check(okJ, "R01.J5", w.FuncName(g), "allocIPFlag set only after a successful pool allocation", w.Pos(st.Pos()), "dominated by LookupOrAllocIP err == nil (or carried over from a marked PDR)", "allocIPFlag can be set without a pool allocation: the session's release path then calls DeallocIP on a nil pool")
			}
		}
		r.floor("R01.J5 stores of allocIPFlag", n, 1)
	}
	// J4: every writer of appPFDs stores a record whose appID equals its key
	{
		n := 0
		for _, f := range w.Funcs {
			if f.Pkg == nil || f.Pkg.Pkg.Path() != pfcpPkg {
				continue
			}
			allInstrs(f, func(i ssa.Instruction) {
				mu, ok := i.(*ssa.MapUpdate)
				if !ok || !strings.HasSuffix(symOf(mu.Map).String(), "PFCPConn.appPFDs") {
					return
				}
				n++
				key := mu.Key
				okInv, why := appPFDValueMatchesKey(f, mu.Value, key)
				r.check(okInv, "R01.J4", w.FuncName(f), "record stored in appPFDs carries its own key as appID", w.Pos(mu.Pos()), why, "a record whose appID may differ from the key it is stored under: a later PDR that names this application reaches Fatalln(\"mismatch in App ID\") and the agent exits ("+why+")")
			})
		}
		r.floor("R01.J4 writers of appPFDs", n, 2)
	}
}

// appPFDValueMatchesKey: the stored value is a literal with appID = key, or a record loaded
// from the same map under the same key value (whose appID field is not re-assigned).
func appPFDValueMatchesKey(f *ssa.Function, v ssa.Value, key ssa.Value) (bool, string) {
	// load of a local cell?
	if u, ok := v.(*ssa.UnOp); ok && u.Op == token.MUL {
		if al, ok := u.X.(*ssa.Alloc); ok {
			// literal: field store appID = key
			idOK := false
			if refs := al.Referrers(); refs != nil {
				for _, rf := range *refs {
					if fa, ok := rf.(*ssa.FieldAddr); ok && fieldVar(fa) != nil && fieldVar(fa).Name() == "appID" {
						for _, st := range directStores(fa) {
							if st.Val == key {
								idOK = true
							} else {
								return false, "appID field assigned from " + symOf(st.Val).String()
							}
						}
					}
				}
			}
			if idOK {
				return true, "literal with appID = key"
			}
			// whole-struct stores into the cell: each must be a lookup of the same map under the same key
			sts := storesTo(al)
			if len(sts) == 0 {
				return false, "zero-valued record"
			}
			for _, st := range sts {
				ok, why := appPFDValueMatchesKey(f, st.Val, key)
				if !ok {
					return false, why
				}
			}
			// the cell must be (re)loaded for *this* key: every path from the key's definition to a use
			// of the cell as a map value passes one of these stores (a cell that outlives the loop
			// iteration would carry the record of an earlier key)
			if kd, isIns := key.(ssa.Instruction); isIns {
				isStore := func(i ssa.Instruction) bool {
					for _, st := range sts {
						if i == ssa.Instruction(st) {
							return true
						}
					}
					return false
				}
				var stale ssa.Instruction
				allInstrs(f, func(i ssa.Instruction) {
					mu, ok := i.(*ssa.MapUpdate)
					if !ok || mu.Key != key {
						return
					}
					if hit := reach(f, kd, func(j ssa.Instruction) bool { return j == i }, isStore, nil); hit != nil {
						stale = i
					}
				})
				if stale != nil {
					return false, "the record variable is not reloaded for the current key on every path (it can still hold the record of an earlier key)"
				}
			}
			return true, "record loaded from appPFDs[key]"
		}
	}
	if l, ok := v.(*ssa.Lookup); ok && !l.CommaOk {
		if strings.HasSuffix(symOf(l.X).String(), "PFCPConn.appPFDs") && l.Index == key {
			return true, "record loaded from appPFDs under the same key"
		}
		return false, "record loaded under a different key (" + valueText(l.Index) + " vs " + valueText(key) + ")"
	}
	if phi, ok := v.(*ssa.Phi); ok {
		for _, e := range phi.Edges {
			if ok, why := appPFDValueMatchesKey(f, e, key); !ok {
				return false, "φ alternative: " + why
			}
		}
		return true, "every alternative matches the key"
	}
	return false, "record is " + symOf(v).String()
}

// ruleC01Shape: drop-or-answer shape of the dispatcher and of the first-datagram path.
func ruleC01Shape(w *World, r *Report) {
	const P = "C01"
	d := w.Fn(P, "pfcpiface.(*PFCPConn).HandlePFCPMsg")
	dn := w.FuncName(d)
	var parse *ssa.Call
	allInstrs(d, func(i ssa.Instruction) {
		if c, ok := i.(*ssa.Call); ok && calleeName(c) == msgPkg+".Parse" {
			parse = c
		}
	})
	if parse == nil {
		r.bad("R01.3", dn, "datagram is decoded with message.Parse", w.Pos(d.Pos()), "HandlePFCPMsg no longer decodes with message.Parse")
		return
	}
	ev := errResult(parse)
	// everything that touches the connection's state or the parsed message is guarded by err == nil
	n := 0
	allInstrs(d, func(i ssa.Instruction) {
		c, ok := i.(ssa.CallInstruction)
		if !ok || i == ssa.Instruction(parse) {
			return
		}
		callee := staticCallee(c)
		isHandler := callee != nil && w.isRepoFunc(callee) && callee.Signature.Recv() != nil && rootTypeName(callee.Signature.Recv().Type()) == "PFCPConn"
		usesMsg := c.Common().IsInvoke() && c.Common().Value == extractOf(parse, 0)
		if !isHandler && !usesMsg {
			return
		}
		n++
		g := errGuarded(d, parse, ev, func(j ssa.Instruction) bool { return j == i })
		r.check(g, "R01.3", dn, "use of the decoded message / connection state only after a successful Parse", w.Pos(i.Pos()), "unreachable unless err == nil", "the result of message.Parse is used although decoding failed (nil message)")
	})
	r.floor("R01.3 guarded uses in HandlePFCPMsg", n, 10)
	// the parse-failure branch must not index the raw buffer beyond what it has: covered by IDX obligations on HandlePFCPMsg
	// NewPFCPConn: the first datagram is handled only after the connection object is complete
	nc := w.Fn(P, "pfcpiface.(*PFCPNode).NewPFCPConn")
	for _, c := range callsTo(nc, d) {
		// dominated by the construction of the PFCPConn (store/alloc) and by a successful dial
		var dial *ssa.Call
		allInstrs(nc, func(i ssa.Instruction) {
			if cc, ok := i.(*ssa.Call); ok && strings.HasSuffix(calleeName(cc), "go-reuseport.Dial") {
				dial = cc
			}
		})
		if dial == nil {
			r.bad("R01.3", w.FuncName(nc), "connection is dialled before the first datagram is handled", w.Pos(c.Pos()), "no Dial found")
			continue
		}
		g := errGuarded(nc, dial, errResult(dial), func(j ssa.Instruction) bool { return j == c.(ssa.Instruction) })
		r.check(g, "R01.3", w.FuncName(nc), "first datagram handled only on a successfully dialled connection", w.Pos(c.Pos()), "unreachable unless the dial error was nil", "after a failed dial the nil connection is used to handle the first datagram")
	}
	_ = fmt.Sprint
}

// ruleC01Reader: the association's reader goroutine ends only on a read timeout (after it told
// Serve) or when the socket was closed. Any other return leaves the association without a receive
// loop while it is still in pConns: the peer's later (valid) requests are never processed.
func ruleC01Reader(w *World, r *Report) {
	const P = "C01"
	serve := w.Fn(P, "pfcpiface.(*PFCPConn).Serve")
	var reader *ssa.Function
	for _, a := range serve.AnonFuncs {
		reader = a
	}
	if reader == nil {
		r.bad("R01.6", w.FuncName(serve), "the association has a reader goroutine", w.Pos(serve.Pos()), "reader closure not found in Serve")
		return
	}
	rn := w.FuncName(reader)
	n := 0
	for k, ret := range returnsOf(reader) {
		n++
		g := onlyVia(reader, ret, func(a, b *ssa.BasicBlock) bool {
			v, truth, ok := boolEdge(a, b)
			if !ok || !truth {
				return false
			}
			s := symOf(v).String()
			if strings.Contains(s, "Timeout(") {
				return true
			}
			if c, isCall := v.(*ssa.Call); isCall && calleeName(c) == "errors.Is" {
				if u, ok := c.Call.Args[1].(*ssa.UnOp); ok {
					if g, ok := u.X.(*ssa.Global); ok && g.Name() == "ErrClosed" && g.Pkg != nil && g.Pkg.Pkg.Path() == "net" {
						return true
					}
				}
			}
			return false
		})
		r.check(g, "R01.6", rn, fmt.Sprintf("return #%d: the reader ends only on a read timeout or a closed socket", k+1), w.Pos(ret.Pos()), "under netErr.Timeout() / errors.Is(err, net.ErrClosed)", "the reader goroutine can end for another reason (an empty datagram, a transient read error, a message it does not like): the association stays registered but nobody reads its socket any more")
	}
	r.floor("R01.6 reader exits", n, 2)
	// every successfully read datagram is handed to the dispatcher
	disp := w.Fn(P, "pfcpiface.(*PFCPConn).HandlePFCPMsg")
	var read *ssa.Call
	allInstrs(reader, func(i ssa.Instruction) {
		if c, ok := i.(*ssa.Call); ok && c.Call.IsInvoke() && c.Call.Method.Name() == "Read" {
			read = c
		}
	})
	calls := callsTo(reader, disp)
	if read == nil || len(calls) != 1 {
		r.bad("R01.6", rn, "read, then dispatch", w.Pos(reader.Pos()), "the reader no longer reads the socket and calls HandlePFCPMsg once per datagram")
		return
	}
	ev := errResult(read)
	// from the err == nil edge of Read, the loop header is reachable only through the dispatch
	okD := true
	for _, b := range reader.Blocks {
		for _, sc := range b.Succs {
			if nilnessEdge(b, sc, func(x ssa.Value) bool { return x == ev }, true) {
				hit := reach(reader, firstInstr(sc), func(i ssa.Instruction) bool { return i == ssa.Instruction(read) || isReturn(i) }, func(i ssa.Instruction) bool { return i == calls[0].(ssa.Instruction) }, nil)
				if hit != nil && !blockHas(sc, calls[0].(ssa.Instruction)) {
					okD = false
				}
			}
		}
	}
	r.check(okD, "R01.6", rn, "every datagram that was read is dispatched", w.Pos(calls[0].Pos()), "Read ok → HandlePFCPMsg on every path", "a datagram that was read successfully can be skipped (or end the loop) before HandlePFCPMsg sees it")
}

// ruleC01Labels: Prometheus' WithLabelValues panics on a label value that is not valid UTF-8 (and on a
// wrong number of values). Every value handed to it on the receive path is either free of peer data
// (constants, go-pfcp's message type names) or went through strings.ToValidUTF8.
func ruleC01Labels(w *World, r *Report) {
	n := 0
	for _, f := range w.Funcs {
		fn := w.FuncName(f)
		if strings.HasPrefix(fn, "test/") {
			continue
		}
		f := f
		allInstrs(f, func(i ssa.Instruction) {
			c, ok := i.(*ssa.Call)
			if !ok || !strings.HasSuffix(calleeName(c), "Vec).WithLabelValues") {
				return
			}
			// variadic: the values are stored into a fresh array
			var vals []ssa.Value
			if len(c.Call.Args) >= 2 {
				if sl, ok := c.Call.Args[len(c.Call.Args)-1].(*ssa.Slice); ok {
					if al, ok := sl.X.(*ssa.Alloc); ok && al.Referrers() != nil {
						for _, ref := range *al.Referrers() {
							if ia, ok := ref.(*ssa.IndexAddr); ok && ia.Referrers() != nil {
								for _, r2 := range *ia.Referrers() {
									if st, ok := r2.(*ssa.Store); ok {
										vals = append(vals, st.Val)
									}
								}
							}
						}
					}
				}
			}
			for k, v := range vals {
				n++
				okV, why := w.labelSafe(v, 0, map[ssa.Value]bool{})
				r.check(okV, "R01.7", fn, fmt.Sprintf("label value #%d of %s #%d cannot make WithLabelValues panic", k+1, shortCallee(calleeName(c)), ordinalIn(f, c)), w.Pos(c.Pos()), why, "a label value derived from "+why+" reaches WithLabelValues unsanitised: a peer-chosen string that is not valid UTF-8 (Node ID in FQDN form) panics there and takes the agent down")
			}
		})
	}
	r.floor("R01.7 label values", n, 8)
}

// labelSafe: the string value cannot carry peer-chosen bytes, or was sanitised.
func (w *World) labelSafe(v ssa.Value, depth int, seen map[ssa.Value]bool) (bool, string) {
	if depth > 8 {
		return false, "a value too deep to follow"
	}
	if seen[v] {
		return true, "cycle"
	}
	seen[v] = true
	switch x := v.(type) {
	case *ssa.Const:
		return true, "constant"
	case *ssa.Call:
		name := calleeName(x)
		if name == "strings.ToValidUTF8" {
			return true, "strings.ToValidUTF8"
		}
		if x.Call.IsInvoke() && x.Call.Method.Name() == "MessageTypeName" {
			return true, "go-pfcp message type name"
		}
		if g := staticCallee(x); g != nil && w.isRepoFunc(g) && g.Blocks != nil {
			for _, ret := range returnsOf(g) {
				if okR, why := w.labelSafe(res(ret, 0), depth+1, seen); !okR {
					return false, why
				}
			}
			return true, "helper " + g.Name()
		}
		return false, name + "(…)"
	case *ssa.Phi:
		for _, e := range x.Edges {
			if okE, why := w.labelSafe(e, depth+1, seen); !okE {
				return false, why
			}
		}
		return true, "all merged values"
	case *ssa.Parameter:
		f := x.Parent()
		idx := -1
		for i, p := range f.Params {
			if p == x {
				idx = i
			}
		}
		in := w.CG().callersOf(f)
		if len(in) == 0 || idx < 0 {
			return false, "parameter " + x.Name() + " of " + w.FuncName(f)
		}
		for _, e := range in {
			ci, ok := e.Site.(ssa.CallInstruction)
			if !ok {
				return false, "parameter " + x.Name()
			}
			args := ci.Common().Args
			off := 0
			if ci.Common().IsInvoke() {
				off = -1
			}
			if idx+off < 0 || idx+off >= len(args) {
				return false, "parameter " + x.Name()
			}
			if okA, why := w.labelSafe(args[idx+off], depth+1, seen); !okA {
				return false, why
			}
		}
		return true, "every caller's argument"
	case *ssa.UnOp:
		if x.Op != token.MUL {
			return false, symOf(v).String()
		}
		if fa, ok := x.X.(*ssa.FieldAddr); ok && fieldVar(fa) != nil {
			// every store into this field, anywhere in the repo
			fld := fieldVar(fa)
			okAll, why, n := true, "", 0
			for _, g := range w.Funcs {
				if strings.HasPrefix(w.FuncName(g), "test/") {
					continue
				}
				allInstrs(g, func(i ssa.Instruction) {
					st, ok := i.(*ssa.Store)
					if !ok {
						return
					}
					f2, ok := st.Addr.(*ssa.FieldAddr)
					if !ok || fieldVar(f2) != fld {
						return
					}
					n++
					if okS, whyS := w.labelSafe(st.Val, depth+1, seen); !okS && okAll {
						okAll, why = false, whyS
					}
				})
			}
			if n == 0 {
				return false, "field " + fld.Name() + " (no writer found)"
			}
			if !okAll {
				return false, "field " + fld.Name() + " ← " + why
			}
			return true, "every writer of " + fld.Name()
		}
		if cell := cellOf(x.X); cell != nil {
			for _, st := range storesTo(cell) {
				if okS, why := w.labelSafe(st.Val, depth+1, seen); !okS {
					return false, why
				}
			}
			return true, "local"
		}
		return false, symOf(v).String()
	}
	return false, symOf(v).String()
}

// posNear: the position of an instruction, or of the next instruction of its block that has one
// (implicit conversions carry no position of their own).
func posNear(ins ssa.Instruction) token.Pos {
	if ins.Pos().IsValid() {
		return ins.Pos()
	}
	on := false
	for _, j := range ins.Block().Instrs {
		if j == ins {
			on = true
		}
		if on && j.Pos().IsValid() {
			return j.Pos()
		}
	}
	return ins.Parent().Pos()
}
