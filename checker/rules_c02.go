package main

import (
	"fmt"
	"go/constant"
	"go/token"
	"go/types"
	"sort"
	"strings"

	"golang.org/x/tools/go/ssa"
)

func init() { rules["C02"] = ruleC02 }

// msgTypeNames maps the go-pfcp message type constants to their names ("HeartbeatRequest").
func msgTypeNames(w *World, prop string) map[int64]string {
	p := w.PkgTypes(msgPkg)
	if p == nil {
		brokenf(prop, "anchor", "package %s not imported", msgPkg)
	}
	out := map[int64]string{}
	for _, n := range p.Scope().Names() {
		if !strings.HasPrefix(n, "MsgType") {
			continue
		}
		if c, ok := p.Scope().Lookup(n).(*types.Const); ok {
			if v, ok := constant.Int64Val(constant.ToInt(c.Val())); ok {
				out[v] = strings.TrimPrefix(n, "MsgType")
			}
		}
	}
	return out
}

// terminal reply value of a handler return, followed through the handler's local closures.
type replyTerm struct {
	val    ssa.Value     // terminal value (constructor call, nil const, ...)
	ret    *ssa.Return   // the return in the handler itself
	chain  []*ssa.Call   // closure calls followed (outermost first)
	inFunc *ssa.Function // function containing val
	errVal ssa.Value     // the matching error result (terminal)
}

func replyTerminals(fn *ssa.Function) []replyTerm {
	var out []replyTerm
	var follow func(v, ev ssa.Value, ret *ssa.Return, chain []*ssa.Call, in *ssa.Function, depth int)
	follow = func(v, ev ssa.Value, ret *ssa.Return, chain []*ssa.Call, in *ssa.Function, depth int) {
		if depth > 5 {
			out = append(out, replyTerm{val: v, ret: ret, chain: chain, inFunc: in, errVal: ev})
			return
		}
		switch x := v.(type) {
		case *ssa.Extract:
			if c, ok := x.Tuple.(*ssa.Call); ok && x.Index == 0 {
				if callee := staticCallee(c); callee != nil && callee.Parent() != nil && callee.Blocks != nil {
					for _, r2 := range returnsOf(callee) {
						if len(r2.Results) >= 1 {
							var e2 ssa.Value
							if len(r2.Results) == 2 {
								e2 = res(r2, 1)
							}
							follow(res(r2, 0), e2, ret, append(append([]*ssa.Call{}, chain...), c), callee, depth+1)
						}
					}
					return
				}
			}
		case *ssa.Phi:
			for _, e := range x.Edges {
				follow(e, ev, ret, chain, in, depth+1)
			}
			return
		case *ssa.MakeInterface:
			follow(x.X, ev, ret, chain, in, depth+1)
			return
		case *ssa.ChangeInterface:
			follow(x.X, ev, ret, chain, in, depth+1)
			return
		}
		out = append(out, replyTerm{val: v, ret: ret, chain: chain, inFunc: in, errVal: ev})
	}
	for _, ret := range returnsOf(fn) {
		if len(ret.Results) == 0 {
			continue
		}
		var ev ssa.Value
		if len(ret.Results) == 2 {
			ev = res(ret, 1)
		}
		follow(res(ret, 0), ev, ret, nil, fn, 0)
	}
	return out
}

// ctorArg returns the argument of a go-pfcp constructor call by parameter name.
func ctorArg(c *ssa.Call, name string) ssa.Value {
	callee := staticCallee(c)
	if callee == nil {
		return nil
	}
	params := callee.Signature.Params()
	for i := 0; i < params.Len() && i < len(c.Call.Args); i++ {
		if params.At(i).Name() == name {
			return c.Call.Args[i]
		}
	}
	return nil
}

// variadicIEs returns the values stored into the variadic IE slice of a constructor call.
func variadicIEs(c *ssa.Call) []ssa.Value {
	if len(c.Call.Args) == 0 {
		return nil
	}
	var fixed []ssa.Value
	for _, a := range c.Call.Args {
		if typeName(a.Type()) == "*"+iePkg+".IE" {
			fixed = append(fixed, a)
		}
	}
	last := c.Call.Args[len(c.Call.Args)-1]
	sl, ok := last.(*ssa.Slice)
	if !ok {
		return fixed
	}
	arr, ok := sl.X.(*ssa.Alloc)
	if !ok {
		return fixed
	}
	type kv struct {
		idx int64
		v   ssa.Value
	}
	var items []kv
	if refs := arr.Referrers(); refs != nil {
		for _, rf := range *refs {
			if ia, ok := rf.(*ssa.IndexAddr); ok {
				k, _ := constInt(ia.Index)
				for _, st := range directStores(ia) {
					items = append(items, kv{k, st.Val})
				}
			}
		}
	}
	sort.Slice(items, func(i, j int) bool { return items[i].idx < items[j].idx })
	out := fixed
	for _, it := range items {
		out = append(out, it.v)
	}
	return out
}

// argAtSite: a value of a reply closure that is one of the closure's parameters is, for the reply
// reached through chain (the closure calls followed from the handler's return, outermost first), the
// argument given at the call site the reply was reached by — followed outwards as long as that argument
// is again a parameter of the closure the site is in. Other values are returned unchanged.
func argAtSite(v ssa.Value, chain []*ssa.Call) ssa.Value {
	for k := len(chain) - 1; k >= 0; k-- {
		p, ok := v.(*ssa.Parameter)
		if !ok || staticCallee(chain[k]) != p.Parent() {
			break
		}
		// a closure call passes exactly the declared parameters (the captured variables are bindings)
		at := -1
		for i, fp := range p.Parent().Params {
			if fp == p {
				at = i
			}
		}
		if at < 0 || at >= len(chain[k].Call.Args) {
			break
		}
		v = chain[k].Call.Args[at]
	}
	return v
}

// causeOf finds the ie.NewCause(x) among the IEs of a response constructor call and returns
// x's possible constant values; when x is a closure parameter the values at the closure's
// call sites in chain are used.
func causeOf(c *ssa.Call, chain []*ssa.Call) (vals []int64, found bool) {
	for _, v := range variadicIEs(c) {
		call, ok := v.(*ssa.Call)
		if !ok || calleeName(call) != iePkg+".NewCause" {
			continue
		}
		found = true
		if k, ok := constInt(argAtSite(call.Call.Args[0], chain)); ok {
			return []int64{k}, true
		}
		return nil, true
	}
	return nil, false
}

func ruleC02(w *World, r *Report) {
	const P = "C02"
	r.Explanation = "R02.1 over the dispatch switch of HandlePFCPMsg (path enumeration): every *Request case calls one handler and sends at most the handler's own reply, once; every *Response case and the default send nothing; every non-nil reply a handler can return (followed through its reply closures) is built by the constructor paired by name with the request type, with the request's own sequence number; nil replies only on a failed type assertion or a failed accessor of a request IE; " +
		"R02.2 who-may-send: SendPFCPMsg is called only by the dispatcher tail, the request sender and the report sender, Conn.Write only by SendPFCPMsg, no handler reaches a send synchronously; R02.3 SEID argument provenance of the three session responses (accepted ⇒ the session's remote SEID / the request's CP F-SEID, unknown session ⇒ 0 with no prior store to the captured variable); " +
		"R02.4 the accepted establishment carries the local Node ID IE, an accepted cause, an F-SEID built from session.localSEID and the connection's local address, and addPdrInfo on every path, whose two guards mirror the two allocation flags; R02.5 the UP SEID is compared with 0 before it is used."
	r.Explanation += " R02.6 the association's reader goroutine ends only on a read time-out or a closed socket (shared with C01 R01.6); R02.7 the datagram is marshalled into and written from a buffer that belongs to the call (SendPFCPMsg runs on several goroutines of one association)."
	r.Explanation += " R02.8 the per-peer socket is read into a buffer that holds the largest UDP payload; R02.9 UP SEID uniqueness (C07 R07.5 re-filed)."
	r.Explanation += " R02.10 the exit report of an association is RemoteAddr().String(), the key it is remembered under; R02.11 the PFCP socket only gets a read deadline."
	r.NotDecided = "counting responses over whole histories; header field encoding (go-pfcp)"
	dispatch := w.Fn(P, "pfcpiface.(*PFCPConn).HandlePFCPMsg")
	send := w.Fn(P, "pfcpiface.(*PFCPConn).SendPFCPMsg")
	names := msgTypeNames(w, P)
	cg := w.CG()
	dname := w.FuncName(dispatch)

	// ---- the value switched on: invoke MessageType() on the parsed message
	isMsgType := func(v ssa.Value) bool {
		c, ok := v.(*ssa.Call)
		return ok && c.Call.IsInvoke() && c.Call.Method.Name() == "MessageType"
	}
	typeEdge := func(a, b *ssa.BasicBlock) (int64, bool) {
		x, op, y, ok := edgeFact(a, b)
		if !ok || op != token.EQL {
			return 0, false
		}
		if isMsgType(x) {
			return constIntOK(y)
		}
		if isMsgType(y) {
			return constIntOK(x)
		}
		return 0, false
	}
	isSend := func(i ssa.Instruction) bool {
		c, ok := i.(ssa.CallInstruction)
		return ok && staticCallee(c) == send
	}
	handlers := map[string]*ssa.Function{} // request name -> handler
	seenTypes := map[string]bool{}
	npaths := 0
	complete := enumPaths(dispatch, 1, 50000, func(p *Path) {
		npaths++
		mt := int64(-1)
		for i := 0; i+1 < len(p.Blocks); i++ {
			if k, ok := typeEdge(p.Blocks[i], p.Blocks[i+1]); ok {
				mt = k
			}
		}
		var handlerCalls []*ssa.Call
		var sends []ssa.CallInstruction
		p.instrs(func(i ssa.Instruction) {
			if c, ok := i.(*ssa.Call); ok {
				if callee := staticCallee(c); callee != nil && w.isRepoFunc(callee) && strings.HasPrefix(callee.Name(), "handle") {
					handlerCalls = append(handlerCalls, c)
				}
			}
			if isSend(i) {
				sends = append(sends, i.(ssa.CallInstruction))
			}
		})
		name := names[mt]
		if mt == -1 {
			name = "none"
		}
		pos := w.Pos(p.last().Pos())
		if mt == -1 {
			// parse failure or unsupported type: nothing handled, nothing sent
			r.check(len(handlerCalls) == 0 && len(sends) == 0, "R02.1", dname, "path[no dispatched type] handles and sends nothing", pos, "dropped", fmt.Sprintf("undispatched datagram reaches %d handlers / %d sends", len(handlerCalls), len(sends)))
			return
		}
		seenTypes[name] = true
		construct := "dispatch[" + name + "]"
		if strings.HasSuffix(name, "Response") {
			// a send on such a path is only apparent if its argument is the nil constant there
			// (the reply != nil edge is then infeasible)
			answered := false
			for _, sd := range sends {
				if !isNilConst(resolveAlongPath(p, sd.Common().Args[1])) {
					answered = true
				}
			}
			r.check(!answered, "R02.2", dname, construct+" is never answered", pos, "reply is the nil constant on every path of this case", "a response-type message is answered")
			return
		}
		if !strings.HasSuffix(name, "Request") {
			r.bad("R02.1", dname, construct, pos, "dispatched message type is neither a request nor a response")
			return
		}
		if len(handlerCalls) != 1 {
			r.bad("R02.1", dname, construct+" calls one handler", pos, fmt.Sprintf("%d handler calls on the path", len(handlerCalls)))
			return
		}
		h := staticCallee(handlerCalls[0])
		handlers[name] = h
		if len(sends) > 1 {
			r.bad("R02.1", dname, construct+" sends at most once", pos, fmt.Sprintf("%d sends on one path", len(sends)))
			return
		}
		if len(sends) == 1 {
			arg := resolveAlongPath(p, sends[0].Common().Args[1])
			own := false
			if ex, ok := arg.(*ssa.Extract); ok && ex.Tuple == ssa.Value(handlerCalls[0]) && ex.Index == 0 {
				own = true
			}
			r.check(own, "R02.1", dname, construct+" sends the handler's reply", pos, "argument is result #0 of "+h.Name(), "the message sent is "+symOf(arg).String()+", not the handler's reply")
		} else {
			// a path without a send must be the reply == nil edge
			nilEdge := false
			for i := 0; i+1 < len(p.Blocks); i++ {
				x, op, y, ok := edgeFact(p.Blocks[i], p.Blocks[i+1])
				if ok && op == token.EQL && (isNilConst(y) || isNilConst(x)) {
					v := x
					if isNilConst(x) {
						v = y
					}
					rv := resolveAlongPath(p, v)
					if ex, ok := rv.(*ssa.Extract); ok && ex.Tuple == ssa.Value(handlerCalls[0]) && ex.Index == 0 {
						nilEdge = true
					}
				}
			}
			r.check(nilEdge, "R02.1", dname, construct+" unsent only when the handler returned no reply", pos, "reply == nil edge", "a non-nil reply can be left unsent")
		}
	})
	if !complete {
		brokenf(P, "R02.1", "too many paths in HandlePFCPMsg")
	}
	r.floor("R02.1 dispatched request types", len(handlers), 7)
	r.Extra["dispatch_paths"] = npaths
	var tnames []string
	for n := range seenTypes {
		tnames = append(tnames, n)
	}
	sort.Strings(tnames)
	r.Extra["dispatched_types"] = tnames

	// ---- R02.1 per handler: constructor pairing and sequence provenance
	var hnames []string
	for n := range handlers {
		hnames = append(hnames, n)
	}
	sort.Strings(hnames)
	acceptedConst := w.ConstInt(P, iePkg, "CauseRequestAccepted")
	for _, req := range hnames {
		h := handlers[req]
		hn := w.FuncName(h)
		wantCtor := msgPkg + ".New" + strings.TrimSuffix(req, "Request") + "Response"
		if len(h.Params) != 2 {
			brokenf(P, "R02.1", "handler %s signature changed", hn)
		}
		msgParam := h.Params[1]
		terms := replyTerminals(h)
		nonNil := 0
		for k, t := range terms {
			pos := w.Pos(t.val.Pos())
			if pos == "-" {
				pos = w.Pos(t.ret.Pos())
			}
			if isNilConst(t.val) {
				// allowed only under a failed type assertion of msg or a failed accessor on a request IE
				okNil := nilReplyJustified(h, t.ret, msgParam)
				r.check(okNil, "R02.1", hn, fmt.Sprintf("nil reply #%d only on bad type / absent or unreadable mandatory IE", k+1), w.Pos(t.ret.Pos()), "failed type assertion or IE accessor error", "a request can be dropped silently on a path that is not a decoding failure")
				continue
			}
			c, ok := t.val.(*ssa.Call)
			if !ok || calleeName(c) != wantCtor {
				got := symOf(t.val).String()
				r.bad("R02.1", hn, fmt.Sprintf("reply #%d built by %s", k+1, shortCallee(wantCtor)), pos, "reply is "+got+" (response of another type)")
				continue
			}
			nonNil++
			seq := ctorArg(c, "seq")
			ss := "?"
			okSeq := false
			if seq != nil {
				s := symOf(seq)
				ss = s.String()
				okSeq = strings.HasSuffix(ss, ".SequenceNumber") && rootsAre(s, msgParam)
				if call, isCall := seq.(*ssa.Call); isCall && call.Call.IsInvoke() && call.Call.Method.Name() == "Sequence" {
					okSeq = rootsAre(symOf(call.Call.Value), msgParam)
				}
			}
			r.check(okSeq, "R02.1", hn, fmt.Sprintf("reply #%d %s carries the request's sequence number", k+1, shortCallee(wantCtor)), pos, ss, "sequence number is "+ss)
		}
		r.check(nonNil >= 1, "R02.1", hn, "handler has an answering exit", w.Pos(h.Pos()), fmt.Sprintf("%d constructor exits", nonNil), "handler never answers")
		// a handler never sends synchronously
		reachSend := false
		for f := range cg.Reachable([]*ssa.Function{h}, func(e *Edge) bool { return e.Kind != "go" }) {
			if f == send {
				reachSend = true
			}
		}
		r.check(!reachSend, "R02.2", hn, "handler does not send by itself", w.Pos(h.Pos()), "SendPFCPMsg unreachable over call/defer edges", "handler can send a message itself in addition to the dispatcher's reply")
	}

	// ---- R02.2 who may send
	{
		allowed := map[string]bool{dname: true, "pfcpiface.(*PFCPConn).sendPFCPRequestMessage": true, "pfcpiface.(*PFCPConn).handleDigestReport": true}
		var got []string
		for _, e := range cg.callersOf(send) {
			n := w.FuncName(e.Caller)
			got = append(got, n)
			r.check(allowed[n], "R02.2", n, "caller of SendPFCPMsg is a known sender", w.Pos(e.Site.Pos()), "allowed", n+" sends PFCP messages (only the dispatcher tail, the request sender and the report sender may)")
		}
		// Conn.Write
		for _, f := range w.Funcs {
			if f.Pkg == nil || f.Pkg.Pkg.Path() != pfcpPkg {
				continue
			}
			allInstrs(f, func(i ssa.Instruction) {
				c, ok := i.(ssa.CallInstruction)
				if !ok {
					return
				}
				cc := c.Common()
				isWrite := false
				if cc.IsInvoke() && cc.Method.Name() == "Write" && typeName(cc.Value.Type()) == "net.Conn" {
					// only the PFCP socket: receiver loaded from PFCPConn.Conn
					if strings.HasSuffix(symOf(cc.Value).String(), "PFCPConn.Conn") {
						isWrite = true
					}
				}
				if callee := staticCallee(c); callee != nil && callee.Name() == "Write" && callee.Signature.Recv() != nil && rootTypeName(callee.Signature.Recv().Type()) == "PFCPConn" {
					isWrite = true
				}
				if isWrite {
					r.check(f == send, "R02.2", w.FuncName(f), "PFCP socket write only in SendPFCPMsg", w.Pos(i.Pos()), "in SendPFCPMsg", w.FuncName(f)+" writes to the PFCP socket directly")
					// R02.7: SendPFCPMsg runs on several goroutines of one association (reader, heartbeat monitor,
					// node) without a lock: the bytes between MarshalTo and Write must belong to this call alone
					privateBuffer(w, r, "R02.7", f, i, cc)
				}
			})
		}
	}

	ruleC02SEID(w, r, handlers, acceptedConst)
	ruleC02Accepted(w, r, handlers, acceptedConst)
	ruleC02NonZero(w, r)
	ruleDoneKeyIsStoredKey(w, r, "C02", "R02.10")
	ruleOnlyReadDeadline(w, r, "C02", "R02.11")
	// R02.9: a session response is addressed to the CP SEID of the session the UP SEID names — two live
	// sessions never share a UP SEID (the uniqueness rules of C07 R07.5, re-filed)
	r.withRule("R02.9", func() { ruleC07SEID(w, r) })
	// R02.8: a request that fits into a UDP datagram fits into the buffer it is read into
	{
		serve := w.Fn(P, "pfcpiface.(*PFCPConn).Serve")
		n := 0
		for _, g := range withClosures(serve) {
			allInstrs(g, func(i ssa.Instruction) {
				c, ok := i.(*ssa.Call)
				if !ok || !c.Call.IsInvoke() || c.Call.Method.Name() != "Read" || len(c.Call.Args) != 1 {
					return
				}
				if !strings.HasSuffix(symOf(c.Call.Value).String(), "PFCPConn.Conn") {
					return
				}
				n++
				lo, _, why := w.lenFromDef(c.Call.Args[0], nil, g, c)
				r.check(lo >= 65507, "R02.8", w.FuncName(g), "the per-peer receive buffer holds the largest UDP payload", w.Pos(c.Pos()), fmt.Sprintf("len ≥ %d (%s)", lo, why), fmt.Sprintf("the socket is read into a buffer of %d bytes: a well-formed request larger than that (a Session Establishment with a dozen PDRs) is truncated by the kernel, fails to parse and is never answered", lo))
			})
		}
		r.floor("R02.8 reads of the per-peer socket", n, 1)
	}
	// R02.6: a request can only be answered while somebody reads the socket: the reader goroutine ends only with the association
	r.withRule("R02.6", func() { ruleC01Reader(w, r) })
}

func constIntOK(v ssa.Value) (int64, bool) { return constInt(v) }

func rootsAre(s *Sym, want ssa.Value) bool {
	// all field/param leaves derive from want
	ok := false
	var rec func(x *Sym) bool
	rec = func(x *Sym) bool {
		switch x.Op {
		case "field", "param":
			if x.Root == want || x.V == want {
				ok = true
				return true
			}
			// "(msg).Header" style: root is embedded in the name
			if p, isP := want.(*ssa.Parameter); isP && strings.HasPrefix(x.Name, "("+p.Name()+")") {
				ok = true
				return true
			}
			return false
		}
		for _, a := range x.Args {
			if !rec(a) {
				return false
			}
		}
		return true
	}
	return rec(s) && ok
}

// nilReplyJustified: the return is reachable only through the failing edge of the type
// assertion on msg, or through an err != nil edge of an accessor call on a field of the request.
func nilReplyJustified(h *ssa.Function, ret *ssa.Return, msgParam *ssa.Parameter) bool {
	return onlyVia(h, ret, func(a, b *ssa.BasicBlock) bool {
		if v, truth, ok := boolEdge(a, b); ok && !truth {
			if ex, isEx := v.(*ssa.Extract); isEx && ex.Index == 1 {
				if ta, isTA := ex.Tuple.(*ssa.TypeAssert); isTA && ta.X == ssa.Value(msgParam) {
					return true
				}
			}
		}
		x, op, y, ok := edgeFact(a, b)
		if ok && op == token.NEQ && isNilConst(y) {
			if ex, isEx := x.(*ssa.Extract); isEx {
				if c, isCall := ex.Tuple.(*ssa.Call); isCall && strings.HasPrefix(calleeName(c), "(*"+iePkg+".IE).") {
					s := symOf(c.Call.Args[0])
					return rootsAre(s, msgParam)
				}
			}
		}
		// a mandatory IE of the request is absent
		if ok && op == token.EQL && isNilConst(y) && typeName(x.Type()) == "*"+iePkg+".IE" {
			return rootsAre(symOf(x), msgParam)
		}
		return false
	})
}

func ruleC02SEID(w *World, r *Report, handlers map[string]*ssa.Function, accepted int64) {
	const P = "C02"
	for _, req := range []string{"SessionEstablishmentRequest", "SessionModificationRequest", "SessionDeletionRequest"} {
		h := handlers[req]
		if h == nil {
			r.bad("R02.3", "pfcpiface.(*PFCPConn).HandlePFCPMsg", "dispatch["+req+"]", "-", req+" is not dispatched")
			continue
		}
		hn := w.FuncName(h)
		n := 0
		for k, t := range replyTerminals(h) {
			c, ok := t.val.(*ssa.Call)
			if !ok {
				continue
			}
			seid := ctorArg(c, "seid")
			if seid == nil {
				continue
			}
			n++
			// a reply closure may leave the header SEID to its caller, as it may the cause: each reply is
			// judged with the values of the call it was reached by
			seid = argAtSite(seid, t.chain)
			s := symOf(seid)
			causes, found := causeOf(c, t.chain)
			pos := w.Pos(c.Pos())
			if !found {
				r.bad("R02.3", hn, fmt.Sprintf("response #%d carries a Cause IE", k+1), pos, "session response without a Cause IE")
				continue
			}
			isAccepted := len(causes) == 1 && causes[0] == accepted
			leaves := s.Leaves()
			if isAccepted {
				good := len(s.Fields()) > 0
				for _, l := range leaves {
					switch {
					case strings.HasSuffix(l, ".remoteSEID") && strings.HasPrefix(l, "F:"):
					case strings.HasSuffix(l, "FSEID#0().SEID") || (strings.HasPrefix(l, "F:") && strings.HasSuffix(l, ".SEID") && strings.Contains(l, "FSEID")):
					case strings.HasPrefix(l, "CALL:"):
					default:
						good = false
					}
				}
				r.check(good, "R02.3", hn, fmt.Sprintf("accepted response #%d addressed with the CP SEID", k+1), pos, s.String(), "accepted response header SEID is "+s.String())
			} else {
				good := true
				for _, l := range leaves {
					switch {
					case strings.HasSuffix(l, ".remoteSEID") && strings.HasPrefix(l, "F:"):
					case strings.HasPrefix(l, "F:") && strings.HasSuffix(l, ".SEID") && strings.Contains(l, "FSEID"):
					case l == "C:0" || l == "C:nil":
					case strings.HasPrefix(l, "CALL:"):
					default:
						good = false
					}
				}
				r.check(good, "R02.3", hn, fmt.Sprintf("rejecting response #%d SEID is the CP SEID or 0", k+1), pos, s.String(), "rejecting response header SEID is "+s.String())
			}
		}
		r.floor("R02.3 session response constructors in "+hn, n, 2)
		// no stale copy: a load of session.remoteSEID that feeds a response must not be followed by a store to session.remoteSEID
		allInstrs(h, func(i ssa.Instruction) {
			ld, ok := i.(*ssa.UnOp)
			if !ok || ld.Op != token.MUL {
				return
			}
			fa, ok := ld.X.(*ssa.FieldAddr)
			if !ok || fieldVar(fa) == nil || fieldVar(fa).Name() != "remoteSEID" || rootTypeName(fa.X.Type()) != "PFCPSession" {
				return
			}
			allInstrs(h, func(j ssa.Instruction) {
				st, ok := j.(*ssa.Store)
				if !ok {
					return
				}
				fb, ok := st.Addr.(*ssa.FieldAddr)
				if !ok || fieldVar(fb) != fieldVar(fa) {
					return
				}
				// the copy lives in a local cell: it is stale only if the cell still holds it when the field is
				// replaced (a cell that is given the new SEID before the field is — `remoteSEID = fseid.SEID;
				// session.remoteSEID = remoteSEID` — is current)
				var cells []ssa.Value
				for _, ref := range *ld.Referrers() {
					if cs, ok := ref.(*ssa.Store); ok && cs.Val == ssa.Value(ld) {
						if _, isCell := cs.Addr.(*ssa.Alloc); isCell {
							cells = append(cells, cs.Addr)
						}
					}
				}
				rewritten := func(x ssa.Instruction) bool {
					cs, ok := x.(*ssa.Store)
					if !ok || cs.Val == ssa.Value(ld) || len(cells) == 0 {
						return false
					}
					for _, c := range cells {
						if cs.Addr != c {
							return false
						}
					}
					return len(cells) == 1
				}
				// a store that puts the cell's own content into the field — `session.remoteSEID = remoteSEID` —
				// leaves cell and field equal whatever path led there: the copy is current after it
				if cl, ok := st.Val.(*ssa.UnOp); ok && cl.Op == token.MUL && len(cells) == 1 && cl.X == cells[0] && cl.Block() == st.Block() {
					between, clean := false, true
					for _, x := range st.Block().Instrs {
						if x == ssa.Instruction(cl) {
							between = true
						} else if x == ssa.Instruction(st) {
							break
						} else if between {
							switch x.(type) {
							case *ssa.Store, ssa.CallInstruction:
								clean = false
							}
						}
					}
					if between && clean {
						return
					}
				}
				stale := reach(h, ld, func(x ssa.Instruction) bool { return x == ssa.Instruction(st) }, rewritten, nil) != nil
				r.check(!stale, "R02.3", hn, "CP SEID is read after the request's CP F-SEID was applied", w.Pos(ld.Pos()), "no store to session.remoteSEID follows the read", "session.remoteSEID is copied for the response before the CP F-SEID of this request is applied: the response is addressed to the old CP SEID")
			})
		})
		// unknown session ⇒ SEID zero: the reject issued on the !found edge of store.GetSession sees no earlier store to the captured SEID cell
		if req != "SessionEstablishmentRequest" {
			var get *ssa.Call
			allInstrs(h, func(i ssa.Instruction) {
				if c, ok := i.(*ssa.Call); ok && c.Call.IsInvoke() && c.Call.Method.Name() == "GetSession" && get == nil {
					get = c
				}
			})
			if get == nil {
				r.bad("R02.3", hn, "session lookup", w.Pos(h.Pos()), "handler does not look the session up")
				continue
			}
			okv := extractOf(get, 1)
			// the replies returned on the not-found edge: built by a reply closure called there, or in place
			// (the SEID a constructor is given is taken at the call the reply was reached by, see argAtSite)
			var ctors []ssa.Value
			var nfSite ssa.Instruction
			var collect func(v ssa.Value, chain []*ssa.Call, d int)
			collect = func(v ssa.Value, chain []*ssa.Call, d int) {
				if d > 5 || v == nil {
					return
				}
				switch x := v.(type) {
				case *ssa.Call:
					if seid := ctorArg(x, "seid"); seid != nil {
						ctors = append(ctors, argAtSite(seid, chain))
						return
					}
					if callee := staticCallee(x); callee != nil && w.isRepoFunc(callee) {
						for _, ret := range returnsOf(callee) {
							collect(res(ret, 0), append(append([]*ssa.Call{}, chain...), x), d+1)
						}
					}
				case *ssa.Extract:
					collect(x.Tuple, chain, d+1)
				case *ssa.Phi:
					for _, e := range x.Edges {
						collect(e, chain, d+1)
					}
				case *ssa.MakeInterface:
					collect(x.X, chain, d+1)
				case *ssa.ChangeInterface:
					collect(x.X, chain, d+1)
				}
			}
			for _, b := range h.Blocks {
				for _, s := range b.Succs {
					if v, truth, ok := boolEdge(b, s); ok && !truth && v == okv && len(s.Preds) == 1 {
						for _, bb := range h.Blocks {
							if bb != s && !s.Dominates(bb) {
								continue
							}
							for _, i := range bb.Instrs {
								if ret, ok := i.(*ssa.Return); ok && len(ret.Results) > 0 {
									if nfSite == nil {
										nfSite = i
									}
									collect(res(ret, 0), nil, 0)
								}
							}
						}
					}
				}
			}
			if len(ctors) == 0 || nfSite == nil {
				r.bad("R02.3", hn, "unknown session is rejected", w.Pos(get.Pos()), "no rejecting reply on the not-found edge of GetSession")
				continue
			}
			zero := true
			desc := ""
			for _, seid := range ctors {
				if k, isK := constInt(seid); isK && k == 0 {
					desc = "constant 0"
					continue
				}
				// a captured (or local) cell: no store to it may precede the not-found reply
				if u, isU := seid.(*ssa.UnOp); isU && u.Op == token.MUL {
					if cell := cellOf(u.X); cell != nil {
						for _, st := range storesTo(cell) {
							if st.Parent() == h && reach(h, st, func(j ssa.Instruction) bool { return j == nfSite }, nil, nil) != nil {
								zero = false
							}
						}
						desc = "variable with no store before the not-found reply"
						continue
					}
				}
				zero = false
				desc = symOf(seid).String()
			}
			nfCall := nfSite
			r.check(zero, "R02.3", hn, "unknown session answered with SEID 0", w.Pos(nfCall.Pos()), desc, "reply for an unknown session carries SEID "+desc)
		}
	}
}

func ruleC02Accepted(w *World, r *Report, handlers map[string]*ssa.Function, accepted int64) {
	const P = "C02"
	h := handlers["SessionEstablishmentRequest"]
	if h == nil {
		return
	}
	hn := w.FuncName(h)
	addPdrInfo := w.Fn(P, "pfcpiface.addPdrInfo")
	var acc *ssa.Call
	for _, t := range replyTerminals(h) {
		if c, ok := t.val.(*ssa.Call); ok {
			if cs, found := causeOf(c, t.chain); found && len(cs) == 1 && cs[0] == accepted {
				if acc != nil && acc != c {
					r.bad("R02.4", hn, "single accepted exit", w.Pos(c.Pos()), "more than one accepting constructor")
				}
				acc = c
			}
		}
	}
	if acc == nil {
		r.bad("R02.4", hn, "accepted exit exists", w.Pos(h.Pos()), "establishment has no accepting exit")
		return
	}
	pos := w.Pos(acc.Pos())
	ies := variadicIEs(acc)
	var hasNode, hasFSEID bool
	for _, v := range ies {
		s := symOf(v)
		str := s.String()
		if strings.HasSuffix(str, "PFCPConn.nodeID.localIE") {
			hasNode = true
		}
		if strings.Contains(str, "ie.NewFSEID") {
			hasFSEID = true
			// every NewFSEID alternative: seid ← session.localSEID, address ← LocalAddr()
			alts := []*Sym{s}
			if s.Op == "phi" {
				alts = s.Args
			}
			for _, a := range alts {
				good := a.Op == "call" && strings.HasSuffix(a.Name, "ie.NewFSEID") && len(a.Args) == 3
				if good {
					sid := a.Args[0].String()
					good = strings.HasSuffix(sid, "NewPFCPSession#0(PFCPConn, "+sid[strings.LastIndex(sid, "(PFCPConn, ")+len("(PFCPConn, "):]) || strings.HasSuffix(sid, ".localSEID")
					good = strings.HasSuffix(sid, ".localSEID")
					addr := a.Args[1].String() + "|" + a.Args[2].String()
					if !strings.Contains(addr, "LocalAddr") {
						good = false
					}
				}
				r.check(good, "R02.4", hn, "UP F-SEID = (session.localSEID, local N4 address)", pos, a.String(), "UP F-SEID is built as "+a.String())
			}
		}
	}
	r.check(hasNode, "R02.4", hn, "accepted establishment carries the local Node ID IE", pos, "pConn.nodeID.localIE", "Node ID IE missing from the accepted response")
	r.check(hasFSEID, "R02.4", hn, "accepted establishment carries a UP F-SEID", pos, "ie.NewFSEID", "UP F-SEID missing from the accepted response")
	// addPdrInfo(seres, addPDRs) on every path from the constructor to the return
	miss := mustPass(h, acc, isReturn, func(i ssa.Instruction) bool {
		c, ok := i.(ssa.CallInstruction)
		return ok && staticCallee(c) == addPdrInfo && c.Common().Args[0] == ssa.Value(acc)
	})
	r.check(miss == nil, "R02.4", hn, "addPdrInfo(response, …) on every accepted path", pos, "must-pass-through", "the accepted response can be returned without Created PDR elements")
	for _, c := range callsTo(h, addPdrInfo) {
		s := symOf(c.Common().Args[1]).String()
		// the list handed over is the list of PDRs parsed from this message (the appended copies)
		r.check(strings.Contains(s, "append") || strings.Contains(s, "make"), "R02.4", hn, "addPdrInfo gets the PDRs of this message", w.Pos(c.Pos()), trunc80(s), "addPdrInfo is given "+trunc80(s))
	}
	// addPdrInfo's guards
	an := w.FuncName(addPdrInfo)
	// every PDR of the message is visited: the loop over pdrs has no early exit
	{
		loops := rangeLoopsOver(addPdrInfo, "pdrs")
		r.floor("R02.4 loop over the PDRs in addPdrInfo", len(loops), 1)
		for _, l := range loops {
			ex := loopEarlyExits(addPdrInfo, l[0])
			pos := w.Pos(addPdrInfo.Pos())
			if len(ex) > 0 && len(ex[0].Instrs) > 0 {
				pos = w.Pos(ex[0].Instrs[len(ex[0].Instrs)-1].Pos())
			}
			r.check(len(ex) == 0, "R02.4", an, "every PDR of the message is examined (no early exit from the loop)", pos, "loop leaves only through its header", "the loop over the PDRs can stop early (break/return): later UP-chosen F-TEIDs / UE IPs get no Created PDR")
		}
	}
	n := 0
	allInstrs(addPdrInfo, func(i ssa.Instruction) {
		c, ok := i.(*ssa.Call)
		if !ok || calleeName(c) != iePkg+".NewCreatedPDR" {
			return
		}
		n++
		var kinds []string
		for _, v := range variadicIEs(c) {
			kinds = append(kinds, symOf(v).String())
		}
		desc := strings.Join(kinds, " ; ")
		isTEID := strings.Contains(desc, "NewFTEID")
		isUEIP := strings.Contains(desc, "NewUEIPAddress")
		pdrid := strings.Contains(desc, "NewPDRID(uint16(pdr.pdrID))") || strings.Contains(desc, "ie.NewPDRID(uint16(") && strings.Contains(desc, ".pdrID")
		switch {
		case isTEID:
			g := onlyVia(addPdrInfo, c, func(a, b *ssa.BasicBlock) bool {
				v, truth, ok := boolEdge(a, b)
				return ok && truth && strings.HasSuffix(symOf(v).String(), ".UPAllocateFteid")
			})
			prov := strings.Contains(desc, ".tunnelTEID") && strings.Contains(desc, ".tunnelIP4Dst")
			r.check(g && prov && pdrid, "R02.4", an, "Created PDR with F-TEID iff the TEID was UP-chosen, from pdr.tunnelTEID/tunnelIP4Dst", w.Pos(c.Pos()), trunc80(desc), fmt.Sprintf("guard=%v provenance=%v pdrid=%v: %s", g, prov, pdrid, trunc80(desc)))
		case isUEIP:
			g1 := onlyVia(addPdrInfo, c, func(a, b *ssa.BasicBlock) bool {
				v, truth, ok := boolEdge(a, b)
				return ok && truth && strings.HasSuffix(symOf(v).String(), ".allocIPFlag")
			})
			prov := strings.Contains(desc, ".ueAddress")
			r.check(g1 && prov && pdrid, "R02.4", an, "Created PDR with UE IP iff the address was UP-chosen, from pdr.ueAddress", w.Pos(c.Pos()), trunc80(desc), fmt.Sprintf("guard=%v provenance=%v pdrid=%v: %s", g1, prov, pdrid, trunc80(desc)))
		default:
			r.bad("R02.4", an, "Created PDR kind", w.Pos(c.Pos()), "Created PDR carries neither F-TEID nor UE IP: "+trunc80(desc))
		}
	})
	r.floor("R02.4 Created PDR constructors", n, 2)
}

func trunc80(s string) string {
	if len(s) > 160 {
		return s[:157] + "..."
	}
	return s
}

// ruleC02NonZero: the value that becomes session.localSEID is compared with 0 before use.
func ruleC02NonZero(w *World, r *Report) {
	const P = "C02"
	f := w.Fn(P, "pfcpiface.(*PFCPConn).NewPFCPSession")
	fn := w.FuncName(f)
	sts := fieldStores(f, "PFCPSession")["localSEID"]
	r.floor("R02.5 stores to PFCPSession.localSEID in NewPFCPSession", len(sts), 1)
	for _, st := range sts {
		nonZero := func(v ssa.Value) bool {
			return onlyVia(f, st, func(a, b *ssa.BasicBlock) bool {
				x, op, y, ok := edgeFact(a, b)
				if !ok {
					return false
				}
				if x == v {
					k, isK := constInt(y)
					return isK && k == 0 && (op == token.NEQ || op == token.GTR)
				}
				if y == v {
					k, isK := constInt(x)
					return isK && k == 0 && (op == token.NEQ || op == token.LSS)
				}
				return false
			})
		}
		// the stored variable itself was tested, or every value it can hold where it is stored was
		g := nonZero(st.Val)
		if !g {
			g = true
			for _, v := range valuesAt(st.Val, st) {
				g = g && nonZero(v)
			}
		}
		r.check(g, "R02.5", fn, "UP SEID compared with 0 before it is used", w.Pos(st.Pos()), "dominated by lseid != 0", "the random UP SEID may be 0: the session is then not stored (PutSession refuses 0) although the response says accepted")
	}
}

// privateBuffer: the bytes a PFCP socket write sends belong to the call that marshalled them.
func privateBuffer(w *World, r *Report, rule string, f *ssa.Function, i ssa.Instruction, cc *ssa.CallCommon) {
	if len(cc.Args) == 0 {
		return
	}
	buf := cc.Args[len(cc.Args)-1]
	held := w.Locks().heldAt[i]
	r.check(isFreshSlice(buf) || len(held) > 0, rule, w.FuncName(f), "the datagram is written from a buffer private to this call", w.Pos(i.Pos()), "buffer allocated in the call"+ifelse(len(held) > 0, " / under a lock", ""), "the datagram is marshalled into and written from "+symOf(buf).String()+", which other goroutines sending on the same association share: one message overwrites another between MarshalTo and Write (a response is sent twice, another never)")
}

// ruleSendBufferPrivate (re-filed as R13.9): a Session Report Request leaves as it was built — the bytes
// SendPFCPMsg writes are its own (the report is sent from the node goroutine while the reader and the
// heartbeat monitor send on the same association).
func ruleSendBufferPrivate(w *World, r *Report, prop, rule string) {
	send := w.Fn(prop, "pfcpiface.(*PFCPConn).SendPFCPMsg")
	n := 0
	allInstrs(send, func(i ssa.Instruction) {
		c, ok := i.(ssa.CallInstruction)
		if !ok {
			return
		}
		cc := c.Common()
		isWrite := cc.IsInvoke() && cc.Method.Name() == "Write" && strings.HasSuffix(symOf(cc.Value).String(), "PFCPConn.Conn")
		if callee := staticCallee(c); callee != nil && callee.Name() == "Write" && callee.Signature.Recv() != nil && rootTypeName(callee.Signature.Recv().Type()) == "PFCPConn" {
			isWrite = true
		}
		if isWrite {
			n++
			privateBuffer(w, r, rule, send, i, cc)
		}
	})
	r.floor(rule+" socket writes in SendPFCPMsg", n, 1)
}
