package main

import (
	"fmt"
	"go/token"
	"go/types"
	"sort"
	"strings"

	"golang.org/x/tools/go/ssa"
)

func init() { rules["C03"] = ruleC03 }

type encItem struct {
	sym *Sym
	raw ssa.Value // argument of the encoder before the uint64 conversion
	pos token.Pos
}

// encList decodes a []*pb.FieldData list of fixed length: element i = intEnc(uint64(x)). The list is an
// array cell seen whole through one slice of it; its elements are written either into the array before it is
// sliced (a composite literal) or through that slice (a slice made with a constant length and filled
// `l[i] = …`). Filled through the slice, nothing makes the writes one per position as a literal does, so
// that is required here: every position of the array written exactly once, under a constant index, before
// the list is used for anything else — otherwise the list is not decoded (and its rules fail).
func encList(v ssa.Value) []encItem {
	sl, ok := v.(*ssa.Slice)
	if !ok {
		return nil
	}
	arr, ok := sl.X.(*ssa.Alloc)
	if !ok {
		return nil
	}
	type kv struct {
		idx int64
		it  encItem
	}
	var items []kv
	var addrs []*ssa.IndexAddr
	if refs := arr.Referrers(); refs != nil {
		for _, rf := range *refs {
			if ia, ok := rf.(*ssa.IndexAddr); ok {
				addrs = append(addrs, ia)
			}
		}
	}
	if at, isArr := derefUnder(arr.Type()).(*types.Array); isArr && sl.Referrers() != nil {
		whole := sl.Low == nil && sl.Max == nil
		if sl.High != nil {
			h, isK := constInt(sl.High)
			whole = whole && isK && h == at.Len()
		}
		var uses []ssa.Instruction // what the filled list is used for
		var thru []*ssa.IndexAddr
		for _, rf := range *sl.Referrers() {
			switch x := rf.(type) {
			case *ssa.DebugRef:
			case *ssa.IndexAddr:
				thru = append(thru, x)
			default:
				uses = append(uses, rf)
			}
		}
		if len(thru) > 0 {
			if !whole {
				return nil
			}
			seen := map[int64]bool{}
			for _, ia := range thru {
				k, isK := constInt(ia.Index)
				sts := directStores(ia)
				if !isK || seen[k] || len(sts) != 1 {
					return nil
				}
				seen[k] = true
				for _, u := range uses {
					if !instrDominates(sts[0], u) {
						return nil
					}
				}
			}
			if int64(len(seen)) != at.Len() || len(addrs) > 0 {
				return nil
			}
			addrs = thru
		}
	}
	for _, ia := range addrs {
		k, _ := constInt(ia.Index)
		for _, st := range directStores(ia) {
			c, ok := st.Val.(*ssa.Call)
			if !ok || len(c.Call.Args) != 1 {
				items = append(items, kv{k, encItem{sym: symOf(st.Val), raw: st.Val, pos: st.Pos()}})
				continue
			}
			arg := c.Call.Args[0]
			raw := arg
			if cv, ok := arg.(*ssa.Convert); ok {
				raw = cv.X
			}
			items = append(items, kv{k, encItem{sym: symOf(raw), raw: raw, pos: st.Pos()}})
		}
	}
	sort.Slice(items, func(i, j int) bool { return items[i].idx < items[j].idx })
	var out []encItem
	for _, it := range items {
		out = append(out, it.it)
	}
	return out
}

func encStrings(items []encItem) []string {
	var out []string
	for _, it := range items {
		out = append(out, it.sym.String())
	}
	return out
}

// litLists returns, for the (single) composite literal of pb type typ built in fn, the
// decoded FieldData lists by field name, plus scalar field syms.
func litLists(fn *ssa.Function, typ string) (lists map[string][]encItem, scalars map[string]*ssa.Store) {
	lists = map[string][]encItem{}
	scalars = map[string]*ssa.Store{}
	for fld, sts := range fieldStores(fn, typ) {
		for _, st := range sts {
			if items := encList(st.Val); items != nil {
				lists[fld] = items
			} else {
				scalars[fld] = st
			}
		}
	}
	return
}

func typeBits(t types.Type) int64 {
	if b, ok := t.Underlying().(*types.Basic); ok {
		switch b.Kind() {
		case types.Uint8, types.Int8, types.Bool:
			return 8
		case types.Uint16, types.Int16:
			return 16
		case types.Uint32, types.Int32:
			return 32
		case types.Uint64, types.Int64, types.Int, types.Uint:
			return 64
		}
	}
	return 64
}

// workerOf returns the goroutine closure of a bess add/del helper (the function itself if none).
func workerOf(f *ssa.Function) *ssa.Function {
	if len(f.AnonFuncs) == 1 {
		return f.AnonFuncs[0]
	}
	return f
}

func ruleC03(w *World, r *Report) {
	const P = "C03"
	r.Explanation = "R03.1 add/delete key agreement: the key lists of addPDR/delPDR (values and masks), addFAR/delFAR and add/del of both QER levels are equal element by element (sibling diff of provenance); R03.2 every list has the arity of the module declaration in conf/up4.bess and each element's source Go type is not wider than the declared num_bytes; constants (FAR actions, QER gates) agree with up4.bess; " +
		"R03.2b each slot is filled from the field the statement maps to the pipeline's attr_name; R03.3 priority = K − precedence with K ≥ 2^32−1 in 32-bit unsigned arithmetic (antitone, no wrap), gate ← needDecap; FAR action table of setActionValue evaluated exhaustively over applyAction × dstIntf; qosLevel routes add and delete to the same table; " +
		"R03.4 SetUpfInfo runs clearState on every path after the client exists and before any listener goroutine or return, clearState clears ⊇ the modules written; R03.5 every datapath write of the modification/deletion handlers is dominated by the found edge of store.GetSession, of the establishment handler by the node-id match and the allocated session; R03.6 accepted exits pass store.PutSession, modification programs create/update before remove and stores last; removed rules handed to the datapath are copies taken before the in-place shift; R03.7 a rule the session refused (Create/Update/Remove returned an error) is not handed to the datapath; R03.8 aliasing contract: the modification handler copies PDRs into the datapath list before MarkSessionQer runs, so MarkSessionQer must reorder qerIDList in place (through the shared backing array)."
	r.Explanation += " R03.9 a finished session is deleted from the store under the key requests look it up by (local SEID = the SEID of the request header); R03.10 every Create/Update IE is parsed into a value declared (or zeroed) inside the loop."
	r.Explanation += " R03.11 = C05 R05.6 (the session copy is complete); R03.12 nothing is written to a PDR after the session took its copy, no in-place writes into the lists of new PDRs; R03.13 BESS workers report true or nothing."
	r.Explanation += " R03.14 = C06 R06.7 (SEID sequences differ per association); R03.15 = C17 R17.6 (a worker completes once, after its last entry); R03.16 every parsePDR/parseFAR/parseQER call of the session handlers files the rule under the session's UP SEID."
	r.NotDecided = "packet-level 'iff' semantics of the installed image; what BESS does with a command"
	bc := loadBessConf(w.Repo, P)

	type pair struct {
		add, del         string
		addT, delT       string
		module           string
		keyAdd, keyDel   string // list field holding the key
		maskAdd, maskDel string
		valAdd           string // list holding values
	}
	pairs := []pair{
		{"pfcpiface.(*bess).addPDR", "pfcpiface.(*bess).delPDR", "WildcardMatchCommandAddArg", "WildcardMatchCommandDeleteArg", "pdrLookup", "Values", "Values", "Masks", "Masks", "Valuesv"},
		{"pfcpiface.(*bess).addFAR", "pfcpiface.(*bess).delFAR", "ExactMatchCommandAddArg", "ExactMatchCommandDeleteArg", "farLookup", "Fields", "Fields", "", "", "Values"},
		{"pfcpiface.(*bess).addApplicationQER", "pfcpiface.(*bess).delApplicationQER", "QosCommandAddArg", "QosCommandDeleteArg", "appQERLookup", "Fields", "Fields", "", "", "Values"},
		{"pfcpiface.(*bess).addSessionQER", "pfcpiface.(*bess).delSessionQER", "QosCommandAddArg", "QosCommandDeleteArg", "sessionQERLookup", "Fields", "Fields", "", "", "Values"},
	}
	// R03.2b: attr_name -> expected source
	slot := map[string]map[string]string{
		"pdrLookup": {
			"src_iface": "pdr.srcIface", "tunnel_ipv4_dst": "pdr.tunnelIP4Dst", "teid": "pdr.tunnelTEID", "src_ip": "pdr.appFilter.srcIP", "dst_ip": "pdr.appFilter.dstIP",
			"src_port": "PORT.srcPort", "dst_port": "PORT.dstPort", "ip_proto": "pdr.appFilter.proto",
			"pdr_id": "pdr.pdrID", "fseid": "pdr.fseID", "ctr_id": "pdr.ctrID", "qer_id": "QERID", "far_id": "pdr.farID",
		},
		"pdrLookup.mask": {
			"src_iface": "pdr.srcIfaceMask", "tunnel_ipv4_dst": "pdr.tunnelIP4DstMask", "teid": "pdr.tunnelTEIDMask", "src_ip": "pdr.appFilter.srcIPMask", "dst_ip": "pdr.appFilter.dstIPMask",
			"src_port": "PORT.srcMask", "dst_port": "PORT.dstMask", "ip_proto": "pdr.appFilter.protoMask",
		},
		"farLookup": {
			"far_id": "far.farID", "fseid": "far.fseID", "action": "ACTION", "tunnel_out_type": "far.tunnelType", "tunnel_out_src_ip4addr": "far.tunnelIP4Src",
			"tunnel_out_dst_ip4addr": "far.tunnelIP4Dst", "tunnel_out_teid": "far.tunnelTEID", "tunnel_out_udp_port": "far.tunnelPort",
		},
		"appQERLookup":     {"src_iface": "srcIface", "qer_id": "qer.qerID", "fseid": "qer.fseID", "qfi": "qer.qfi"},
		"sessionQERLookup": {"src_iface": "srcIface", "fseid": "qer.fseID"},
	}
	matchSlot := func(want string, it encItem) bool {
		s := it.sym.String()
		switch {
		case want == "ACTION":
			return strings.HasSuffix(s, "setActionValue(bess, far)") || strings.Contains(s, ".setActionValue(")
		case want == "QERID":
			// first element of pdr.qerIDList (0 when empty)
			return strings.Contains(s, "pdr.qerIDList")
		case strings.HasPrefix(want, "PORT."):
			return strings.Contains(s, "CreatePortRangeCartesianProduct#0") && strings.HasSuffix(s, "."+strings.TrimPrefix(want, "PORT."))
		}
		return s == want
	}
	for _, pr := range pairs {
		addF, delF := workerOf(w.Fn(P, pr.add)), workerOf(w.Fn(P, pr.del))
		an, dn := w.FuncName(addF), w.FuncName(delF)
		al, as := litLists(addF, pr.addT)
		dl, _ := litLists(delF, pr.delT)
		mod := bc.Modules[pr.module]
		if mod == nil {
			brokenf(P, "R03.2", "module %s not declared in conf/up4.bess", pr.module)
		}
		ka, kd := al[pr.keyAdd], dl[pr.keyDel]
		r.check(len(ka) > 0 && strings.Join(encStrings(ka), " | ") == strings.Join(encStrings(kd), " | "), "R03.1", dn, pr.module+" delete key = add key", w.Pos(delF.Pos()), strings.Join(encStrings(kd), " | "),
			"add key ["+strings.Join(encStrings(ka), " | ")+"] differs from delete key ["+strings.Join(encStrings(kd), " | ")+"]: entries installed by add cannot be removed")
		if pr.maskAdd != "" {
			ma, md := al[pr.maskAdd], dl[pr.maskDel]
			r.check(len(ma) > 0 && strings.Join(encStrings(ma), " | ") == strings.Join(encStrings(md), " | "), "R03.1", dn, pr.module+" delete masks = add masks", w.Pos(delF.Pos()), strings.Join(encStrings(md), " | "),
				"add masks ["+strings.Join(encStrings(ma), " | ")+"] differ from delete masks ["+strings.Join(encStrings(md), " | ")+"]")
			r.check(len(ma) == len(mod.Fields), "R03.2", an, pr.module+" mask arity = declared fields", w.Pos(addF.Pos()), fmt.Sprint(len(ma)), fmt.Sprintf("%d masks for %d declared fields", len(ma), len(mod.Fields)))
			for i, it := range ma {
				if i >= len(mod.Fields) {
					break
				}
				want := slot[pr.module+".mask"][mod.Fields[i].Name]
				r.check(want != "" && matchSlot(want, it), "R03.2b", an, pr.module+" mask of "+mod.Fields[i].Name+" ← "+want, w.Pos(it.pos), it.sym.String(), "mask slot "+mod.Fields[i].Name+" is filled from "+it.sym.String())
				r.check(typeBits(it.raw.Type()) <= mod.Fields[i].Bytes*8, "R03.2", an, pr.module+" mask of "+mod.Fields[i].Name+" fits "+fmt.Sprint(mod.Fields[i].Bytes)+" bytes", w.Pos(it.pos), it.raw.Type().String(), it.raw.Type().String()+" is wider than the declared field")
			}
		}
		// arity and widths of the key
		r.check(len(ka) == len(mod.Fields), "R03.2", an, pr.module+" key arity = declared fields", w.Pos(addF.Pos()), fmt.Sprint(len(ka)), fmt.Sprintf("%d key elements for %d declared fields", len(ka), len(mod.Fields)))
		for i, it := range ka {
			if i >= len(mod.Fields) {
				break
			}
			a := mod.Fields[i]
			want := slot[pr.module][a.Name]
			r.check(want != "" && matchSlot(want, it), "R03.2b", an, pr.module+" key "+a.Name+" ← "+want, w.Pos(it.pos), it.sym.String(), "key slot "+a.Name+" is filled from "+it.sym.String())
			r.check(typeBits(it.raw.Type()) <= a.Bytes*8, "R03.2", an, pr.module+" key "+a.Name+" fits "+fmt.Sprint(a.Bytes)+" bytes", w.Pos(it.pos), it.raw.Type().String(), it.raw.Type().String()+" is wider than the declared field")
		}
		va := al[pr.valAdd]
		r.check(len(va) == len(mod.Values), "R03.2", an, pr.module+" value arity = declared values", w.Pos(addF.Pos()), fmt.Sprint(len(va)), fmt.Sprintf("%d values for %d declared", len(va), len(mod.Values)))
		for i, it := range va {
			if i >= len(mod.Values) {
				break
			}
			a := mod.Values[i]
			want := slot[pr.module][a.Name]
			r.check(want != "" && matchSlot(want, it), "R03.2b", an, pr.module+" value "+a.Name+" ← "+want, w.Pos(it.pos), it.sym.String(), "value slot "+a.Name+" is filled from "+it.sym.String())
			r.check(typeBits(it.raw.Type()) <= a.Bytes*8, "R03.2", an, pr.module+" value "+a.Name+" fits "+fmt.Sprint(a.Bytes)+" bytes", w.Pos(it.pos), it.raw.Type().String(), it.raw.Type().String()+" is wider than the declared value")
		}
		// scalars of the PDR command
		if pr.module == "pdrLookup" {
			if st := as["Priority"]; st != nil {
				okP, why := priorityShape(st.Val)
				r.check(okP, "R03.3", an, "priority orders PDRs as precedence does, without wrap", w.Pos(st.Pos()), why, why)
			} else {
				r.bad("R03.3", an, "priority set", w.Pos(addF.Pos()), "PDR installed without a priority")
			}
			if st := as["Gate"]; st != nil {
				s := symOf(st.Val).String()
				r.check(s == "uint64(pdr.needDecap)" || s == "pdr.needDecap", "R03.3", an, "gate ← needDecap", w.Pos(st.Pos()), s, "PDR gate taken from "+s)
			} else {
				r.bad("R03.3", an, "gate set", w.Pos(addF.Pos()), "PDR installed without the decap gate")
			}
			// the first application QER: first element of the list, 0 if none
			// and the Cartesian product is taken over (src range, dst range) in that order, in add and delete
			for _, f := range []*ssa.Function{addF, delF} {
				for _, c := range callsIn(f, func(c ssa.CallInstruction) bool {
					return staticCallee(c) != nil && staticCallee(c).Name() == "CreatePortRangeCartesianProduct"
				}) {
					a0, a1 := symOf(c.Common().Args[0]).String(), symOf(c.Common().Args[1]).String()
					r.check(a0 == "pdr.appFilter.srcPortRange" && a1 == "pdr.appFilter.dstPortRange", "R03.2b", w.FuncName(f), "port expansion over (srcPortRange, dstPortRange)", w.Pos(c.Pos()), a0+" , "+a1, "port ranges expanded from ("+a0+", "+a1+")")
				}
			}
		}
		if pr.module == "farLookup" {
			if st := as["Gate"]; st != nil {
				s := symOf(st.Val).String()
				r.check(strings.HasSuffix(s, "far.tunnelType)") || s == "far.tunnelType", "R03.3", an, "FAR gate ← tunnelType", w.Pos(st.Pos()), s, "FAR gate taken from "+s)
			}
		}
	}
	ruleC03Process(w, r)
	ruleC03Actions(w, r, bc)
	ruleC03Dispatch(w, r)
	ruleC03Startup(w, r)
	ruleC03Handlers(w, r)
	ruleC03Removed(w, r)
	ruleC03Skipped(w, r)
	ruleC03InPlace(w, r)
	ruleC03StoreKey(w, r)
	ruleC03Scratch(w, r)
	r.withRule("R03.11", func() { ruleC05Complete(w, r) })
	ruleStoredIsProgrammed(w, r, "C03", "R03.12")
	ruleBessWorkersReportTrue(w, r, "R03.13")
	r.withRule("R03.14", func() { ruleC06SeidEntropy(w, r) })
	ruleLocalSEIDArgs(w, r, "C03", "R03.16")
	r.withRule("R03.15", func() { ruleC17DoneOnce(w, r) })
}

// priorityShape: conv(K - precedence) with K ≥ 2^32-1 computed in an unsigned type of ≥ 32 bits.
func priorityShape(v ssa.Value) (bool, string) {
	raw := stripConv(v)
	s := symOf(v).String()
	if bo, ok := raw.(*ssa.BinOp); ok && bo.Op == token.SUB {
		k, isK := constInt(bo.X)
		ps := symOf(bo.Y).String()
		if isK && ps == "pdr.precedence" {
			bits := typeBits(bo.Type())
			bt, _ := bo.Type().Underlying().(*types.Basic)
			unsigned := bt != nil && bt.Info()&types.IsUnsigned != 0
			pbits := typeBits(bo.Y.Type())
			maxPrec := int64(-1)
			if pbits < 63 {
				maxPrec = (int64(1) << uint(pbits)) - 1
			}
			if !(uint64(k) >= uint64(0xffffffff)) {
				return false, fmt.Sprintf("priority = %d - precedence can wrap for large precedences", k)
			}
			if maxPrec < 0 || k < maxPrec {
				return false, fmt.Sprintf("priority = %d - precedence: precedence (%d bits) can exceed the constant", k, pbits)
			}
			_ = unsigned
			_ = bits
			return true, fmt.Sprintf("priority = %d - precedence (antitone, precedence ≤ %d)", k, maxPrec)
		}
		if isK {
			return false, "priority = K - " + ps + " (not the precedence)"
		}
	}
	if u, ok := raw.(*ssa.UnOp); ok && u.Op == token.XOR && symOf(u.X).String() == "pdr.precedence" {
		return true, "priority = ^precedence (antitone)"
	}
	if strings.Contains(s, "pdr.precedence") {
		return false, "priority computed as " + s + ": not recognisably antitone in the precedence"
	}
	return false, "priority does not depend on the precedence: " + s
}

// ruleC03Process: the process* helpers send to the module they are named after, with the
// method table [add, add, delete, clear].
func ruleC03Process(w *World, r *Report) {
	const P = "C03"
	want := map[string]string{"processPDR": "pdrLookup", "processFAR": "farLookup", "processQER": "PARAM:qosTableName", "processSliceMeter": "sliceMeter"}
	for fnName, module := range want {
		f := w.Fn(P, "pfcpiface.(*bess)."+fnName)
		fn := w.FuncName(f)
		fs := fieldStores(f, "CommandRequest")
		for _, st := range fs["Name"] {
			s := symOf(st.Val).String()
			if strings.HasPrefix(module, "PARAM:") {
				r.check(s == strings.TrimPrefix(module, "PARAM:"), "R03.2", fn, "command goes to the table named by the caller", w.Pos(st.Pos()), s, "module name is "+s)
			} else {
				r.check(s == `"`+module+`"`, "R03.2", fn, "command goes to "+module, w.Pos(st.Pos()), s, "module name is "+s)
			}
		}
		for _, st := range fs["Cmd"] {
			// methods[method] with the literal table
			okTbl := false
			if u, ok := st.Val.(*ssa.UnOp); ok {
				if ia, ok := u.X.(*ssa.IndexAddr); ok {
					if al, ok := ia.X.(*ssa.Alloc); ok {
						// `methods := [...]string{...}` is lowered as a literal cell copied into the variable
						if st0 := singleStore(al); st0 != nil {
							if ld, ok := st0.Val.(*ssa.UnOp); ok && ld.Op == token.MUL {
								if src, ok := ld.X.(*ssa.Alloc); ok {
									al = src
								}
							}
						}
						tbl := map[int64]string{}
						if refs := al.Referrers(); refs != nil {
							for _, rf := range *refs {
								if ia2, ok := rf.(*ssa.IndexAddr); ok {
									if k, isK := constInt(ia2.Index); isK {
										for _, s2 := range directStores(ia2) {
											if sv, ok := constString(s2.Val); ok {
												tbl[k] = sv
											}
										}
									}
								}
							}
						}
						add := w.ConstInt(P, pfcpPkg, "upfMsgTypeAdd")
						mod := w.ConstInt(P, pfcpPkg, "upfMsgTypeMod")
						del := w.ConstInt(P, pfcpPkg, "upfMsgTypeDel")
						clr := w.ConstInt(P, pfcpPkg, "upfMsgTypeClear")
						okTbl = tbl[add] == "add" && tbl[mod] == "add" && tbl[del] == "delete" && tbl[clr] == "clear" && symOf(ia.Index).String() == "method"
						r.check(okTbl, "R03.2", fn, "method table add/add/delete/clear indexed by the method", w.Pos(st.Pos()), fmt.Sprint(tbl), fmt.Sprintf("command table is %v indexed by %s", tbl, symOf(ia.Index).String()))
					}
				}
			}
			if !okTbl {
				r.check(false, "R03.2", fn, "command derived from the method table", w.Pos(st.Pos()), "", "command name is "+symOf(st.Val).String())
			}
		}
		for _, st := range fs["Arg"] {
			isArg := false
			if p, ok := st.Val.(*ssa.Parameter); ok && p.Name() == "arg" {
				isArg = true
			}
			r.check(isArg, "R03.2", fn, "the caller's argument is sent", w.Pos(st.Pos()), "arg", "argument sent is "+symOf(st.Val).String())
		}
	}
}

func ruleC03Actions(w *World, r *Report, bc *BessConf) {
	const P = "C03"
	// constants ↔ up4.bess
	for goName, bessName := range map[string]string{"farForwardD": "farForwardDAction", "farForwardU": "farForwardUAction", "farDrop": "farDropAction", "farNotify": "farNotifyCPAction", "qerGateStatusDrop": "qerStatusDropGate", "qerGateUnmeter": "qerUnmeteredGate", "access": "Access", "core": "Core"} {
		g := w.ConstInt(P, pfcpPkg, goName)
		b, ok := bc.Consts[bessName]
		r.check(ok && g == b, "R03.2", "pfcpiface/bess.go", goName+" = up4.bess "+bessName, "-", fmt.Sprint(g), fmt.Sprintf("Go constant %s = %d, up4.bess %s = %d", goName, g, bessName, b))
	}
	// setActionValue truth table
	f := w.Fn(P, "pfcpiface.(*bess).setActionValue")
	fn := w.FuncName(f)
	farT := w.NamedType(P, pfcpPkg, "far")
	st := farT.Underlying().(*types.Struct)
	idxOf := func(name string) int {
		for i := 0; i < st.NumFields(); i++ {
			if st.Field(i).Name() == name {
				return i
			}
		}
		brokenf(P, "R03.3", "far.%s not found", name)
		return -1
	}
	iAct, iDst := idxOf("applyAction"), idxOf("dstIntf")
	fwdD, fwdU, drop, notify := w.ConstInt(P, pfcpPkg, "farForwardD"), w.ConstInt(P, pfcpPkg, "farForwardU"), w.ConstInt(P, pfcpPkg, "farDrop"), w.ConstInt(P, pfcpPkg, "farNotify")
	dAccess, dCore, dSGi := w.ConstInt(P, iePkg, "DstInterfaceAccess"), w.ConstInt(P, iePkg, "DstInterfaceCore"), w.ConstInt(P, iePkg, "DstInterfaceSGiLANN6LAN")
	bad := ""
	n := 0
	for act := 0; act < 256; act++ {
		for dst := 0; dst < 8; dst++ {
			fields := make([]evalVal, st.NumFields())
			for i := range fields {
				fields[i] = evalVal{ok: true}
			}
			fields[iAct] = evalVal{u: uint64(act), ok: true}
			fields[iDst] = evalVal{u: uint64(dst), ok: true}
			e := &evaluator{}
			v, ok := e.call(f, []evalVal{{ok: true}, {ok: true, fields: fields}})
			if !ok {
				brokenf(P, "R03.3", "setActionValue is no longer a pure function of the FAR (%s)", e.fail)
			}
			n++
			var want int64
			switch {
			case act&0x2 != 0: // forward
				switch int64(dst) {
				case dAccess:
					want = fwdD
				case dCore, dSGi:
					want = fwdU
				default:
					want = drop
				}
			case act&0x1 != 0:
				want = drop
			case act&0x4 != 0, act&0x8 != 0:
				want = notify
			default:
				want = drop
			}
			if int64(v.u) != want && bad == "" {
				bad = fmt.Sprintf("applyAction=0x%x dstIntf=%d → %d, want %d", act, dst, v.u, want)
			}
		}
	}
	r.Extra["R03.3_action_table_evaluations"] = n
	r.check(bad == "", "R03.3", fn, "FAR action: forward→D/U by interface, drop, buffer/notify→notify, else drop (all applyAction × dstIntf)", w.Pos(f.Pos()), fmt.Sprintf("%d valuations", n), "setActionValue: "+bad)
}

// listAlternatives: the "param.field" a value can be, following the choice (φ, or the whole-struct stores
// into a local struct cell that is otherwise only read field by field) down to fields of struct parameters.
// An alternative that is anything else is reported as "?" (with its text), so that a list computed some
// other way never passes for a parameter's list.
func listAlternatives(v ssa.Value, depth int) []string {
	if depth > 8 {
		return []string{"?deep"}
	}
	fieldName := func(t types.Type, i int) string {
		if st := derefStruct(t); st != nil && i < st.NumFields() {
			return st.Field(i).Name()
		}
		return "?"
	}
	// the struct values a struct-typed value can be: parameters, chosen by φ or by stores into a local copy
	var structs func(s ssa.Value, d int) []string
	structs = func(s ssa.Value, d int) []string {
		if d > 8 {
			return []string{"?deep"}
		}
		switch x := s.(type) {
		case *ssa.Parameter:
			return []string{x.Name()}
		case *ssa.Phi:
			var out []string
			for _, e := range x.Edges {
				out = append(out, structs(e, d+1)...)
			}
			return out
		case *ssa.UnOp:
			if cell, ok := x.X.(*ssa.Alloc); ok && x.Op == token.MUL {
				return cellStructs(cell, structs, d)
			}
		}
		return []string{"?" + valueText(s)}
	}
	switch x := v.(type) {
	case *ssa.Phi:
		var out []string
		for _, e := range x.Edges {
			out = append(out, listAlternatives(e, depth+1)...)
		}
		return out
	case *ssa.Field:
		var out []string
		for _, s := range structs(x.X, depth+1) {
			out = append(out, s+"."+fieldName(x.X.Type(), x.Field))
		}
		return out
	case *ssa.UnOp:
		if fa, ok := x.X.(*ssa.FieldAddr); ok && x.Op == token.MUL {
			if cell, ok := fa.X.(*ssa.Alloc); ok {
				var out []string
				for _, s := range cellStructs(cell, structs, depth) {
					out = append(out, s+"."+fieldName(cell.Type(), fa.Field))
				}
				return out
			}
		}
	}
	return []string{"?" + valueText(v)}
}

// cellStructs: what a local struct cell holds — the values of its whole-struct stores — provided the cell
// is otherwise only read (whole, or field by field): a field-wise store or an escaping address would let
// a field be something no whole-struct store put there.
func cellStructs(cell *ssa.Alloc, structs func(ssa.Value, int) []string, d int) []string {
	readOnly := func(addr ssa.Value) bool {
		if addr.Referrers() == nil {
			return false
		}
		for _, r := range *addr.Referrers() {
			switch y := r.(type) {
			case *ssa.DebugRef:
			case *ssa.UnOp:
				if y.Op != token.MUL {
					return false
				}
			default:
				return false
			}
		}
		return true
	}
	var out []string
	if cell.Referrers() == nil {
		return []string{"?unwritten"}
	}
	for _, r := range *cell.Referrers() {
		switch y := r.(type) {
		case *ssa.DebugRef:
		case *ssa.UnOp:
			if y.Op != token.MUL {
				return []string{"?" + valueText(cell)}
			}
		case *ssa.FieldAddr:
			if !readOnly(y) {
				return []string{"?" + valueText(cell)}
			}
		case *ssa.Store:
			if y.Addr != ssa.Value(cell) {
				return []string{"?" + valueText(cell)}
			}
			out = append(out, structs(y.Val, d+1)...)
		default:
			return []string{"?" + valueText(cell)}
		}
	}
	if len(out) == 0 {
		return []string{"?unwritten"}
	}
	return out
}

// ruleC03Dispatch: bess.SendMsgToUPF routes add/mod to add*, del to del*, mod uses the updated rules.
func ruleC03Dispatch(w *World, r *Report) {
	const P = "C03"
	f := w.Fn(P, "pfcpiface.(*bess).SendMsgToUPF")
	fn := w.FuncName(f)
	add, mod, del := w.ConstInt(P, pfcpPkg, "upfMsgTypeAdd"), w.ConstInt(P, pfcpPkg, "upfMsgTypeMod"), w.ConstInt(P, pfcpPkg, "upfMsgTypeDel")
	want := map[string]map[int64]bool{"addPDR": {add: true, mod: true}, "delPDR": {del: true}, "addFAR": {add: true, mod: true}, "delFAR": {del: true}, "addQER": {add: true, mod: true}, "delQER": {del: true}}
	for name, methods := range want {
		target := w.Fn(P, "pfcpiface.(*bess)."+name)
		calls := callsTo(f, target)
		r.check(len(calls) == 1, "R03.1", fn, "one call site of "+name, w.Pos(f.Pos()), "1", fmt.Sprintf("%d call sites", len(calls)))
		for _, c := range calls {
			// the method constants whose == edge leads to the call
			got := map[int64]bool{}
			for _, b := range f.Blocks {
				for _, s := range b.Succs {
					x, op, y, ok := edgeFact(b, s)
					if !ok || op != token.EQL || symOf(x).String() != "method" {
						continue
					}
					k, isK := constInt(y)
					if !isK {
						continue
					}
					// is the call reachable from s without passing another method test's true edge?
					if reachesInstrNoMethodEdge(f, s, c.(ssa.Instruction)) {
						got[k] = true
					}
				}
			}
			r.check(fmt.Sprint(got) == fmt.Sprint(methods), "R03.1", fn, name+" runs for its methods", w.Pos(c.Pos()), fmt.Sprint(got), fmt.Sprintf("%s runs for methods %v, want %v", name, got, methods))
			// its rule argument is an element of the selected list
			s := symOf(c.Common().Args[3]).String()
			kind := strings.ToLower(name[3:]) + "s"
			r.check(strings.Contains(s, "PacketForwardingRules."+kind), "R03.1", fn, name+" gets an element of the "+kind+" list", w.Pos(c.Pos()), trunc80(s), name+" is given "+trunc80(s))
		}
	}
	// for modify the lists are the updated ones. A rule list is chosen between the two parameter structs
	// either list by list (a φ of rules.k and updated.k) or struct-wise (the struct is chosen first — a φ
	// of the two parameters, or a local copy written once per alternative — and the list taken from the
	// chosen struct): either way the list is one whose alternatives are the same field k of `rules` and of
	// `updated`, and there is one such list per rule kind.
	var sels []ssa.Value
	allInstrs(f, func(i ssa.Instruction) {
		v, ok := i.(ssa.Value)
		if !ok {
			return
		}
		if _, isSlice := v.Type().Underlying().(*types.Slice); !isSlice {
			return
		}
		switch x := i.(type) {
		case *ssa.Phi:
			if len(x.Edges) == 2 {
				sels = append(sels, x)
			}
		case *ssa.Field:
			if p, ok := x.X.(*ssa.Phi); ok && len(p.Edges) == 2 {
				sels = append(sels, x)
			}
		case *ssa.UnOp:
			if fa, ok := x.X.(*ssa.FieldAddr); ok && x.Op == token.MUL {
				if cell, ok := fa.X.(*ssa.Alloc); ok && len(storesTo(cell)) == 2 {
					sels = append(sels, x)
				}
			}
		}
	})
	okSel := len(sels) >= 3
	desc := ""
	for _, p := range sels {
		roots := listAlternatives(p, 0)
		sort.Strings(roots)
		desc += "[" + strings.Join(roots, "|") + "] "
		if len(roots) != 2 || !strings.HasPrefix(roots[0], "rules.") || !strings.HasPrefix(roots[1], "updated.") || roots[0][6:] != roots[1][8:] {
			okSel = false
		}
	}
	r.check(okSel, "R03.1", fn, "modify programs the updated rules, add/delete the given ones", w.Pos(f.Pos()), desc, "rule lists selected as "+desc)
	// qosLevel routing in addQER / delQER workers
	app, sess := w.ConstInt(P, pfcpPkg, "ApplicationQos"), w.ConstInt(P, pfcpPkg, "SessionQos")
	for _, x := range []struct{ fn, appT, sessT string }{{"addQER", "addApplicationQER", "addSessionQER"}, {"delQER", "delApplicationQER", "delSessionQER"}} {
		wf := workerOf(w.Fn(P, "pfcpiface.(*bess)."+x.fn))
		for tname, lvl := range map[string]int64{x.appT: app, x.sessT: sess} {
			target := w.Fn(P, "pfcpiface.(*bess)."+tname)
			calls := callsTo(wf, target)
			r.check(len(calls) == 2, "R03.1", w.FuncName(wf), tname+" once per direction", w.Pos(wf.Pos()), "2", fmt.Sprintf("%d calls", len(calls)))
			for _, c := range calls {
				g := onlyVia(wf, c.(ssa.Instruction), func(a, b *ssa.BasicBlock) bool {
					xx, op, y, ok := edgeFact(a, b)
					if !ok || op != token.EQL || !strings.HasSuffix(symOf(xx).String(), "qer.qosLevel") {
						return false
					}
					k, isK := constInt(y)
					return isK && k == lvl
				})
				r.check(g, "R03.1", w.FuncName(wf), fmt.Sprintf("%s only for qosLevel %d", tname, lvl), w.Pos(c.Pos()), "dominated by the level test", tname+" is used for another QoS level: add and delete then address different tables")
			}
		}
	}
	for tname, tbl := range map[string]string{"addApplicationQER": "AppQerLookup", "delApplicationQER": "AppQerLookup", "addSessionQER": "SessQerLookup", "delSessionQER": "SessQerLookup"} {
		tf := w.Fn(P, "pfcpiface.(*bess)."+tname)
		pq := w.Fn(P, "pfcpiface.(*bess).processQER")
		wantName := ""
		if c, ok := w.PkgTypes(pfcpPkg).Scope().Lookup(tbl).(*types.Const); ok {
			wantName = c.Val().ExactString()
		}
		for _, c := range callsTo(tf, pq) {
			s := symOf(c.Common().Args[4]).String()
			r.check(s == wantName, "R03.1", w.FuncName(tf), tname+" addresses "+tbl, w.Pos(c.Pos()), s, tname+" addresses table "+s)
			wantM := w.ConstInt(P, pfcpPkg, "upfMsgTypeAdd")
			if strings.HasPrefix(tname, "del") {
				wantM = w.ConstInt(P, pfcpPkg, "upfMsgTypeDel")
			}
			k, _ := constInt(c.Common().Args[3])
			r.check(k == wantM, "R03.1", w.FuncName(tf), tname+" uses its method", w.Pos(c.Pos()), fmt.Sprint(k), fmt.Sprintf("method %d", k))
		}
	}
	for _, x := range []struct {
		fn     string
		method string
	}{{"addPDR", "upfMsgTypeAdd"}, {"delPDR", "upfMsgTypeDel"}, {"addFAR", "upfMsgTypeAdd"}, {"delFAR", "upfMsgTypeDel"}} {
		wf := workerOf(w.Fn(P, "pfcpiface.(*bess)."+x.fn))
		target := w.Fn(P, "pfcpiface.(*bess).process"+x.fn[3:])
		for _, c := range callsTo(wf, target) {
			k, _ := constInt(c.Common().Args[3])
			r.check(k == w.ConstInt(P, pfcpPkg, x.method), "R03.1", w.FuncName(wf), x.fn+" uses "+x.method, w.Pos(c.Pos()), fmt.Sprint(k), fmt.Sprintf("method %d", k))
		}
		r.check(len(callsTo(wf, target)) >= 1, "R03.1", w.FuncName(wf), x.fn+" sends its command", w.Pos(wf.Pos()), "call found", x.fn+" no longer sends a command")
	}
}

func reachesInstrNoMethodEdge(f *ssa.Function, from *ssa.BasicBlock, target ssa.Instruction) bool {
	if len(from.Instrs) == 0 {
		return false
	}
	first := from.Instrs[0]
	if first == target {
		return true
	}
	hit := reach(f, first, func(i ssa.Instruction) bool { return i == target }, nil, func(a, b *ssa.BasicBlock) bool {
		// do not go through another switch on the method or around a loop back edge
		x, op, _, ok := edgeFact(a, b)
		if ok && (op == token.EQL || op == token.NEQ) && symOf(x).String() == "method" {
			return !(a == from)
		}
		return b.Dominates(a) // back edge
	})
	return hit != nil
}

func ruleC03Startup(w *World, r *Report) {
	const P = "C03"
	sui := w.Fn(P, "pfcpiface.(*bess).SetUpfInfo")
	cs := w.Fn(P, "pfcpiface.(*bess).clearState")
	sn := w.FuncName(sui)
	calls := callsTo(sui, cs)
	r.floor("R03.4 clearState call in SetUpfInfo", len(calls), 1)
	isClear := func(i ssa.Instruction) bool { return isCallTo(i, cs) }
	// every return and every goroutine start is preceded by clearState
	for k, ret := range returnsOf(sui) {
		miss := mustPass(sui, nil, func(i ssa.Instruction) bool { return i == ssa.Instruction(ret) }, isClear)
		r.check(miss == nil, "R03.4", sn, fmt.Sprintf("return #%d is preceded by the start-up wipe", k+1), w.Pos(ret.Pos()), "clearState on every path", "SetUpfInfo can return without wiping the lookup modules (e.g. when a socket cannot be dialled): rules of a killed incarnation stay installed")
	}
	allInstrs(sui, func(i ssa.Instruction) {
		if g, ok := i.(*ssa.Go); ok {
			miss := mustPass(sui, nil, func(j ssa.Instruction) bool { return j == i }, isClear)
			r.check(miss == nil, "R03.4", sn, "listener started after the wipe", w.Pos(g.Pos()), "clearState precedes", "a listener goroutine is started before the start-up wipe")
		}
	})
	// the wipe follows the creation of the client
	for _, c := range calls {
		okClient := false
		allInstrs(sui, func(i ssa.Instruction) {
			if st, ok := i.(*ssa.Store); ok {
				if fa, ok := st.Addr.(*ssa.FieldAddr); ok && fieldVar(fa) != nil && fieldVar(fa).Name() == "client" {
					if instrDominates(st, c.(ssa.Instruction)) {
						okClient = true
					}
				}
			}
		})
		r.check(okClient, "R03.4", sn, "the wipe runs after the gRPC client exists", w.Pos(c.Pos()), "b.client assigned before", "clearState is called before the client is created")
	}
	// clearState: the four modules are cleared on the main path
	cn := w.FuncName(cs)
	clr := w.ConstInt(P, pfcpPkg, "upfMsgTypeClear")
	type clearCall struct {
		fn, table string
	}
	var got []string
	allInstrs(cs, func(i ssa.Instruction) {
		c, ok := i.(*ssa.Call)
		if !ok || staticCallee(c) == nil {
			return
		}
		name := staticCallee(c).Name()
		switch name {
		case "processPDR", "processFAR":
			if k, _ := constInt(c.Call.Args[3]); k == clr {
				got = append(got, name)
			}
		case "processQER":
			if k, _ := constInt(c.Call.Args[3]); k == clr {
				if names := constStringsOfElem(c.Call.Args[4]); len(names) > 0 {
					// one call in a loop over a fixed list of table names
					for _, nm := range names {
						got = append(got, name+":"+fmt.Sprintf("%q", nm))
					}
				} else {
					got = append(got, name+":"+symOf(c.Call.Args[4]).String())
				}
			}
		}
	})
	sort.Strings(got)
	want := []string{"processFAR", "processPDR", `processQER:"appQERLookup"`, `processQER:"sessionQERLookup"`}
	r.check(strings.Join(got, ",") == strings.Join(want, ","), "R03.4", cn, "wipe covers pdrLookup, farLookup, appQERLookup, sessionQERLookup", w.Pos(cs.Pos()), strings.Join(got, ","), "clearState clears ["+strings.Join(got, ",")+"]")
	// each clear is reached unless a marshalling error returned earlier: no clear is conditional on configuration
	allInstrs(cs, func(i ssa.Instruction) {
		c, ok := i.(*ssa.Call)
		if !ok || staticCallee(c) == nil {
			return
		}
		n := staticCallee(c).Name()
		if n != "processPDR" && n != "processFAR" && n != "processQER" {
			return
		}
		// every path from entry to a normal end passes the call, except paths through an anypb.New error edge
		hit := reach(cs, nil, isReturn, func(j ssa.Instruction) bool { return j == i }, func(a, b *ssa.BasicBlock) bool {
			x, op, y, ok := edgeFact(a, b)
			return ok && op == token.NEQ && isNilConst(y) && isErrorType(x.Type())
		})
		r.check(hit == nil, "R03.4", cn, n+" clear is unconditional", w.Pos(c.Pos()), "on every non-error path", "a clear command is skipped on some path")
	})
}

func ruleC03Handlers(w *World, r *Report) {
	const P = "C03"
	est := w.Fn(P, "pfcpiface.(*PFCPConn).handleSessionEstablishmentRequest")
	mod := w.Fn(P, "pfcpiface.(*PFCPConn).handleSessionModificationRequest")
	del := w.Fn(P, "pfcpiface.(*PFCPConn).handleSessionDeletionRequest")
	rejected := w.ConstInt(P, iePkg, "CauseRequestRejected")
	accepted := w.ConstInt(P, iePkg, "CauseRequestAccepted")
	mAdd, mMod, mDel := w.ConstInt(P, pfcpPkg, "upfMsgTypeAdd"), w.ConstInt(P, pfcpPkg, "upfMsgTypeMod"), w.ConstInt(P, pfcpPkg, "upfMsgTypeDel")
	getOK := func(h *ssa.Function) ssa.Value {
		var v ssa.Value
		allInstrs(h, func(i ssa.Instruction) {
			if c, ok := i.(*ssa.Call); ok && c.Call.IsInvoke() && c.Call.Method.Name() == "GetSession" && v == nil {
				v = extractOf(c, 1)
			}
		})
		return v
	}
	for _, h := range []*ssa.Function{mod, del} {
		hn := w.FuncName(h)
		okv := getOK(h)
		writes := datapathCalls(h, "SendMsgToUPF")
		r.floor("R03.5 datapath writes in "+hn, len(writes), 1)
		for k, c := range writes {
			g := okv != nil && onlyVia(h, c, func(a, b *ssa.BasicBlock) bool {
				v, truth, ok := boolEdge(a, b)
				return ok && truth && v == okv
			})
			r.check(g, "R03.5", hn, fmt.Sprintf("datapath write #%d only for a known session", k+1), w.Pos(c.Pos()), "dominated by GetSession ok", "the datapath is written for a session the store does not know")
		}
	}
	{
		hn := w.FuncName(est)
		for k, c := range datapathCalls(est, "SendMsgToUPF") {
			g1 := onlyVia(est, c, func(a, b *ssa.BasicBlock) bool {
				x, op, y, ok := edgeFact(a, b)
				if !ok || op != token.EQL {
					return false
				}
				kk, isK := constInt(y)
				cc, isCall := x.(*ssa.Call)
				if isK && kk == 0 && isCall && calleeName(cc) == "strings.Compare" && strings.Contains(symOf(cc).String(), "nodeID.remote") {
					return true
				}
				// the same test written with ==
				if bt, isB := x.Type().Underlying().(*types.Basic); isB && bt.Info()&types.IsString != 0 {
					sx, sy := symOf(x).String(), symOf(y).String()
					return (strings.Contains(sx, "nodeID.remote") && strings.Contains(sy, "NodeID")) || (strings.Contains(sy, "nodeID.remote") && strings.Contains(sx, "NodeID"))
				}
				return false
			})
			r.check(g1, "R03.5", hn, fmt.Sprintf("datapath write #%d only with a matching association", k+1), w.Pos(c.Pos()), "dominated by nodeID == association's node id", "establishment writes to the datapath without a matching association")
			g2 := onlyVia(est, c, func(a, b *ssa.BasicBlock) bool {
				v, truth, ok := boolEdge(a, b)
				if !ok || !truth {
					return false
				}
				ex, isEx := v.(*ssa.Extract)
				if !isEx || ex.Index != 1 {
					return false
				}
				cc, isCall := ex.Tuple.(*ssa.Call)
				return isCall && staticCallee(cc) != nil && staticCallee(cc).Name() == "NewPFCPSession"
			})
			r.check(g2, "R03.5", hn, fmt.Sprintf("datapath write #%d only with an allocated session", k+1), w.Pos(c.Pos()), "dominated by NewPFCPSession ok", "establishment writes to the datapath without a session")
			r.check(sendMsgMethod(c) == mAdd, "R03.5", hn, "establishment adds", w.Pos(c.Pos()), "upfMsgTypeAdd", fmt.Sprintf("method %d", sendMsgMethod(c)))
		}
	}
	// the association record the establishment handler compares against (nodeID.remote) is written only when an association is accepted
	{
		ah := w.Fn(P, "pfcpiface.(*PFCPConn).handleAssociationSetupRequest")
		isConn := w.Fn(P, "pfcpiface.(*upf).isConnected")
		n := 0
		allInstrs(ah, func(i ssa.Instruction) {
			st, ok := i.(*ssa.Store)
			if !ok {
				return
			}
			fa, ok := st.Addr.(*ssa.FieldAddr)
			if !ok || fieldVar(fa) == nil || fieldVar(fa).Name() != "remote" || rootTypeName(fa.X.Type()) != "nodeID" {
				return
			}
			n++
			g := onlyVia(ah, st, func(a, b *ssa.BasicBlock) bool {
				v, truth, ok := boolEdge(a, b)
				if !ok || !truth {
					return false
				}
				c, isCall := v.(*ssa.Call)
				return isCall && staticCallee(c) == isConn
			})
			r.check(g, "R03.5", w.FuncName(ah), "association recorded only when it is accepted", w.Pos(st.Pos()), "nodeID.remote stored under isConnected()", "a rejected association still records the peer's node id: a later establishment 'without a matching association' is accepted and written to the datapath")
		})
		r.floor("R03.5 stores to nodeID.remote in the association handler", n, 1)
	}
	// R03.6 accepted exits pass PutSession; rejected datapath result → reject
	for _, h := range []*ssa.Function{est, mod} {
		hn := w.FuncName(h)
		isPut := func(i ssa.Instruction) bool {
			c, ok := i.(*ssa.Call)
			return ok && c.Call.IsInvoke() && c.Call.Method.Name() == "PutSession"
		}
		for _, t := range replyTerminals(h) {
			c, ok := t.val.(*ssa.Call)
			if !ok {
				continue
			}
			cs, found := causeOf(c, t.chain)
			if !found || len(cs) != 1 || cs[0] != accepted {
				continue
			}
			// "accepted" is the moment the reply is handed out, not the moment it is built: when the handler
			// returns the constructed message itself (no φ in between, which would merge it with other replies),
			// the store has to precede that return; building the message before PutSession commits nothing
			var exit ssa.Instruction = c
			if len(t.chain) == 0 && t.ret != nil && len(t.ret.Results) > 0 {
				v := t.ret.Results[0]
				for k := 0; k < 4; k++ {
					if mi, ok := v.(*ssa.MakeInterface); ok {
						v = mi.X
					} else if ci, ok := v.(*ssa.ChangeInterface); ok {
						v = ci.X
					}
				}
				if v == ssa.Value(c) {
					exit = t.ret
				}
			}
			miss := mustPass(h, nil, func(i ssa.Instruction) bool { return i == exit }, isPut)
			r.check(miss == nil, "R03.6", hn, "accepted only after the session was stored", w.Pos(c.Pos()), "PutSession on every path", "a request can be accepted without storing the session's rules (later deletes use stale keys)")
			// every datapath write's rejected result leads away from the accepted exit
			for k, wcall := range datapathCalls(h, "SendMsgToUPF") {
				wcall := wcall
				hit := reach(h, wcall, func(i ssa.Instruction) bool { return i == ssa.Instruction(c) }, nil, func(a, b *ssa.BasicBlock) bool {
					return causeEdge(a, b, wcall, rejected, false)
				})
				r.check(hit == nil, "R03.6", hn, fmt.Sprintf("rejected datapath write #%d is never accepted", k+1), w.Pos(wcall.Pos()), "accept unreachable unless cause != rejected", "a request whose datapath write was rejected can still be accepted")
			}
		}
	}
	// modification: create/update (modify) precedes remove (delete), store last
	{
		hn := w.FuncName(mod)
		var modW, delW []*ssa.Call
		for _, c := range datapathCalls(mod, "SendMsgToUPF") {
			switch sendMsgMethod(c) {
			case mMod:
				modW = append(modW, c)
			case mDel:
				delW = append(delW, c)
			}
		}
		r.check(len(modW) == 1 && len(delW) == 1, "R03.6", hn, "one modify write and one delete write", w.Pos(mod.Pos()), "1+1", fmt.Sprintf("%d modify, %d delete writes", len(modW), len(delW)))
		if len(modW) == 1 && len(delW) == 1 {
			r.check(instrDominates(modW[0], delW[0]), "R03.6", hn, "create/update is programmed before remove", w.Pos(delW[0].Pos()), "modify dominates delete", "rules are removed before the new/updated ones are programmed")
			allInstrs(mod, func(i ssa.Instruction) {
				if c, ok := i.(*ssa.Call); ok && c.Call.IsInvoke() && c.Call.Method.Name() == "PutSession" {
					r.check(instrDominates(delW[0], c) && instrDominates(modW[0], c), "R03.6", hn, "store written after both datapath writes", w.Pos(c.Pos()), "dominated by both", "the session is stored before the datapath accepted the change")
				}
			})
			// what is sent: modify(all, updated); delete(deleted, empty)
			a := modW[0].Call.Args
			s1, s2 := symOf(a[1]).String(), symOf(a[2]).String()
			r.check(strings.Contains(s1, "PacketForwardingRules") && strings.Contains(s1, "GetSession#0") && strings.Contains(s2, "local:PacketForwardingRules"), "R03.6", hn, "modify(all rules of the session, rules of this message)", w.Pos(modW[0].Pos()), trunc80(s1+" ; "+s2), "modify is given "+trunc80(s1+" ; "+s2))
		}
	}
	// deletion deletes the stored rules
	{
		hn := w.FuncName(del)
		for _, c := range datapathCalls(del, "SendMsgToUPF") {
			s := symOf(c.Call.Args[1]).String()
			r.check(sendMsgMethod(c) == mDel && strings.Contains(s, "GetSession#0") && strings.Contains(s, "PacketForwardingRules"), "R03.6", hn, "deletion removes the stored rules of the session", w.Pos(c.Pos()), trunc80(s), "deletion sends "+trunc80(s))
		}
	}
}

// ruleC03Removed: Remove{PDR,FAR,QER} return a copy taken before the in-place shift.
func ruleC03Removed(w *World, r *Report) {
	const P = "C03"
	for _, n := range []string{"RemovePDR", "RemoveFAR", "RemoveQER"} {
		f := w.Fn(P, "pfcpiface.(*PFCPSession)."+n)
		fn := w.FuncName(f)
		for _, ret := range returnsOf(f) {
			if !isNilConst(res(ret, 1)) {
				continue
			}
			v := res(ret, 0)
			_, isCopy := v.(*ssa.Alloc)
			if ia, ok := v.(*ssa.IndexAddr); ok {
				_ = ia
				isCopy = false
			}
			r.check(isCopy, "R03.6", fn, "returned rule is a copy, not a pointer into the shifted slice", w.Pos(ret.Pos()), valueText(v), "Remove returns a pointer into the session's slice after the in-place shift: it aliases the next rule, so the datapath delete removes the wrong entry")
			if al, ok := v.(*ssa.Alloc); ok {
				// the copy is written before the shift (store to the slice field)
				var shift ssa.Instruction
				allInstrs(f, func(i ssa.Instruction) {
					if st, ok := i.(*ssa.Store); ok {
						if fa, ok := st.Addr.(*ssa.FieldAddr); ok && fieldVar(fa) != nil && strings.HasSuffix(fieldVar(fa).Name(), "s") && rootTypeName(fa.X.Type()) == "PacketForwardingRules" {
							shift = i
						}
					}
				})
				for _, st := range storesTo(al) {
					if shift != nil {
						r.check(reach(f, shift, func(i ssa.Instruction) bool { return i == ssa.Instruction(st) }, nil, nil) == nil || instrDominates(st, shift), "R03.6", fn, "copy taken before the shift", w.Pos(st.Pos()), "store precedes the shift", "the removed rule is copied after the slice was shifted")
					}
				}
			}
		}
	}
}

// ruleC03Skipped: in the session handlers, an element whose session-level operation failed is not
// appended to the lists that go to the datapath.
func ruleC03Skipped(w *World, r *Report) {
	const P = "C03"
	n := 0
	for _, hn := range []string{"pfcpiface.(*PFCPConn).handleSessionModificationRequest"} {
		h := w.Fn(P, hn)
		allInstrs(h, func(i ssa.Instruction) {
			c, ok := i.(*ssa.Call)
			if !ok {
				return
			}
			g := staticCallee(c)
			if g == nil || g.Signature.Recv() == nil || rootTypeName(g.Signature.Recv().Type()) != "PFCPSession" {
				return
			}
			name := g.Name()
			if !(strings.HasPrefix(name, "Update") || strings.HasPrefix(name, "Remove") || strings.HasPrefix(name, "Create")) {
				return
			}
			ev := errResult(c)
			if ev == nil {
				return
			}
			n++
			// appends reachable from the call within the same iteration
			okAll, any := true, false
			allInstrs(h, func(j ssa.Instruction) {
				ap, ok := j.(*ssa.Call)
				if !ok {
					return
				}
				b, isB := ap.Call.Value.(*ssa.Builtin)
				if !isB || b.Name() != "append" {
					return
				}
				if reach(h, c, func(k ssa.Instruction) bool { return k == j }, func(k ssa.Instruction) bool { return k == ssa.Instruction(c) }, nil) == nil {
					return
				}
				// the same loop: the append can reach the call again
				if reach(h, j, func(k ssa.Instruction) bool { return k == ssa.Instruction(c) }, nil, nil) == nil {
					return
				}
				// only the list of this kind: the appended element type matches the rule kind of the call
				if !strings.Contains(strings.ToLower(name), elemKind(ap)) {
					return
				}
				any = true
				if !errGuarded(h, c, ev, func(k ssa.Instruction) bool { return k == j }) {
					okAll = false
				}
			})
			if !any {
				return
			}
			r.check(okAll, "R03.7", hn, fmt.Sprintf("a rule refused by %s (#%d) is not sent to the datapath", name, ordinalIn(h, c)), w.Pos(c.Pos()), "append only after err == nil", "after "+name+" failed (the rule is not part of the session) the element is still appended to the list handed to the datapath: an entry no session owns is installed and survives the session's deletion")
		})
	}
	r.floor("R03.7 session-level operations followed by a datapath list append", n, 6)
}

// elemKind: "pdr", "far" or "qer" from the element type of an append.
func elemKind(ap *ssa.Call) string {
	if sl, ok := ap.Type().Underlying().(*types.Slice); ok {
		return strings.ToLower(rootTypeName(sl.Elem()))
	}
	return "?"
}

// ruleC03InPlace: see R03.8.
func ruleC03InPlace(w *World, r *Report) {
	const P = "C03"
	h := w.Fn(P, "pfcpiface.(*PFCPConn).handleSessionModificationRequest")
	mark := w.Fn(P, "pfcpiface.(*PFCPSession).MarkSessionQer")
	marks := callsTo(h, mark)
	if len(marks) == 0 {
		return
	}
	// does a PDR copy into the datapath list precede the mark?
	copiedBefore := false
	allInstrs(h, func(j ssa.Instruction) {
		ap, ok := j.(*ssa.Call)
		if !ok {
			return
		}
		b, isB := ap.Call.Value.(*ssa.Builtin)
		if !isB || b.Name() != "append" || elemKind(ap) != "pdr" {
			return
		}
		for _, m := range marks {
			if reach(h, j, func(k ssa.Instruction) bool { return k == m.(ssa.Instruction) }, nil, nil) != nil {
				copiedBefore = true
			}
		}
	})
	if !copiedBefore {
		r.trivial("R03.8", w.FuncName(h), "PDR copies are taken after MarkSessionQer", w.Pos(h.Pos()), "no aliasing dependency")
		return
	}
	// then every store to pdrs[i].qerIDList in MarkSessionQer derives from the old slice (append(x[:i], …), x[a:b])
	// The contract is about the backing array: a reorder that never replaces the slice header at all —
	// element stores into, or copy() onto, the list loaded from the field — is in place by construction
	// and counts as an instance of the rule (nothing to demand of it here).
	n := 0
	inPlace := func(dst ssa.Value, pos token.Pos) {
		if !isFreshSlice(dst) && sliceDerivesFromField(dst, "qerIDList", 0) {
			n++
			r.trivial("R03.8", w.FuncName(mark), fmt.Sprintf("qerIDList write #%d goes through the stored slice", n), w.Pos(pos), "element write into the old backing array, header untouched")
		}
	}
	allInstrs(mark, func(i ssa.Instruction) {
		if c, isCall := i.(*ssa.Call); isCall && calleeName(c) == "builtin.copy" {
			inPlace(c.Call.Args[0], c.Pos())
			return
		}
		st, ok := i.(*ssa.Store)
		if !ok {
			return
		}
		if ia, isElem := st.Addr.(*ssa.IndexAddr); isElem {
			inPlace(ia.X, st.Pos())
			return
		}
		fa, ok := st.Addr.(*ssa.FieldAddr)
		if !ok || fieldVar(fa) == nil || fieldVar(fa).Name() != "qerIDList" {
			return
		}
		n++
		r.check(!isFreshSlice(st.Val) && sliceDerivesFromField(st.Val, "qerIDList", 0), "R03.8", w.FuncName(mark), fmt.Sprintf("qerIDList store #%d reorders in place", n), w.Pos(st.Pos()), "derived from the old slice", "MarkSessionQer installs a newly allocated qerIDList: the PDR copies the modification handler took before (and sends to the datapath) keep the old order, so the datapath entry carries the session QER as qer_id while the stored session looks right")
	})
	r.floor("R03.8 qerIDList stores in MarkSessionQer", n, 1)
}

func sliceDerivesFromField(v ssa.Value, field string, depth int) bool {
	if depth > 6 {
		return false
	}
	switch x := v.(type) {
	case *ssa.Slice:
		return sliceDerivesFromField(x.X, field, depth+1)
	case *ssa.UnOp:
		return loadsField(x, field)
	case *ssa.Call:
		if b, ok := x.Call.Value.(*ssa.Builtin); ok && b.Name() == "append" && len(x.Call.Args) > 0 {
			return sliceDerivesFromField(x.Call.Args[0], field, depth+1)
		}
	case *ssa.Phi:
		for _, e := range x.Edges {
			if !sliceDerivesFromField(e, field, depth+1) {
				return false
			}
		}
		return len(x.Edges) > 0
	}
	return false
}

// constStringsOfElem: v is the element of a local fixed-size array of string constants, read with a
// full range index; returns the constants (all of them are visited).
func constStringsOfElem(v ssa.Value) []string {
	var al *ssa.Alloc
	var idx ssa.Value
	var ia *ssa.IndexAddr
	switch x := v.(type) {
	case *ssa.UnOp:
		if x.Op != token.MUL {
			return nil
		}
		ia, _ = x.X.(*ssa.IndexAddr)
		if ia == nil {
			return nil
		}
		al, _ = ia.X.(*ssa.Alloc)
		idx = ia.Index
	case *ssa.Index:
		// range over an array value: the array is copied first (t = *alloc), then indexed
		if u, ok := x.X.(*ssa.UnOp); ok && u.Op == token.MUL {
			al, _ = u.X.(*ssa.Alloc)
		}
		idx = x.Index
	}
	if al == nil || al.Referrers() == nil || idx == nil {
		return nil
	}
	if !isRangeIndexOf(idx) && !fullRangeIndex(idx, map[ssa.Value]bool{}) {
		return nil
	}
	var out []string
	for _, ref := range *al.Referrers() {
		ia2, ok := ref.(*ssa.IndexAddr)
		if !ok || ia2 == ia || ia2.Referrers() == nil {
			continue
		}
		for _, r2 := range *ia2.Referrers() {
			if st, ok := r2.(*ssa.Store); ok {
				if sc, isS := constString(st.Val); isS {
					out = append(out, sc)
				} else {
					return nil
				}
			}
		}
	}
	return out
}

// ruleC03StoreKey (R03.9): "requests that name an unknown session are rejected and write nothing" needs a
// finished session to be unknown afterwards: the record is stored, looked up and deleted under one key.
func ruleC03StoreKey(w *World, r *Report) {
	const P = "C03"
	remove := w.Fn(P, "pfcpiface.(*PFCPConn).RemoveSession")
	n := 0
	allInstrs(remove, func(i ssa.Instruction) {
		c, ok := i.(*ssa.Call)
		if !ok || !c.Call.IsInvoke() || c.Call.Method.Name() != "DeleteSession" {
			return
		}
		n++
		ks := symOf(c.Call.Args[0]).String()
		r.check(ks == "PFCPSession.localSEID", "R03.9", w.FuncName(remove), "a finished session is forgotten under the key it is looked up by", w.Pos(c.Pos()), ks, "the record is deleted under "+ks+" while requests look sessions up by the local SEID: the finished session stays known, a later modification naming it is accepted and writes rules for a session that no longer exists")
	})
	r.floor("R03.9 DeleteSession in RemoveSession", n, 1)
	put := w.Fn(P, "pfcpiface.(*InMemoryStore).PutSession")
	allInstrs(put, func(i ssa.Instruction) {
		if c, ok := i.(*ssa.Call); ok && calleeName(c) == "(*sync.Map).Store" {
			ks := symOf(c.Call.Args[1]).String()
			r.check(ks == "PFCPSession.localSEID", "R03.9", w.FuncName(put), "records are stored under the local SEID", w.Pos(c.Pos()), ks, "records stored under "+ks)
		}
	})
	for _, hn := range []string{"pfcpiface.(*PFCPConn).handleSessionModificationRequest", "pfcpiface.(*PFCPConn).handleSessionDeletionRequest"} {
		h := w.Fn(P, hn)
		m := 0
		allInstrs(h, func(i ssa.Instruction) {
			c, ok := i.(*ssa.Call)
			if !ok || !c.Call.IsInvoke() || c.Call.Method.Name() != "GetSession" {
				return
			}
			m++
			ks := symOf(c.Call.Args[0]).String()
			r.check(strings.HasSuffix(ks, ".SEID(msg)"), "R03.9", hn, "the session is looked up by the SEID in the request header", w.Pos(c.Pos()), ks, "session looked up by "+ks)
		})
		r.floor("R03.9 GetSession in "+hn, m, 1)
	}
}

// ruleC03Scratch (R03.10): every Create/Update IE of a request is parsed into a value of its own. The
// parsers only set the fields the IE carries; a value that lives across iterations hands the previous
// IE's F-TEID, addresses and masks to the next rule, which is then written under a key no request named.
func ruleC03Scratch(w *World, r *Report) {
	const P = "C03"
	parsers := []*ssa.Function{
		w.Fn(P, "pfcpiface.(*pdr).parsePDR"),
		w.Fn(P, "pfcpiface.(*far).parseFAR"),
		w.Fn(P, "pfcpiface.(*qer).parseQER"),
	}
	n := 0
	for _, hn := range []string{"pfcpiface.(*PFCPConn).handleSessionModificationRequest", "pfcpiface.(*PFCPConn).handleSessionEstablishmentRequest"} {
		h := w.Fn(P, hn)
		for _, p := range parsers {
			for _, c := range callsTo(h, p) {
				call, ok := c.(*ssa.Call)
				if !ok {
					continue
				}
				// only call sites inside a loop
				cb := call.Block()
				cyc := false
				for _, sc := range cb.Succs {
					if reachesBlock(sc, cb) {
						cyc = true
					}
				}
				if !cyc {
					continue
				}
				n++
				al, isAl := call.Call.Args[0].(*ssa.Alloc)
				inLoop := false
				if isAl {
					b := al.Block()
					for _, sc := range b.Succs {
						if reachesBlock(sc, b) {
							inLoop = true
						}
					}
					// or re-zeroed before every parse: a store of the zero value that dominates the call inside the loop
					if !inLoop {
						for _, st := range storesTo(al) {
							if _, isC := st.Val.(*ssa.Const); isC && st.Addr == ssa.Value(al) && st.Block() != al.Block() && instrDominates(st, call) {
								sb := st.Block()
								for _, sc := range sb.Succs {
									if reachesBlock(sc, sb) {
										inLoop = true
									}
								}
							}
						}
					}
				}
				r.check(isAl && inLoop, "R03.10", hn, fmt.Sprintf("%s call #%d parses into a value of its own", p.Name(), n), w.Pos(call.Pos()), "declared (or zeroed) inside the loop", "the value that receives the parsed IE lives across loop iterations: fields the next IE does not carry keep the previous IE's values, and the rule is written to the datapath with them")
			}
		}
	}
	r.floor("R03.10 in-loop parse call sites", n, 6)
}

// ruleStoredIsProgrammed (R03.12, re-filed as R07.10): the PDR the session stores, the PDR the datapath is
// programmed with and the PDR the response reports are one value. PDRs are held by value, so (a) nothing
// is written to the scratch PDR after it was handed to session.CreatePDR / appended to the message list in
// the same iteration, and (b) no field of an element of the message lists is written in place afterwards —
// either would make the copies differ (the stored and programmed PDR keeps TEID 0 / mask 0, a wildcard,
// while the response reports the chosen TEID).
func ruleStoredIsProgrammed(w *World, r *Report, prop, rule string) {
	n := 0
	for _, hn := range []string{"pfcpiface.(*PFCPConn).handleSessionEstablishmentRequest", "pfcpiface.(*PFCPConn).handleSessionModificationRequest"} {
		h := w.Fn(prop, hn)
		create := w.Fn(prop, "pfcpiface.(*PFCPSession).CreatePDR")
		for _, c := range callsTo(h, create) {
			call := c.(*ssa.Call)
			ld, ok := call.Call.Args[1].(*ssa.UnOp)
			if !ok || ld.Op != token.MUL {
				continue
			}
			al, ok := ld.X.(*ssa.Alloc)
			if !ok {
				continue
			}
			n++
			var late ssa.Instruction
			// stores to fields of the scratch PDR (directly, or to a field of a nested struct)
			var fieldStores []*ssa.Store
			var walk func(v ssa.Value, d int)
			walk = func(v ssa.Value, d int) {
				if d > 3 || v.Referrers() == nil {
					return
				}
				for _, ref := range *v.Referrers() {
					switch x := ref.(type) {
					case *ssa.FieldAddr:
						for _, rr := range *x.Referrers() {
							if st, ok := rr.(*ssa.Store); ok && st.Addr == ssa.Value(x) {
								fieldStores = append(fieldStores, st)
							}
						}
						walk(x, d+1)
					}
				}
			}
			walk(al, 0)
			for _, st := range fieldStores {
				if st.Parent() != h {
					continue
				}
				// reachable from the call without starting the next iteration (the scratch cell is re-made there)
				// (or overwritten whole: `p = pdr{}` at the top of the iteration when the declaration sits outside the loop)
				if reach(h, call, func(i ssa.Instruction) bool { return i == ssa.Instruction(st) }, func(i ssa.Instruction) bool {
					if ws, isStore := i.(*ssa.Store); isStore && ws.Addr == ssa.Value(al) {
						return true
					}
					return i == ssa.Instruction(al)
				}, nil) != nil {
					late = st
				}
			}
			pos := w.Pos(call.Pos())
			if late != nil {
				pos = w.Pos(late.Pos())
			}
			r.check(late == nil, rule, hn, "the PDR is complete when the session takes its copy", pos, "no field of the scratch PDR is written after CreatePDR", "a field of the PDR is filled in after session.CreatePDR took its copy: the session (which is what the datapath is programmed from and what the release paths read) keeps the old value — for the UP-chosen TEID that is TEID 0 / mask 0, a rule that matches every tunnel, while the response reports the chosen TEID")
		}
		// (b) in-place writes into the message lists
		allInstrs(h, func(i ssa.Instruction) {
			st, ok := i.(*ssa.Store)
			if !ok {
				return
			}
			fa, ok := st.Addr.(*ssa.FieldAddr)
			if !ok {
				return
			}
			ia, ok := fa.X.(*ssa.IndexAddr)
			if !ok {
				return
			}
			if nt := namedOf(ia.Type()); nt == nil || nt.Obj().Name() != "pdr" {
				return
			}
			s := symOf(ia.X).String()
			if strings.Contains(s, "PFCPSession") || strings.Contains(s, "GetSession") {
				return // the session's own list (MarkSessionQer etc. are judged elsewhere)
			}
			r.bad(rule, hn, "the lists of new PDRs are built from complete values", w.Pos(st.Pos()), "field "+fieldVar(fa).Name()+" of an element of "+s+" is written in place: the copy the session took when the PDR was created does not get the value, so what is stored / programmed differs from what is reported")
		})
	}
	r.floor(rule+" CreatePDR call sites", n, 1)
}
