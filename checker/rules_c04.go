package main

import (
	"fmt"
	"go/token"
	"go/types"
	"sort"
	"strings"

	"golang.org/x/tools/go/ssa"
)

func init() { rules["C04"] = ruleC04 }

// helperUses lists with*MatchField / withActionParam calls of a builder with the P4 name
// and the provenance of each value argument.
type builderUse struct {
	kind, name string
	vals       []*Sym
	raw        []ssa.Value
	call       *ssa.Call
}

func builderUses(w *World, f *ssa.Function) []builderUse {
	var out []builderUse
	allInstrs(f, func(i ssa.Instruction) {
		c, ok := i.(*ssa.Call)
		if !ok {
			return
		}
		callee := staticCallee(c)
		if callee == nil || callee.Signature.Recv() == nil || rootTypeName(callee.Signature.Recv().Type()) != "P4rtTranslator" {
			return
		}
		kind := ""
		switch callee.Name() {
		case "withExactMatchField":
			kind = "EXACT"
		case "withLPMField":
			kind = "LPM"
		case "withTernaryMatchField":
			kind = "TERNARY"
		case "withRangeMatchField":
			kind = "RANGE"
		case "withActionParam":
			kind = "PARAM"
		default:
			return
		}
		name, _ := constString(c.Call.Args[2])
		u := builderUse{kind: kind, name: name, call: c}
		for _, a := range c.Call.Args[3:] {
			u.vals = append(u.vals, symOf(a))
			u.raw = append(u.raw, a)
		}
		out = append(out, u)
	})
	return out
}

func ruleC04(w *World, r *Report) {
	const P = "C04"
	r.Explanation = "R04.1 decision tables extracted by path enumeration: terminations drop ⇔ FAR drops ∨ the gate of that direction is closed (uplink consults ulStatus, downlink dlStatus), downlink session buffers ⇔ FAR buffers, builders dispatched by pdr.srcIface; " +
		"R04.2 provenance of every match key and action parameter against the statement's mapping (n3_address/teid, ue_address, app_id, FAR teid, QFI or default, TC = configured map entry selected by the map's own presence bit else default TC, tunnel peer of the FAR's outer-header address, tunnel params), the orchestrator hands all of the session's rules to the builder in create/update/delete; " +
		"R04.3 shared objects: the three tunnelParams literals agree, usedBy references are (F-SEID, FAR id)/(F-SEID, PDR id) in add and remove, every FAR of a deleted session releases its tunnel-peer reference unconditionally, application add/remove sit under the same non-empty-filter guard; " +
		"R04.4 clearTables lists every table a builder writes, clearDatapathState re-initialises the interfaces after the clear on every non-error path, both interface entries go out in one write, start-up takes the clearing branch."
	r.Explanation += " R04.9 IsAppFilterEmpty, interpreted for all valuations of its atoms, equals proto==0 ∧ (remote end of the PDR's direction all-wildcard). R04.2 (cont.) the status filter is interpreted for every status × method combination: OK / ALREADY_EXISTS pass, NOT_FOUND passes on DELETE only, everything else rejects; R04.11 a delete issued for Remove PDR hands the plug-in the session's remaining rules (the sessions entry is shared by the PDRs of a direction)."
	r.Explanation += " R04.12 the application ID of a terminations entry is decided within the PDR's own iteration and is the ID add/removeInternalApplicationID returned; R04.13 = C15 R15.5 (a reconnect does not clear a switch that holds live sessions)."
	r.Explanation += " R04.14 resetMeter leaves the downlink cell out only when it is the uplink cell; R04.15 ApplyTableEntries sends the entries of a call as one batch."
	r.NotDecided = "reference-count arithmetic over histories ('present iff at least one live rule uses it'); what the switch does"
	info := loadP4Info(w.Repo, P)
	closed := w.ConstInt(P, iePkg, "GateStatusClosed")
	access := w.ConstInt(P, pfcpPkg, "access")
	core := w.ConstInt(P, pfcpPkg, "core")

	actionName := func(id int64) string {
		if a := info.action(id); a != nil {
			return a.Alias
		}
		return fmt.Sprint(id)
	}
	// action on a path: the Action literal whose ActionId store lies on the path
	pathAction := func(f *ssa.Function, p *Path) string {
		on := map[*ssa.BasicBlock]bool{}
		for _, b := range p.Blocks {
			on[b] = true
		}
		name := ""
		for _, st := range fieldStores(f, "Action")["ActionId"] {
			if on[st.Block()] {
				k, _ := constInt(st.Val)
				name = actionName(k)
			}
		}
		return name
	}
	successPaths := func(f *ssa.Function, visit func(p *Path, atoms []Atom)) int {
		n := 0
		ok := enumPaths(f, 1, 50000, func(p *Path) {
			ret, _ := p.last().(*ssa.Return)
			if ret == nil || len(ret.Results) != 2 || !isNilConst(res(ret, 1)) {
				return
			}
			atoms, feasible := pathAtoms(p)
			if !feasible {
				return
			}
			n++
			visit(p, atoms)
		})
		if !ok {
			brokenf(P, "R04.1", "too many paths in %s", w.FuncName(f))
		}
		return n
	}

	// ---------- R04.1 terminations
	upT := w.Fn(P, "pfcpiface.(*P4rtTranslator).buildUplinkTerminationsEntry")
	dnT := w.Fn(P, "pfcpiface.(*P4rtTranslator).buildDownlinkTerminationsEntry")
	{
		fn := w.FuncName(upT)
		gate := fmt.Sprintf("qer.ulStatus == %d", closed)
		n := successPaths(upT, func(p *Path, atoms []Atom) {
			act := pathAction(upT, p)
			g, gp := atomTruth(atoms, gate)
			d, dp := atomTruth(atoms, "shouldDrop")
			// the only decisions allowed: the uplink gate and the caller's FAR-drops flag
			for _, a := range atoms {
				if a.Text != gate && a.Text != "shouldDrop" {
					r.bad("R04.1", fn, "uplink termination decided by FAR.Drops ∨ ulStatus closed only", w.Pos(p.last().Pos()), "extra decision '"+a.Text+"' on a successful path")
				}
			}
			wantDrop := (gp && g) || (dp && d)
			r.check((act == "uplink_term_drop") == wantDrop && (act == "uplink_term_drop" || act == "uplink_term_fwd"), "R04.1", fn, "uplink termination ["+atomsString(atoms)+"]", w.Pos(p.last().Pos()), act, fmt.Sprintf("with %s the uplink termination action is %s", atomsString(atoms), act))
		})
		r.floor("R04.1 uplink termination outcomes", n, 3)
	}
	{
		fn := w.FuncName(dnT)
		gate := fmt.Sprintf("qer.dlStatus == %d", closed)
		isDrops := func(t string) bool {
			return strings.HasSuffix(t, ".Drops(&far)") || strings.HasSuffix(t, ".Drops(far)")
		}
		n := successPaths(dnT, func(p *Path, atoms []Atom) {
			act := pathAction(dnT, p)
			g, gp := atomTruth(atoms, gate)
			d, dp := false, false
			for _, a := range atoms {
				if isDrops(a.Text) {
					d, dp = a.Truth, true
				}
				if a.Text != gate && !isDrops(a.Text) {
					r.bad("R04.1", fn, "downlink termination decided by FAR.Drops ∨ dlStatus closed only", w.Pos(p.last().Pos()), "extra decision '"+a.Text+"' on a successful path")
				}
			}
			wantDrop := (gp && g) || (dp && d)
			r.check((act == "downlink_term_drop") == wantDrop && (act == "downlink_term_drop" || act == "downlink_term_fwd"), "R04.1", fn, "downlink termination ["+atomsString(atoms)+"]", w.Pos(p.last().Pos()), act, fmt.Sprintf("with %s the downlink termination action is %s", atomsString(atoms), act))
		})
		r.floor("R04.1 downlink termination outcomes", n, 3)
	}
	// dispatchers
	bt := w.Fn(P, "pfcpiface.(*P4rtTranslator).BuildTerminationsTableEntry")
	bs := w.Fn(P, "pfcpiface.(*P4rtTranslator).BuildSessionsTableEntry")
	upS := w.Fn(P, "pfcpiface.(*P4rtTranslator).buildUplinkSessionsEntry")
	dnS := w.Fn(P, "pfcpiface.(*P4rtTranslator).buildDownlinkSessionsEntry")
	dispatch := func(f, upF, dnF *ssa.Function, wantUp, wantDn []string) {
		fn := w.FuncName(f)
		n := 0
		okEnum := enumPaths(f, 1, 1000, func(p *Path) {
			atoms, feasible := pathAtoms(p)
			if !feasible {
				return
			}
			n++
			iface := int64(-1)
			for _, a := range atoms {
				if a.Truth && a.Op == token.EQL && strings.HasSuffix(symOf(a.X).String(), "pdr.srcIface") {
					iface, _ = constInt(a.Y)
				}
			}
			var called *ssa.Call
			p.instrs(func(i ssa.Instruction) {
				if c, ok := i.(*ssa.Call); ok && (staticCallee(c) == upF || staticCallee(c) == dnF) {
					called = c
				}
			})
			pos := w.Pos(p.last().Pos())
			switch iface {
			case access, core:
				wantF, wantArgs, dir := upF, wantUp, "access"
				if iface == core {
					wantF, wantArgs, dir = dnF, wantDn, "core"
				}
				if !r.check(called != nil && staticCallee(called) == wantF, "R04.1", fn, "srcIface "+dir+" → "+wantF.Name(), pos, "dispatched", "PDR from "+dir+" is not built by "+wantF.Name()) {
					return
				}
				var got []string
				for _, a := range called.Call.Args[1:] {
					got = append(got, symOf(a).String())
				}
				r.check(strings.Join(got, " | ") == strings.Join(wantArgs, " | "), "R04.2", fn, dir+" arguments of "+wantF.Name(), w.Pos(called.Pos()), strings.Join(got, " | "), "arguments are ["+strings.Join(got, " | ")+"], want ["+strings.Join(wantArgs, " | ")+"]")
			default:
				ret, _ := p.last().(*ssa.Return)
				r.check(called == nil && ret != nil && !isNilConst(res(ret, 1)), "R04.1", fn, "other source interfaces are refused", pos, "error", "a PDR that is neither access nor core yields an entry")
			}
		})
		if !okEnum {
			brokenf(P, "R04.1", "too many paths in %s", fn)
		}
		r.floor("R04.1 dispatch paths of "+fn, n, 3)
	}
	dispatch(bt, upT, dnT,
		[]string{"pdr", "meter.uplinkCellID", "(*pfcpiface.far).Drops(&far)", "internalAppID", "tc", "qer"},
		[]string{"pdr", "meter.downlinkCellID", "far", "internalAppID", "qfi", "tc", "qer"})
	dispatch(bs, upS, dnS,
		[]string{"pdr", "meter.uplinkCellID"},
		[]string{"pdr", "meter.downlinkCellID", "tunnelPeerID", "needsBuffering"})
	// downlink sessions: buffer action ⇔ needsBuffering
	{
		fn := w.FuncName(dnS)
		n := successPaths(dnS, func(p *Path, atoms []Atom) {
			act := pathAction(dnS, p)
			b, bp := atomTruth(atoms, "needsBuffering")
			for _, a := range atoms {
				if a.Text != "needsBuffering" {
					r.bad("R04.1", fn, "downlink session decided by needsBuffering only", w.Pos(p.last().Pos()), "extra decision '"+a.Text+"'")
				}
			}
			want := "set_session_downlink"
			if bp && b {
				want = "set_session_downlink_buff"
			}
			r.check(act == want, "R04.1", fn, "downlink session ["+atomsString(atoms)+"]", w.Pos(p.last().Pos()), act, "with "+atomsString(atoms)+" the action is "+act)
		})
		r.floor("R04.1 downlink session outcomes", n, 2)
	}

	// ---------- R04.2 provenance per builder
	type exp struct{ name, want string }
	checkUses := func(f *ssa.Function, exps []exp) {
		fn := w.FuncName(f)
		uses := builderUses(w, f)
		byName := map[string][]builderUse{}
		for _, u := range uses {
			byName[u.name] = append(byName[u.name], u)
		}
		for _, e := range exps {
			us := byName[e.name]
			if len(us) == 0 {
				r.bad("R04.2", fn, e.name+" ← "+e.want, w.Pos(f.Pos()), "the builder no longer sets "+e.name)
				continue
			}
			for _, u := range us {
				var got []string
				for _, v := range u.vals {
					got = append(got, v.String())
				}
				g := strings.Join(got, " , ")
				r.check(g == e.want, "R04.2", fn, e.name+" ← "+e.want, w.Pos(u.call.Pos()), g, e.name+" is filled from "+g)
			}
		}
	}
	checkUses(upS, []exp{{"n3_address", "pdr.tunnelIP4Dst"}, {"teid", "pdr.tunnelTEID"}, {"session_meter_idx", "sessMeterIdx"}})
	checkUses(dnS, []exp{{"ue_address", "pdr.ueAddress"}, {"tunnel_peer_id", "tunnelPeerID"}, {"session_meter_idx", "sessMeterIdx"}})
	checkUses(upT, []exp{{"ue_address", "pdr.ueAddress"}, {"app_id", "internalAppID"}, {"tc", "tc"}, {"app_meter_idx", "appMeterIdx"}, {"ctr_idx", "pdr.ctrID"}})
	checkUses(dnT, []exp{{"ue_address", "pdr.ueAddress"}, {"app_id", "internalAppID"}, {"teid", "far.tunnelTEID"}, {"qfi", "qfi"}, {"tc", "tc"}, {"app_meter_idx", "appMeterIdx"}, {"ctr_idx", "pdr.ctrID"}})
	tp := w.Fn(P, "pfcpiface.(*P4rtTranslator).BuildGTPTunnelPeerTableEntry")
	checkUses(tp, []exp{{"tunnel_peer_id", "tunnelPeerID"}, {"src_addr", "tunnelParams.tunnelIP4Src"}, {"dst_addr", "tunnelParams.tunnelIP4Dst"}, {"sport", "tunnelParams.tunnelPort"}})
	apps := w.Fn(P, "pfcpiface.(*P4rtTranslator).BuildApplicationsTableEntry")
	checkUses(apps, []exp{{"slice_id", "sliceID"}, {"app_id", "internalAppID"}, {"app_ip_proto", "pdr.appFilter.proto , pdr.appFilter.protoMask"}})
	ruleC04AppSide(w, r, apps, access, core)
	ruleC04Interfaces(w, r)
	ruleC04Orchestrator(w, r)
	ruleC04Shared(w, r)
	ruleC04Startup(w, r, info)
	ruleC04AppFilterEmpty(w, r)
	ruleC04PartialDelete(w, r)
	ruleC04AppIDPerPDR(w, r, "C04", "R04.12")
	// R04.13: a reconnect does not clear a switch that holds live sessions (C15 R15.5 re-filed)
	r.withRule("R04.13", func() { ruleC15Ownership(w, r) })
	ruleResetBothCells(w, r, "C04", "R04.14")
	ruleOneBatch(w, r, "C04", "R04.15")
}

// pdrDirection: what a decision says about the direction of the PDR it is taken on — "uplink" when the
// boolean v having the value truth means IsUplink() / srcIface == access, "downlink" for IsDownlink() /
// srcIface == core, "" when it says neither. The predicate methods and the comparison they stand for
// (checked by R04.3 below) are one decision, whichever is written.
func pdrDirection(v ssa.Value, truth bool, access, core int64) string {
	switch x := v.(type) {
	case *ssa.Call:
		if g := staticCallee(x); g != nil && truth && g.Signature.Recv() != nil && rootTypeName(g.Signature.Recv().Type()) == "pdr" {
			switch g.Name() {
			case "IsUplink":
				return "uplink"
			case "IsDownlink":
				return "downlink"
			}
		}
	case *ssa.BinOp:
		if (x.Op == token.EQL && truth) || (x.Op == token.NEQ && !truth) {
			return pdrDirectionCmp(x.X, x.Y, access, core)
		}
	}
	return ""
}

// pdrDirectionCmp: x == y compares a PDR's source interface with access ("uplink") or core ("downlink").
func pdrDirectionCmp(x, y ssa.Value, access, core int64) string {
	k, isK := constInt(y)
	if !isK {
		x, y = y, x
		k, isK = constInt(y)
	}
	if !isK || !strings.HasSuffix(symOf(x).String(), "pdr.srcIface") {
		return ""
	}
	switch k {
	case access:
		return "uplink"
	case core:
		return "downlink"
	}
	return ""
}

// ruleC04AppSide: the application address/port come from the destination side for access
// PDRs and from the source side for core PDRs, consistently in the entry builder and in the
// filter key.
func ruleC04AppSide(w *World, r *Report, apps *ssa.Function, access, core int64) {
	const P = "C04"
	fn := w.FuncName(apps)
	// per successful path: srcIface atom → the values handed to app_ip_addr / app_l4_port
	n := 0
	okEnum := enumPaths(apps, 1, 50000, func(p *Path) {
		ret, _ := p.last().(*ssa.Return)
		if ret == nil || !isNilConst(res(ret, 1)) {
			return
		}
		atoms, feasible := pathAtoms(p)
		if !feasible {
			return
		}
		iface := int64(-1)
		for _, a := range atoms {
			if a.Truth && a.Op == token.EQL && strings.HasSuffix(symOf(a.X).String(), "pdr.srcIface") {
				iface, _ = constInt(a.Y)
			}
		}
		if iface != access && iface != core {
			return
		}
		side := "dst"
		if iface == core {
			side = "src"
		}
		for i, b := range p.Blocks {
			for _, ins := range b.Instrs {
				c, ok := ins.(*ssa.Call)
				if !ok || staticCallee(c) == nil || len(c.Call.Args) < 5 {
					continue
				}
				name, _ := constString(c.Call.Args[2])
				switch staticCallee(c).Name() {
				case "withLPMField":
					if name != "app_ip_addr" {
						continue
					}
					n++
					v := symAtPath(p, i, c.Call.Args[3]).String()
					want := "pdr.appFilter." + side + "IP"
					r.check(v == want, "R04.2", fn, "app_ip_addr ← "+side+"IP for srcIface "+fmt.Sprint(iface), w.Pos(c.Pos()), v, "application address taken from "+v)
					pl := symAtPath(p, i, c.Call.Args[4]).String()
					r.check(strings.Contains(pl, "pdr.appFilter."+side+"IPMask"), "R04.2", fn, "app_ip_addr prefix ← "+side+"IPMask for srcIface "+fmt.Sprint(iface), w.Pos(c.Pos()), pl, "prefix length computed from "+pl)
				case "withRangeMatchField":
					if name != "app_l4_port" {
						continue
					}
					n++
					lo, hi := symAtPath(p, i, c.Call.Args[3]).String(), symAtPath(p, i, c.Call.Args[4]).String()
					want := "pdr.appFilter." + side + "PortRange"
					r.check(lo == want+".low" && hi == want+".high", "R04.2", fn, "app_l4_port ← "+side+"PortRange for srcIface "+fmt.Sprint(iface), w.Pos(c.Pos()), lo+" , "+hi, "application port range taken from "+lo+" , "+hi)
				}
			}
		}
	})
	if !okEnum {
		brokenf(P, "R04.2", "too many paths in %s", fn)
	}
	r.floor("R04.2 application side checks", n, 4)
	// the filter key picks the same side
	key := w.Fn(P, "pfcpiface.toUP4ApplicationFilter")
	kn := w.FuncName(key)
	k := 0
	okEnum = enumPaths(key, 1, 1000, func(p *Path) {
		atoms, feasible := pathAtoms(p)
		if !feasible {
			return
		}
		// the direction the path decided on, by the predicate methods or by the interface itself
		side := ""
		for _, a := range atoms {
			dir := ""
			if a.V != nil {
				dir = pdrDirection(a.V, a.Truth, access, core)
			} else if a.Op == token.EQL && a.Truth {
				dir = pdrDirectionCmp(a.X, a.Y, access, core)
			}
			switch dir {
			case "uplink":
				side = "dst"
			case "downlink":
				side = "src"
			}
		}
		if side == "" {
			return
		}
		on := map[*ssa.BasicBlock]bool{}
		for _, b := range p.Blocks {
			on[b] = true
		}
		for f, sts := range fieldStores(key, "up4ApplicationFilter") {
			for _, st := range sts {
				if !on[st.Block()] {
					continue
				}
				s := symOf(st.Val).String()
				switch f {
				case "appIP":
					k++
					r.check(s == "pdr.appFilter."+side+"IP", "R04.3", kn, "filter key appIP ← "+side+"IP ("+side+" side)", w.Pos(st.Pos()), s, "application key address taken from "+s)
				case "appL4Port":
					k++
					r.check(s == "pdr.appFilter."+side+"PortRange", "R04.3", kn, "filter key appL4Port ← "+side+"PortRange", w.Pos(st.Pos()), s, "application key port taken from "+s)
				}
			}
		}
	})
	for _, st := range fieldStores(key, "up4ApplicationFilter")["appProto"] {
		s := symOf(st.Val).String()
		k++
		r.check(s == "pdr.appFilter.proto", "R04.3", kn, "filter key appProto ← proto", w.Pos(st.Pos()), s, "application key protocol taken from "+s)
	}
	r.floor("R04.3 application key fields", k, 5)
	// IsUplink / IsDownlink
	for _, x := range []struct {
		fn   string
		want int64
	}{{"pfcpiface.(pdr).IsUplink", access}, {"pfcpiface.(pdr).IsDownlink", core}} {
		f := w.Fn(P, x.fn)
		okf := false
		allInstrs(f, func(i ssa.Instruction) {
			if bo, ok := i.(*ssa.BinOp); ok && bo.Op == token.EQL {
				if kk, isK := constInt(bo.Y); isK && kk == x.want && strings.HasSuffix(symOf(bo.X).String(), "pdr.srcIface") {
					okf = true
				}
			}
		})
		r.check(okf, "R04.1", w.FuncName(f), fmt.Sprintf("%s ⇔ srcIface == %d", f.Name(), x.want), w.Pos(f.Pos()), "comparison found", f.Name()+" no longer tests srcIface against its constant")
	}
}

// symAtPath: provenance with phis resolved along the path at block index idx.
func symAtPath(p *Path, idx int, v ssa.Value) *Sym {
	v = resolveAt(p, idx, v)
	switch x := v.(type) {
	case *ssa.Convert:
		return &Sym{Op: "conv", Name: x.Type().String(), Args: []*Sym{symAtPath(p, idx, x.X)}, V: v}
	case *ssa.BinOp:
		return &Sym{Op: "bin", Name: x.Op.String(), Args: []*Sym{symAtPath(p, idx, x.X), symAtPath(p, idx, x.Y)}, V: v}
	case *ssa.MakeInterface:
		return symAtPath(p, idx, x.X)
	case *ssa.Call:
		if len(x.Call.Args) == 1 && !x.Call.IsInvoke() {
			a := symAtPath(p, idx, x.Call.Args[0])
			return &Sym{Op: "call", Name: calleeName(x), Args: []*Sym{a}, V: v}
		}
	case *ssa.UnOp:
		if x.Op == token.MUL {
			// a load from a local cell written on the path: take the last store on the path before idx
			if fa, ok := x.X.(*ssa.FieldAddr); ok {
				if al, ok := fa.X.(*ssa.Alloc); ok {
					if st := lastStoreOnPath(p, idx, al); st != nil {
						base := symAtPath(p, idx, st.Val)
						c := &symCtx{active: map[ssa.Value]bool{}}
						return c.fieldOf(base, fieldVar(fa), fa)
					}
				}
			}
		}
	}
	return symOf(v)
}

func lastStoreOnPath(p *Path, idx int, cell *ssa.Alloc) *ssa.Store {
	var last *ssa.Store
	for i := 0; i <= idx && i < len(p.Blocks); i++ {
		for _, ins := range p.Blocks[i].Instrs {
			if st, ok := ins.(*ssa.Store); ok && st.Addr == ssa.Value(cell) {
				last = st
			}
		}
	}
	return last
}

func ruleC04Interfaces(w *World, r *Report) {
	const P = "C04"
	f := w.Fn(P, "pfcpiface.(*P4rtTranslator).BuildInterfaceTableEntry")
	fn := w.FuncName(f)
	access := w.ConstInt(P, pfcpPkg, "access")
	core := w.ConstInt(P, pfcpPkg, "core")
	up := w.ConstInt(P, pfcpPkg, "DirectionUplink")
	dn := w.ConstInt(P, pfcpPkg, "DirectionDownlink")
	n := 0
	okEnum := enumPaths(f, 1, 5000, func(p *Path) {
		ret, _ := p.last().(*ssa.Return)
		if ret == nil || !isNilConst(res(ret, 1)) {
			return
		}
		atoms, feasible := pathAtoms(p)
		if !feasible {
			return
		}
		isCore, present := atomTruth(atoms, "isCore")
		if !present {
			return
		}
		n++
		var iface, dir int64 = -1, -1
		for i, b := range p.Blocks {
			for _, ins := range b.Instrs {
				c, ok := ins.(*ssa.Call)
				if !ok || staticCallee(c) == nil || staticCallee(c).Name() != "withActionParam" || len(c.Call.Args) < 4 {
					continue
				}
				name, _ := constString(c.Call.Args[2])
				v := resolveAt(p, i, c.Call.Args[3])
				if mi, ok := v.(*ssa.MakeInterface); ok {
					v = resolveAt(p, i, mi.X)
				}
				k, _ := constInt(v)
				switch name {
				case "src_iface":
					iface = k
				case "direction":
					dir = k
				}
			}
		}
		wantI, wantD := access, up
		if isCore {
			wantI, wantD = core, dn
		}
		r.check(iface == wantI && dir == wantD, "R04.2", fn, fmt.Sprintf("interfaces entry isCore=%v → (src_iface %d, direction %d)", isCore, wantI, wantD), w.Pos(ret.Pos()), fmt.Sprintf("(%d,%d)", iface, dir), fmt.Sprintf("isCore=%v yields src_iface %d direction %d", isCore, iface, dir))
	})
	if !okEnum {
		brokenf(P, "R04.2", "too many paths in %s", fn)
	}
	r.floor("R04.2 interface entry variants", n, 2)
	for _, u := range builderUses(w, f) {
		switch u.name {
		case "ipv4_dst_prefix":
			v := u.vals[0].String()
			r.check(strings.Contains(v, "IPNet.IP") && strings.Contains(u.vals[1].String(), "IPNet.Mask"), "R04.2", fn, "ipv4_dst_prefix ← the given network", w.Pos(u.call.Pos()), v+" / "+u.vals[1].String(), "prefix built from "+v)
		case "slice_id":
			r.check(u.vals[0].String() == "sliceID", "R04.2", fn, "slice_id ← configured slice", w.Pos(u.call.Pos()), u.vals[0].String(), "slice id from "+u.vals[0].String())
		}
	}
	// initInterfaces: UE pool as core, N3 address as access, one write
	ii := w.Fn(P, "pfcpiface.(*UP4).initInterfaces")
	in := w.FuncName(ii)
	calls := callsTo(ii, f)
	var seen []string
	for _, c := range calls {
		a := c.Common().Args
		net := symOf(a[1]).String()
		isCoreK, _ := a[3].(*ssa.Const)
		isCore := isCoreK != nil && isCoreK.Value != nil && isCoreK.Value.String() == "true"
		slice := symOf(a[2]).String()
		seen = append(seen, fmt.Sprintf("%s core=%v", net, isCore))
		r.check(slice == "UP4.conf.SliceID", "R04.2", in, "interfaces entries carry the configured slice", w.Pos(c.Pos()), slice, "slice from "+slice)
	}
	sort.Strings(seen)
	r.check(strings.Join(seen, ";") == "UP4.accessIP core=false;UP4.ueIPPool core=true", "R04.4", in, "UE pool → core entry, N3 address → access entry", w.Pos(ii.Pos()), strings.Join(seen, ";"), "interfaces initialised as "+strings.Join(seen, ";"))
	applies := callsIn(ii, func(c ssa.CallInstruction) bool {
		callee := staticCallee(c)
		return callee != nil && callee.Name() == "ApplyTableEntries"
	})
	r.check(len(applies) == 1, "R04.4", in, "both interface entries in one write", w.Pos(ii.Pos()), "1 ApplyTableEntries", fmt.Sprintf("%d writes", len(applies)))
	for _, c := range applies {
		k, _ := constInt(c.Common().Args[1])
		r.check(k == 1, "R04.4", in, "interfaces are INSERTed", w.Pos(c.Pos()), "Update_INSERT", fmt.Sprintf("update type %d", k))
		// the slice written holds exactly the two entries built above (appended one by one or listed in a literal)
		args := c.Common().Args
		elems, okE := sliceElems(args[len(args)-1], 0)
		built := map[ssa.Value]bool{}
		for _, bc := range calls {
			built[extractOf(bc.(*ssa.Call), 0)] = true
		}
		nBuilt := 0
		for _, e := range elems {
			if built[e] {
				nBuilt++
			}
		}
		r.check(okE && len(elems) == 2 && nBuilt == 2, "R04.4", in, "two entries collected", w.Pos(c.Pos()), "the UE pool entry and the N3 entry", fmt.Sprintf("%d entries collected, %d of them built here", len(elems), nBuilt))
		// every return with nil error passes the write
		for _, ret := range returnsOf(ii) {
			if isNilConst(res(ret, 0)) {
				miss := mustPass(ii, nil, func(i ssa.Instruction) bool { return i == ssa.Instruction(ret) }, func(i ssa.Instruction) bool { return i == c.(ssa.Instruction) })
				r.check(miss == nil, "R04.4", in, "success only after the write", w.Pos(ret.Pos()), "must-pass", "initInterfaces can succeed without writing the entries")
			}
		}
	}
}

func ruleC04Orchestrator(w *World, r *Report) {
	const P = "C04"
	mod := w.Fn(P, "pfcpiface.(*UP4).modifyUP4ForwardingConfiguration")
	mn := w.FuncName(mod)
	// a batch is taken as applied only when every update is OK or — for the sessions entry that the PDRs of
	// one direction share — ALREADY_EXISTS on the way in and NOT_FOUND on the way out; NOT_FOUND on INSERT or
	// MODIFY, and every other code, is a failed write
	allInstrs(mod, func(i ssa.Instruction) {
		if c, ok := i.(*ssa.Call); ok && staticCallee(c) != nil && staticCallee(c).Name() == "ApplyTableEntries" {
			statusFilterRule(w, r, "R04.2", "reject", mod, c)
			statusFilterRule(w, r, "R04.2", "gone", mod, c)
		}
	})
	bt := w.Fn(P, "pfcpiface.(*P4rtTranslator).BuildTerminationsTableEntry")
	bs := w.Fn(P, "pfcpiface.(*P4rtTranslator).BuildSessionsTableEntry")
	defQFI := w.ConstInt(P, pfcpPkg, "DefaultQFI")
	for _, c := range callsTo(mod, bs) {
		a := c.Common().Args
		got := []string{symOf(a[1]).String(), symOf(a[3]).String(), symOf(a[4]).String()}
		r.check(strings.HasSuffix(got[0], "pdrs[]") || got[0] == "pdr" || strings.Contains(got[0], "pdrs[]"), "R04.2", mn, "sessions entry built for the loop's PDR", w.Pos(c.Pos()), got[0], "sessions entry built for "+got[0])
		r.check(strings.Contains(got[1], "getGTPTunnelPeer#0") && strings.HasSuffix(got[1], ".id"), "R04.2", mn, "tunnel_peer_id ← peer registered for the FAR's tunnel params", w.Pos(c.Pos()), got[1], "tunnel peer id from "+got[1])
		r.check(strings.Contains(got[2], "Buffers(") && strings.Contains(got[2], "findRelatedFAR#0"), "R04.2", mn, "needsBuffering ← related FAR.Buffers()", w.Pos(c.Pos()), got[2], "buffering decided by "+got[2])
	}
	for _, c := range callsTo(mod, bt) {
		a := c.Common().Args
		far := symOf(a[3]).String()
		r.check(strings.Contains(far, "findRelatedFAR#0"), "R04.2", mn, "terminations entry uses the PDR's related FAR", w.Pos(c.Pos()), far, "FAR is "+far)
		qer := symOf(a[7]).String()
		r.check(strings.Contains(qer, "findRelatedApplicationQER#0"), "R04.2", mn, "terminations entry uses the PDR's related application QER", w.Pos(c.Pos()), qer, "QER is "+qer)
		// qfi = φ(DefaultQFI, relatedQER.qfi), the default chosen on the lookup's error edge
		qfi := symOf(a[5])
		okQ := false
		if qfi.Op == "phi" && len(qfi.Args) == 2 {
			s0, s1 := qfi.Args[0].String(), qfi.Args[1].String()
			okQ = (s0 == fmt.Sprint(defQFI) && strings.HasSuffix(s1, "findRelatedApplicationQER#0(pdr, qers).qfi")) || (s1 == fmt.Sprint(defQFI) && strings.HasSuffix(s0, "findRelatedApplicationQER#0(pdr, qers).qfi")) ||
				(strings.Contains(s0+s1, ".qfi") && strings.Contains(s0+s1, fmt.Sprint(defQFI)))
		}
		r.check(okQ, "R04.2", mn, "qfi ← related QER's QFI, else DefaultQFI", w.Pos(c.Pos()), qfi.String(), "QFI is "+qfi.String())
		// tc: map lookup with presence bit
		tcv := a[6]
		okTC, why := tcFromMap(tcv)
		r.check(okTC, "R04.2", mn, "tc ← conf.QFIToTC[qfi] when the map has the QFI, else conf.DefaultTC", w.Pos(c.Pos()), why, why)
		app := symOf(a[4]).String()
		r.check(strings.Contains(app, "addInternalApplicationIDAndGetP4rtEntry#1") && strings.Contains(app, "removeInternalApplicationIDAndGetP4rtEntry#1"), "R04.2", mn, "app_id ← id registered for the PDR's application filter (else the default id)", w.Pos(c.Pos()), trunc80(app), "application id is "+trunc80(app))
	}
	// uplink PDRs take the UE address learned from the session's downlink PDR
	{
		found := false
		allInstrs(mod, func(i ssa.Instruction) {
			st, ok := i.(*ssa.Store)
			if !ok {
				return
			}
			fa, ok := st.Addr.(*ssa.FieldAddr)
			if ok && fieldVar(fa) != nil && fieldVar(fa).Name() == "ueAddress" {
				s := symOf(st.Val).String()
				found = true
				r.check(strings.Contains(s, "UP4.fseidToUEAddr"), "R04.2", mn, "uplink PDR's UE address ← fseidToUEAddr[pdr.fseID]", w.Pos(st.Pos()), s, "UE address for uplink PDR from "+s)
				g := onlyVia(mod, st, func(a, b *ssa.BasicBlock) bool {
					v, truth, ok := boolEdge(a, b)
					return ok && truth && strings.HasSuffix(symOf(v).String(), "IsUplink(pdr)") || ok && truth && strings.Contains(symOf(v).String(), "IsUplink(")
				})
				r.check(g, "R04.2", mn, "only uplink PDRs inherit the learned UE address", w.Pos(st.Pos()), "under IsUplink()", "UE address overwritten for non-uplink PDRs")
			}
		})
		r.check(found, "R04.2", mn, "uplink PDRs learn the UE address", w.Pos(mod.Pos()), "store found", "uplink PDRs no longer take the UE address of the session's downlink PDR")
	}
	up4CallersHandAll(w, r, "R04.2")
	// SendMsgToUPF dispatch
	{
		f := w.Fn(P, "pfcpiface.(*UP4).SendMsgToUPF")
		want := map[int64]string{w.ConstInt(P, pfcpPkg, "upfMsgTypeAdd"): "sendCreate", w.ConstInt(P, pfcpPkg, "upfMsgTypeMod"): "sendUpdate", w.ConstInt(P, pfcpPkg, "upfMsgTypeDel"): "sendDelete"}
		n := 0
		okEnum := enumPaths(f, 1, 5000, func(p *Path) {
			atoms, feasible := pathAtoms(p)
			if !feasible {
				return
			}
			m := int64(-1)
			for _, a := range atoms {
				if a.Truth && a.Op == token.EQL && symOf(a.X).String() == "method" {
					m, _ = constInt(a.Y)
				}
			}
			called := ""
			p.instrs(func(i ssa.Instruction) {
				if c, ok := i.(*ssa.Call); ok && staticCallee(c) != nil && strings.HasPrefix(staticCallee(c).Name(), "send") {
					called = staticCallee(c).Name()
				}
			})
			if wnt, ok := want[m]; ok {
				n++
				r.check(called == wnt, "R04.1", w.FuncName(f), fmt.Sprintf("method %d → %s", m, wnt), w.Pos(p.last().Pos()), called, fmt.Sprintf("method %d runs %s", m, called))
			}
		})
		if !okEnum {
			brokenf(P, "R04.1", "too many paths in SendMsgToUPF")
		}
		r.floor("R04.1 UP4 method dispatch", n, 3)
	}
}

// tcFromMap: v = φ(lookup#0, conf.DefaultTC) where the default alternative comes in over the
// edge on which the lookup's presence bit is false.
func tcFromMap(v ssa.Value) (bool, string) {
	phi, ok := v.(*ssa.Phi)
	if !ok {
		return false, "traffic class is not selected between map entry and default: " + symOf(v).String()
	}
	var lookup *ssa.Lookup
	for _, e := range phi.Edges {
		if ex, ok := e.(*ssa.Extract); ok && ex.Index == 0 {
			if l, ok := ex.Tuple.(*ssa.Lookup); ok && l.CommaOk {
				lookup = l
			}
		}
	}
	if lookup == nil {
		return false, "traffic class does not come from a presence-checked map lookup: " + symOf(v).String()
	}
	ms := symOf(lookup.X).String()
	ks := symOf(lookup.Index).String()
	if ms != "UP4.conf.QFIToTC" {
		return false, "traffic class looked up in " + ms
	}
	if !strings.HasSuffix(ks, ".qfi") {
		return false, "traffic class looked up by " + ks
	}
	okBit := extractOf(lookup, 1)
	for i, e := range phi.Edges {
		pred := phi.Block().Preds[i]
		if ex, isEx := e.(*ssa.Extract); isEx && ex.Tuple == ssa.Value(lookup) {
			continue
		}
		if symOf(e).String() != "UP4.conf.DefaultTC" {
			return false, "alternative traffic class is " + symOf(e).String()
		}
		// governed by the presence bit being false
		gov := false
		cur := pred
		for steps := 0; steps < 6 && cur != nil && len(cur.Preds) == 1; steps++ {
			if vv, truth, ok := boolEdge(cur.Preds[0], cur); ok && vv == okBit && !truth {
				gov = true
			}
			cur = cur.Preds[0]
		}
		if !gov {
			return false, "the default traffic class is not selected by the map's presence bit (a configured class 0 would be replaced by the default)"
		}
	}
	return true, "φ(QFIToTC[qfi] if present, DefaultTC)"
}

func ruleC04Shared(w *World, r *Report) {
	const P = "C04"
	// tunnelParams literals
	var lits []string
	var where []string
	for _, n := range []string{"pfcpiface.(*UP4).addOrUpdateGTPTunnelPeer", "pfcpiface.(*UP4).removeGTPTunnelPeer", "pfcpiface.(*UP4).modifyUP4ForwardingConfiguration"} {
		f := w.Fn(P, n)
		fs := fieldStores(f, "tunnelParams")
		var parts []string
		for _, fld := range []string{"tunnelIP4Src", "tunnelIP4Dst", "tunnelPort"} {
			v := "<unset>"
			for _, st := range fs[fld] {
				v = symOf(st.Val).String()
				// abstract the FAR's origin: only the field path below the FAR matters
				if i := strings.LastIndex(v, ")."); i >= 0 && strings.Contains(v, "findRelatedFAR") {
					v = "far." + v[i+2:]
				}
			}
			parts = append(parts, fld+"="+v)
		}
		lits = append(lits, strings.Join(parts, ", "))
		where = append(where, w.FuncName(f))
	}
	for i := 1; i < len(lits); i++ {
		r.check(lits[i] == lits[0], "R04.3", where[i], "tunnelParams key agrees with addOrUpdateGTPTunnelPeer", "-", lits[i], "tunnel peer key {"+lits[i]+"} differs from the one used when the peer is added {"+lits[0]+"}")
	}
	r.check(strings.Contains(lits[0], "tunnelIP4Dst=far.tunnelIP4Dst") && strings.Contains(lits[0], "tunnelPort=far.tunnelPort") && strings.Contains(lits[0], "UP4.accessIP"), "R04.3", where[0], "tunnel peer key = (N3 address, FAR dst address, FAR port)", "-", lits[0], "tunnel peer key is {"+lits[0]+"}")
	// usedBy references
	refCheck := func(fnName, typ string, want []string) {
		f := w.Fn(P, fnName)
		fs := fieldStores(f, typ)
		n := 0
		for _, fld := range want {
			parts := strings.SplitN(fld, "=", 2)
			for _, st := range fs[parts[0]] {
				n++
				s := symOf(st.Val).String()
				r.check(s == parts[1], "R04.3", w.FuncName(f), typ+"."+parts[0]+" ← "+parts[1], w.Pos(st.Pos()), s, "reference field "+parts[0]+" filled from "+s)
			}
		}
		r.check(n >= len(want), "R04.3", w.FuncName(f), typ+" reference literal present", w.Pos(f.Pos()), fmt.Sprint(n), "no "+typ+" reference is built")
	}
	refCheck("pfcpiface.(*UP4).addOrUpdateGTPTunnelPeer", "tnlPeerReference", []string{"fseid=far.fseID", "farID=far.farID"})
	refCheck("pfcpiface.(*UP4).removeGTPTunnelPeer", "tnlPeerReference", []string{"fseid=far.fseID", "farID=far.farID"})
	refCheck("pfcpiface.(*UP4).addInternalApplicationIDAndGetP4rtEntry", "internalAppReference", []string{"fseid=pdr.fseID", "pdrID=pdr.pdrID"})
	refCheck("pfcpiface.(*UP4).removeInternalApplicationIDAndGetP4rtEntry", "internalAppReference", []string{"fseid=pdr.fseID", "pdrID=pdr.pdrID"})
	// every FAR of a deleted session drops its reference: removeGTPTunnelPeer on every iteration
	del := w.Fn(P, "pfcpiface.(*UP4).sendDelete")
	rm := w.Fn(P, "pfcpiface.(*UP4).removeGTPTunnelPeer")
	loops := rangeLoopsOver(del, "PacketForwardingRules.fars")
	r.floor("R04.3 loop over deleted FARs", len(loops), 1)
	for _, l := range loops {
		every := everyIteration(del, l[1], l[0], func(i ssa.Instruction) bool { return isCallTo(i, rm) })
		r.check(every, "R04.3", w.FuncName(del), "every deleted FAR releases its tunnel-peer reference", w.Pos(del.Pos()), "removeGTPTunnelPeer on every iteration", "removeGTPTunnelPeer is skipped for some FARs of a deleted session (e.g. a FAR that buffers at deletion time): the peer entry and its id outlive every rule that used them")
	}
	// add and remove of applications sit under the same guard
	mod := w.Fn(P, "pfcpiface.(*UP4).modifyUP4ForwardingConfiguration")
	add := w.Fn(P, "pfcpiface.(*UP4).addInternalApplicationIDAndGetP4rtEntry")
	rem := w.Fn(P, "pfcpiface.(*UP4).removeInternalApplicationIDAndGetP4rtEntry")
	guardOf := func(target *ssa.Function) string {
		var out []string
		for _, c := range callsTo(mod, target) {
			ins := c.(ssa.Instruction)
			// collect the boolean/comparison edges that dominate the call inside the loop body
			cur := ins.Block()
			for steps := 0; steps < 8 && cur != nil && len(cur.Preds) == 1; steps++ {
				p := cur.Preds[0]
				if v, truth, ok := boolEdge(p, cur); ok {
					if x, op, y, ok2 := edgeFact(p, cur); ok2 {
						out = append(out, fmt.Sprintf("%s %s %s", symOf(x).String(), op, symOf(y).String()))
					} else {
						out = append(out, fmt.Sprintf("%s=%v", symOf(v).String(), truth))
					}
				}
				cur = p
				if strings.Contains(strings.Join(out, ";"), "IsAppFilterEmpty") {
					break
				}
			}
		}
		return strings.Join(out, " ; ")
	}
	ga, gr := guardOf(add), guardOf(rem)
	r.check(strings.Contains(ga, "IsAppFilterEmpty") && strings.Contains(ga, "=false") && strings.Contains(gr, "IsAppFilterEmpty") && strings.Contains(gr, "=false"), "R04.3", w.FuncName(mod), "application add and remove both under !IsAppFilterEmpty()", w.Pos(mod.Pos()), ga+" || "+gr, "application registration guards differ: add under ["+ga+"], remove under ["+gr+"]")
	r.check(strings.Contains(ga, "methodType != 3") || strings.Contains(ga, "methodType != "), "R04.3", w.FuncName(mod), "applications are added for INSERT/MODIFY", w.Pos(mod.Pos()), ga, "add guard is "+ga)
	r.check(strings.Contains(gr, "methodType == 3") || strings.Contains(gr, "methodType == "), "R04.3", w.FuncName(mod), "applications are removed for DELETE", w.Pos(mod.Pos()), gr, "remove guard is "+gr)
	// the UE-address maps are written for every created/updated PDR and removed for every deleted one
	for _, x := range []struct{ fn, callee, over string }{
		{"pfcpiface.(*UP4).sendCreate", "updateUEAddrAndFSEIDMappings", "PacketForwardingRules.pdrs"},
		{"pfcpiface.(*UP4).sendUpdate", "updateUEAddrAndFSEIDMappings", "PacketForwardingRules.pdrs"},
		{"pfcpiface.(*UP4).sendDelete", "removeUeAddrAndFSEIDMappings", "PacketForwardingRules.pdrs"},
	} {
		f := w.Fn(P, x.fn)
		target := w.Fn(P, "pfcpiface.(*UP4)."+x.callee)
		found := false
		for _, l := range rangeLoopsOver(f, x.over) {
			if everyIteration(f, l[1], l[0], func(i ssa.Instruction) bool { return isCallTo(i, target) }) {
				found = true
			}
		}
		r.check(found, "R04.3", w.FuncName(f), x.callee+" for every PDR", w.Pos(f.Pos()), "called on every iteration of a loop over the PDRs", x.callee+" is not applied to every PDR")
	}
}

func ruleC04Startup(w *World, r *Report, info *P4Info) {
	const P = "C04"
	clear := w.Fn(P, "pfcpiface.(*UP4).clearTables")
	cn := w.FuncName(clear)
	// ids listed
	listed := map[int64]bool{}
	allInstrs(clear, func(i ssa.Instruction) {
		st, ok := i.(*ssa.Store)
		if !ok {
			return
		}
		if _, isIdx := st.Addr.(*ssa.IndexAddr); isIdx {
			if k, isK := constInt(st.Val); isK {
				listed[k] = true
			}
		}
	})
	// tables written by builders
	written := map[int64]string{}
	for _, f := range w.Funcs {
		if f.Pkg == nil || f.Pkg.Pkg.Path() != pfcpPkg {
			continue
		}
		for _, st := range fieldStores(f, "TableEntry")["TableId"] {
			if k, isK := constInt(st.Val); isK {
				written[k] = w.FuncName(f)
			}
		}
	}
	r.floor("R04.4 tables written by builders", len(written), 7)
	var ids []int64
	for id := range written {
		ids = append(ids, id)
	}
	sort.Slice(ids, func(i, j int) bool { return ids[i] < ids[j] })
	for _, id := range ids {
		name := fmt.Sprint(id)
		if t := info.table(id); t != nil {
			name = t.Alias
		}
		r.check(listed[id], "R04.4", cn, "start-up clear covers table "+name, w.Pos(clear.Pos()), "listed", "table "+name+" (written by "+written[id]+") is not cleared at start-up: entries of a killed incarnation survive")
	}
	// the list is what gets cleared
	okCall := false
	allInstrs(clear, func(i ssa.Instruction) {
		if c, ok := i.(*ssa.Call); ok && staticCallee(c) != nil && staticCallee(c).Name() == "ClearTables" {
			okCall = true
		}
	})
	r.check(okCall, "R04.4", cn, "the list is handed to P4rtClient.ClearTables", w.Pos(clear.Pos()), "call found", "clearTables no longer clears")
	// clearDatapathState: clear → counters/meters pools → interfaces, on every success path
	cds := w.Fn(P, "pfcpiface.(*UP4).clearDatapathState")
	dn := w.FuncName(cds)
	order := []string{"clearTables", "initAllCounters", "initMetersPools", "initInterfaces"}
	for _, ret := range returnsOf(cds) {
		if !isNilConst(res(ret, 0)) {
			continue
		}
		for _, name := range order {
			target := w.Fn(P, "pfcpiface.(*UP4)."+name)
			miss := mustPass(cds, nil, func(i ssa.Instruction) bool { return i == ssa.Instruction(ret) }, func(i ssa.Instruction) bool { return isCallTo(i, target) })
			r.check(miss == nil, "R04.4", dn, "success only after "+name, w.Pos(ret.Pos()), "must-pass", "clearDatapathState can succeed without "+name)
		}
	}
	// initInterfaces after clearTables
	{
		ct := w.Fn(P, "pfcpiface.(*UP4).clearTables")
		ii := w.Fn(P, "pfcpiface.(*UP4).initInterfaces")
		for _, c := range callsTo(cds, ii) {
			miss := mustPass(cds, nil, func(i ssa.Instruction) bool { return i == c.(ssa.Instruction) }, func(i ssa.Instruction) bool { return isCallTo(i, ct) })
			r.check(miss == nil, "R04.4", dn, "interfaces initialised after the clear", w.Pos(c.Pos()), "clearTables precedes", "interfaces are initialised before the tables are cleared (the clear then removes them)")
		}
		// errors of both are propagated
		for _, name := range []string{"clearTables", "initInterfaces"} {
			target := w.Fn(P, "pfcpiface.(*UP4)."+name)
			for _, c := range callsTo(cds, target) {
				call := c.(*ssa.Call)
				for _, ret := range returnsOf(cds) {
					if isNilConst(res(ret, 0)) {
						g := errGuarded(cds, call, call, func(i ssa.Instruction) bool { return i == ssa.Instruction(ret) })
						r.check(g, "R04.4", dn, "a failed "+name+" fails the initialisation", w.Pos(c.Pos()), "success unreachable unless err == nil", "clearDatapathState reports success although "+name+" failed")
					}
				}
			}
		}
	}
	// initialize: clears when asked or configured; tryConnect asks when there is no client / pipeline yet
	init := w.Fn(P, "pfcpiface.(*UP4).initialize")
	{
		calls := callsTo(init, cds)
		r.floor("R04.4 clearDatapathState call in initialize", len(calls), 1)
		for _, c := range calls {
			// reachable on the path shouldClear == true without further conditions
			n := 0
			okEnum := enumPaths(init, 1, 2000, func(p *Path) {
				atoms, feasible := pathAtoms(p)
				if !feasible {
					return
				}
				sc, present := atomTruth(atoms, "shouldClear")
				if !present || !sc {
					return
				}
				n++
				has := false
				p.instrs(func(i ssa.Instruction) {
					if i == c.(ssa.Instruction) {
						has = true
					}
				})
				r.check(has, "R04.4", w.FuncName(init), "shouldClear ⇒ clearDatapathState", w.Pos(c.Pos()), "called on the path", "initialize(shouldClear=true) can skip the clear")
			})
			if !okEnum {
				brokenf(P, "R04.4", "too many paths in initialize")
			}
			r.check(n >= 1, "R04.4", w.FuncName(init), "a shouldClear path exists", w.Pos(init.Pos()), fmt.Sprint(n), "initialize no longer branches on shouldClear")
			call := c.(*ssa.Call)
			for _, ret := range returnsOf(init) {
				if isNilConst(res(ret, 0)) {
					g := errGuarded(init, call, call, func(i ssa.Instruction) bool { return i == ssa.Instruction(ret) })
					r.check(g, "R04.4", w.FuncName(init), "a failed clear fails initialize", w.Pos(c.Pos()), "err checked", "initialize succeeds although clearing failed")
				}
			}
		}
	}
	tc := w.Fn(P, "pfcpiface.(*UP4).tryConnect")
	for _, c := range callsTo(tc, init) {
		s := symOf(c.Common().Args[1])
		str := s.String()
		r.check(strings.Contains(str, "UP4.p4client") && strings.Contains(str, "nil"), "R04.4", w.FuncName(tc), "first connection of an incarnation clears (no client / no pipeline yet)", w.Pos(c.Pos()), str, "shouldClear computed as "+str)
		// setConnectedStatus(true) only after initialize succeeded
		set := w.Fn(P, "pfcpiface.(*UP4).setConnectedStatus")
		call := c.(*ssa.Call)
		for _, sc := range callsTo(tc, set) {
			g := errGuarded(tc, call, call, func(i ssa.Instruction) bool { return i == sc.(ssa.Instruction) })
			r.check(g, "R04.4", w.FuncName(tc), "connected only after a successful initialisation", w.Pos(sc.Pos()), "err checked", "the datapath is marked connected although initialisation failed")
		}
	}
}

// up4CallersHandAll: sendCreate/sendUpdate/sendDelete rebuild the entries from all of the
// session's PDRs, FARs and QERs (not only those of the current message).
func up4CallersHandAll(w *World, r *Report, rule string) {
	P := r.Prop
	mod := w.Fn(P, "pfcpiface.(*UP4).modifyUP4ForwardingConfiguration")
	// callers hand over all of the session's rules
	for _, x := range []struct {
		fn   string
		root string
		typ  int64
	}{{"pfcpiface.(*UP4).sendCreate", "all", 1}, {"pfcpiface.(*UP4).sendUpdate", "all", 2}, {"pfcpiface.(*UP4).sendDelete", "deleted", 3}} {
		f := w.Fn(P, x.fn)
		calls := callsTo(f, mod)
		r.check(len(calls) == 1, rule, w.FuncName(f), "one forwarding-configuration pass", w.Pos(f.Pos()), "1 call", fmt.Sprintf("%d calls", len(calls)))
		for _, c := range calls {
			a := c.Common().Args
			var roots []string
			for _, v := range a[1:4] {
				s := symOf(v)
				name := "?"
				for _, rt := range s.Roots() {
					if p, ok := rt.(*ssa.Parameter); ok {
						name = p.Name()
					}
				}
				roots = append(roots, name+":"+s.String())
			}
			want := []string{x.root + ":PacketForwardingRules.pdrs", x.root + ":PacketForwardingRules.fars", x.root + ":PacketForwardingRules.qers"}
			r.check(strings.Join(roots, " ") == strings.Join(want, " "), rule, w.FuncName(f), "builder gets "+x.root+".pdrs/fars/qers", w.Pos(c.Pos()), strings.Join(roots, " "), "forwarding configuration built from ["+strings.Join(roots, " ")+"] (entries are rebuilt from partial rules: gates, QFI and TC of rules not in this message are lost)")
			// the operation is written at the call, or handed down unchanged from every caller of the
			// sender (then each of them must name it)
			k, isK := constInt(a[4])
			if par, isPar := a[4].(*ssa.Parameter); isPar && !isK {
				k = w.constParamFromCallers(f, par)
			}
			r.check(k == x.typ, rule, w.FuncName(f), fmt.Sprintf("update type %d", x.typ), w.Pos(c.Pos()), fmt.Sprint(k), fmt.Sprintf("update type %d", k))
		}
	}
}

// constParamFromCallers: the constant that every call of f in the repo passes for the parameter par (-1 when
// there is no call, when f is also used as a function value or started as a goroutine / deferred, when some call
// passes a non-constant, or when two calls disagree).
func (w *World) constParamFromCallers(f *ssa.Function, par *ssa.Parameter) int64 {
	pi := -1
	for i, p := range f.Params {
		if p == par {
			pi = i
		}
	}
	k, n := int64(-1), 0
	for _, edge := range w.CG().callersOf(f) {
		call, ok := edge.Site.(ssa.CallInstruction)
		if !ok || edge.Kind != "call" || call.Common().IsInvoke() || pi < 0 || pi >= len(call.Common().Args) {
			return -1
		}
		c, isK := constInt(call.Common().Args[pi])
		if !isK || (n > 0 && c != k) {
			return -1
		}
		k = c
		n++
	}
	if n == 0 {
		return -1
	}
	return k
}

// sliceElems: the element values of a slice built from a composite literal, make + appends, or
// append chains (elements in order). ok == false when the construction is not understood.
func sliceElems(v ssa.Value, depth int) ([]ssa.Value, bool) {
	if depth > 12 {
		return nil, false
	}
	switch x := v.(type) {
	case *ssa.MakeSlice:
		if k, isK := constInt(x.Len); isK && k == 0 {
			return nil, true
		}
		return nil, false
	case *ssa.Const:
		return nil, x.Value == nil
	case *ssa.Slice:
		// literal: slice of a fresh array whose elements are stored one by one
		al, ok := x.X.(*ssa.Alloc)
		if !ok || al.Referrers() == nil {
			return nil, false
		}
		if k, isK := constInt(x.High); x.High != nil && isK && k == 0 {
			return nil, true // make([]T, 0, n) with constant n
		}
		if x.Low != nil || x.High != nil {
			return nil, false
		}
		byIdx := map[int64]ssa.Value{}
		for _, ref := range *al.Referrers() {
			ia, ok := ref.(*ssa.IndexAddr)
			if !ok || ia.Referrers() == nil {
				continue
			}
			k, isK := constInt(ia.Index)
			if !isK {
				return nil, false
			}
			for _, r2 := range *ia.Referrers() {
				if st, ok := r2.(*ssa.Store); ok && st.Addr == ssa.Value(ia) {
					byIdx[k] = st.Val
				}
			}
		}
		var out []ssa.Value
		for k := int64(0); k < int64(len(byIdx)); k++ {
			e, ok := byIdx[k]
			if !ok {
				return nil, false
			}
			out = append(out, e)
		}
		return out, true
	case *ssa.Call:
		if b, ok := x.Call.Value.(*ssa.Builtin); ok && b.Name() == "append" && len(x.Call.Args) == 2 {
			base, ok1 := sliceElems(x.Call.Args[0], depth+1)
			more, ok2 := sliceElems(x.Call.Args[1], depth+1)
			return append(append([]ssa.Value{}, base...), more...), ok1 && ok2
		}
	}
	return nil, false
}

// ruleC04AppFilterEmpty (R04.9): UP4 files a PDR under application ID 0 — no applications entry, no
// reference on one — exactly when IsAppFilterEmpty() says so. The applications table matches on the
// application side of the filter: protocol, address and L4 port of the remote end (destination for
// uplink, source for downlink). The predicate is interpreted for every valuation of its atoms and
// compared with   proto==0 ∧ ((uplink ∧ dstIP==0 ∧ dstPort wildcard) ∨ (downlink ∧ srcIP==0 ∧ srcPort wildcard)).
func ruleC04AppFilterEmpty(w *World, r *Report) {
	const P = "C04"
	f := w.Fn(P, "pfcpiface.(pdr).IsAppFilterEmpty")
	fn := w.FuncName(f)
	access := w.ConstInt(P, pfcpPkg, "access")
	core := w.ConstInt(P, pfcpPkg, "core")
	names := []string{"P0", "UL", "DL", "DIP0", "DPW", "SIP0", "SPW"}
	// (at: what a φ holds on the interpreted execution — the predicate may pick the remote end first and test it once)
	classify := func(v ssa.Value, at func(ssa.Value) ssa.Value) (string, bool) { // atom name, negated
		switch x := v.(type) {
		case *ssa.Call:
			g := staticCallee(x)
			if g == nil {
				return "", false
			}
			switch g.Name() {
			case "IsUplink":
				return "UL", false
			case "IsDownlink":
				return "DL", false
			case "isWildcardMatch":
				s := symOf(at(x.Call.Args[0])).String()
				if strings.Contains(s, "dstPortRange") {
					return "DPW", false
				}
				if strings.Contains(s, "srcPortRange") {
					return "SPW", false
				}
			}
		case *ssa.BinOp:
			if x.Op != token.EQL && x.Op != token.NEQ {
				return "", false
			}
			a, k := x.X, x.Y
			c, isK := constInt(k)
			if !isK {
				a, k = x.Y, x.X
				c, isK = constInt(k)
			}
			if !isK {
				return "", false
			}
			s := symOf(at(a)).String()
			neg := x.Op == token.NEQ
			switch {
			case strings.HasSuffix(s, "appFilter.proto") && c == 0:
				return "P0", neg
			case strings.HasSuffix(s, "appFilter.dstIP") && c == 0:
				return "DIP0", neg
			case strings.HasSuffix(s, "appFilter.srcIP") && c == 0:
				return "SIP0", neg
			case strings.HasSuffix(s, "srcIface") && c == access:
				return "UL", neg
			case strings.HasSuffix(s, "srcIface") && c == core:
				return "DL", neg
			}
		}
		return "", false
	}
	n, bad := 0, 0
	for m := 0; m < 1<<uint(len(names)); m++ {
		env := map[string]bool{}
		for i, nm := range names {
			env[nm] = m&(1<<uint(i)) != 0
		}
		if env["UL"] && env["DL"] {
			continue
		}
		foreign := ""
		got, ok := evalBoolFuncAt(f, func(v ssa.Value, at func(ssa.Value) ssa.Value) (bool, bool, bool) {
			if nm, neg := classify(v, at); nm != "" {
				return env[nm] != neg, true, true
			}
			if _, isCall := v.(*ssa.Call); isCall {
				foreign = valueText(v)
				return false, false, true
			}
			if bo, isB := v.(*ssa.BinOp); isB {
				if _, lb := bo.X.Type().Underlying().(*types.Basic); lb && bo.X.Type().Underlying().String() != "bool" {
					foreign = valueText(v)
					return false, false, true
				}
			}
			return false, false, false
		})
		if !ok {
			r.bad("R04.9", fn, "IsAppFilterEmpty is decided by protocol, direction and the remote end's address and port", w.Pos(f.Pos()), "the predicate depends on something else ("+foreign+") or could not be interpreted")
			return
		}
		n++
		want := env["P0"] && ((env["UL"] && env["DIP0"] && env["DPW"]) || (env["DL"] && env["SIP0"] && env["SPW"]))
		if got != want && bad < 3 {
			bad++
			var on []string
			for _, nm := range names {
				if env[nm] {
					on = append(on, nm)
				}
			}
			r.bad("R04.9", fn, fmt.Sprintf("IsAppFilterEmpty for {%s}", strings.Join(on, ",")), w.Pos(f.Pos()), fmt.Sprintf("the predicate answers %v where the applications-table key is %s: such a PDR is filed under application ID %s (P0 proto==0, UL/DL direction, DIP0/SIP0 address zero, DPW/SPW port wildcard)", got, ifelse(want, "empty", "not empty"), ifelse(got, "0 although its filter needs an applications entry", "of an all-wildcard entry")))
		}
	}
	if bad == 0 {
		r.ok("R04.9", fn, "IsAppFilterEmpty ⇔ proto==0 ∧ remote end of the PDR's direction is all-wildcard", w.Pos(f.Pos()), fmt.Sprintf("%d valuations of 7 atoms interpreted", n))
	}
	r.floor("R04.9 valuations interpreted", n, 90)
}

// ruleC04PartialDelete (R04.11): the sessions_uplink / sessions_downlink entry of a session is shared by
// all its PDRs of that direction (R04.2). A Remove PDR may therefore delete it only with the last PDR of
// the direction. UP4.sendDelete sees only the rule set it is handed, so when the modification handler
// issues a delete for the removed rules it has to hand over the remaining rules as well — or the plug-in
// has to look them up. Neither is the case when both rule-set arguments of the call are built from the
// removed rules only.
func ruleC04PartialDelete(w *World, r *Report) {
	const P = "C04"
	mod := w.Fn(P, "pfcpiface.(*PFCPConn).handleSessionModificationRequest")
	del := w.ConstInt(P, pfcpPkg, "upfMsgTypeDel")
	n := 0
	for _, c := range datapathCalls(mod, "SendMsgToUPF") {
		if sendMsgMethod(c) != del {
			continue
		}
		n++
		knowsRest := false
		for _, a := range c.Call.Args[1:] {
			s := symOf(a).String()
			if strings.Contains(s, "GetSession#0") || strings.Contains(s, "PFCPSession.PacketForwardingRules") {
				knowsRest = true
			}
		}
		r.check(knowsRest, "R04.11", w.FuncName(mod), "a partial delete tells the datapath which rules of the session remain", w.Pos(c.Pos()), "one argument is the session's remaining rule set", "the delete issued for Remove PDR hands the UP4 plug-in only the removed rules: sendDelete deletes the sessions_uplink / sessions_downlink entry of the removed PDR although other PDRs of the same direction still use it (its key has no PDR ID) — after an accepted Remove PDR of one of two uplink PDRs the session's remaining uplink PDR matches no packet any more")
	}
	r.floor("R04.11 deletes issued by the modification handler", n, 1)
}

// ruleC04AppIDPerPDR (R04.12, re-filed as R17.8): the application ID a PDR's terminations entry is filed
// under is decided for that PDR — the default 0, or the ID obtained for its own filter in the same loop
// iteration. A variable that lives across iterations hands the previous PDR's application ID to a PDR
// without a filter: the default PDR is written under another PDR's key (ALREADY_EXISTS on INSERT, ignored)
// and matches only that application's ports.
func ruleC04AppIDPerPDR(w *World, r *Report, prop, rule string) {
	mod := w.Fn(prop, "pfcpiface.(*UP4).modifyUP4ForwardingConfiguration")
	build := w.Fn(prop, "pfcpiface.(*P4rtTranslator).BuildTerminationsTableEntry")
	idx := -1
	for i, p := range build.Params {
		if p.Name() == "internalAppID" {
			idx = i
		}
	}
	if idx < 0 {
		r.bad(rule, w.FuncName(build), "BuildTerminationsTableEntry takes the application ID as parameter internalAppID", w.Pos(build.Pos()), "no such parameter")
		return
	}
	n := 0
	for _, c := range callsTo(mod, build) {
		call := c.(*ssa.Call)
		n++
		// the loop over PDRs that contains the call
		var hdr *ssa.BasicBlock
		for _, b := range mod.Blocks {
			if b.Dominates(call.Block()) && reachesBlock(call.Block(), b) && b != call.Block() {
				// innermost dominating block that is part of a cycle with the call and has a φ or a range test
				if blockIf(b) != nil && (hdr == nil || hdr.Dominates(b)) {
					isHdr := false
					for _, p := range b.Preds {
						if b.Dominates(p) {
							isHdr = true
						}
					}
					if isHdr {
						hdr = b
					}
				}
			}
		}
		carried := ""
		seen := map[ssa.Value]bool{}
		var walk func(v ssa.Value, d int)
		walk = func(v ssa.Value, d int) {
			if d > 8 || seen[v] || v == nil {
				return
			}
			seen[v] = true
			phi, ok := v.(*ssa.Phi)
			if !ok {
				return
			}
			if hdr != nil && phi.Block() == hdr {
				for k, e := range phi.Edges {
					if hdr.Dominates(hdr.Preds[k]) { // back edge
						if _, isK := constInt(e); !isK {
							carried = symOf(e).String()
						}
					}
				}
				return
			}
			for _, e := range phi.Edges {
				walk(e, d+1)
			}
		}
		walk(call.Call.Args[idx], 0)
		// once the ID of the PDR's own filter was obtained (add: on the success edge; remove: always), no way
		// to the builder may still carry the default: the terminations key is (…, app_id) whether or not an
		// applications entry is written along with it
		if phi, ok := call.Call.Args[idx].(*ssa.Phi); ok {
			for _, name := range []string{"addInternalApplicationIDAndGetP4rtEntry", "removeInternalApplicationIDAndGetP4rtEntry"} {
				g := w.Fn(prop, "pfcpiface.(*UP4)."+name)
				for _, ac := range callsTo(mod, g) {
					ab := ac.(*ssa.Call).Block()
					var from []*ssa.BasicBlock
					if name[0] == 'a' {
						// success edge of the add
						errV := extractOf(ac.(*ssa.Call), 2)
						for _, b := range mod.Blocks {
							for _, sc := range b.Succs {
								if errV != nil && nilnessEdge(b, sc, func(x ssa.Value) bool { return x == errV }, true) {
									from = append(from, sc)
								}
							}
						}
					} else {
						from = []*ssa.BasicBlock{ab}
					}
					var leaf func(v ssa.Value, via *ssa.BasicBlock, d int) bool
					leaf = func(v ssa.Value, via *ssa.BasicBlock, d int) bool {
						if d > 6 {
							return false
						}
						if p2, ok := v.(*ssa.Phi); ok {
							for k, e := range p2.Edges {
								pred := p2.Block().Preds[k]
								for _, fb := range from {
									if pred == fb || (fb.Dominates(pred) && reachesBlock(fb, pred)) || reachesBlockNoHeader(fb, pred, hdr) {
										if leaf(e, pred, d+1) {
											return true
										}
									}
								}
							}
							return false
						}
						_, isK := constInt(v)
						return isK && via != nil
					}
					if leaf(phi, nil, 0) {
						r.bad(rule, w.FuncName(mod), "the terminations entry is filed under the ID "+name+" returned", w.Pos(call.Pos()), "after "+name+" returned the application ID of the PDR's filter, a path to BuildTerminationsTableEntry still passes the default ID 0: the terminations entry is addressed under the wrong key (on DELETE: NOT_FOUND, tolerated — the real entry stays after the session is gone)")
					}
				}
			}
		}
		r.check(hdr != nil && carried == "", rule, w.FuncName(mod), "the application ID of a terminations entry is decided within the PDR's own iteration", w.Pos(call.Pos()), "no loop-carried value", "the application ID passed for a PDR can be the value left by the previous PDR of the request ("+carried+"): a PDR without a filter that follows a filtered PDR is written under that PDR's application ID instead of 0")
	}
	r.floor(rule+" terminations entries built in the PDR loop", n, 1)
}

// reachesBlockNoHeader: b is reachable from a without passing the loop header hdr.
func reachesBlockNoHeader(a, b, hdr *ssa.BasicBlock) bool {
	seen := map[*ssa.BasicBlock]bool{}
	var dfs func(x *ssa.BasicBlock) bool
	dfs = func(x *ssa.BasicBlock) bool {
		if x == b {
			return true
		}
		if seen[x] || x == hdr {
			return false
		}
		seen[x] = true
		for _, s := range x.Succs {
			if dfs(s) {
				return true
			}
		}
		return false
	}
	for _, s := range a.Succs {
		if dfs(s) {
			return true
		}
	}
	return false
}
