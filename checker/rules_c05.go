package main

import (
	"fmt"
	"go/token"
	"go/types"
	"strings"

	"golang.org/x/tools/go/ssa"
)

func init() { rules["C05"] = ruleC05 }

// onEveryPathThrough: every entry→exit path that executes c also executes an instruction
// satisfying x (before or after c).
func onEveryPathThrough(fn *ssa.Function, c ssa.Instruction, x instrPred, cut edgePred) bool {
	// every path to c passes x ...
	before := reach(fn, nil, func(i ssa.Instruction) bool { return i == c }, x, cut) == nil
	if before {
		return true
	}
	// ... or every path from c to an exit passes x
	after := reach(fn, c, isReturn, x, cut) == nil
	return after
}

// noPoolEdge: the edge establishes that the UE IP pool does not exist (nothing to release then).
func noPoolEdge(a, b *ssa.BasicBlock) bool {
	return nilnessEdge(a, b, func(x ssa.Value) bool { return strings.HasSuffix(symOf(x).String(), "upf.ippool") }, true)
}

func ruleC05(w *World, r *Report) {
	const P = "C05"
	r.Explanation = "R05.1 after NewPFCPSession succeeded every exit of the establishment handler either commits the session (store.PutSession) or has passed RemoveSession and the releases of what was acquired; R05.2 at every session-end site (call sites of RemoveSession, derived) every path through the site also removes the session's datapath entries and releases its UE IP and its UP-chosen TEIDs; teardown loops end every stored session on every iteration; " +
		"R05.3 UP4 sendDelete reaches the release of counter cells, both meter cells of each meter kind, tunnel-peer references, application references and UE-address mappings on its success path; R05.4 the session store hands out rule slices that do not share backing arrays with the stored value (a rejected modification cannot edit the stored rules), and RemoveSession pairs the gauge decrement with the store delete under the local SEID."
	r.Explanation += " R05.6 the session copy handed to the deletion paths copies each rule list in full (no fixed-length target), and Remove{PDR,FAR,QER} return the removed rule by value, not a pointer into the list they have shifted. R05.7 UpdatePDR carries the allocation marks of the stored PDR over; R05.8 failing exits of addOrUpdateGTPTunnelPeer give a new peer's ID back effectively; R05.9 the UP4 status filter, interpreted per status × method, tolerates NOT_FOUND on DELETE (shared sessions entry); R05.10 the marks of a PDR removed by a modification are examined; R05.11 the UE address is released under the condition it was allocated under; R05.12 an Update FAR that moves the tunnel drops the reference on the previous peer; R05.13 the rejecting exits of the modification handler after a Create PDR was parsed release the address that parse may have allocated."
	r.Explanation += " R05.14 = C01 R01.J1 (each iteration attaches its rule to the session); R05.15 BESS workers never report false; R05.16 = C04 R04.12 on the DELETE path."
	r.Explanation += " R05.17 = C06 R06.7; R05.18 = C06 R06.6 (a UE address is released only where its session ends); R05.19 releaseCounterID puts the cell back on every path (the counter pool starts at 0)."
	r.NotDecided = "'N attach/detach cycles never exhaust a pool' as arithmetic (a consequence of pairing); releases inside third-party containers"
	cg := w.CG()
	remove := w.Fn(P, "pfcpiface.(*PFCPConn).RemoveSession")
	dealloc := w.Fn(P, "pfcpiface.(*IPPool).DeallocIP")
	freeID := w.Fn(P, "pfcpiface.(*FTEIDGenerator).FreeID")
	mDel := w.ConstInt(P, pfcpPkg, "upfMsgTypeDel")
	reaches := func(target *ssa.Function) instrPred {
		return func(i ssa.Instruction) bool {
			c, ok := i.(ssa.CallInstruction)
			if !ok {
				return false
			}
			if _, isGo := i.(*ssa.Go); isGo {
				return false
			}
			return cg.siteReaches(c, func(f *ssa.Function) bool { return f == target })
		}
	}
	isDelWrite := func(i ssa.Instruction) bool {
		c, ok := i.(*ssa.Call)
		return ok && c.Call.IsInvoke() && c.Call.Method.Name() == "SendMsgToUPF" && sendMsgMethod(c) == mDel
	}
	// freesTEIDs: the instruction gives the session's UP-chosen TEIDs back: a call that reaches FreeID
	// (releaseAllocatedTEIDs), or the same thing written out in place — the entry of a loop over the
	// session's PDR list that visits every PDR and, each way round, either frees or has found the PDR
	// without the UP's allocation mark. (A path that leaves such a loop has freed what there was to free,
	// although it may have passed no FreeID call at all.)
	freesTEIDs := func(f *ssa.Function) instrPred {
		frees := reaches(freeID)
		entries := map[ssa.Instruction]bool{}
		for _, l := range rangeLoopsOver(f, "pdrs") {
			hdr, body := l[0], l[1]
			if len(body.Instrs) == 0 || len(hdr.Instrs) == 0 || len(loopEarlyExits(f, hdr)) != 0 {
				continue
			}
			first := body.Instrs[0]
			unmarked := func(a, b *ssa.BasicBlock) bool {
				v, truth, ok := boolEdge(a, b)
				return ok && !truth && strings.HasSuffix(symOf(v).String(), "UPAllocateFteid")
			}
			round := func(i ssa.Instruction) bool { return (i.Block() == hdr && idxIn(hdr, i) == 0) || isReturn(i) }
			if !frees(first) && reach(f, first, round, frees, unmarked) != nil {
				continue
			}
			any := false
			for b := range naturalLoop(hdr) {
				for _, i := range b.Instrs {
					any = any || frees(i)
				}
			}
			if any {
				entries[hdr.Instrs[0]] = true
			}
		}
		return func(i ssa.Instruction) bool { return entries[i] || frees(i) }
	}

	// ---------- RemoveSession itself
	{
		rn := w.FuncName(remove)
		okGauge, okDelete := false, false
		var delKey string
		allInstrs(remove, func(i ssa.Instruction) {
			c, ok := i.(*ssa.Call)
			if !ok {
				return
			}
			if c.Call.IsInvoke() && c.Call.Method.Name() == "SaveSessions" {
				okGauge = true
			}
			if c.Call.IsInvoke() && c.Call.Method.Name() == "DeleteSession" {
				okDelete = true
				delKey = symOf(c.Call.Args[0]).String()
			}
		})
		r.check(okGauge, "R05.4", rn, "RemoveSession gives the gauge unit back", w.Pos(remove.Pos()), "SaveSessions after Delete()", "RemoveSession no longer updates the sessions gauge")
		r.check(okDelete && delKey == "PFCPSession.localSEID", "R05.4", rn, "RemoveSession deletes the record under the local SEID", w.Pos(remove.Pos()), delKey, "the session record is deleted under "+delKey+" (the store is keyed by the local SEID): the record survives and is torn down again later")
		// metrics.Delete precedes SaveSessions (Duration != 0 ⇒ decrement)
		var delCall, save ssa.Instruction
		allInstrs(remove, func(i ssa.Instruction) {
			if c, ok := i.(*ssa.Call); ok {
				if staticCallee(c) != nil && staticCallee(c).Name() == "Delete" && strings.Contains(ssaFuncFullName(staticCallee(c)), "metrics.Session") {
					delCall = i
				}
				if c.Call.IsInvoke() && c.Call.Method.Name() == "SaveSessions" {
					save = i
				}
			}
		})
		r.check(delCall != nil && save != nil && instrDominates(delCall, save), "R05.4", rn, "the session's metrics are closed before they are saved", w.Pos(remove.Pos()), "Delete() dominates SaveSessions", "SaveSessions runs before metrics.Delete(): the gauge is incremented instead of decremented")
	}
	// store key agreement: Put under localSEID, Delete by the same
	{
		st := w.Fn(P, "pfcpiface.(*InMemoryStore).PutSession")
		allInstrs(st, func(i ssa.Instruction) {
			if c, ok := i.(*ssa.Call); ok && calleeName(c) == "(*sync.Map).Store" {
				ks := symOf(c.Call.Args[1]).String()
				r.check(ks == "PFCPSession.localSEID", "R05.4", w.FuncName(st), "records are stored under the local SEID", w.Pos(c.Pos()), ks, "records stored under "+ks)
			}
		})
	}

	// ---------- R05.2 session-end sites
	nSites := 0
	for _, e := range cg.callersOf(remove) {
		f := e.Caller
		c := e.Site
		fn := w.FuncName(f)
		nSites++
		pos := w.Pos(c.Pos())
		if f.Name() == "handleSessionEstablishmentRequest" || (f.Parent() != nil && f.Parent().Name() == "handleSessionEstablishmentRequest") {
			// a failed establishment: the add was rejected, there is no accepted image to remove
			// (partial UP4 installs on a failed create are the authors' "TODO: revert operations", see R05.3)
			r.ok("R05.2", fn, "failed establishment ends the session without an accepted datapath image", pos, "exempt from the datapath delete")
		} else {
			r.check(onEveryPathThrough(f, c, isDelWrite, nil), "R05.2", fn, "session end removes the datapath entries", pos, "SendMsgToUPF(delete) on every path through the site", "a session is ended without removing its datapath entries")
		}
		r.check(onEveryPathThrough(f, c, reaches(dealloc), noPoolEdge), "R05.2", fn, "session end releases the UE IP", pos, "IPPool.DeallocIP reachable on every path through the site", "a session ends here without giving its UE IP address back to the pool")
		r.check(onEveryPathThrough(f, c, freesTEIDs(f), nil), "R05.2", fn, "session end frees the UP-chosen TEIDs", pos, "FTEIDGenerator.FreeID reachable on every path through the site", "a session ends here without freeing the TEIDs the UP chose for it (FTEIDGenerator.FreeID)")
	}
	r.floor("R05.2 session-end sites (callers of RemoveSession)", nSites, 4)
	// the four ways a session ends are all present
	for _, n := range []string{"handleSessionDeletionRequest", "Shutdown", "handleSessionReportResponse"} {
		f := w.Fn(P, "pfcpiface.(*PFCPConn)."+n)
		if n == "Shutdown" {
			f = w.teardownBody(P)
		}
		r.check(len(callsTo(f, remove)) >= 1, "R05.2", w.FuncName(f), n+" ends sessions through RemoveSession", w.Pos(f.Pos()), "call present", n+" no longer removes the session record / gauge unit")
	}
	// teardown loops: every stored session is ended on every iteration
	{
		sh := w.teardownBody(P)
		sn := w.FuncName(sh)
		loops := rangeLoopsOver(sh, "GetAllSessions()")
		if len(loops) == 0 {
			// the ranged value renders as the invoke; match by callee name
			for _, b := range sh.Blocks {
				ifi := blockIf(b)
				if ifi == nil {
					continue
				}
				if bo, ok := ifi.Cond.(*ssa.BinOp); ok {
					if lc, ok := bo.Y.(*ssa.Call); ok && calleeName(lc) == "builtin.len" && strings.Contains(symOf(lc.Call.Args[0]).String(), "GetAllSessions") {
						loops = append(loops, [2]*ssa.BasicBlock{b, b.Succs[0]})
					}
				}
			}
		}
		r.floor("R05.2 teardown loop over the stored sessions", len(loops), 1)
		for _, l := range loops {
			r.check(everyIteration(sh, l[1], l[0], func(i ssa.Instruction) bool { return isCallTo(i, remove) }), "R05.2", sn, "every stored session is removed when the association ends", w.Pos(sh.Pos()), "RemoveSession on every iteration", "association teardown can skip RemoveSession for some sessions (e.g. when the datapath rejects the delete): record and gauge unit stay forever")
			r.check(everyIteration(sh, l[1], l[0], isDelWrite), "R05.2", sn, "every stored session is deleted from the datapath when the association ends", w.Pos(sh.Pos()), "SendMsgToUPF(delete) on every iteration", "association teardown can skip the datapath delete for some sessions")
			ex := loopEarlyExits(sh, l[0])
			r.check(len(ex) == 0, "R05.2", sn, "the teardown loop visits every session", w.Pos(sh.Pos()), "no early exit", "the teardown loop can stop before the last session")
		}
		// what is deleted: the session's stored rules
		allInstrs(sh, func(i ssa.Instruction) {
			if isDelWrite(i) {
				s := symOf(i.(*ssa.Call).Call.Args[1]).String()
				r.check(strings.Contains(s, "GetAllSessions") && strings.Contains(s, "PacketForwardingRules"), "R05.2", sn, "teardown deletes the stored rules", w.Pos(i.Pos()), trunc80(s), "teardown deletes "+trunc80(s))
			}
		})
	}

	// ---------- R05.1 failing establishment
	{
		est := w.Fn(P, "pfcpiface.(*PFCPConn).handleSessionEstablishmentRequest")
		en := w.FuncName(est)
		newS := w.Fn(P, "pfcpiface.(*PFCPConn).NewPFCPSession")
		var okEdge *ssa.BasicBlock
		for _, c := range callsTo(est, newS) {
			okv := extractOf(c.(*ssa.Call), 1)
			for _, b := range est.Blocks {
				for _, s := range b.Succs {
					if v, truth, ok := boolEdge(b, s); ok && truth && v == okv {
						okEdge = s
					}
				}
			}
		}
		if okEdge == nil || len(okEdge.Instrs) == 0 {
			brokenf(P, "R05.1", "cannot find the success edge of NewPFCPSession in the establishment handler")
		}
		isPut := func(i ssa.Instruction) bool {
			c, ok := i.(*ssa.Call)
			return ok && c.Call.IsInvoke() && c.Call.Method.Name() == "PutSession"
		}
		isRemove := reaches(remove)
		n := 0
		for _, ret := range returnsOf(est) {
			ret := ret
			if reach(est, okEdge.Instrs[0], func(i ssa.Instruction) bool { return i == ssa.Instruction(ret) }, nil, nil) == nil && okEdge.Instrs[0] != ssa.Instruction(ret) {
				continue
			}
			n++
			miss := reach(est, okEdge.Instrs[0], func(i ssa.Instruction) bool { return i == ssa.Instruction(ret) }, func(i ssa.Instruction) bool { return isPut(i) || isRemove(i) }, nil)
			r.check(miss == nil, "R05.1", en, fmt.Sprintf("exit #%d commits the session or gives the gauge unit back", n), w.Pos(ret.Pos()), "PutSession or RemoveSession on every path", "an establishment that fails after NewPFCPSession returns without RemoveSession: the unit taken in the pfcp_sessions gauge is never given back")
			// rejecting exits also release IP and TEIDs acquired so far
			if reach(est, okEdge.Instrs[0], func(i ssa.Instruction) bool { return i == ssa.Instruction(ret) }, isPut, nil) != nil {
				// a path to this exit without PutSession = a rejecting path
				m1 := reach(est, okEdge.Instrs[0], func(i ssa.Instruction) bool { return i == ssa.Instruction(ret) }, func(i ssa.Instruction) bool { return isPut(i) || reaches(dealloc)(i) }, nil)
				r.check(m1 == nil, "R05.1", en, fmt.Sprintf("rejecting exit #%d releases the UE IP acquired while parsing", n), w.Pos(ret.Pos()), "DeallocIP reachable", "a rejected establishment keeps the UE IP address allocated for it")
				m2 := reach(est, okEdge.Instrs[0], func(i ssa.Instruction) bool { return i == ssa.Instruction(ret) }, func(i ssa.Instruction) bool { return isPut(i) || reaches(freeID)(i) }, nil)
				r.check(m2 == nil, "R05.1", en, fmt.Sprintf("rejecting exit #%d frees the TEIDs chosen so far", n), w.Pos(ret.Pos()), "FreeID reachable", "a rejected establishment keeps the TEIDs chosen for it")
			}
		}
		r.floor("R05.1 exits after NewPFCPSession", n, 5)
	}

	ruleC05UP4(w, r)
	ruleC05Alias(w, r)
	// the delete addresses exactly the entries the add installed (same expansion of the same ranges)
	portRuleConsumers(w, r, "R05.2", w.Fn(P, "pfcpiface.CreatePortRangeCartesianProduct"))
	ruleC05Gauge(w, r)
	ruleC05Complete(w, r)
	ruleOwnershipMarksSurvive(w, r, "C05", "R05.7")
	ruleC05TunnelPeerID(w, r)
	ruleC05Residual(w, r, "C05", false)
	// R05.14: the establishment handler attaches every parsed rule to the session in the iteration that parsed it,
	// so that abortSession sees (and gives back) what earlier iterations acquired (C01 R01.J1 re-filed)
	r.withRule("R05.14", func() { ruleC01Secondary(w, r) })
	ruleBessWorkersReportTrue(w, r, "R05.15")
	r.withRule("R05.17", func() { ruleC06SeidEntropy(w, r) })
	ruleCounterAlwaysReleased(w, r, "C05", "R05.19")
	r.withRule("R05.18", func() { ruleC06Release(w, r) })
	// R05.16: the terminations entry of a deleted PDR is addressed under the application ID of its filter (C04 R04.12)
	ruleC04AppIDPerPDR(w, r, "C05", "R05.16")
	// R05.9: the UP4 deletion gets through for a session with several PDRs of one direction
	{
		mod := w.Fn(P, "pfcpiface.(*UP4).modifyUP4ForwardingConfiguration")
		allInstrs(mod, func(i ssa.Instruction) {
			if c, ok := i.(*ssa.Call); ok && staticCallee(c) != nil && staticCallee(c).Name() == "ApplyTableEntries" {
				statusFilterRule(w, r, "R05.9", "gone", mod, c)
			}
		})
	}
	markBothLists(w, r, "R05.4")
}

func ruleC05UP4(w *World, r *Report) {
	const P = "C05"
	up := func(n string) *ssa.Function { return w.Fn(P, "pfcpiface.(*UP4)."+n) }
	del := up("sendDelete")
	dn := w.FuncName(del)
	cg := w.CG()
	for _, x := range []struct{ fn, what string }{
		{"resetMeters", "meter cells"}, {"modifyUP4ForwardingConfiguration", "table entries and application references"},
	} {
		target := up(x.fn)
		for _, ret := range returnsOf(del) {
			if !isNilConst(res(ret, 0)) {
				continue
			}
			miss := mustPass(del, nil, func(i ssa.Instruction) bool { return i == ssa.Instruction(ret) }, func(i ssa.Instruction) bool {
				c, ok := i.(ssa.CallInstruction)
				return ok && cg.siteReaches(c, func(f *ssa.Function) bool { return f == target })
			})
			r.check(miss == nil, "R05.3", dn, "a successful delete releases the "+x.what, w.Pos(ret.Pos()), x.fn+" on the success path", "sendDelete can succeed without releasing the "+x.what)
		}
	}
	// each loop of sendDelete releases for every element
	for _, x := range []struct{ over, fn string }{{"PacketForwardingRules.pdrs", "releaseCounterID"}, {"PacketForwardingRules.fars", "removeGTPTunnelPeer"}, {"PacketForwardingRules.pdrs", "removeUeAddrAndFSEIDMappings"}} {
		target := up(x.fn)
		found := false
		// (one iteration per deleted rule: over the list itself or over a local copy with one slot per rule)
		for _, l := range w.loopsPerElementOf(del, x.over) {
			if everyIteration(del, l[1], l[0], func(i ssa.Instruction) bool { return isCallTo(i, target) }) && len(loopEarlyExits(del, l[0])) == 0 {
				found = true
			}
		}
		r.check(found, "R05.3", dn, x.fn+" for every deleted rule", w.Pos(del.Pos()), "on every iteration, no early exit", x.fn+" is not applied to every deleted rule")
	}
	// resetMeters: both cells of each kind, every QER
	rm := up("resetMeters")
	rn := w.FuncName(rm)
	for _, kind := range []struct {
		rel string
		tag int64
	}{{"releaseAppMeterCellID", w.ConstInt(P, pfcpPkg, "meterTypeApplication")}, {"releaseSessionMeterCellID", w.ConstInt(P, pfcpPkg, "meterTypeSession")}} {
		target := up(kind.rel)
		fields := map[string]bool{}
		for _, c := range callsTo(rm, target) {
			s := symOf(c.Common().Args[1]).String()
			if i := strings.LastIndex(s, "."); i >= 0 {
				fields[s[i+1:]] = true
			}
		}
		r.check(fields["uplinkCellID"] && fields["downlinkCellID"] && len(fields) == 2, "R05.3", rn, kind.rel+" gives back the uplink and the downlink cell", w.Pos(rm.Pos()), fmt.Sprint(sortedKeys(fields)), fmt.Sprintf("%s is applied to %v: a cell of the meter is never returned to its pool", kind.rel, sortedKeys(fields)))
	}
	for _, l := range rangeLoopsOver(rm, "qers") {
		ex := loopEarlyExits(rm, l[0])
		r.check(len(ex) == 0, "R05.3", rn, "every QER's meter is reset", w.Pos(rm.Pos()), "no early exit", "resetMeters can stop before the last QER")
	}
	// the map entry is forgotten after release
	hasDelete := false
	allInstrs(rm, func(i ssa.Instruction) {
		if c, ok := i.(*ssa.Call); ok && calleeName(c) == "builtin.delete" && strings.HasSuffix(symOf(c.Call.Args[0]).String(), "UP4.meters") {
			hasDelete = true
		}
	})
	r.check(hasDelete, "R05.3", rn, "released meters are forgotten", w.Pos(rm.Pos()), "delete(up4.meters, …)", "released meters stay in up4.meters")
	// sendCreate: error exits after the counter allocation give the cells back
	sc := up("sendCreate")
	alloc := up("allocateCounterID")
	rel := up("releaseCounterID")
	for _, ac := range callsTo(sc, alloc) {
		for k, ret := range returnsOf(sc) {
			if isNilConst(res(ret, 0)) {
				continue
			}
			// only exits after the allocation loop finished or inside it after a successful allocation
			if reach(sc, ac.(ssa.Instruction), func(i ssa.Instruction) bool { return i == ssa.Instruction(ret) }, nil, nil) == nil {
				continue
			}
			ev := errResult(ac.(*ssa.Call))
			// exits taken because this very allocation failed have nothing to give back
			if onlyVia(sc, ret, func(a, b *ssa.BasicBlock) bool {
				return nilnessEdge(a, b, func(x ssa.Value) bool { return x == ev }, false)
			}) {
				continue
			}
			miss := reach(sc, ac.(ssa.Instruction), func(i ssa.Instruction) bool { return i == ssa.Instruction(ret) }, func(i ssa.Instruction) bool {
				c, ok := i.(ssa.CallInstruction)
				return ok && w.CG().siteReaches(c, func(f *ssa.Function) bool { return f == rel })
			}, nil)
			r.check(miss == nil, "R05.3", w.FuncName(sc), fmt.Sprintf("failing exit #%d of sendCreate gives the counter cells back", k+1), w.Pos(ret.Pos()), "releaseCounterID on the error path", "sendCreate returns an error after allocating counter cells without releasing them (the establishment is rejected, the cells are lost)")
		}
	}
}

// ruleC05Alias: the store must not hand out slices that share backing arrays with the stored value.
func ruleC05Alias(w *World, r *Report) {
	const P = "C05"
	get := w.Fn(P, "pfcpiface.(*InMemoryStore).GetSession")
	gn := w.FuncName(get)
	// which of pdrs/fars/qers are replaced by fresh slices before the return?
	fresh := map[string]bool{}
	nested := false
	for _, f := range withClosures(get) {
		allInstrs(f, func(i ssa.Instruction) {
			st, ok := i.(*ssa.Store)
			if !ok {
				return
			}
			fa, ok := st.Addr.(*ssa.FieldAddr)
			if !ok || fieldVar(fa) == nil {
				return
			}
			name := fieldVar(fa).Name()
			if name != "pdrs" && name != "fars" && name != "qers" && name != "qerIDList" {
				return
			}
			if isFreshSlice(st.Val) {
				if name == "qerIDList" {
					nested = true
				} else {
					fresh[name] = true
				}
			}
		})
	}
	// a helper may do the copying
	for _, c := range callsIn(get, func(c ssa.CallInstruction) bool { return staticCallee(c) != nil && w.isRepoFunc(staticCallee(c)) }) {
		for _, f := range withClosures(staticCallee(c)) {
			allInstrs(f, func(i ssa.Instruction) {
				st, ok := i.(*ssa.Store)
				if !ok {
					return
				}
				fa, ok := st.Addr.(*ssa.FieldAddr)
				if !ok || fieldVar(fa) == nil {
					return
				}
				name := fieldVar(fa).Name()
				if isFreshSlice(st.Val) {
					if name == "qerIDList" {
						nested = true
					} else if name == "pdrs" || name == "fars" || name == "qers" {
						fresh[name] = true
					}
				}
			})
		}
	}
	all := fresh["pdrs"] && fresh["fars"] && fresh["qers"] && nested
	if all {
		r.ok("R05.4", gn, "GetSession hands out fresh rule slices", w.Pos(get.Pos()), "pdrs, fars, qers and each pdr.qerIDList are copied")
		return
	}
	// otherwise: every in-place writer reached between GetSession and a rejecting exit is a divergence
	mod := w.Fn(P, "pfcpiface.(*PFCPConn).handleSessionModificationRequest")
	mn := w.FuncName(mod)
	writers := []string{"UpdatePDR", "UpdateFAR", "UpdateQER", "RemovePDR", "RemoveFAR", "RemoveQER", "MarkSessionQer", "CreatePDR", "CreateFAR", "CreateQER"}
	isPut := func(i ssa.Instruction) bool {
		c, ok := i.(*ssa.Call)
		return ok && c.Call.IsInvoke() && c.Call.Method.Name() == "PutSession"
	}
	bad := 0
	for _, wn := range writers {
		target := w.Fn(P, "pfcpiface.(*PFCPSession)."+wn)
		for _, c := range callsTo(mod, target) {
			// a return reachable from the writer without passing PutSession = a rejecting exit after an in-place edit
			hit := reach(mod, c.(ssa.Instruction), isReturn, isPut, nil)
			if hit != nil {
				bad++
				if bad <= 1 {
					r.bad("R05.4", gn, "stored rules are not edited before the change is committed", w.Pos(get.Pos()),
						fmt.Sprintf("GetSession returns a struct copy whose pdrs/fars/qers (and each pdr.qerIDList) share backing arrays with the stored session; %s edits them in place (%s at %s) and a rejecting exit is reachable afterwards (%s) without PutSession: the stored rules then differ from what is installed and later deletes use the wrong keys", mn, wn, w.Pos(c.Pos()), w.Pos(hit.Pos())))
				}
			}
		}
	}
	if bad == 0 {
		r.ok("R05.4", gn, "stored rules are not edited before the change is committed", w.Pos(get.Pos()), "no rejecting exit follows an in-place edit")
	}
}

// isFreshSlice: the value is built by make / append(nil-or-empty, …) / a copy into a new slice.
func isFreshSlice(v ssa.Value) bool {
	return isFreshSlice0(v, map[ssa.Value]bool{})
}

func isFreshSlice0(v ssa.Value, seen map[ssa.Value]bool) bool {
	if seen[v] {
		return true // a loop-carried value is as fresh as its other inputs
	}
	seen[v] = true
	isFreshSlice := func(x ssa.Value) bool { return isFreshSlice0(x, seen) }
	switch x := v.(type) {
	case *ssa.MakeSlice:
		return true
	case *ssa.Slice:
		if al, ok := x.X.(*ssa.Alloc); ok && al.Heap {
			return true
		}
		return isFreshSlice(x.X)
	case *ssa.Call:
		if calleeName(x) == "builtin.append" {
			base := x.Call.Args[0]
			if isNilConst(base) {
				return true
			}
			if c, ok := base.(*ssa.Const); ok && c.Value == nil {
				return true
			}
			return isFreshSlice(base)
		}
		if n := calleeName(x); n == "slices.Clone" || strings.HasSuffix(n, "slices.Clone") {
			return true
		}
	case *ssa.Phi:
		for _, e := range x.Edges {
			if !isFreshSlice(e) {
				return false
			}
		}
		return true
	}
	return false
}

// ruleC05Gauge: the sessions gauge takes its unit back when a session ends. SaveSessions decides
// "new" vs "ended" by Duration == 0, so Delete must record the un-rounded lifetime.
func ruleC05Gauge(w *World, r *Report) {
	const P = "C05"
	del := w.Fn(P, "pfcpiface/metrics.(*Session).Delete")
	n := 0
	allInstrs(del, func(i ssa.Instruction) {
		st, ok := i.(*ssa.Store)
		if !ok {
			return
		}
		fa, ok := st.Addr.(*ssa.FieldAddr)
		if !ok || fieldVar(fa) == nil || fieldVar(fa).Name() != "Duration" {
			return
		}
		n++
		s := symOf(st.Val).String()
		r.check(s == "(time.Duration).Seconds(time.Since(Session.CreatedAt))", "R05.5", w.FuncName(del), "an ended session carries its exact lifetime (the gauge tells ended from new by Duration != 0)", w.Pos(st.Pos()), s, "Delete records "+s+": a rounded or truncated lifetime is 0 for a short-lived session (every rejected establishment, an immediate detach), which SaveSessions counts as a NEW session — the gauge goes up instead of down")
	})
	r.floor("R05.5 Duration stores in Session.Delete", n, 1)
	save := w.Fn(P, "pfcpiface/metrics.(*Service).SaveSessions")
	// decision: Duration == 0 → Inc only; otherwise Dec (and Observe)
	incs, decs := 0, 0
	allInstrs(save, func(i ssa.Instruction) {
		c, ok := i.(*ssa.Call)
		if !ok || !c.Call.IsInvoke() {
			return
		}
		zeroEdge := func(want bool) bool {
			return onlyVia(save, c, func(a, b *ssa.BasicBlock) bool {
				x, op, y, ok := edgeFact(a, b)
				if !ok || !strings.HasSuffix(symOf(x).String(), "Session.Duration") {
					return false
				}
				if cst, isC := y.(*ssa.Const); !isC || cst.Value == nil || cst.Value.ExactString() != "0" {
					return false
				}
				return (op == token.EQL) == want
			})
		}
		switch c.Call.Method.Name() {
		case "Inc":
			incs++
			r.check(zeroEdge(true), "R05.5", w.FuncName(save), "the gauge grows only for a new session (Duration == 0)", w.Pos(c.Pos()), "under Duration == 0", "Inc is reachable for an ended session")
		case "Dec":
			decs++
			r.check(zeroEdge(false), "R05.5", w.FuncName(save), "the gauge shrinks for an ended session (Duration != 0)", w.Pos(c.Pos()), "under Duration != 0", "Dec is not what runs for an ended session")
		}
	})
	r.check(incs == 1 && decs == 1, "R05.5", w.FuncName(save), "one Inc and one Dec", w.Pos(save.Pos()), "1/1", fmt.Sprintf("%d Inc / %d Dec", incs, decs))
}

// ruleC05Complete (R05.6): the teardown reclaims the rules it is shown. (a) The copy of a session that the
// store hands to the deletion paths holds every rule of the session: each list is copied in full
// (append to an empty slice, a slice of len(source) filled by copy, slices.Clone) — a fixed-length target
// silently drops the rules beyond it, and they stay installed. (b) Remove{PDR,FAR,QER} return the removed
// rule itself, not a pointer into the list they have just shifted (that pointer shows the next rule, and
// the datapath delete removes the wrong entry).
func ruleC05Complete(w *World, r *Report) {
	const P = "C05"
	clone := w.Fn(P, "pfcpiface.(PacketForwardingRules).clone")
	cn := w.FuncName(clone)
	n := 0
	isLenOfField := func(v ssa.Value, field string) bool {
		c, ok := v.(*ssa.Call)
		return ok && calleeName(c) == "builtin.len" && strings.HasSuffix(symOf(c.Call.Args[0]).String(), "."+field)
	}
	allInstrs(clone, func(i ssa.Instruction) {
		st, ok := i.(*ssa.Store)
		if !ok {
			return
		}
		fa, ok := st.Addr.(*ssa.FieldAddr)
		if !ok || fieldVar(fa) == nil {
			return
		}
		field := fieldVar(fa).Name()
		if field != "pdrs" && field != "fars" && field != "qers" {
			return
		}
		n++
		full, how := false, ""
		switch x := st.Val.(type) {
		case *ssa.Call:
			switch {
			case calleeName(x) == "builtin.append" && len(x.Call.Args) == 2:
				base := x.Call.Args[0]
				empty := isNilConst(base)
				if ms, ok := base.(*ssa.MakeSlice); ok {
					if k, isK := constInt(ms.Len); isK && k == 0 {
						empty = true
					}
				}
				if sl, ok := base.(*ssa.Slice); ok {
					if k, isK := constInt(sl.High); isK && k == 0 {
						if al, ok := sl.X.(*ssa.Alloc); ok && al.Heap {
							empty = true
						}
					}
				}
				if empty && strings.HasSuffix(symOf(x.Call.Args[1]).String(), "."+field) {
					full, how = true, "append(empty, p."+field+"...)"
				}
			case strings.HasSuffix(calleeName(x), "slices.Clone") && strings.HasSuffix(symOf(x.Call.Args[0]).String(), "."+field):
				full, how = true, "slices.Clone(p."+field+")"
			}
		case *ssa.MakeSlice:
			if isLenOfField(x.Len, field) {
				// filled by copy(dst, p.field)
				allInstrs(clone, func(j ssa.Instruction) {
					if c, ok := j.(*ssa.Call); ok && calleeName(c) == "builtin.copy" && strings.HasSuffix(symOf(c.Call.Args[1]).String(), "."+field) {
						full, how = true, "make(len(p."+field+")) + copy"
					}
				})
			}
		}
		r.check(full, "R05.6", cn, "the session copy holds every rule of "+field, w.Pos(st.Pos()), how, "the copy of "+field+" is not a full copy of the stored list ("+symOf(st.Val).String()+"): rules beyond the target's length are dropped from what the deletion paths see, their datapath entries and identifiers are never reclaimed")
	})
	r.floor("R05.6 rule lists copied by clone", n, 3)
	// (b)
	for _, name := range []string{"pfcpiface.(*PFCPSession).RemovePDR", "pfcpiface.(*PFCPSession).RemoveFAR", "pfcpiface.(*PFCPSession).RemoveQER"} {
		f := w.Fn(P, name)
		m := 0
		for _, ret := range returnsOf(f) {
			v := res(ret, 0)
			if isNilConst(v) {
				continue
			}
			m++
			intoList := false
			var walk func(x ssa.Value, d int)
			walk = func(x ssa.Value, d int) {
				if d > 6 {
					return
				}
				switch y := x.(type) {
				case *ssa.IndexAddr:
					intoList = true
				case *ssa.FieldAddr:
					walk(y.X, d+1)
				case *ssa.Phi:
					for _, e := range y.Edges {
						walk(e, d+1)
					}
				}
			}
			walk(v, 0)
			r.check(!intoList, "R05.6", name, "the removed rule is returned by value (a copy)", w.Pos(ret.Pos()), "pointer to a local copy", "the function returns a pointer into the list it has just shifted: after the removal it shows the following rule (or a stale tail element), and the caller deletes that one from the datapath while the removed rule's entry stays")
		}
		r.floor("R05.6 returns of "+name, m, 1)
	}
}

// ruleOwnershipMarksSurvive (R05.7, re-filed as R06.8 and R07.9): what the UPF allocated for a PDR — the
// UE IP (allocIPFlag) and the TEID (UPAllocateFteid) — is given back at session end by looking at these
// two marks on the stored PDRs. An Update PDR does not carry the CHOOSE flags again, so when UpdatePDR
// replaces the stored PDR by the parsed one it has to carry the marks over; otherwise every
// attach / Update PDR / detach cycle leaks an address and a TEID.
func ruleOwnershipMarksSurvive(w *World, r *Report, prop, rule string) {
	upd := w.Fn(prop, "pfcpiface.(*PFCPSession).UpdatePDR")
	un := w.FuncName(upd)
	var elemStore *ssa.Store
	allInstrs(upd, func(i ssa.Instruction) {
		if st, ok := i.(*ssa.Store); ok {
			if ia, ok := st.Addr.(*ssa.IndexAddr); ok && strings.HasSuffix(symOf(ia.X).String(), ".pdrs") {
				elemStore = st
			}
		}
	})
	if elemStore == nil {
		r.trivial(rule, un, "UpdatePDR does not replace the stored PDR wholesale", w.Pos(upd.Pos()), "field-wise update")
		return
	}
	// is v a load of field F of an element of s.pdrs (directly, or of the range copy of it)?
	var elemField func(v ssa.Value, field string, d int) bool
	elemField = func(v ssa.Value, field string, d int) bool {
		if d > 6 || v == nil {
			return false
		}
		switch x := v.(type) {
		case *ssa.UnOp:
			if x.Op == token.MUL {
				if fa, ok := x.X.(*ssa.FieldAddr); ok && fieldVar(fa) != nil && fieldVar(fa).Name() == field {
					s := symOf(fa.X).String()
					if strings.Contains(s, ".pdrs") {
						return true
					}
					// the range copy: a local cell filled from an element of s.pdrs
					if al, ok := fa.X.(*ssa.Alloc); ok {
						for _, st := range storesTo(al) {
							if st.Addr == ssa.Value(al) && strings.Contains(symOf(st.Val).String(), ".pdrs") {
								return true
							}
						}
					}
				}
			}
		case *ssa.Field:
			if st, ok := x.X.Type().Underlying().(*types.Struct); ok && x.Field < st.NumFields() && st.Field(x.Field).Name() == field {
				return strings.Contains(symOf(x.X).String(), ".pdrs")
			}
		case *ssa.BinOp:
			return elemField(x.X, field, d+1) || elemField(x.Y, field, d+1)
		case *ssa.Phi:
			for _, e := range x.Edges {
				if elemField(e, field, d+1) {
					return true
				}
			}
		}
		return false
	}
	for _, field := range []string{"allocIPFlag", "UPAllocateFteid"} {
		kept := false
		allInstrs(upd, func(i ssa.Instruction) {
			st, ok := i.(*ssa.Store)
			if !ok {
				return
			}
			fa, ok := st.Addr.(*ssa.FieldAddr)
			if !ok || fieldVar(fa) == nil || fieldVar(fa).Name() != field {
				return
			}
			if reach(upd, st, func(j ssa.Instruction) bool { return j == ssa.Instruction(elemStore) }, nil, nil) == nil {
				return
			}
			// data dependence, or control dependence on the stored element's mark
			if elemField(st.Val, field, 0) {
				kept = true
				return
			}
			markEdge := func(a, b *ssa.BasicBlock) bool {
				v, truth, ok := boolEdge(a, b)
				return ok && truth && elemField(v, field, 0)
			}
			if onlyVia(upd, st, markEdge) {
				kept = true
			}
			// the same control dependence when the new mark is computed as one expression
			// (`own || (stored && cond)`): an alternative of the value that can set the mark and is
			// taken only under the stored element's mark
			var chosenUnderMark func(v ssa.Value, d int) bool
			chosenUnderMark = func(v ssa.Value, d int) bool {
				phi, ok := v.(*ssa.Phi)
				if !ok || d > 4 {
					return false
				}
				for k, e := range phi.Edges {
					if c, isK := constBool(e); (isK && !c) || k >= len(phi.Block().Preds) {
						continue
					}
					p := phi.Block().Preds[k]
					if markEdge(p, phi.Block()) || (len(p.Instrs) > 0 && onlyVia(upd, p.Instrs[len(p.Instrs)-1], markEdge)) || chosenUnderMark(e, d+1) {
						return true
					}
				}
				return false
			}
			if chosenUnderMark(st.Val, 0) {
				kept = true
			}
		})
		r.check(kept, rule, un, "the stored PDR's "+field+" mark survives an Update PDR", w.Pos(elemStore.Pos()), "carried over before the element is replaced", "UpdatePDR replaces the stored PDR by the parsed one without carrying "+field+" over: an Update PDR does not repeat the CHOOSE flag, so after it the session-end release ("+ifelse(field == "allocIPFlag", "releaseAllocatedIPs", "releaseAllocatedTEIDs")+") no longer sees what was allocated — one "+ifelse(field == "allocIPFlag", "UE address", "TEID")+" leaks per attach / Update PDR / detach cycle until the pool is exhausted")
	}
}

// ruleC05TunnelPeerID (R05.8): a tunnel-peer ID taken for a new peer goes back to the queue when the
// peer cannot be written. unsafeReleaseAllocatedGTPTunnelPeer finds the ID by looking the peer up in
// tunnelPeerIDs, so calling it is an effective release only for a peer that is registered there; for a
// peer that is registered only after a successful write, the error path has to return the ID itself.
func ruleC05TunnelPeerID(w *World, r *Report) {
	const P = "C05"
	f := w.Fn(P, "pfcpiface.(*UP4).addOrUpdateGTPTunnelPeer")
	fn := w.FuncName(f)
	alloc := w.Fn(P, "pfcpiface.(*UP4).unsafeAllocateGTPTunnelPeerID")
	// the release helper is a convenience, not part of what is required: a tree that returns the ID where
	// the helper was called has no helper, and then only the direct returns to the queue count below
	release := w.FnOpt("pfcpiface.(*UP4).unsafeReleaseAllocatedGTPTunnelPeer")
	acs := callsTo(f, alloc)
	if len(acs) != 1 {
		r.bad("R05.8", fn, "one allocation site of a tunnel-peer ID", w.Pos(f.Pos()), fmt.Sprintf("%d allocation calls", len(acs)))
		return
	}
	ac := acs[0].(*ssa.Call)
	appendsPool := func(g *ssa.Function) bool {
		found := false
		allInstrs(g, func(i ssa.Instruction) {
			if st, ok := i.(*ssa.Store); ok {
				if fa, ok := st.Addr.(*ssa.FieldAddr); ok && fieldVar(fa) != nil && fieldVar(fa).Name() == "tunnelPeerIDsPool" {
					if c, ok := st.Val.(*ssa.Call); ok && calleeName(c) == "builtin.append" {
						found = true
					}
				}
			}
		})
		return found
	}
	registeredBefore := func(i ssa.Instruction) bool {
		ok := false
		allInstrs(f, func(j ssa.Instruction) {
			if mu, isMu := j.(*ssa.MapUpdate); isMu && strings.HasSuffix(symOf(mu.Map).String(), "UP4.tunnelPeerIDs") && instrDominates(j, i) {
				ok = true
			}
		})
		return ok
	}
	effective := func(i ssa.Instruction) bool {
		c, ok := i.(ssa.CallInstruction)
		if !ok {
			if st, isSt := i.(*ssa.Store); isSt {
				if fa, ok := st.Addr.(*ssa.FieldAddr); ok && fieldVar(fa) != nil && fieldVar(fa).Name() == "tunnelPeerIDsPool" {
					return true
				}
			}
			return false
		}
		g := staticCallee(c)
		if g == nil {
			return false
		}
		if release != nil && g == release {
			return registeredBefore(i)
		}
		if g.Parent() == f {
			if appendsPool(g) {
				return true
			}
			if release != nil && len(callsTo(g, release)) > 0 {
				return registeredBefore(i)
			}
		}
		return false
	}
	// from the success edge of the allocation
	var start ssa.Instruction
	errV := extractOf(ac, 1)
	for _, b := range f.Blocks {
		for _, sc := range b.Succs {
			if nilnessEdge(b, sc, func(x ssa.Value) bool { return x == errV }, true) && len(sc.Instrs) > 0 {
				start = sc.Instrs[0]
			}
		}
	}
	if start == nil {
		r.bad("R05.8", fn, "the allocation's error is examined", w.Pos(ac.Pos()), "no err == nil edge after unsafeAllocateGTPTunnelPeerID")
		return
	}
	n := 0
	for k, ret := range returnsOf(f) {
		if isNilConst(res(ret, 0)) {
			continue
		}
		if reach(f, start, func(i ssa.Instruction) bool { return i == ssa.Instruction(ret) }, nil, nil) == nil && start != ssa.Instruction(ret) {
			continue
		}
		// a failing exit counts once per failure it reports: one return statement that several fallible
		// steps share (their errors merged into the returned value) stands for as many failing exits
		n += len(failuresReported(res(ret, 0)))
		// after the allocation the peer is known to be new: the "peer existed" arm of any later test on the
		// same lookup is not taken
		newPeer := func(a, b *ssa.BasicBlock) bool {
			v, truth, ok := boolEdge(a, b)
			return ok && truth && strings.Contains(symOf(v).String(), "UP4.tunnelPeerIDs[]#ok")
		}
		miss := reach(f, start, func(i ssa.Instruction) bool { return i == ssa.Instruction(ret) }, effective, newPeer)
		if effective(start) {
			miss = nil
		}
		r.check(miss == nil, "R05.8", fn, fmt.Sprintf("failing exit #%d gives the new tunnel-peer ID back", k+1), w.Pos(ret.Pos()), "ID appended to the queue (or the registered peer released)", "after a failed write the error path calls unsafeReleaseAllocatedGTPTunnelPeer, which looks the peer up in tunnelPeerIDs — where a new peer is registered only after a successful write — and so releases nothing: the ID taken from the queue is lost, and after enough rejected requests no tunnel peer can be created any more")
	}
	r.floor("R05.8 failing exits after the allocation of a tunnel-peer ID", n, 2)
}

// failuresReported: the distinct values other than the nil constant a returned error can be, looking through
// the φs that merge the errors of several steps (at least one: a value that is not a φ is itself).
func failuresReported(v ssa.Value) []ssa.Value {
	var out []ssa.Value
	seen := map[ssa.Value]bool{}
	var walk func(x ssa.Value)
	walk = func(x ssa.Value) {
		if x == nil || seen[x] {
			return
		}
		seen[x] = true
		if phi, ok := x.(*ssa.Phi); ok {
			for _, e := range phi.Edges {
				walk(e)
			}
			return
		}
		if !isNilConst(x) {
			out = append(out, x)
		}
	}
	walk(v)
	if len(out) == 0 {
		out = append(out, v)
	}
	return out
}

// ruleC05Residual: further places where something a session acquired can outlive it (R05.10–R05.12).
func ruleC05Residual(w *World, r *Report, P string, ipOnly bool) {
	mod := w.Fn(P, "pfcpiface.(*PFCPConn).handleSessionModificationRequest")
	mn := w.FuncName(mod)
	// R05.10: a PDR removed by a modification takes its allocation marks with it. The session-end release
	// looks at the marks on the PDRs that are still stored, so what the UPF allocated for the removed PDR
	// (its TEID; the session's UE address when it was the marked PDR) is either released when the removal
	// is accepted or kept track of some other way — the removed PDR's marks must at least be looked at.
	{
		rm := w.Fn(P, "pfcpiface.(*PFCPSession).RemovePDR")
		n := 0
		for _, c := range callsTo(mod, rm) {
			n++
			call := c.(*ssa.Call)
			removed := extractOf(call, 0)
			looked := false
			if removed != nil {
				seen := map[ssa.Value]bool{}
				var follow func(v ssa.Value, d int)
				follow = func(v ssa.Value, d int) {
					if v == nil || d > 6 || seen[v] || v.Referrers() == nil {
						return
					}
					seen[v] = true
					for _, ref := range *v.Referrers() {
						switch x := ref.(type) {
						case *ssa.FieldAddr:
							if fv := fieldVar(x); fv != nil && (fv.Name() == "UPAllocateFteid" || fv.Name() == "allocIPFlag") {
								looked = true
							}
						case *ssa.Field:
							if st, ok := x.X.Type().Underlying().(*types.Struct); ok && x.Field < st.NumFields() {
								if nm := st.Field(x.Field).Name(); nm == "UPAllocateFteid" || nm == "allocIPFlag" {
									looked = true
								}
							}
						case *ssa.UnOp:
							follow(x, d+1)
						case *ssa.Phi:
							follow(x, d+1)
						case ssa.CallInstruction:
							if g := staticCallee(x); g != nil && (g.Name() == "releaseAllocatedTEIDs" || g.Name() == "FreeID" || g.Name() == "DeallocIP") {
								looked = true
							}
						}
					}
				}
				follow(removed, 0)
			}
			r.check(looked, "R05.10", mn, "what the UPF allocated for a removed PDR is accounted for", w.Pos(call.Pos()), "the removed PDR's allocation marks are examined", "Remove PDR drops the PDR together with its UPAllocateFteid / allocIPFlag marks and nothing looks at them: the TEID the UPF chose for it (and the session's UE address, if this was the marked PDR) is never given back, not even when the session ends")
		}
		r.floor("R05.10 RemovePDR call sites in the modification handler", n, 1)
	}
	// R05.11: the release condition of the UE address is the allocation mark and nothing else. The address is
	// allocated by SEID for any PDR that carries CHV4 (and the mark survives an Update PDR that carries no
	// address at all), so once a marked PDR is found the address goes back — whatever the PDR's interface,
	// whatever its ueAddress field holds.
	{
		rel := w.Fn(P, "pfcpiface.releaseAllocatedIPs")
		n := 0
		okAll := true
		var at token.Pos
		for _, b := range rel.Blocks {
			for _, sc := range b.Succs {
				v, truth, ok := boolEdge(b, sc)
				if !ok || !truth || !(strings.HasSuffix(symOf(v).String(), ".allocIPFlag") || loadsField(v, "allocIPFlag")) || len(sc.Instrs) == 0 {
					continue
				}
				n++
				first := sc.Instrs[0]
				isDealloc := func(i ssa.Instruction) bool {
					c, ok := i.(ssa.CallInstruction)
					return ok && staticCallee(c) != nil && staticCallee(c).Name() == "DeallocIP"
				}
				if isDealloc(first) {
					continue
				}
				if miss := reach(rel, first, isReturn, isDealloc, nil); miss != nil {
					okAll = false
					at = miss.Pos()
				}
			}
		}
		if !at.IsValid() {
			at = rel.Pos()
		}
		r.check(okAll && n > 0, "R05.11", w.FuncName(rel), "the UE address is released under the condition it was allocated under", w.Pos(at), "a marked PDR always leads to DeallocIP", ifelse(n == 0, "releaseAllocatedIPs no longer looks at allocIPFlag", "after a PDR with allocIPFlag was found, releaseAllocatedIPs can still return without DeallocIP (a further condition on the PDR — its interface, its ueAddress field — narrows the release): the address was allocated by SEID for any marked PDR, and the mark survives an Update PDR that carries no address, so such a session's address is never given back"))
	}
	// R05.13: parsePDR allocates the session's UE address while parsing a Create PDR with CHV4. The
	// establishment handler gives it back when the request is refused (abortSession); the modification
	// handler has to do the same for an address that was allocated by this very request — a refused
	// modification stores nothing, so no stored PDR carries the mark and the session-end release never
	// sees the address.
	{
		parse := w.Fn(P, "pfcpiface.(*pdr).parsePDR")
		n, leaking := 0, 0
		var firstRet *ssa.Return
		for _, c := range callsTo(mod, parse) {
			call := c.(ssa.Instruction)
			// only Create PDR parses (the loop over smreq.CreatePDR)
			if !strings.Contains(symOf(c.Common().Args[1]).String(), "CreatePDR") {
				continue
			}
			n++
			for _, ret := range returnsOf(mod) {
				if len(ret.Results) < 2 || isNilConst(res(ret, 1)) {
					continue
				}
				if reach(mod, call, func(i ssa.Instruction) bool { return i == ssa.Instruction(ret) }, nil, nil) == nil {
					continue
				}
				miss := reach(mod, call, func(i ssa.Instruction) bool { return i == ssa.Instruction(ret) }, func(i ssa.Instruction) bool {
					ci, ok := i.(ssa.CallInstruction)
					if !ok {
						return false
					}
					g := staticCallee(ci)
					if g == nil {
						return false
					}
					if g.Name() == "DeallocIP" || g.Name() == "releaseAllocatedIPs" || g.Name() == "abortSession" {
						return true
					}
					for _, cc := range withClosures(g) {
						if g.Parent() == mod && len(callsIn(cc, func(x ssa.CallInstruction) bool {
							return staticCallee(x) != nil && (staticCallee(x).Name() == "DeallocIP" || staticCallee(x).Name() == "releaseAllocatedIPs")
						})) > 0 {
							return true
						}
					}
					return false
				}, nil)
				if miss != nil {
					leaking++
					if firstRet == nil {
						firstRet = ret
					}
				}
			}
		}
		if n > 0 {
			pos := w.Pos(mod.Pos())
			if firstRet != nil {
				pos = w.Pos(firstRet.Pos())
			}
			r.check(leaking == 0, "R05.13", mn, "a refused modification gives back the address its Create PDRs allocated", pos, "release on the rejecting exits", fmt.Sprintf("%d rejecting exit(s) of the modification handler are reachable after a Create PDR was parsed (parsePDR allocates the UE address for CHV4) without releasing it: the refused request stores nothing, no stored PDR carries the mark, and the address stays allocated after the session is deleted", leaking))
		}
	}
	if ipOnly {
		return
	}
	// R05.12: a session's reference on a GTP tunnel peer moves with its FAR. When an Update FAR points the
	// tunnel at another peer, the reference on the previous peer is dropped (removeGTPTunnelPeer with the
	// old FAR) — otherwise the previous peer keeps a reference of a session that no longer uses it, and the
	// peer and its ID are never released.
	{
		upd := w.Fn(P, "pfcpiface.(*UP4).sendUpdate")
		rm := w.Fn(P, "pfcpiface.(*UP4).removeGTPTunnelPeer")
		reach := w.CG().Reachable([]*ssa.Function{upd}, func(e *Edge) bool { return e.Kind != "go" })[rm]
		r.check(reach, "R05.12", w.FuncName(upd), "an Update FAR that changes the tunnel drops the reference on the previous tunnel peer", w.Pos(upd.Pos()), "removeGTPTunnelPeer reachable from sendUpdate", "sendUpdate adds the session's reference to the new tunnel peer (addOrUpdateGTPTunnelPeer) but nothing on the modification path removes it from the previous one: after a hand-over the old peer keeps {F-SEID, FAR ID} in usedBy for ever, the Session Deletion only dereferences the current peer, and the old peer's entry and ID are never released")
	}
}

// ruleBessWorkersReportTrue (R05.15, re-filed as R03.13): SendMsgToUPF on BESS starts one worker per rule,
// joins them with GRPCJoin and cancels their shared context when the join returns; its result is ignored
// and the request is answered "accepted" either way. GRPCJoin returns at the first `false` it receives —
// so a worker that reports `false` (to "fail fast") makes the join return while the other workers are
// still writing, the deferred cancel aborts their writes, and the rules they were deleting (adding) stay
// (are missing) although the request was accepted. Workers only ever report true, or nothing.
func ruleBessWorkersReportTrue(w *World, r *Report, rule string) {
	n := 0
	for _, f := range w.Funcs {
		root := f
		for root.Parent() != nil {
			root = root.Parent()
		}
		if !strings.HasPrefix(w.FuncName(root), "pfcpiface.(*bess).") {
			continue
		}
		allInstrs(f, func(i ssa.Instruction) {
			s, ok := i.(*ssa.Send)
			if !ok {
				return
			}
			if ct, ok := s.Chan.Type().Underlying().(*types.Chan); !ok || ct.Elem().Underlying().String() != "bool" {
				return
			}
			if !strings.Contains(symOf(throughFreeVar(s.Chan)).String(), "done") {
				return
			}
			n++
			v, isK := constBool(s.X)
			r.check(isK && v, rule, w.FuncName(f), "a BESS worker reports completion, never failure", w.Pos(s.Pos()), "done <- true", "the worker sends "+valueText(s.X)+" on done: GRPCJoin returns at the first false, the deferred cancel of the shared context aborts the writes of the request's other workers, and the request is still answered 'accepted' — the rules those workers were deleting stay in BESS after the session is gone")
		})
	}
	r.floor(rule+" completion signals of BESS workers", n, 5)
}
