package main

import (
	"fmt"
	"go/token"
	"go/types"
	"strings"

	"golang.org/x/tools/go/ssa"
)

func init() { rules["C06"] = ruleC06 }

// guardedBy checks LK.guard: every access to owner.{fields} outside the constructor of a fresh
// object holds owner.<mutex> (exclusive for writes). Returns the number of accesses examined.
func guardedBy(w *World, r *Report, rule, owner string, fields map[string]bool, mutex string, skip ...func(fieldAccess) bool) int {
	la := w.Locks()
	n := 0
	for _, a := range w.accessesOf(map[string]bool{owner: true}) {
		if !fields[a.fld.Name()] || a.fresh {
			continue
		}
		if len(skip) > 0 && skip[0](a) {
			continue
		}
		n++
		held := la.heldAt[a.ins]
		mode := 0
		for mu, m := range held {
			if mu.Name() == mutex && muOwner(w, mu) == owner {
				mode = m
			}
		}
		need := modeR
		if a.write {
			need = modeW
		}
		fn := w.FuncName(a.fn)
		construct := fmt.Sprintf("%s of %s.%s #%d", a.what, owner, a.path, ordinalIn(a.fn, a.ins))
		switch {
		case mode >= need:
			r.ok(rule, fn, construct, w.Pos(a.ins.Pos()), "holds "+mutex+ifelse(mode == modeR, " (shared)", ""))
		case mode == modeR:
			r.bad(rule, fn, construct, w.Pos(a.ins.Pos()), fmt.Sprintf("%s.%s is written (%s) while %s is only read-locked", owner, a.path, a.what, mutex))
		default:
			r.bad(rule, fn, construct, w.Pos(a.ins.Pos()), fmt.Sprintf("%s.%s is accessed (%s) without holding %s (lockset %s)", owner, a.path, a.what, mutex, held))
		}
		// the lock taken in this function is the receiver's own
		allInstrs(a.fn, func(i ssa.Instruction) {
			c, ok := i.(*ssa.Call)
			if !ok {
				return
			}
			if op, mu, base, ok := lockOp(c); ok && (op == "Lock" || op == "RLock") && mu.Name() == mutex && muOwner(w, mu) == owner {
				if !sameRoot(base, a.base) {
					r.bad(rule, fn, "lock and access on the same object ("+construct+")", w.Pos(c.Pos()), "the mutex locked belongs to a different object than the one accessed")
				}
			}
		})
	}
	return n
}

func muOwner(w *World, mu *types.Var) string {
	for _, sp := range w.SSAPkgs {
		for _, mem := range sp.Members {
			t, ok := mem.(*ssa.Type)
			if !ok {
				continue
			}
			st, ok := t.Type().Underlying().(*types.Struct)
			if !ok {
				continue
			}
			for i := 0; i < st.NumFields(); i++ {
				if st.Field(i) == mu {
					return t.Name()
				}
			}
		}
	}
	return ""
}

func sameRoot(a, b ssa.Value) bool {
	root := func(v ssa.Value) ssa.Value {
		for i := 0; i < 6; i++ {
			switch x := v.(type) {
			case *ssa.FieldAddr:
				v = x.X
			case *ssa.UnOp:
				v = x.X
			case *ssa.Alloc:
				// a parameter spilled to a cell because a function literal captures it
				if st := singleStore(x); st != nil && st.Addr == ssa.Value(x) {
					v = st.Val
				} else {
					return v
				}
			default:
				return v
			}
		}
		return v
	}
	return root(a) == root(b)
}

// ordinalIn: position-independent ordinal of an instruction among the instructions of its kind.
func ordinalIn(f *ssa.Function, ins ssa.Instruction) int {
	n := 0
	found := 0
	allInstrs(f, func(i ssa.Instruction) {
		if fmt.Sprintf("%T", i) == fmt.Sprintf("%T", ins) {
			n++
			if i == ins {
				found = n
			}
		}
	})
	return found
}

// derivesFrom: is src among the transitive SSA operands of v?
func derivesFrom(v, src ssa.Value, depth int, seen map[ssa.Value]bool) bool {
	if v == nil || depth > 14 || seen[v] {
		return false
	}
	if v == src {
		return true
	}
	seen[v] = true
	ins, ok := v.(ssa.Instruction)
	if !ok {
		return false
	}
	// loads of a local cell: follow the stores
	if u, isU := v.(*ssa.UnOp); isU && u.Op == token.MUL {
		if cell := cellOf(u.X); cell != nil {
			for _, st := range storesTo(cell) {
				if derivesFrom(st.Val, src, depth+1, seen) {
					return true
				}
			}
		}
	}
	for _, op := range ins.Operands(nil) {
		if *op != nil && derivesFrom(*op, src, depth+1, seen) {
			return true
		}
	}
	return false
}

// atomicSections checks LK.atomic in f for the state guarded by mutex `mutex` of `owner`:
// a guarded write that depends (data or control) on a guarded read of field F made in an earlier
// critical section must re-read F in its own section.
func atomicSections(w *World, r *Report, rule string, f *ssa.Function, owner string, fields map[string]bool, mutex string) int {
	fn := w.FuncName(f)
	var reads, writes []fieldAccess
	for _, a := range w.accessesOf(map[string]bool{owner: true}) {
		if a.fn != f || !fields[a.fld.Name()] || a.fresh {
			continue
		}
		if a.write {
			writes = append(writes, a)
		} else if a.what != "load" {
			reads = append(reads, a)
		} else {
			// a plain load of the container header only matters through its container uses
			if _, isC := a.ins.(ssa.Value).Type().Underlying().(*types.Map); isC {
				continue
			}
			if _, isS := a.ins.(ssa.Value).Type().Underlying().(*types.Slice); isS {
				continue
			}
			reads = append(reads, a)
		}
	}
	isUnlock := func(i ssa.Instruction) bool {
		c, ok := i.(*ssa.Call)
		if !ok {
			return false
		}
		op, mu, _, ok := lockOp(c)
		return ok && (op == "Unlock" || op == "RUnlock") && mu.Name() == mutex
	}
	var unlocks []ssa.Instruction
	allInstrs(f, func(i ssa.Instruction) {
		if isUnlock(i) {
			unlocks = append(unlocks, i)
		}
	})
	n := 0
	// an exclusive lock held by every caller around the whole function serialises its executions:
	// its critical sections cannot interleave with those of another caller
	outer := ""
	if ent, ok := w.Locks().entry[f]; ok && !ent.top {
		for mu, m := range ent.held {
			if m == modeW && mu.Name() != mutex {
				outer = mu.Name()
			}
		}
	}
	for _, wr := range writes {
		if outer != "" {
			n++
			r.ok(rule, fn, fmt.Sprintf("%s of %s.%s #%d decided inside its own critical section", wr.what, owner, wr.path, ordinalIn(f, wr.ins)), w.Pos(wr.ins.Pos()), "every caller holds "+outer+" around the whole function: executions are serialised")
			continue
		}
		stale := map[string]fieldAccess{}
		fresh := map[string]bool{}
		for _, rd := range reads {
			rv, isVal := rd.ins.(ssa.Value)
			if !isVal {
				continue
			}
			if rd.ins.Block() != wr.ins.Block() && reach(f, rd.ins, func(i ssa.Instruction) bool { return i == wr.ins }, nil, nil) == nil {
				continue
			}
			if rd.ins.Block() == wr.ins.Block() && idxIn(rd.ins.Block(), rd.ins) > idxIn(wr.ins.Block(), wr.ins) {
				continue
			}
			// does an unlock lie between the read and the write?
			crossed := false
			for _, u := range unlocks {
				ru := reach(f, rd.ins, func(i ssa.Instruction) bool { return i == u }, nil, nil) != nil
				uw := reach(f, u, func(i ssa.Instruction) bool { return i == wr.ins }, nil, nil) != nil
				if ru && uw {
					crossed = true
				}
			}
			if !crossed {
				fresh[rd.fld.Name()] = true
				continue
			}
			// dependence
			dep := false
			for _, op := range wr.ins.Operands(nil) {
				if *op != nil && derivesFrom(*op, rv, 0, map[ssa.Value]bool{}) {
					dep = true
				}
			}
			for _, b := range f.Blocks {
				ifi := blockIf(b)
				if ifi == nil || !derivesFrom(ifi.Cond, rv, 0, map[ssa.Value]bool{}) {
					continue
				}
				r0 := blockReaches(f, b.Succs[0], wr.ins)
				r1 := blockReaches(f, b.Succs[1], wr.ins)
				if r0 != r1 {
					dep = true
				}
			}
			if dep {
				stale[rd.fld.Name()] = rd
			}
		}
		n++
		construct := fmt.Sprintf("%s of %s.%s #%d decided inside its own critical section", wr.what, owner, wr.path, ordinalIn(f, wr.ins))
		bad := ""
		for fld, rd := range stale {
			if !fresh[fld] {
				bad = fmt.Sprintf("the %s of %s.%s depends on the %s of %s.%s at %s, but %s is released in between and %s is not read again before the write: two callers can both pass the check and both act (check-then-act)", wr.what, owner, wr.path, rd.what, owner, fld, w.Pos(rd.ins.Pos()), mutex, fld)
			}
		}
		r.check(bad == "", rule, fn, construct, w.Pos(wr.ins.Pos()), "deciding reads are in the same section", bad)
	}
	return n
}

func ruleC06(w *World, r *Report) {
	const P = "C06"
	r.Explanation = "R06.1 must-lockset: every access to IPPool.freePool / IPPool.inventory (outside the constructor's fresh object) holds IPPool.mu, exclusively for writes, and the mutex is the accessed object's own; LK.balanced for the pool's methods; R06.2 atomic sections: a pool write that depends on a pool read made under an earlier acquisition re-reads that field (no check-then-act across an unlock); R06.3 encapsulation: pool state is touched only by IPPool's methods and NewIPPool, upf.ippool is assigned once at start-up; " +
		"R06.4 constructor shape: the list is the ordered, complete enumeration of the CIDR (start ip.Mask(mask), while Contains, inc) of private copies, a size check dominates the trim, the stored pool is list[1:len-1] (first = network, last = broadcast); LookupOrAllocIP: sticky (inventory hit returns it), refusal only on an empty pool, dequeues the head and records it under the same key, hands out a copy; DeallocIP returns exactly the session's recorded address and forgets it; " +
		"R06.5 allocation trigger table (needAllocIP over all 256 flag values) and its use; R06.6 the deletion handler releases the address only after the datapath delete was accepted."
	r.Explanation += " R06.7 the per-connection local-SEID generator is seeded from a source that differs between connections created together (nanosecond clock / crypto), because the shared pool is keyed by local SEID. R06.8 conservation across modifications: C05 R05.7, R05.10, R05.11 re-filed."
	r.Explanation += " R06.9 every site that removes a session record releases the session's address on every path through it."
	r.NotDecided = "in-range / exclusive / conserved as invariants over the runtime contents of the two containers (they follow from R06.1–R06.4 by an induction this checker does not mechanise); the carry arithmetic of inc()"

	pool := map[string]bool{"freePool": true, "inventory": true}
	n := guardedBy(w, r, "R06.1", "IPPool", pool, "mu")
	r.floor("R06.1 pool accesses", n, 12)
	la := w.Locks()
	methods := []string{"pfcpiface.(*IPPool).LookupOrAllocIP", "pfcpiface.(*IPPool).DeallocIP", "pfcpiface.(*IPPool).String"}
	for _, m := range methods {
		f := w.Fn(P, m)
		bad := la.exitBad[f]
		r.check(len(bad) == 0, "R06.1", m, "returns with the lockset it was entered with", w.Pos(f.Pos()), "balanced", "unbalanced locking: "+strings.Join(bad, "; "))
		// exactly one acquisition that covers the whole body
		atomicSections(w, r, "R06.2", f, "IPPool", pool, "mu")
	}
	// R06.3 encapsulation
	{
		allowed := map[string]bool{"pfcpiface.NewIPPool": true}
		for _, m := range methods {
			allowed[m] = true
		}
		cnt := 0
		for _, a := range w.accessesOf(map[string]bool{"IPPool": true}) {
			cnt++
			fn := w.FuncName(a.fn)
			r.check(allowed[fn], "R06.3", fn, "IPPool."+a.path+" is touched only by the pool's own operations", w.Pos(a.ins.Pos()), "pool method", "IPPool."+a.path+" is accessed from "+fn)
		}
		r.floor("R06.3 pool field accesses", cnt, 12)
		// the pool object is assigned once, at start-up
		for _, a := range w.accessesOf(map[string]bool{"upf": true}) {
			if a.fld.Name() != "ippool" || !a.write {
				continue
			}
			fn := w.FuncName(a.fn)
			r.check(fn == "pfcpiface.NewUPF", "R06.3", fn, "upf.ippool is assigned only while the UPF object is built", w.Pos(a.ins.Pos()), "NewUPF", "upf.ippool is replaced in "+fn+": addresses handed out by the old pool are forgotten")
		}
	}
	ruleC06Ctor(w, r)
	ruleC06Ops(w, r)
	ruleC06Trigger(w, r)
	ruleC06Release(w, r)
	ruleC06SeidEntropy(w, r)
	ruleC06SessionEnds(w, r)
	// R06.8 "conserved": the address a session was given goes back to the pool when the session ends, whatever
	// modifications preceded (shared with C05 R05.7, R05.10, R05.11)
	r.withRule("R06.8", func() {
		ruleOwnershipMarksSurvive(w, r, "C06", "R05.7")
		ruleC05Residual(w, r, "C06", true)
	})
}

func ruleC06Ctor(w *World, r *Report) {
	const P = "C06"
	f := w.Fn(P, "pfcpiface.NewIPPool")
	fn := w.FuncName(f)
	inc := w.Fn(P, "pfcpiface.inc")
	// the enumeration loop
	var contains *ssa.Call
	allInstrs(f, func(i ssa.Instruction) {
		if c, ok := i.(*ssa.Call); ok && calleeName(c) == "(*net.IPNet).Contains" {
			contains = c
		}
	})
	if contains == nil {
		r.bad("R06.4", fn, "the list enumerates the CIDR", w.Pos(f.Pos()), "no ipnet.Contains loop in NewIPPool")
		return
	}
	hdr := contains.Block()
	ifi := blockIf(hdr)
	isLoopCond := ifi != nil && ifi.Cond == ssa.Value(contains) && reachesBlock(hdr.Succs[0], hdr)
	r.check(isLoopCond, "R06.4", fn, "enumeration continues while the network contains the cursor", w.Pos(contains.Pos()), "for …; ipnet.Contains(ip); …", "the Contains test does not control the enumeration loop")
	cursor := contains.Call.Args[1]
	// cursor starts at ip.Mask(ipnet.Mask) of the parsed CIDR
	cs := symOf(cursor).String()
	r.check(strings.Contains(cs, "(net.IP).Mask(") && strings.Contains(cs, "ParseCIDR#0(") && strings.Contains(cs, "ParseCIDR#1(") && strings.Contains(cs, ".Mask"), "R06.4", fn, "the cursor starts at the network address (ip.Mask(ipnet.Mask))", w.Pos(contains.Pos()), cs, "the cursor starts at "+cs)
	// every iteration: append a private copy, then inc(cursor)
	body := hdr.Succs[0]
	var app *ssa.Call
	var incCall *ssa.Call
	allInstrs(f, func(i ssa.Instruction) {
		c, ok := i.(*ssa.Call)
		if !ok {
			return
		}
		if b, isB := c.Call.Value.(*ssa.Builtin); isB && b.Name() == "append" && hdr.Dominates(c.Block()) && reachesBlock(c.Block(), hdr) {
			app = c
		}
		if staticCallee(c) == inc && reachesBlock(c.Block(), hdr) {
			incCall = c
		}
	})
	if app == nil || incCall == nil {
		r.bad("R06.4", fn, "each step records the cursor and advances it", w.Pos(f.Pos()), "append or inc missing from the enumeration loop")
		return
	}
	r.check(everyIteration(f, body, hdr, func(i ssa.Instruction) bool { return i == ssa.Instruction(app) }) && everyIteration(f, body, hdr, func(i ssa.Instruction) bool { return i == ssa.Instruction(incCall) }), "R06.4", fn, "every address of the CIDR is recorded (no skipped step)", w.Pos(app.Pos()), "append and inc on every iteration", "some iterations skip the append (or the inc): the list is no longer the complete ordered enumeration, so first/last need not be network/broadcast")
	r.check(incCall.Call.Args[0] == cursor && instrBefore(app, incCall), "R06.4", fn, "the cursor is recorded before it is advanced", w.Pos(incCall.Pos()), "append; inc(ip)", "inc is applied to something else or before the append")
	// appended element: fresh make + copy(cursor)
	elemOK := false
	if cell := appendElemCell(app.Call.Args[1]); cell != nil {
		for _, st := range storesTo(cell) {
			_ = st
		}
	}
	{
		// find the make whose copy source is the cursor and which is stored into the varargs array
		allInstrs(f, func(i ssa.Instruction) {
			c, ok := i.(*ssa.Call)
			if !ok {
				return
			}
			if b, isB := c.Call.Value.(*ssa.Builtin); isB && b.Name() == "copy" && c.Call.Args[1] == cursor {
				if mk, isMk := c.Call.Args[0].(*ssa.MakeSlice); isMk && appendedIs(app, mk) {
					elemOK = true
				}
			}
		})
	}
	r.check(elemOK, "R06.4", fn, "each recorded address is a private copy of the cursor", w.Pos(app.Pos()), "make + copy", "the cursor slice itself is appended: inc() then changes every recorded address")
	// size check dominates the trim; trim = [1:len-1]
	var trim *ssa.Slice
	var trimStore *ssa.Store
	allInstrs(f, func(i ssa.Instruction) {
		st, ok := i.(*ssa.Store)
		if !ok {
			return
		}
		fa, ok := st.Addr.(*ssa.FieldAddr)
		if !ok || fieldVar(fa) == nil || fieldVar(fa).Name() != "freePool" {
			return
		}
		if sl, ok := st.Val.(*ssa.Slice); ok {
			trim, trimStore = sl, st
		}
	})
	if trim == nil {
		r.bad("R06.4", fn, "network and broadcast address are trimmed", w.Pos(f.Pos()), "NewIPPool no longer stores list[1:len-1]: the first (network) and last (broadcast) element of the enumeration stay in the pool, or are removed by a computation this rule cannot follow")
		return
	}
	// "the list" is what the enumeration's append extends: the pool field itself, read back on every step
	// (`p.freePool = append(p.freePool, ip)`), or a local that starts empty and is carried round the loop —
	// in SSA the φ of the loop header, whose value once the loop is left is the complete enumeration.
	isList := func(v ssa.Value) bool { return loadsField(v, "freePool") }
	if acc, ok := app.Call.Args[0].(*ssa.Phi); ok && acc.Block() == hdr {
		carried := true
		for k, e := range acc.Edges {
			fromLoop := hdr.Dominates(hdr.Preds[k]) // a back edge; the other edges enter the loop
			switch {
			case fromLoop && e == ssa.Value(app):
			case !fromLoop && isEmptyList(e):
			default:
				carried = false
			}
		}
		if carried {
			isList = func(v ssa.Value) bool { return v == ssa.Value(acc) }
		}
	}
	lo, loK := constInt(trim.Low)
	hiOK := false
	if bo, ok := trim.High.(*ssa.BinOp); ok && bo.Op == token.SUB {
		if k, isK := constInt(bo.Y); isK && k == 1 {
			if c, ok := bo.X.(*ssa.Call); ok {
				if b, isB := c.Call.Value.(*ssa.Builtin); isB && b.Name() == "len" && isList(c.Call.Args[0]) {
					hiOK = true
				}
			}
		}
	}
	r.check(loK && lo == 1 && hiOK && isList(trim.X), "R06.4", fn, "the pool is list[1 : len-1]", w.Pos(trim.Pos()), "drops first and last", "the trim is not [1:len-1] of the enumerated list")
	g := onlyVia(f, trimStore, func(a, b *ssa.BasicBlock) bool {
		x, op, y, ok := edgeFact(a, b)
		if !ok {
			return false
		}
		k, isK := constInt(y)
		c, isC := x.(*ssa.Call)
		if !isK || !isC {
			return false
		}
		bi, isB := c.Call.Value.(*ssa.Builtin)
		if !isB || bi.Name() != "len" {
			return false
		}
		return (op == token.GEQ && k >= 2) || (op == token.GTR && k >= 1)
	})
	r.check(g, "R06.4", fn, "the trim happens only for lists of at least two addresses", w.Pos(trimStore.Pos()), "under len ≥ 2", "the size check no longer dominates the trim (slice bounds out of range for /32)")
	// nothing is stored to freePool after the trim, and the trimmed pool is what is returned
	later := reach(f, trimStore, func(i ssa.Instruction) bool {
		st, ok := i.(*ssa.Store)
		if !ok || st == trimStore {
			return false
		}
		fa, ok := st.Addr.(*ssa.FieldAddr)
		return ok && fieldVar(fa) != nil && fieldVar(fa).Name() == "freePool"
	}, nil, nil)
	r.check(later == nil, "R06.4", fn, "the trimmed list is the pool", w.Pos(trimStore.Pos()), "last store", "freePool is overwritten after the trim")
	for _, ret := range returnsOf(f) {
		if isNilConst(res(ret, 1)) {
			r.check(instrDominates(trimStore, ret), "R06.4", fn, "a pool is returned only after the trim", w.Pos(ret.Pos()), "dominated", "a pool can be returned untrimmed")
		}
	}
}

// isEmptyList: a nil slice or a make of length 0.
func isEmptyList(v ssa.Value) bool {
	if isNilConst(v) {
		return true
	}
	if mk, ok := v.(*ssa.MakeSlice); ok {
		k, isK := constInt(mk.Len)
		return isK && k == 0
	}
	return false
}

// loadsField: v is a load of <something>.<field>.
func loadsField(v ssa.Value, field string) bool {
	u, ok := v.(*ssa.UnOp)
	if !ok || u.Op != token.MUL {
		return false
	}
	fa, ok := u.X.(*ssa.FieldAddr)
	return ok && fieldVar(fa) != nil && fieldVar(fa).Name() == field
}

func instrBefore(a, b ssa.Instruction) bool {
	if a.Block() == b.Block() {
		return idxIn(a.Block(), a) < idxIn(b.Block(), b)
	}
	return a.Block().Dominates(b.Block())
}

func ruleC06Ops(w *World, r *Report) {
	const P = "C06"
	f := w.Fn(P, "pfcpiface.(*IPPool).LookupOrAllocIP")
	fn := w.FuncName(f)
	seid := f.Params[1]
	var lookup *ssa.Lookup
	var update *ssa.MapUpdate
	allInstrs(f, func(i ssa.Instruction) {
		switch x := i.(type) {
		case *ssa.Lookup:
			if strings.HasSuffix(symOf(x.X).String(), "inventory") {
				lookup = x
			}
		case *ssa.MapUpdate:
			if strings.HasSuffix(symOf(x.Map).String(), "inventory") {
				update = x
			}
		}
	})
	if lookup == nil || update == nil {
		r.bad("R06.4", fn, "lookup then record", w.Pos(f.Pos()), "LookupOrAllocIP no longer looks up and records the session in the inventory")
		return
	}
	r.check(lookup.Index == ssa.Value(seid) && update.Key == ssa.Value(seid), "R06.4", fn, "the inventory is consulted and updated under the caller's session id", w.Pos(lookup.Pos()), "same key", "lookup key or update key is not the seid parameter")
	// sticky: on the found edge the recorded address is returned and nothing is written
	found := extractOf(lookup, 1)
	nFound := 0
	for _, ret := range returnsOf(f) {
		viaFound := onlyVia(f, ret, func(a, b *ssa.BasicBlock) bool {
			v, truth, ok := boolEdge(a, b)
			return ok && truth && v == found
		})
		if !viaFound {
			continue
		}
		nFound++
		r.check(res(ret, 0) == extractOf(lookup, 0) && isNilConst(res(ret, 1)), "R06.4", fn, "asking again returns the recorded address", w.Pos(ret.Pos()), "inventory[seid]", "the found branch returns "+symOf(res(ret, 0)).String())
	}
	r.check(nFound == 1, "R06.4", fn, "one return on the found branch", w.Pos(f.Pos()), "1", fmt.Sprintf("%d returns on the found branch", nFound))
	r.check(onlyVia(f, update, func(a, b *ssa.BasicBlock) bool {
		v, truth, ok := boolEdge(a, b)
		return ok && !truth && v == found
	}), "R06.4", fn, "a new address is taken only for a session without one", w.Pos(update.Pos()), "under !found", "the inventory is updated although the session already holds an address (its first address leaks or is handed out twice)")
	// refusal only on an empty pool
	for _, ret := range returnsOf(f) {
		if isNilConst(res(ret, 1)) {
			continue
		}
		g := onlyVia(f, ret, func(a, b *ssa.BasicBlock) bool {
			x, op, y, ok := edgeFact(a, b)
			if !ok {
				return false
			}
			k, isK := constInt(y)
			c, isC := x.(*ssa.Call)
			if !isK || !isC || k != 0 || op != token.EQL {
				return false
			}
			bi, isB := c.Call.Value.(*ssa.Builtin)
			return isB && bi.Name() == "len" && loadsField(c.Call.Args[0], "freePool")
		})
		r.check(g, "R06.4", fn, "allocation is refused only when the free list is empty", w.Pos(ret.Pos()), "under len(freePool) == 0", "LookupOrAllocIP can fail although addresses are free")
	}
	// dequeue: recorded value = freePool[0]; freePool = freePool[1:]
	vs := symOf(update.Value).String()
	r.check(strings.HasSuffix(vs, "freePool[]") && isIndexConst(update.Value, 0), "R06.4", fn, "the recorded address is the head of the free list", w.Pos(update.Pos()), vs, "the inventory records "+vs)
	deq := false
	allInstrs(f, func(i ssa.Instruction) {
		st, ok := i.(*ssa.Store)
		if !ok {
			return
		}
		fa, ok := st.Addr.(*ssa.FieldAddr)
		if !ok || fieldVar(fa) == nil || fieldVar(fa).Name() != "freePool" {
			return
		}
		sl, ok := st.Val.(*ssa.Slice)
		if !ok {
			r.bad("R06.4", fn, "free list only shrinks by its head", w.Pos(st.Pos()), "freePool is assigned "+symOf(st.Val).String())
			return
		}
		lo, loK := constInt(sl.Low)
		if loK && lo == 1 && sl.High == nil && loadsField(sl.X, "freePool") {
			deq = true
		}
	})
	r.check(deq, "R06.4", fn, "the head is removed from the free list (freePool = freePool[1:])", w.Pos(f.Pos()), "dequeued", "the address handed out stays in the free list")
	// hands out a copy
	for _, ret := range returnsOf(f) {
		if !isNilConst(res(ret, 1)) {
			continue
		}
		if res(ret, 0) == extractOf(lookup, 0) {
			continue
		}
		_, isMk := res(ret, 0).(*ssa.MakeSlice)
		r.check(isMk, "R06.4", fn, "a new allocation hands out a copy of the pooled address", w.Pos(ret.Pos()), "make+copy", "the pool's own slice is handed out")
	}

	d := w.Fn(P, "pfcpiface.(*IPPool).DeallocIP")
	dn := w.FuncName(d)
	var dl *ssa.Lookup
	var del, app *ssa.Call
	allInstrs(d, func(i ssa.Instruction) {
		switch x := i.(type) {
		case *ssa.Lookup:
			dl = x
		case *ssa.Call:
			if b, ok := x.Call.Value.(*ssa.Builtin); ok {
				switch b.Name() {
				case "delete":
					del = x
				case "append":
					app = x
				}
			}
		}
	})
	if dl == nil || del == nil || app == nil {
		r.bad("R06.4", dn, "release = lookup, forget, enqueue", w.Pos(d.Pos()), "DeallocIP lost its lookup, delete or append")
		return
	}
	sd := d.Params[1]
	r.check(dl.Index == ssa.Value(sd) && del.Call.Args[1] == ssa.Value(sd), "R06.4", dn, "the session released is the one asked for", w.Pos(dl.Pos()), "same key", "lookup or delete uses a different key")
	r.check(appendsFrom(app.Call.Args[1], extractOf(dl, 0)) || appendedIs(app, extractOf(dl, 0)), "R06.4", dn, "exactly the session's recorded address becomes reusable", w.Pos(app.Pos()), "append(freePool, inventory[seid])", "DeallocIP enqueues something other than the session's address")
	okV := extractOf(dl, 1)
	for _, x := range []ssa.Instruction{del, app} {
		r.check(onlyVia(d, x, func(a, b *ssa.BasicBlock) bool {
			v, truth, ok := boolEdge(a, b)
			return ok && truth && v == okV
		}), "R06.4", dn, "nothing is released for a session that holds no address", w.Pos(x.Pos()), "under found", "the pool is modified for an unknown session")
	}
}

func isIndexConst(v ssa.Value, k int64) bool {
	u, ok := v.(*ssa.UnOp)
	if !ok {
		return false
	}
	ia, ok := u.X.(*ssa.IndexAddr)
	if !ok {
		return false
	}
	c, isK := constInt(ia.Index)
	return isK && c == k
}

// appendedIs: append(s, v) with a single variadic element v.
func appendedIs(app *ssa.Call, v ssa.Value) bool {
	if len(app.Call.Args) < 2 {
		return false
	}
	sl, ok := app.Call.Args[1].(*ssa.Slice)
	if !ok {
		return false
	}
	al, ok := sl.X.(*ssa.Alloc)
	if !ok || al.Referrers() == nil {
		return false
	}
	for _, ref := range *al.Referrers() {
		if ia, ok := ref.(*ssa.IndexAddr); ok && ia.Referrers() != nil {
			for _, r2 := range *ia.Referrers() {
				if st, ok := r2.(*ssa.Store); ok && st.Val == v {
					return true
				}
			}
		}
	}
	return false
}

func ruleC06Trigger(w *World, r *Report) {
	const P = "C06"
	need := w.Fn(P, "pfcpiface.needAllocIP")
	h2 := w.Fn(P, "pfcpiface.has2ndBit")
	h5 := w.Fn(P, "pfcpiface.has5thBit")
	t2, ok2 := evalUint8Predicate(h2)
	t5, ok5 := evalUint8Predicate(h5)
	if !ok2 || !ok5 {
		brokenf(P, "R06.5", "cannot evaluate has2ndBit/has5thBit")
	}
	bad2, bad5 := -1, -1
	n5 := 0
	for v := 0; v < 256; v++ {
		if t2[v] != (v&0x02 != 0) && bad2 < 0 {
			bad2 = v
		}
		if t5[v] != (v&0x10 != 0) && bad5 < 0 {
			bad5 = v
		}
		if t5[v] {
			n5++
		}
	}
	r.check(bad2 < 0, "R06.5", w.FuncName(h2), "has2ndBit ⇔ V4 flag (0x02), all 256 values", w.Pos(h2.Pos()), "table agrees", fmt.Sprintf("has2ndBit(%#x) is wrong", bad2))
	r.check(bad5 < 0 && n5 == 128, "R06.5", w.FuncName(h5), "has5thBit ⇔ CHV4 flag (0x10), all 256 values (satisfiable)", w.Pos(h5.Pos()), "table agrees", fmt.Sprintf("has5thBit(%#x) is wrong (true for %d of 256 values)", bad5, n5))
	// needAllocIP = !(V4 && !CHV4): the function is interpreted for the four valuations of the two
	// predicates (whatever its shape: early returns, a boolean expression, a switch)
	// the flags octet may also be handed in by the caller: a parameter that every call site feeds from
	// UEIPAddressFields.Flags
	flagsParam := func(v ssa.Value) bool {
		prm, ok := v.(*ssa.Parameter)
		if !ok || prm.Parent() != need {
			return false
		}
		idx := -1
		for i, q := range need.Params {
			if q == prm {
				idx = i
			}
		}
		sites := 0
		good := true
		for f := range w.allFuncs() {
			for _, c := range callsTo(f, need) {
				sites++
				if idx < 0 || idx >= len(c.Common().Args) {
					good = false
					continue
				}
				// a read of field Flags of a UEIPAddressFields
				isFlags := false
				switch a := c.Common().Args[idx].(type) {
				case *ssa.UnOp:
					if fa, ok := a.X.(*ssa.FieldAddr); ok && a.Op == token.MUL && fieldVar(fa) != nil && fieldVar(fa).Name() == "Flags" && rootTypeName(fa.X.Type()) == "UEIPAddressFields" {
						isFlags = true
					}
				case *ssa.Field:
					if fieldVar(a) != nil && fieldVar(a).Name() == "Flags" && rootTypeName(a.X.Type()) == "UEIPAddressFields" {
						isFlags = true
					}
				}
				if !isFlags {
					good = false
				}
			}
		}
		return good && sites > 0
	}
	n := 0
	for _, v4 := range []bool{false, true} {
		for _, ch := range []bool{false, true} {
			foreign := ""
			got, okE := evalBoolFunc(need, func(c *ssa.Call) (bool, bool) {
				if !strings.HasSuffix(symOf(c.Call.Args[0]).String(), "UEIPAddressFields.Flags") && !flagsParam(c.Call.Args[0]) {
					foreign = symOf(c.Call.Args[0]).String()
					return false, false
				}
				switch staticCallee(c) {
				case h2:
					return v4, true
				case h5:
					return ch, true
				}
				foreign = calleeName(c)
				return false, false
			})
			desc := fmt.Sprintf("needAllocIP[V4=%s CHV4=%s]", tf(v4), tf(ch))
			if !okE {
				r.bad("R06.5", w.FuncName(need), desc+" is decided by V4 and CHV4 only", w.Pos(need.Pos()), "needAllocIP depends on something other than the two flag predicates ("+foreign+")")
				continue
			}
			n++
			want := !(v4 && !ch)
			r.check(got == want, "R06.5", w.FuncName(need), fmt.Sprintf("%s → %v", desc, want), w.Pos(need.Pos()), fmt.Sprint(got), fmt.Sprintf("%s = %v", desc, got))
		}
	}
	r.floor("R06.5 needAllocIP outcomes", n, 4)
	// use: allocation on the needAllocIP edge only, with the PDR's session id; allocIPFlag marks it
	pu := w.Fn(P, "pfcpiface.(*pdr).parseUEAddressIE")
	alloc := w.Fn(P, "pfcpiface.(*IPPool).LookupOrAllocIP")
	for _, c := range callsTo(pu, alloc) {
		call := c.(*ssa.Call)
		r.check(onlyVia(pu, call, func(a, b *ssa.BasicBlock) bool {
			v, truth, ok := boolEdge(a, b)
			if !ok || !truth {
				return false
			}
			cc, isCall := v.(*ssa.Call)
			return isCall && staticCallee(cc) == need
		}), "R06.5", w.FuncName(pu), "the pool is asked only when the request asks the UPF to choose", w.Pos(call.Pos()), "under needAllocIP", "an address is allocated although the control plane supplied one")
		ks := symOf(call.Call.Args[1]).String()
		r.check(ks == "pdr.fseID", "R06.5", w.FuncName(pu), "the address is recorded under the PDR's session id", w.Pos(call.Pos()), ks, "the address is recorded under "+ks)
		// the flag that drives the release is set on the same path
		flagSet := false
		allInstrs(pu, func(i ssa.Instruction) {
			if st, ok := i.(*ssa.Store); ok {
				if fa, ok := st.Addr.(*ssa.FieldAddr); ok && fieldVar(fa) != nil && fieldVar(fa).Name() == "allocIPFlag" && instrDominates(call, st) {
					if b, isB := constBool(st.Val); isB && b {
						flagSet = true
					}
				}
			}
		})
		r.check(flagSet, "R06.5", w.FuncName(pu), "an allocated address is marked for release (allocIPFlag)", w.Pos(call.Pos()), "flag set after allocation", "allocIPFlag is not set after a successful allocation: the address is never given back")
	}
}

func ruleC06Release(w *World, r *Report) {
	const P = "C06"
	h := w.Fn(P, "pfcpiface.(*PFCPConn).handleSessionDeletionRequest")
	hn := w.FuncName(h)
	rel := w.Fn(P, "pfcpiface.releaseAllocatedIPs")
	rejected := w.ConstInt(P, iePkg, "CauseRequestRejected")
	delType := w.ConstInt(P, pfcpPkg, "upfMsgTypeDel")
	var del *ssa.Call
	for _, c := range datapathCalls(h, "SendMsgToUPF") {
		if k, isK := constInt(c.Call.Args[0]); isK && k == delType {
			del = c
		}
	}
	if del == nil {
		r.bad("R06.6", hn, "the deletion handler deletes the datapath state", w.Pos(h.Pos()), "no SendMsgToUPF(upfMsgTypeDel) in the deletion handler")
		return
	}
	sites := callsTo(h, rel)
	r.floor("R06.6 release sites in the deletion handler", len(sites), 1)
	for _, s := range sites {
		si := s.(ssa.Instruction)
		g := instrDominates(del, si) && onlyVia(h, si, func(a, b *ssa.BasicBlock) bool {
			return causeEdge(a, b, del, rejected, false)
		})
		r.check(g, "R06.6", hn, "the UE address is released only after the datapath accepted the delete", w.Pos(si.Pos()), "after SendMsgToUPF(del) ≠ rejected", "the UE address goes back to the pool before (or regardless of) the datapath delete: when the delete is rejected the session stays up and its address is handed to another session")
		// releases the session that was deleted
		as := symOf(s.Common().Args[1]).String()
		r.check(strings.Contains(as, "GetSession#0("), "R06.6", hn, "the released addresses are those of the deleted session", w.Pos(si.Pos()), as, "release is applied to "+as)
	}
	// who may release: only the places where a session ends. The address belongs to the session (it is
	// keyed by the SEID), not to a PDR: releasing it while the session lives hands it to another session.
	relSites := map[string]string{
		"pfcpiface.(*PFCPConn).handleSessionEstablishmentRequest$": "abort of a session that was not accepted",
		"pfcpiface.(*PFCPConn).handleSessionDeletionRequest":       "session deletion",
		"pfcpiface.(*PFCPConn).handleSessionReportResponse":        "session dropped after 'context not found'",
		"pfcpiface.(*PFCPConn).shutdownConn":                       "association teardown",
		"pfcpiface.(*PFCPConn).Shutdown":                           "association teardown",
		"pfcpiface.releaseAllocatedIPs":                            "the release helper itself",
	}
	nSites := 0
	for _, callee := range []*ssa.Function{dealloc0(w, P), rel} {
		for _, e := range w.CG().callersOf(callee) {
			cn := w.FuncName(e.Caller)
			if strings.HasPrefix(cn, "test/") {
				continue
			}
			nSites++
			okS := false
			for k := range relSites {
				if cn == k || (strings.HasSuffix(k, "$") && strings.HasPrefix(cn, k)) {
					okS = true
				}
			}
			r.check(okS, "R06.6", cn, "a UE address is released only where its session ends", w.Pos(e.Site.Pos()), "session-ending site", cn+" releases a UE address although the session goes on (e.g. when one of its PDRs is removed): the address is handed to another session while this one still uses it")
		}
	}
	r.floor("R06.6 release call sites", nSites, 5)
	// the abort of a rejected establishment releases by SEID, not through the PDR list: the PDR that
	// triggered the allocation is not in the list yet when it is the one that gets the request rejected
	est := w.Fn(P, "pfcpiface.(*PFCPConn).handleSessionEstablishmentRequest")
	direct := 0
	for _, g := range withClosures(est) {
		if g == est {
			continue
		}
		for _, c := range callsTo(g, dealloc0(w, P)) {
			ks := symOf(c.Common().Args[1]).String()
			if strings.HasSuffix(ks, "localSEID") {
				direct++
			}
		}
		for _, c := range callsTo(g, rel) {
			r.bad("R06.6", w.FuncName(g), "the abort of a rejected establishment releases the address by SEID", w.Pos(c.Pos()), "the abort path releases through releaseAllocatedIPs, which only looks at the PDRs already added to the session: when the PDR that allocated the address is itself the reason for the reject (it is not in the list yet) the address leaks")
		}
	}
	r.check(direct >= 1, "R06.6", w.FuncName(est), "the abort of a rejected establishment releases the address by SEID", w.Pos(est.Pos()), "DeallocIP(session.localSEID) in the abort closure", "the abort path of the establishment handler no longer calls DeallocIP(session.localSEID)")
	// releaseAllocatedIPs: every PDR with allocIPFlag is given back under the session's id
	dealloc := w.Fn(P, "pfcpiface.(*IPPool).DeallocIP")
	n := 0
	for _, c := range callsTo(rel, dealloc) {
		n++
		call := c.(*ssa.Call)
		ks := symOf(call.Call.Args[1]).String()
		r.check(strings.HasSuffix(ks, "localSEID"), "R06.6", w.FuncName(rel), "release uses the session's own id (the allocation key)", w.Pos(call.Pos()), ks, "DeallocIP is called with "+ks)
	}
	r.floor("R06.6 DeallocIP call in releaseAllocatedIPs", n, 1)
}

func dealloc0(w *World, prop string) *ssa.Function {
	return w.Fn(prop, "pfcpiface.(*IPPool).DeallocIP")
}

// evalBoolFunc interprets a small boolean function whose only inputs are calls answered by atom.
func evalBoolFunc(f *ssa.Function, atom func(*ssa.Call) (bool, bool)) (bool, bool) {
	return evalBoolFuncV(f, func(v ssa.Value) (bool, bool, bool) {
		if c, ok := v.(*ssa.Call); ok && c.Type().String() == "bool" {
			x, okA := atom(c)
			return x, okA, true
		}
		return false, false, false
	})
}

// evalBoolFuncV interprets a boolean function for one valuation of its atoms. atomV is asked about every
// boolean value the function computes; it answers (value, known, isAtom). Values that are not atoms are
// computed from their operands (!, ==, != on booleans, φ by the edge taken); an atom that is not known,
// or a boolean the interpreter cannot compute, makes the result unknown.
func evalBoolFuncV(f *ssa.Function, atomV func(ssa.Value) (val, known, isAtom bool)) (bool, bool) {
	return evalBoolFuncAt(f, func(v ssa.Value, _ func(ssa.Value) ssa.Value) (bool, bool, bool) { return atomV(v) })
}

// evalBoolFuncAt is evalBoolFuncV for functions that first select what they test (`x := a; if c { x = b };
// return x == 0`): atomV also gets `at`, which maps a φ of any type to the operand that came in over the
// edge the interpreted execution took, so that an atom is named by what it reads on this execution.
func evalBoolFuncAt(f *ssa.Function, atomV func(v ssa.Value, at func(ssa.Value) ssa.Value) (val, known, isAtom bool)) (bool, bool) {
	env := map[ssa.Value]bool{}
	taken := map[*ssa.Phi]ssa.Value{}
	at := func(v ssa.Value) ssa.Value {
		for n := 0; n < 8; n++ {
			phi, isPhi := v.(*ssa.Phi)
			if !isPhi {
				break
			}
			in, ok := taken[phi]
			if !ok {
				break
			}
			v = in
		}
		return v
	}
	var prev *ssa.BasicBlock
	b := f.Blocks[0]
	val := func(v ssa.Value) (bool, bool) {
		if c, isK := constBool(v); isK {
			return c, true
		}
		x, ok := env[v]
		return x, ok
	}
	for steps := 0; steps < 400; steps++ {
		var next *ssa.BasicBlock
		for _, ins := range b.Instrs {
			if v, isV := ins.(ssa.Value); isV {
				if _, isPhi := ins.(*ssa.Phi); !isPhi && v.Type().Underlying().String() == "bool" {
					if x, known, isAtom := atomV(v, at); isAtom {
						if !known {
							return false, false
						}
						env[v] = x
						continue
					}
				}
			}
			switch x := ins.(type) {
			case *ssa.Phi:
				for k, p := range b.Preds {
					if p == prev {
						taken[x] = at(x.Edges[k])
						if v, ok := val(x.Edges[k]); ok {
							env[x] = v
						}
					}
				}
			case *ssa.UnOp:
				if x.Op == token.NOT {
					if v, ok := val(x.X); ok {
						env[x] = !v
					}
				}
			case *ssa.BinOp:
				l, ok1 := val(x.X)
				rr, ok2 := val(x.Y)
				if ok1 && ok2 {
					switch x.Op {
					case token.EQL:
						env[x] = l == rr
					case token.NEQ:
						env[x] = l != rr
					case token.AND:
						env[x] = l && rr
					case token.OR:
						env[x] = l || rr
					}
				}
			case *ssa.If:
				c, ok := val(x.Cond)
				if !ok {
					return false, false
				}
				if c {
					next = b.Succs[0]
				} else {
					next = b.Succs[1]
				}
			case *ssa.Jump:
				next = b.Succs[0]
			case *ssa.Return:
				if len(x.Results) != 1 {
					return false, false
				}
				return val(x.Results[0])
			}
		}
		if next == nil {
			return false, false
		}
		prev, b = b, next
	}
	return false, false
}

// ruleC06SeidEntropy (R06.7): the UE IP pool is shared by all associations and keyed by the local SEID,
// while local SEIDs are drawn from a per-association generator and only checked for uniqueness within
// that association. Two associations may therefore never draw the same SEID sequence: the generator's
// seed must differ between connections created close together — nanosecond clock or crypto/rand, not a
// value with second resolution or one that is shared (the recovery time stamp, a constant).
func ruleC06SeidEntropy(w *World, r *Report) {
	const P = "C06"
	nc := w.Fn(P, "pfcpiface.(*PFCPNode).NewPFCPConn")
	n := 0
	allInstrs(nc, func(i ssa.Instruction) {
		c, ok := i.(*ssa.Call)
		if !ok {
			return
		}
		name := calleeName(c)
		if name != "math/rand.NewSource" && name != "math/rand/v2.NewPCG" {
			return
		}
		n++
		okE := false
		var srcs []string
		for _, a := range c.Call.Args {
			s := symOf(a).String()
			srcs = append(srcs, s)
			if strings.Contains(s, "UnixNano") || strings.Contains(s, "crypto/rand") || strings.Contains(s, "math/rand.Int63") || strings.Contains(s, "math/rand.Uint64") || strings.Contains(s, "maphash") {
				okE = true
			}
		}
		r.check(okE, "R06.7", w.FuncName(nc), "the local-SEID generator of a connection is seeded with a value no other connection gets", w.Pos(c.Pos()), strings.Join(srcs, ", "), "the generator is seeded with "+strings.Join(srcs, ", ")+": two associations set up within the resolution of that value draw identical local SEIDs, and the shared UE IP pool (keyed by local SEID) gives their n-th sessions the same address")
	})
	if n == 0 {
		// no explicit source: the connection must not build a deterministic generator some other way
		det := false
		allInstrs(nc, func(i ssa.Instruction) {
			if c, ok := i.(*ssa.Call); ok && calleeName(c) == "math/rand.New" {
				det = true
			}
		})
		r.check(!det, "R06.7", w.FuncName(nc), "the local-SEID generator is seeded", w.Pos(nc.Pos()), "no rand.New without a recognised source", "rand.New is called with a source this rule does not recognise")
	}
}

// interpretRegion walks the CFG from block start (entered from prev) for one valuation of the atoms, the
// way evalBoolFuncV does for a whole function, and stops at the first Return or when it is about to
// enter a block for which stop answers true. It returns the Return reached (nil when it stopped at a
// stop block) and whether the walk was decided all the way.
func interpretRegion(f *ssa.Function, start, prev *ssa.BasicBlock, atomV func(ssa.Value) (val, known, isAtom bool), stop func(*ssa.BasicBlock) bool) (*ssa.Return, bool) {
	env := map[ssa.Value]bool{}
	b := start
	val := func(v ssa.Value) (bool, bool) {
		if c, isK := constBool(v); isK {
			return c, true
		}
		x, ok := env[v]
		return x, ok
	}
	for steps := 0; steps < 400; steps++ {
		var next *ssa.BasicBlock
		for _, ins := range b.Instrs {
			if v, isV := ins.(ssa.Value); isV {
				if _, isPhi := ins.(*ssa.Phi); !isPhi && v.Type().Underlying().String() == "bool" {
					if x, known, isAtom := atomV(v); isAtom {
						if !known {
							return nil, false
						}
						env[v] = x
						continue
					}
				}
			}
			switch x := ins.(type) {
			case *ssa.Phi:
				for k, p := range b.Preds {
					if p == prev {
						if v, ok := val(x.Edges[k]); ok {
							env[x] = v
						}
					}
				}
			case *ssa.UnOp:
				if x.Op == token.NOT {
					if v, ok := val(x.X); ok {
						env[x] = !v
					}
				}
			case *ssa.BinOp:
				l, ok1 := val(x.X)
				rr, ok2 := val(x.Y)
				if ok1 && ok2 {
					switch x.Op {
					case token.EQL:
						env[x] = l == rr
					case token.NEQ:
						env[x] = l != rr
					case token.AND:
						env[x] = l && rr
					case token.OR:
						env[x] = l || rr
					}
				}
			case *ssa.If:
				c, ok := val(x.Cond)
				if !ok {
					return nil, false
				}
				if c {
					next = b.Succs[0]
				} else {
					next = b.Succs[1]
				}
			case *ssa.Jump:
				next = b.Succs[0]
			case *ssa.Return:
				return x, true
			}
		}
		if next == nil {
			return nil, false
		}
		if stop(next) {
			return nil, true
		}
		prev, b = b, next
	}
	return nil, false
}

// ruleC06SessionEnds (R06.9): wherever a session record is removed (every caller of RemoveSession), the
// session's UE address goes back to the pool on every path through that site (C05 R05.2, seen from the
// pool: "conserved").
func ruleC06SessionEnds(w *World, r *Report) {
	const P = "C06"
	cg := w.CG()
	remove := w.Fn(P, "pfcpiface.(*PFCPConn).RemoveSession")
	dealloc := w.Fn(P, "pfcpiface.(*IPPool).DeallocIP")
	reaches := func(i ssa.Instruction) bool {
		c, ok := i.(ssa.CallInstruction)
		if !ok {
			return false
		}
		if _, isGo := i.(*ssa.Go); isGo {
			return false
		}
		return cg.siteReaches(c, func(f *ssa.Function) bool { return f == dealloc })
	}
	n := 0
	for _, e := range cg.callersOf(remove) {
		n++
		fn := w.FuncName(e.Caller)
		r.check(onEveryPathThrough(e.Caller, e.Site, reaches, noPoolEdge), "R06.9", fn, "a session that ends gives its UE address back", w.Pos(e.Site.Pos()), "IPPool.DeallocIP on every path through the site", "a session record is removed here without giving the session's UE address back to the pool: the address stays allocated to a session that no longer exists")
	}
	r.floor("R06.9 session-end sites", n, 4)
}
