package main

import (
	"fmt"
	"go/token"
	"strings"

	"golang.org/x/tools/go/ssa"
)

func init() { rules["C07"] = ruleC07 }

// ---- interval analysis of one uint32 field through its writer functions

type u32rng struct {
	lo, hi int64
	bot    bool
}

const maxU32 = int64(1)<<32 - 1

func (a u32rng) String() string {
	if a.bot {
		return "⊥"
	}
	return fmt.Sprintf("[%d,%d]", a.lo, a.hi)
}

func joinU32(a, b u32rng) u32rng {
	if a.bot {
		return b
	}
	if b.bot {
		return a
	}
	return u32rng{lo: min64(a.lo, b.lo), hi: max64(a.hi, b.hi)}
}

func (a u32rng) within(b u32rng) bool {
	return a.bot || (!b.bot && a.lo >= b.lo && a.hi <= b.hi)
}

type fieldIval struct {
	w       *World
	field   string
	wrapped []string // additions that may wrap, with position
	memo    map[string]u32rng
	thresh  []int64
	// per analysis of the function of interest: interval of selected values
	valAt map[ssa.Value]u32rng
}

type fiState struct {
	cur   u32rng
	alias map[ssa.Value]bool
	bot   bool
}

func (s fiState) clone() fiState {
	o := fiState{cur: s.cur, alias: map[ssa.Value]bool{}, bot: s.bot}
	for k := range s.alias {
		o.alias[k] = true
	}
	return o
}

func joinFi(a, b fiState) fiState {
	if a.bot {
		return b.clone()
	}
	if b.bot {
		return a.clone()
	}
	o := fiState{cur: joinU32(a.cur, b.cur), alias: map[ssa.Value]bool{}}
	for k := range a.alias {
		if b.alias[k] {
			o.alias[k] = true
		}
	}
	return o
}

func sameFi(a, b fiState) bool {
	if a.bot != b.bot || a.cur != b.cur || len(a.alias) != len(b.alias) {
		return false
	}
	for k := range a.alias {
		if !b.alias[k] {
			return false
		}
	}
	return true
}

func (fi *fieldIval) isField(addr ssa.Value) bool {
	fa, ok := addr.(*ssa.FieldAddr)
	return ok && fieldVar(fa) != nil && fieldVar(fa).Name() == fi.field && rootTypeName(fa.X.Type()) == "FTEIDGenerator"
}

// run analyses f with the field in `entry` and returns the join over all returns.
func (fi *fieldIval) run(f *ssa.Function, entry u32rng, record bool, depth int) u32rng {
	key := fmt.Sprintf("%s|%s", fi.w.FuncName(f), entry)
	if !record {
		if v, ok := fi.memo[key]; ok {
			return v
		}
	}
	if depth > 6 {
		return u32rng{lo: 0, hi: maxU32}
	}
	in := map[*ssa.BasicBlock]fiState{}
	out := map[*ssa.BasicBlock]fiState{}
	for _, b := range f.Blocks {
		in[b] = fiState{bot: true}
		out[b] = fiState{bot: true}
	}
	env := map[ssa.Value]u32rng{}
	exit := u32rng{bot: true}
	visits := map[*ssa.BasicBlock]int{}
	val := func(v ssa.Value) u32rng {
		if k, ok := constInt(v); ok {
			return u32rng{lo: k, hi: k}
		}
		if r, ok := env[v]; ok {
			return r
		}
		return u32rng{lo: 0, hi: maxU32}
	}
	edgeState := func(p, b *ssa.BasicBlock) fiState {
		s := out[p]
		if s.bot {
			return s
		}
		s = s.clone()
		x, op, y, ok := edgeFact(p, b)
		if !ok {
			return s
		}
		k, isK := constInt(y)
		if !isK || !s.alias[x] {
			// comparisons between two field snapshots etc. carry no interval information
			return s
		}
		lo, hi := s.cur.lo, s.cur.hi
		switch op {
		case token.GTR:
			lo = max64(lo, k+1)
		case token.GEQ:
			lo = max64(lo, k)
		case token.LSS:
			hi = min64(hi, k-1)
		case token.LEQ:
			hi = min64(hi, k)
		case token.EQL:
			lo, hi = max64(lo, k), min64(hi, k)
		}
		if lo > hi {
			return fiState{bot: true}
		}
		s.cur = u32rng{lo: lo, hi: hi}
		for a := range s.alias {
			env[a] = s.cur
		}
		return s
	}
	for changed := true; changed; {
		changed = false
		for _, b := range f.Blocks {
			if b == f.Recover {
				continue
			}
			var s fiState
			if b == f.Blocks[0] {
				s = fiState{cur: entry, alias: map[ssa.Value]bool{}}
			} else {
				s = fiState{bot: true}
				for _, p := range b.Preds {
					s = joinFi(s, edgeState(p, b))
				}
			}
			if s.bot {
				continue
			}
			visits[b]++
			if visits[b] > 6 && !s.cur.bot {
				// widening to the type's range
				if o := in[b]; !o.bot && (s.cur.lo < o.cur.lo || s.cur.hi > o.cur.hi) {
					hi := maxU32
					for _, th := range fi.thresh {
						if s.cur.hi <= th && th < hi {
							hi = th
						}
					}
					s.cur = u32rng{lo: 0, hi: hi}
				}
			}
			in[b] = s.clone()
			for _, ins := range b.Instrs {
				switch x := ins.(type) {
				case *ssa.UnOp:
					if x.Op == token.MUL && fi.isField(x.X) {
						env[x] = s.cur
						s.alias[x] = true
					}
				case *ssa.Store:
					if fi.isField(x.Addr) {
						s.cur = val(x.Val)
						s.alias = map[ssa.Value]bool{x.Val: true}
					}
				case *ssa.BinOp:
					a, c := val(x.X), val(x.Y)
					switch x.Op {
					case token.ADD:
						r := u32rng{lo: a.lo + c.lo, hi: a.hi + c.hi}
						if r.hi > maxU32 {
							if record {
								fi.wrapped = append(fi.wrapped, fmt.Sprintf("%s: %s + %s can exceed 2^32-1 and wrap", fi.w.Pos(x.Pos()), a, c))
							}
							r = u32rng{lo: 0, hi: maxU32}
						}
						env[x] = r
					case token.SUB:
						r := u32rng{lo: a.lo - c.hi, hi: a.hi - c.lo}
						if r.lo < 0 {
							r = u32rng{lo: 0, hi: maxU32}
						}
						env[x] = r
					case token.REM:
						if c.lo == c.hi && c.lo > 0 {
							if a.hi < c.lo {
								env[x] = a
							} else {
								env[x] = u32rng{lo: 0, hi: c.lo - 1}
							}
						}
					}
				case *ssa.Phi:
					r := u32rng{bot: true}
					for _, e := range x.Edges {
						r = joinU32(r, val(e))
					}
					env[x] = r
				case *ssa.Convert:
					env[x] = val(x.X)
				case *ssa.Call:
					if g := staticCallee(x); g != nil && g.Blocks != nil && fi.writes(g) {
						s.cur = fi.run(g, s.cur, record, depth+1)
						s.alias = map[ssa.Value]bool{}
					}
				case *ssa.Return:
					exit = joinU32(exit, s.cur)
				}
			}
			if !sameFi(s, out[b]) {
				out[b] = s
				changed = true
			}
		}
	}
	if record {
		fi.valAt = env
	}
	fi.memo[key] = exit
	return exit
}

func (fi *fieldIval) writes(f *ssa.Function) bool {
	w := false
	allInstrs(f, func(i ssa.Instruction) {
		if st, ok := i.(*ssa.Store); ok && fi.isField(st.Addr) {
			w = true
		}
		if c, ok := i.(*ssa.Call); ok {
			if g := staticCallee(c); g != nil && g != f && g.Blocks != nil && strings.Contains(fi.w.FuncName(g), "FTEIDGenerator") {
				allInstrs(g, func(j ssa.Instruction) {
					if st, ok := j.(*ssa.Store); ok && fi.isField(st.Addr) {
						w = true
					}
				})
			}
		}
	})
	return w
}

func ruleC07(w *World, r *Report) {
	const P = "C07"
	r.Explanation = "R07.1 must-lockset on FTEIDGenerator.offset/usedMap (exclusive, own object), balanced methods, atomic sections; R07.2 interval invariant of the cursor: starting from the constructor's 0, the least interval closed under every public writer is computed (uint32 semantics, widening to the type range) and under it offset+minValue is shown to stay in [1, 2^32-1] without wrapping; R07.3 Allocate marks exactly the offset it found free, returns that offset+minValue, fails only after a full cycle; FreeID/IsAllocated undo the same encoding under an id ≥ minValue guard; " +
		"R07.4 the generator object and its used-set are assigned only at construction (never replaced), releases go to the generator that allocated; R07.5 NewPFCPSession: the candidate drawn from the connection's own generator is rejected when 0 or when GetSession(candidate) finds it, the session is created with that same value, the loop is bounded and failure is reported; establishment refuses on failure; the store is keyed by localSEID; " +
		"R07.6 reported = programmed: the value returned by Allocate is stored in the PDR that is both kept in the session and reported (Created PDR built from pdr.tunnelTEID); every handler that creates PDRs serves the CHOOSE flag."
	r.Explanation += " R07.7 (cont.) FreeID in releaseAllocatedTEIDs only under pdr.UPAllocateFteid; R07.8 the bytes written to match fields and action parameters are the converter's output, at most stripped of leading zeros."
	r.Explanation += " R07.4 (cont.) no object other than upf holds a TEID generator; R07.10 = C03 R03.12; R07.11 UP4 writes the sessions entry of every PDR."
	r.Explanation += " R07.12 = C03 R03.16; R07.13 from the true edge of UPAllocateFteid every path to CreatePDR runs Allocate."
	r.NotDecided = "uniqueness over the whole history as such (it follows from R07.1–R07.4 by induction on the used-set, not mechanised); quality of the random source"

	gen := map[string]bool{"offset": true, "usedMap": true}
	n := guardedBy(w, r, "R07.1", "FTEIDGenerator", gen, "lock")
	r.floor("R07.1 generator accesses", n, 12)
	la := w.Locks()
	alloc := w.Fn(P, "pfcpiface.(*FTEIDGenerator).Allocate")
	free := w.Fn(P, "pfcpiface.(*FTEIDGenerator).FreeID")
	isAl := w.Fn(P, "pfcpiface.(*FTEIDGenerator).IsAllocated")
	upd := w.Fn(P, "pfcpiface.(*FTEIDGenerator).updateOffset")
	ctor := w.Fn(P, "pfcpiface.NewFTEIDGenerator")
	for _, f := range []*ssa.Function{alloc, free, isAl, upd} {
		bad := la.exitBad[f]
		r.check(len(bad) == 0, "R07.1", w.FuncName(f), "returns with the lockset it was entered with", w.Pos(f.Pos()), "balanced", "unbalanced locking: "+strings.Join(bad, "; "))
		atomicSections(w, r, "R07.2a", f, "FTEIDGenerator", gen, "lock")
	}
	// encapsulation
	for _, a := range w.accessesOf(map[string]bool{"FTEIDGenerator": true}) {
		fn := w.FuncName(a.fn)
		okF := a.fn == alloc || a.fn == free || a.fn == isAl || a.fn == upd || a.fn == ctor
		r.check(okF, "R07.1", fn, "FTEIDGenerator."+a.path+" is touched only by the generator's own operations", w.Pos(a.ins.Pos()), "generator method", "FTEIDGenerator."+a.path+" is accessed from "+fn)
	}

	// ---------- R07.2 interval invariant
	minV := w.ConstInt(P, pfcpPkg, "minValue")
	maxV := w.ConstInt(P, pfcpPkg, "maxValue")
	r.check(minV >= 1, "R07.2", "pfcpiface.minValue", "minValue ≥ 1 (TEID 0 is never the base)", "pfcpiface/fteid.go", fmt.Sprint(minV), fmt.Sprintf("minValue = %d", minV))
	fi := &fieldIval{w: w, field: "offset", memo: map[string]u32rng{}}
	for _, f := range []*ssa.Function{alloc, free, isAl, upd} {
		allInstrs(f, func(i ssa.Instruction) {
			if bo, ok := i.(*ssa.BinOp); ok && bo.Op == token.REM {
				if k, isK := constInt(bo.Y); isK && k > 0 {
					fi.thresh = append(fi.thresh, k-1)
				}
			}
		})
	}
	// constructor value
	init := u32rng{bot: true}
	allInstrs(ctor, func(i ssa.Instruction) {
		if st, ok := i.(*ssa.Store); ok && fi.isField(st.Addr) {
			if k, isK := constInt(st.Val); isK {
				init = joinU32(init, u32rng{lo: k, hi: k})
			} else {
				init = u32rng{lo: 0, hi: maxU32}
			}
		}
	})
	if init.bot {
		init = u32rng{lo: 0, hi: 0} // zero value
	}
	inv := init
	iters := 0
	for ; iters < 40; iters++ {
		next := inv
		for _, f := range []*ssa.Function{alloc, free, isAl} {
			next = joinU32(next, fi.run(f, inv, false, 0))
		}
		if next == inv {
			break
		}
		if iters >= 3 {
			// widen to the next threshold
			for _, th := range []int64{maxV - 1, maxV, maxU32} {
				if next.hi <= th {
					next.hi = th
					break
				}
			}
			next.lo = 0
		}
		inv = next
	}
	r.check(iters < 40, "R07.2", w.FuncName(upd), "cursor invariant converges", w.Pos(upd.Pos()), inv.String(), "interval iteration did not converge")
	// under the invariant, the id computation does not wrap and is ≥ 1
	fi.wrapped = nil
	fi.run(alloc, inv, true, 0)
	var idVal ssa.Value
	for _, ret := range returnsOf(alloc) {
		if isNilConst(res(ret, 1)) {
			idVal = res(ret, 0)
		}
	}
	// res() looks through the defer spill
	if idVal == nil {
		allInstrs(alloc, func(i ssa.Instruction) {
			if bo, ok := i.(*ssa.BinOp); ok && bo.Op == token.ADD {
				if k, isK := constInt(bo.Y); isK && k == minV {
					idVal = bo
				}
			}
		})
	}
	if idVal == nil {
		brokenf(P, "R07.2", "cannot find the id computation in Allocate")
	}
	idR, known := fi.valAt[idVal]
	if !known {
		// the value may be hidden behind the result cell
		allInstrs(alloc, func(i ssa.Instruction) {
			if bo, ok := i.(*ssa.BinOp); ok && bo.Op == token.ADD {
				if k, isK := constInt(bo.Y); isK && k == minV {
					idR, known = fi.valAt[bo], true
					idVal = bo
				}
			}
		})
	}
	wrapMsg := ""
	for _, m := range fi.wrapped {
		if strings.Contains(m, "fteid.go") {
			wrapMsg = m
		}
	}
	good := known && wrapMsg == "" && idR.lo >= 1 && idR.hi <= maxU32
	r.check(good, "R07.2", w.FuncName(alloc), "every TEID handed out is in [1, 2^32-1] (cursor invariant "+inv.String()+")", w.Pos(idVal.Pos()), "id ∈ "+idR.String(), fmt.Sprintf("with the cursor ranging over %s the id offset+minValue ranges over %s%s: TEID 0 can be handed out (or two cursors map to one id)", inv, idR, ifelse(wrapMsg != "", " ("+wrapMsg+")", "")))
	r.check(inv.hi <= maxV-1, "R07.2", w.FuncName(upd), "the cursor stays within [0, maxValue-1]", w.Pos(upd.Pos()), inv.String(), "updateOffset lets the cursor reach "+fmt.Sprint(inv.hi)+" (maxValue-1 = "+fmt.Sprint(maxV-1)+")")

	ruleC07Allocate(w, r, alloc, free, isAl, upd, minV)
	ruleC07Never(w, r)
	ruleTranslatorBytes(w, r, "C07", "R07.8")
	ruleStoredIsProgrammed(w, r, "C07", "R07.10")
	ruleC07EverySessionsEntry(w, r)
	ruleLocalSEIDArgs(w, r, "C07", "R07.12")
	ruleEveryChooseGetsTEID(w, r, "C07", "R07.13")
	ruleC07SEID(w, r)
	ruleC07Reported(w, r, alloc)
}

func ruleC07Allocate(w *World, r *Report, alloc, free, isAl, upd *ssa.Function, minV int64) {
	fn := w.FuncName(alloc)
	var lookup *ssa.Lookup
	var mark *ssa.MapUpdate
	allInstrs(alloc, func(i ssa.Instruction) {
		switch x := i.(type) {
		case *ssa.Lookup:
			lookup = x
		case *ssa.MapUpdate:
			mark = x
		}
	})
	if lookup == nil || mark == nil {
		r.bad("R07.3", fn, "test then mark", w.Pos(alloc.Pos()), "Allocate lost its used-set lookup or update")
		return
	}
	isOffLoad := func(v ssa.Value) bool { return loadsField(v, "offset") }
	r.check(isOffLoad(lookup.Index) && isOffLoad(mark.Key), "R07.3", fn, "the used-set is tested and marked at the cursor", w.Pos(lookup.Pos()), "usedMap[offset]", "lookup or mark uses a key other than the cursor")
	used := extractOf(lookup, 1)
	// mark only on the free edge, and no cursor change between the test and the mark
	r.check(onlyVia(alloc, mark, func(a, b *ssa.BasicBlock) bool {
		v, truth, ok := boolEdge(a, b)
		return ok && !truth && v == used
	}), "R07.3", fn, "only an offset found free is marked used", w.Pos(mark.Pos()), "under !used", "an offset is marked used although the test said it is taken")
	// simpler: on the free edge, the path to the mark contains no cursor update
	var freeSucc *ssa.BasicBlock
	if ifi := blockIf(lookup.Block()); ifi != nil {
		for _, s := range lookup.Block().Succs {
			if v, truth, ok := boolEdge(lookup.Block(), s); ok && v == used && !truth {
				freeSucc = s
			}
		}
	}
	clean := false
	if freeSucc != nil {
		clean = true
		// every instruction on every path freeSucc → mark
		hit := reach(alloc, firstInstr(freeSucc), func(i ssa.Instruction) bool {
			if c, ok := i.(*ssa.Call); ok && staticCallee(c) == upd {
				return instrReachesNoLoop(alloc, i, mark)
			}
			if st, ok := i.(*ssa.Store); ok && loadsFieldAddr(st.Addr, "offset") {
				return instrReachesNoLoop(alloc, i, mark)
			}
			return false
		}, func(i ssa.Instruction) bool { return i == ssa.Instruction(mark) }, nil)
		if hit != nil || cursorWriteIn(freeSucc, mark, upd) {
			clean = false
		}
	}
	r.check(clean, "R07.3", fn, "the offset marked is the one just found free", w.Pos(mark.Pos()), "no cursor update between test and mark", "the cursor moves between the free test and the mark: a different (possibly used) offset is marked and handed out")
	// id = cursor at the mark + minValue, computed before the cursor advances
	var idAdd *ssa.BinOp
	allInstrs(alloc, func(i ssa.Instruction) {
		if bo, ok := i.(*ssa.BinOp); ok && bo.Op == token.ADD && isOffLoad(bo.X) {
			if k, isK := constInt(bo.Y); isK && k == minV {
				idAdd = bo
			}
		}
	})
	if idAdd == nil {
		r.bad("R07.3", fn, "id = offset + minValue", w.Pos(alloc.Pos()), "the returned id is not offset+minValue")
	} else {
		sameBlock := idAdd.Block() == mark.Block() && idxIn(mark.Block(), mark) < idxIn(idAdd.Block(), idAdd) && !cursorWriteBetween(mark.Block(), mark, idAdd, upd)
		r.check(sameBlock, "R07.3", fn, "the id is computed from the marked offset before the cursor advances", w.Pos(idAdd.Pos()), "mark; id := offset+minValue; updateOffset", "the id is computed after the cursor moved: it names an offset that was not marked")
		for _, ret := range returnsOf(alloc) {
			if isNilConst(res(ret, 1)) {
				r.check(res(ret, 0) == ssa.Value(idAdd), "R07.3", fn, "the id returned is the one computed", w.Pos(ret.Pos()), "same value", "Allocate returns "+symOf(res(ret, 0)).String())
			}
		}
	}
	// failure only after a full cycle
	for _, ret := range returnsOf(alloc) {
		if isNilConst(res(ret, 1)) {
			continue
		}
		g := onlyVia(alloc, ret, func(a, b *ssa.BasicBlock) bool {
			x, op, y, ok := edgeFact(a, b)
			return ok && op == token.EQL && isOffLoad(x) && isOffLoad(y)
		})
		r.check(g, "R07.3", fn, "allocation fails only when the cursor is back where it started", w.Pos(ret.Pos()), "offset == offsetBegin", "Allocate can fail before every offset was tried")
	}
	// FreeID / IsAllocated: id - minValue under id ≥ minValue
	for _, f := range []*ssa.Function{free, isAl} {
		n := 0
		allInstrs(f, func(i ssa.Instruction) {
			bo, ok := i.(*ssa.BinOp)
			if !ok || bo.Op != token.SUB || bo.X != ssa.Value(f.Params[1]) {
				return
			}
			n++
			k, isK := constInt(bo.Y)
			r.check(isK && k == minV, "R07.3", w.FuncName(f), "the id is decoded with the allocation's encoding (id - minValue)", w.Pos(bo.Pos()), fmt.Sprint(k), fmt.Sprintf("%s decodes with -%d, Allocate encodes with +%d", f.Name(), k, minV))
			g := onlyVia(f, bo, func(a, b *ssa.BasicBlock) bool {
				x, op, y, ok := edgeFact(a, b)
				if !ok || x != ssa.Value(f.Params[1]) {
					return false
				}
				c, isC := constInt(y)
				return isC && ((op == token.GEQ && c >= minV) || (op == token.GTR && c >= minV-1))
			})
			r.check(g, "R07.3", w.FuncName(f), "ids below minValue are ignored (no underflow)", w.Pos(bo.Pos()), "under id ≥ minValue", f.Name()+"(0) wraps to offset 2^32-1")
		})
		r.check(n == 1, "R07.3", w.FuncName(f), "one decode", w.Pos(f.Pos()), "1", fmt.Sprintf("%d decodes of the id", n))
	}
}

func loadsFieldAddr(addr ssa.Value, field string) bool {
	fa, ok := addr.(*ssa.FieldAddr)
	return ok && fieldVar(fa) != nil && fieldVar(fa).Name() == field
}

func instrReachesNoLoop(f *ssa.Function, from, to ssa.Instruction) bool {
	if from.Block() == to.Block() {
		return idxIn(from.Block(), from) < idxIn(to.Block(), to)
	}
	return reach(f, from, func(i ssa.Instruction) bool { return i == to }, nil, nil) != nil
}

// cursorWriteIn: within block b before `until`, is the cursor written?
func cursorWriteIn(b *ssa.BasicBlock, until ssa.Instruction, upd *ssa.Function) bool {
	if until.Block() != b {
		return false
	}
	for _, i := range b.Instrs {
		if i == until {
			return false
		}
		if c, ok := i.(*ssa.Call); ok && staticCallee(c) == upd {
			return true
		}
		if st, ok := i.(*ssa.Store); ok && loadsFieldAddr(st.Addr, "offset") {
			return true
		}
	}
	return false
}

func cursorWriteBetween(b *ssa.BasicBlock, from, to ssa.Instruction, upd *ssa.Function) bool {
	on := false
	for _, i := range b.Instrs {
		if i == from {
			on = true
			continue
		}
		if i == to {
			return false
		}
		if !on {
			continue
		}
		if c, ok := i.(*ssa.Call); ok && staticCallee(c) == upd {
			return true
		}
		if st, ok := i.(*ssa.Store); ok && loadsFieldAddr(st.Addr, "offset") {
			return true
		}
	}
	return false
}

func ruleC07Never(w *World, r *Report) {
	// who may free a TEID: only where its session ends (the TEID stays programmed until then)
	{
		sites := map[string]bool{
			"pfcpiface.(*PFCPConn).handleSessionDeletionRequest": true,
			"pfcpiface.(*PFCPConn).handleSessionReportResponse":  true,
			"pfcpiface.(*PFCPConn).shutdownConn":                 true,
			"pfcpiface.(*PFCPConn).Shutdown":                     true,
			"pfcpiface.releaseAllocatedTEIDs":                    true,
		}
		k := 0
		for _, name := range []string{"pfcpiface.(*FTEIDGenerator).FreeID", "pfcpiface.releaseAllocatedTEIDs"} {
			f := w.Fn("C07", name)
			for _, e := range w.CG().callersOf(f) {
				cn := w.FuncName(e.Caller)
				if strings.HasPrefix(cn, "test/") {
					continue
				}
				k++
				okS := sites[cn] || strings.HasPrefix(cn, "pfcpiface.(*PFCPConn).handleSessionEstablishmentRequest$")
				r.check(okS, "R07.7", cn, "a UP-chosen TEID is freed only where its session ends (or its establishment is aborted)", w.Pos(e.Site.Pos()), "session-ending site", cn+" frees a TEID while the session that was given it goes on (the request may still be rejected, the PDR stays programmed): the generator hands the same TEID to another session")
			}
		}
		r.floor("R07.7 TEID release call sites", k, 4)
		// which TEIDs: only those this agent chose for the PDR. A CP-chosen TEID is just a number; freeing
		// it marks a TEID free that the generator may have handed to another live session.
		rel := w.Fn("C07", "pfcpiface.releaseAllocatedTEIDs")
		free := w.Fn("C07", "pfcpiface.(*FTEIDGenerator).FreeID")
		m := 0
		// (the decision may be taken where the TEID is put on a local list that a second loop frees entirely)
		relSites, _ := teidReleaseSites(rel, free)
		for _, si := range relSites {
			m++
			c := si
			g := onlyVia(rel, si, func(a, b *ssa.BasicBlock) bool {
				v, truth, ok := boolEdge(a, b)
				return ok && truth && strings.HasSuffix(symOf(v).String(), "UPAllocateFteid")
			})
			r.check(g, "R07.7", w.FuncName(rel), "only TEIDs the agent chose for the PDR are given back", w.Pos(c.Pos()), "under pdr.UPAllocateFteid", "FreeID is reachable for a PDR whose TEID the control plane chose: ending that session frees a number that another live session may have been given by the generator, which then hands it out a second time")
		}
		r.floor("R07.7 FreeID calls in releaseAllocatedTEIDs", m, 1)
		// in the deletion handler only after the datapath accepted the delete
		h := w.Fn("C07", "pfcpiface.(*PFCPConn).handleSessionDeletionRequest")
		rejected := w.ConstInt("C07", iePkg, "CauseRequestRejected")
		delType := w.ConstInt("C07", pfcpPkg, "upfMsgTypeDel")
		var del *ssa.Call
		for _, c := range datapathCalls(h, "SendMsgToUPF") {
			if kk, isK := constInt(c.Call.Args[0]); isK && kk == delType {
				del = c
			}
		}
		if del != nil {
			for _, c := range callsTo(h, w.Fn("C07", "pfcpiface.releaseAllocatedTEIDs")) {
				si := c.(ssa.Instruction)
				g := instrDominates(del, si) && onlyVia(h, si, func(a, b *ssa.BasicBlock) bool { return causeEdge(a, b, del, rejected, false) })
				r.check(g, "R07.7", w.FuncName(h), "TEIDs are freed only after the datapath accepted the delete", w.Pos(si.Pos()), "after SendMsgToUPF(del) ≠ rejected", "the TEIDs are freed before (or regardless of) the datapath delete: a rejected deletion leaves the PDR programmed with a TEID the generator considers free")
			}
		}
	}
	n := 0
	for _, a := range w.accessesOf(map[string]bool{"upf": true, "FTEIDGenerator": true}) {
		if !a.write || a.what != "store" {
			continue
		}
		fn := w.FuncName(a.fn)
		switch {
		case a.owner.Obj().Name() == "upf" && a.fld.Name() == "fteidGenerator":
			n++
			r.check(fn == "pfcpiface.NewUPF", "R07.4", fn, "the TEID generator is installed once, while the UPF object is built", w.Pos(a.ins.Pos()), "NewUPF", "upf.fteidGenerator is replaced in "+fn+": TEIDs still in use are forgotten and will be handed out again")
		case a.owner.Obj().Name() == "FTEIDGenerator" && a.fld.Name() == "usedMap":
			n++
			r.check(fn == "pfcpiface.NewFTEIDGenerator", "R07.4", fn, "the used-set is created once", w.Pos(a.ins.Pos()), "constructor", "usedMap is replaced in "+fn)
		}
	}
	// there is one generator for the whole node: no other object holds a generator of its own
	for _, f := range w.Funcs {
		if strings.HasPrefix(w.FuncName(f), "test/") {
			continue
		}
		allInstrs(f, func(i ssa.Instruction) {
			st, ok := i.(*ssa.Store)
			if !ok {
				return
			}
			fa, ok := st.Addr.(*ssa.FieldAddr)
			if !ok || fieldVar(fa) == nil {
				return
			}
			if nt := namedOf(fieldVar(fa).Type()); nt == nil || nt.Obj().Name() != "FTEIDGenerator" {
				return
			}
			owner := ""
			if o := namedOf(fa.X.Type()); o != nil {
				owner = o.Obj().Name()
			}
			if owner == "upf" && fieldVar(fa).Name() == "fteidGenerator" {
				return // judged above
			}
			n++
			r.bad("R07.4", w.FuncName(f), "the node has a single TEID generator", w.Pos(st.Pos()), owner+"."+fieldVar(fa).Name()+" holds a TEID generator of its own: every such object starts its cursor at TEID 1, so live sessions of two associations get the same (N3 address, TEID)")
		})
	}
	r.floor("R07.4 generator installation sites", n, 1)
	// every Allocate/FreeID call goes to upf.fteidGenerator
	for _, name := range []string{"pfcpiface.(*FTEIDGenerator).Allocate", "pfcpiface.(*FTEIDGenerator).FreeID"} {
		f := w.Fn("C07", name)
		for _, e := range w.CG().callersOf(f) {
			recv := e.Site.(ssa.CallInstruction).Common().Args[0]
			s := symOf(recv).String()
			okR := strings.HasSuffix(s, "upf.fteidGenerator")
			if p, isP := recv.(*ssa.Parameter); isP {
				// handed in by the caller: check the caller's callers
				okR = true
				for _, e2 := range w.CG().callersOf(e.Caller) {
					idx := -1
					for i, pp := range e.Caller.Params {
						if pp == p {
							idx = i
						}
					}
					if idx < 0 {
						okR = false
						continue
					}
					s2 := symOf(e2.Site.(ssa.CallInstruction).Common().Args[idx]).String()
					if !strings.HasSuffix(s2, "upf.fteidGenerator") {
						okR = false
						s = s2
					}
				}
			}
			r.check(okR, "R07.4", w.FuncName(e.Caller), f.Name()+" is applied to the node-wide generator", w.Pos(e.Site.Pos()), "upf.fteidGenerator", f.Name()+" is applied to "+s)
		}
	}
}

func ruleC07SEID(w *World, r *Report) {
	const P = "C07"
	f := w.Fn(P, "pfcpiface.(*PFCPConn).NewPFCPSession")
	fn := w.FuncName(f)
	var cand *ssa.Call
	allInstrs(f, func(i ssa.Instruction) {
		if c, ok := i.(*ssa.Call); ok && calleeName(c) == "(*math/rand.Rand).Uint64" {
			cand = c
		}
	})
	if cand == nil {
		r.bad("R07.5", fn, "candidate drawn from the random source", w.Pos(f.Pos()), "NewPFCPSession no longer draws the SEID from rng.Uint64()")
		return
	}
	rs := symOf(cand.Call.Args[0]).String()
	r.check(rs == "PFCPConn.rng", "R07.5", fn, "the candidate comes from the connection's own generator", w.Pos(cand.Pos()), rs, "the candidate comes from "+rs)
	// the literal's localSEID is the candidate
	var sessStore *ssa.Store
	allInstrs(f, func(i ssa.Instruction) {
		if st, ok := i.(*ssa.Store); ok {
			if fa, ok := st.Addr.(*ssa.FieldAddr); ok && fieldVar(fa) != nil && fieldVar(fa).Name() == "localSEID" {
				sessStore = st
			}
		}
	})
	if sessStore == nil {
		r.bad("R07.5", fn, "the session is created with the candidate", w.Pos(f.Pos()), "localSEID is not set")
		return
	}
	// (the candidate may be carried out of the search loop in a variable: what counts is what that
	// variable can hold where the session is built)
	isCand := true
	for _, v := range valuesAt(sessStore.Val, sessStore) {
		isCand = isCand && v == ssa.Value(cand)
	}
	r.check(isCand, "R07.5", fn, "the session's local SEID is the tested candidate", w.Pos(sessStore.Pos()), "same value", "localSEID is "+symOf(sessStore.Val).String()+", not the candidate that was tested")
	// guards: candidate != 0 and GetSession(candidate) not found
	var get *ssa.Call
	allInstrs(f, func(i ssa.Instruction) {
		if c, ok := i.(*ssa.Call); ok && c.Call.IsInvoke() && c.Call.Method.Name() == "GetSession" {
			get = c
		}
	})
	if get == nil {
		r.bad("R07.5", fn, "the candidate is looked up in the store", w.Pos(f.Pos()), "no GetSession call: a SEID in use can be handed out again")
		return
	}
	r.check(get.Call.Args[0] == ssa.Value(cand), "R07.5", fn, "the store is asked about the candidate itself", w.Pos(get.Pos()), "GetSession(candidate)", "the collision check looks up "+symOf(get.Call.Args[0]).String()+" instead of the candidate")
	st := symOf(get.Call.Value).String()
	r.check(st == "PFCPConn.store", "R07.5", fn, "the collision check consults the association's session store", w.Pos(get.Pos()), st, "the collision check consults "+st)
	found := extractOf(get, 1)
	r.check(onlyVia(f, sessStore, func(a, b *ssa.BasicBlock) bool {
		v, truth, ok := boolEdge(a, b)
		return ok && !truth && v == found
	}), "R07.5", fn, "a candidate that is in use is never taken", w.Pos(sessStore.Pos()), "under !found", "the session is created although the candidate is already in the store")
	r.check(onlyVia(f, sessStore, func(a, b *ssa.BasicBlock) bool {
		x, op, y, ok := edgeFact(a, b)
		if !ok || x != ssa.Value(cand) {
			return false
		}
		k, isK := constInt(y)
		return isK && k == 0 && op == token.NEQ
	}), "R07.5", fn, "SEID 0 is never taken", w.Pos(sessStore.Pos()), "under candidate != 0", "a zero SEID can be chosen")
	// bounded loop; failure result
	bounded := false
	for _, b := range f.Blocks {
		for _, sc := range b.Succs {
			_, op, y, ok := edgeFact(b, sc)
			if ok && (op == token.LSS || op == token.GEQ) && strings.HasSuffix(symOf(y).String(), "maxRetries") {
				bounded = true
			}
			// the same budget counted the other way: the tries left start at maxRetries, every round of
			// the loop that draws takes some away, and the loop goes on only while some are left
			if ok && naturalLoop(b)[cand.Block()] && b.Dominates(cand.Block()) {
				x, op, y := edgeFactArgs(b, sc)
				if _, isK := constInt(x); isK {
					x, op, y = y, flipOp(op), x
				}
				k, isK := constInt(y)
				stays := naturalLoop(b)[sc] && sc != b
				switch {
				case !isK || !countsDownFrom(x, b, "maxRetries"):
				case stays && (op == token.GTR && k >= 0 || op == token.GEQ && k >= 1):
					bounded = true
				case !stays && (op == token.LEQ && k >= 0 || op == token.LSS && k >= 1):
					bounded = true
				}
			}
		}
	}
	r.check(bounded, "R07.5", fn, "the retry loop is bounded by maxRetries", w.Pos(f.Pos()), "i < maxRetries", "the retry loop is not bounded")
	for _, ret := range returnsOf(f) {
		okV, isK := constBool(res(ret, 1))
		if !isK {
			r.bad("R07.5", fn, "verdict is constant per return", w.Pos(ret.Pos()), "non-constant verdict")
			continue
		}
		if okV {
			r.check(instrDominates(sessStore, ret), "R07.5", fn, "success returns the session built from the candidate", w.Pos(ret.Pos()), "dominated by the literal", "success without a session")
		} else {
			c, isC := res(ret, 0).(*ssa.Const)
			r.check(isC && c.Value == nil, "R07.5", fn, "failure returns no session", w.Pos(ret.Pos()), "PFCPSession{}", "failure returns a session value")
		}
	}
	// establishment refuses on failure
	est := w.Fn(P, "pfcpiface.(*PFCPConn).handleSessionEstablishmentRequest")
	for _, c := range callsTo(est, f) {
		call := c.(*ssa.Call)
		okE := extractOf(call, 1)
		var put ssa.Instruction
		allInstrs(est, func(i ssa.Instruction) {
			if cc, ok := i.(*ssa.Call); ok && cc.Call.IsInvoke() && cc.Call.Method.Name() == "PutSession" {
				put = i
			}
		})
		if put == nil {
			r.bad("R07.5", w.FuncName(est), "the session is stored", w.Pos(est.Pos()), "no PutSession in establishment")
			continue
		}
		r.check(onlyVia(est, put, func(a, b *ssa.BasicBlock) bool {
			v, truth, ok := boolEdge(a, b)
			return ok && truth && v == okE
		}), "R07.5", w.FuncName(est), "establishment is refused when no unused SEID was found", w.Pos(call.Pos()), "continues only on ok", "establishment continues although NewPFCPSession failed")
	}
	// the store is keyed by localSEID
	put := w.Fn(P, "pfcpiface.(*InMemoryStore).PutSession")
	n := 0
	allInstrs(put, func(i ssa.Instruction) {
		if c, ok := i.(*ssa.Call); ok && strings.HasSuffix(calleeName(c), "sync.Map).Store") {
			n++
			k := c.Call.Args[1]
			if mi, ok := k.(*ssa.MakeInterface); ok {
				k = mi.X
			}
			ks := symOf(k).String()
			r.check(strings.HasSuffix(ks, "localSEID"), "R07.5", w.FuncName(put), "the store is keyed by the local SEID", w.Pos(c.Pos()), ks, "sessions are stored under "+ks)
		}
	})
	r.floor("R07.5 store writes", n, 1)
}

func edgeFactArgs(a, b *ssa.BasicBlock) (ssa.Value, token.Token, ssa.Value) {
	x, op, y, _ := edgeFact(a, b)
	return x, op, y
}

// countsDownFrom: v is the counter of the loop headed by hdr that starts (on every way in from outside
// the loop) at a value named by suffix and is made smaller by a positive constant on every way round.
func countsDownFrom(v ssa.Value, hdr *ssa.BasicBlock, suffix string) bool {
	phi, ok := v.(*ssa.Phi)
	if !ok || phi.Block() != hdr {
		return false
	}
	starts, steps := 0, 0
	for k, e := range phi.Edges {
		if hdr.Dominates(hdr.Preds[k]) { // back edge
			root, c := rootOffset(e)
			if root != ssa.Value(phi) || c >= 0 {
				return false
			}
			steps++
			continue
		}
		if !strings.HasSuffix(symOf(e).String(), suffix) {
			return false
		}
		starts++
	}
	return starts > 0 && steps > 0
}

func ruleC07Reported(w *World, r *Report, alloc *ssa.Function) {
	const P = "C07"
	est := w.Fn(P, "pfcpiface.(*PFCPConn).handleSessionEstablishmentRequest")
	en := w.FuncName(est)
	n := 0
	for _, f := range withClosures(est) {
		for _, c := range callsTo(f, alloc) {
			n++
			call := c.(*ssa.Call)
			v := extractOf(call, 0)
			ev := errResult(call)
			// stored into p.tunnelTEID with full mask, under err == nil and UPAllocateFteid
			var st *ssa.Store
			var mask *ssa.Store
			allInstrs(f, func(i ssa.Instruction) {
				s, ok := i.(*ssa.Store)
				if !ok {
					return
				}
				fa, ok := s.Addr.(*ssa.FieldAddr)
				if !ok || fieldVar(fa) == nil || rootTypeName(fa.X.Type()) != "pdr" {
					return
				}
				switch fieldVar(fa).Name() {
				case "tunnelTEID":
					if s.Val == v || throughCell(s.Val, v) {
						st = s
					}
				case "tunnelTEIDMask":
					mask = s
				}
			})
			r.check(st != nil, "R07.6", en, "the allocated TEID is what the PDR matches on", w.Pos(call.Pos()), "p.tunnelTEID = fteid", "the value returned by Allocate is not stored in the PDR's tunnelTEID")
			if st != nil {
				// what must not happen after a failed Allocate is that the TEID is *used*. Writing it into a PDR
				// that is still a variable of this function uses nothing: the TEID is used where that variable
				// is read. Writing it anywhere else (an element of a list, a PDR reached through a pointer)
				// publishes it at once, and there the store itself is the use.
				use := func(i ssa.Instruction) bool { return i == ssa.Instruction(st) }
				if readers, private := teidReadersOfLocal(st.Addr.(*ssa.FieldAddr)); private {
					use = func(i ssa.Instruction) bool { return readers[i] }
				}
				r.check(errGuarded(f, call, ev, use), "R07.6", en, "only a successfully allocated TEID is used", w.Pos(st.Pos()), "under err == nil", "the TEID is used although Allocate failed")
				// same PDR value goes to the session and to the reported list
				pdrCell := st.Addr.(*ssa.FieldAddr).X
				var toSession, toReport bool
				allInstrs(f, func(i ssa.Instruction) {
					cc, ok := i.(*ssa.Call)
					if !ok {
						return
					}
					if callee := staticCallee(cc); callee != nil && callee.Name() == "CreatePDR" {
						if u, ok := cc.Call.Args[1].(*ssa.UnOp); ok && u.X == pdrCell && instrReachesNoLoop(f, st, cc) {
							toSession = true
						}
					}
					if b, isB := cc.Call.Value.(*ssa.Builtin); isB && b.Name() == "append" && instrReachesNoLoop(f, st, cc) {
						if appendedFromCell(cc, pdrCell) {
							toReport = true
						}
					}
				})
				r.check(toSession && toReport, "R07.6", en, "the same PDR value is kept in the session (programmed) and in the reported list", w.Pos(st.Pos()), "CreatePDR(p); addPDRs = append(addPDRs, p)", "the PDR that carries the allocated TEID is not the one programmed / reported")
			}
			if mask != nil {
				k, isK := constInt(mask.Val)
				r.check(isK && k == 0xffffffff, "R07.6", en, "an allocated TEID is matched exactly", w.Pos(mask.Pos()), "mask 0xFFFFFFFF", fmt.Sprintf("TEID mask %#x", k))
			} else {
				r.bad("R07.6", en, "an allocated TEID is matched exactly", w.Pos(call.Pos()), "tunnelTEIDMask is not set for an allocated TEID")
			}
		}
	}
	r.floor("R07.6 Allocate call sites", n, 1)
	// the response: Created PDR carries pdr.tunnelTEID of the list handed to addPdrInfo, which is the handler's addPDRs
	api := w.Fn(P, "pfcpiface.addPdrInfo")
	an := w.FuncName(api)
	k := 0
	allInstrs(api, func(i ssa.Instruction) {
		c, ok := i.(*ssa.Call)
		if !ok || !strings.HasSuffix(calleeName(c), "ie.NewFTEID") {
			return
		}
		k++
		ts := symOf(c.Call.Args[1]).String()
		r.check(strings.HasSuffix(ts, "[].tunnelTEID") || strings.HasSuffix(ts, "pdr.tunnelTEID"), "R07.6", an, "the reported F-TEID is the PDR's tunnelTEID", w.Pos(c.Pos()), ts, "Created PDR reports "+ts)
		g := onlyVia(api, c, func(a, b *ssa.BasicBlock) bool {
			v, truth, ok := boolEdge(a, b)
			return ok && truth && strings.HasSuffix(symOf(v).String(), "UPAllocateFteid")
		})
		r.check(g, "R07.6", an, "an F-TEID is reported exactly for PDRs whose TEID the agent chose", w.Pos(c.Pos()), "under UPAllocateFteid", "an F-TEID is reported for PDRs whose TEID was not allocated here")
	})
	r.floor("R07.6 reported F-TEIDs", k, 1)
	// every handler that creates PDRs serves the CHOOSE flag
	parse := w.Fn(P, "pfcpiface.(*pdr).parsePDR")
	for _, e := range w.CG().callersOf(parse) {
		h := e.Caller
		// only the sites that parse *created* PDRs (argument comes from a CreatePDR list)
		as := symOf(e.Site.(ssa.CallInstruction).Common().Args[1]).String()
		if !strings.Contains(as, "CreatePDR") {
			continue
		}
		root := h
		for root.Parent() != nil {
			root = root.Parent()
		}
		serves := false
		for _, g := range withClosures(root) {
			if len(callsTo(g, alloc)) > 0 {
				serves = true
			}
		}
		// or refuses the flag explicitly
		refuses := false
		allInstrs(h, func(i ssa.Instruction) {
			if u, ok := i.(*ssa.UnOp); ok && loadsField(u, "UPAllocateFteid") {
				refuses = true
			}
		})
		r.check(serves || refuses, "R07.6", w.FuncName(root), "a created PDR with the CHOOSE flag gets a TEID from the generator (or is refused)", w.Pos(e.Site.Pos()), "Allocate is called", "PDRs created by this handler may carry the CHOOSE flag (parseFTEID sets UPAllocateFteid) but no TEID is allocated and none is reported: the PDR is programmed with TEID 0 / mask 0")
	}
}

// teidReadersOfLocal: fa addresses a field of a struct variable of the function. When that variable is
// private to the function — it is only read, written, has its fields addressed, or is lent to a call for
// the duration of the call — the result lists the instructions through which the field's value can
// leave the variable: copies of the whole variable, reads of the field, calls that are given the address of
// the variable or of the field. private is false when the variable is not a local or its address is kept
// somewhere (stored, captured by a closure, merged with other pointers).
func teidReadersOfLocal(fa *ssa.FieldAddr) (readers map[ssa.Instruction]bool, private bool) {
	cell, ok := fa.X.(*ssa.Alloc)
	if !ok || cell.Referrers() == nil {
		return nil, false
	}
	readers = map[ssa.Instruction]bool{}
	// uses of an address a (the variable or the field): false when a is kept
	var scan func(a ssa.Value, whole bool) bool
	scan = func(a ssa.Value, whole bool) bool {
		if a.Referrers() == nil {
			return true
		}
		for _, ref := range *a.Referrers() {
			switch x := ref.(type) {
			case *ssa.DebugRef:
			case *ssa.Store:
				if x.Addr != a {
					return false // the address itself is stored
				}
			case *ssa.UnOp:
				if x.Op != token.MUL {
					return false
				}
				readers[x] = true
			case *ssa.FieldAddr:
				if !whole {
					return false
				}
				if x.Field == fa.Field && !scan(x, false) {
					return false
				}
			case *ssa.Call:
				readers[x] = true
			default:
				return false
			}
		}
		return true
	}
	if !scan(cell, true) {
		return nil, false
	}
	return readers, true
}

func throughCell(v, want ssa.Value) bool {
	u, ok := v.(*ssa.UnOp)
	if !ok || u.Op != token.MUL {
		return false
	}
	cell := cellOf(u.X)
	if cell == nil {
		return false
	}
	sts := storesTo(cell)
	for _, st := range sts {
		if st.Val == want {
			return true
		}
	}
	return false
}

// appendedFromCell: append(list, *cell)
func appendedFromCell(app *ssa.Call, cell ssa.Value) bool {
	if len(app.Call.Args) < 2 {
		return false
	}
	sl, ok := app.Call.Args[1].(*ssa.Slice)
	if !ok {
		return false
	}
	al, ok := sl.X.(*ssa.Alloc)
	if !ok || al.Referrers() == nil {
		return false
	}
	for _, ref := range *al.Referrers() {
		if ia, ok := ref.(*ssa.IndexAddr); ok && ia.Referrers() != nil {
			for _, r2 := range *ia.Referrers() {
				if st, ok := r2.(*ssa.Store); ok {
					if u, ok := st.Val.(*ssa.UnOp); ok && u.X == cell {
						return true
					}
				}
			}
		}
	}
	return false
}

// ruleC07EverySessionsEntry (R07.11): the F-TEID reported for a PDR is programmed: UP4 writes the
// sessions entry of every PDR it is given. PDRs of one direction often share the entry (same TEID: the
// switch answers ALREADY_EXISTS, tolerated), but they need not — each CHOOSE PDR gets a TEID of its own —
// so the entry may not be skipped because "the direction was done already".
func ruleC07EverySessionsEntry(w *World, r *Report) {
	const P = "C07"
	mod := w.Fn(P, "pfcpiface.(*UP4).modifyUP4ForwardingConfiguration")
	build := w.Fn(P, "pfcpiface.(*P4rtTranslator).BuildSessionsTableEntry")
	n := 0
	for _, c := range callsTo(mod, build) {
		call := c.(*ssa.Call)
		entry := extractOf(call, 0)
		errV := extractOf(call, 1)
		if entry == nil || errV == nil {
			continue
		}
		n++
		var start ssa.Instruction
		for _, b := range mod.Blocks {
			for _, sc := range b.Succs {
				if nilnessEdge(b, sc, func(x ssa.Value) bool { return x == errV }, true) && len(sc.Instrs) > 0 {
					start = sc.Instrs[0]
				}
			}
		}
		if start == nil {
			r.bad("R07.11", w.FuncName(mod), "the sessions entry's build error is examined", w.Pos(call.Pos()), "no err == nil edge after BuildSessionsTableEntry")
			continue
		}
		// the append that puts the entry into the batch
		isAppend := func(i ssa.Instruction) bool {
			ac, ok := i.(*ssa.Call)
			if !ok || calleeName(ac) != "builtin.append" || len(ac.Call.Args) != 2 {
				return false
			}
			// variadic slice of a fresh array holding the entry
			sl, ok := ac.Call.Args[1].(*ssa.Slice)
			if !ok {
				return false
			}
			al, ok := sl.X.(*ssa.Alloc)
			if !ok {
				return false
			}
			for _, ref := range *al.Referrers() {
				if ia, ok := ref.(*ssa.IndexAddr); ok {
					for _, rr := range *ia.Referrers() {
						if st, ok := rr.(*ssa.Store); ok && st.Val == entry {
							return true
						}
					}
				}
			}
			return false
		}
		isApply := func(i ssa.Instruction) bool {
			ac, ok := i.(*ssa.Call)
			return ok && staticCallee(ac) != nil && staticCallee(ac).Name() == "ApplyTableEntries"
		}
		miss := reach(mod, start, isApply, isAppend, nil)
		if isAppend(start) {
			miss = nil
		}
		r.check(miss == nil, "R07.11", w.FuncName(mod), "the sessions entry of every PDR is part of the PDR's batch", w.Pos(call.Pos()), "appended on every path to ApplyTableEntries", "the sessions entry built for a PDR can be left out of the write (e.g. because an entry for that direction was written already): a second uplink PDR with a TEID of its own — the handler allocates one per CHOOSE PDR and reports it — never gets its sessions_uplink entry")
	}
	r.floor("R07.11 sessions entries built per PDR", n, 1)
}
