package main

import (
	"fmt"
	"go/constant"
	"go/token"
	"go/types"
	"regexp"
	"sort"
	"strings"

	"golang.org/x/tools/go/ssa"
)

func init() { rules["C08"] = ruleC08 }

// appFilterStores: stores into fields of applicationFilter (through p.appFilter) in fn.
func appFilterStores(fn *ssa.Function) []*ssa.Store {
	var out []*ssa.Store
	allInstrs(fn, func(i ssa.Instruction) {
		st, ok := i.(*ssa.Store)
		if !ok {
			return
		}
		fa, ok := st.Addr.(*ssa.FieldAddr)
		if !ok {
			return
		}
		if rootTypeName(fa.X.Type()) == "applicationFilter" {
			out = append(out, st)
		}
	})
	return out
}

func ruleC08(w *World, r *Report) {
	const P = "C08"
	r.Explanation = "R08.1 the crash obligations of C01 restricted to the flow-description and PDI parsers; R08.2 on every path of parseSDFFilter / parseApplicationID that returns an error no field of the PDR's application filter has been written, parsePDR tolerates exactly errBadFilterDesc, every error of the tokenizer's helpers reaches parseFlowDesc's error result and is mapped to errBadFilterDesc by the callers; " +
		"R08.3 orientation: the core arm copies src→src/dst→dst and the access arm is its mirror (absolute table against the statement), the port work-around is symmetric, PFD-backed filters are copied verbatim under the direction predicate (access∧out ∨ core∧in) with no filter field written before the direction matched, the UE-address pre-fill picks dst for downlink and src for uplink; 'assigned'/'any' rewrite table of the xform closure; " +
		"R08.4 handlePFDMgmtRequest: the previous table is saved before ResetAppPFDs, ResetAppPFDs installs a fresh map without touching the old one, it dominates every write, every rejecting exit restores the saved table and the accepting exit does not."
	r.Explanation += " R08.5 on the request path pdr.appFilter is only refined field by field, never replaced wholesale (the UE address stored by parsePDI survives a malformed filter text)."
	r.Explanation += " R08.6 the UP4 application sharing key is made of exactly the fields the applications entry is built from, per direction, unaltered; WRAP obligations on the port expansion."
	r.Explanation += " R08.7 = C04 R04.9 (IsAppFilterEmpty agrees with the applications key on all valuations); R08.8 = C17 R17.2 (port and mask of a rule come from the side they are expanded from); R08.9 the loops of the PFD handler are left early only towards a rejecting reply."
	r.NotDecided = "that the filter means the text for every string of the grammar (round trip over an infinite language); net.ParseCIDR/strconv semantics"
	sdf := w.Fn(P, "pfcpiface.(*pdr).parseSDFFilter")
	app := w.Fn(P, "pfcpiface.(*pdr).parseApplicationID")
	flow := w.Fn(P, "pfcpiface.parseFlowDesc")
	ppdr := w.Fn(P, "pfcpiface.(*pdr).parsePDR")
	ppdi := w.Fn(P, "pfcpiface.(*pdr).parsePDI")
	access, core := w.ConstInt(P, pfcpPkg, "access"), w.ConstInt(P, pfcpPkg, "core")

	// ---------- R08.1 crash obligations of the parsers
	{
		// the parsers: what parsePDR / parseFlowDesc reach (by calls, not by file: a function may move)
		funcs := map[*ssa.Function]bool{}
		onPath := receivePathFuncs(w, P)
		sdf := map[*ssa.Function]bool{}
		for g := range w.CG().Reachable([]*ssa.Function{flow}, func(e *Edge) bool { return e.Kind != "go" }) {
			if w.isRepoFunc(g) {
				sdf[g] = true
			}
		}
		for g := range w.CG().Reachable([]*ssa.Function{ppdr, ppdi, flow}, func(e *Edge) bool { return e.Kind != "go" }) {
			if w.isRepoFunc(g) && onPath[g] && !strings.HasPrefix(w.FuncName(g), "logger.") && !strings.HasPrefix(w.FuncName(g), "pfcpiface/metrics") {
				funcs[g] = true
			}
		}
		// lifting needs the callers in the set as well
		all := receivePathFuncs(w, P)
		eng := newEngine(w, r, "R08.1", all)
		for _, f := range sortedFuncs(w, funcs) {
			eng.idx(f)
			eng.nilObls(f)
			eng.taObls(f)
			eng.exitObls(f)
			eng.divObls(f)
			eng.wrapObls(f)
			if sdf[f] {
				eng.narrowObls(f)
			}
		}
		// the expansion of a parsed port range (BESS) must terminate for every range the parser accepts
		{
			fs := map[*ssa.Function]bool{w.Fn(P, "pfcpiface.(portRange).asComplexTernaryMatches"): true, w.Fn(P, "pfcpiface.CreatePortRangeCartesianProduct"): true}
			weng := newEngine(w, r, "R08.1", fs)
			for _, f := range sortedFuncs(w, fs) {
				weng.wrapObls(f)
			}
		}
		r.floor("R08.1 parser functions", len(funcs), 15)
	}

	// ---------- R08.2
	for _, f := range []*ssa.Function{sdf, app} {
		fn := w.FuncName(f)
		stores := appFilterStores(f)
		r.floor("R08.2 application filter stores in "+fn, len(stores), 6)
		for k, ret := range returnsOf(f) {
			if isNilConst(res(ret, 0)) {
				continue
			}
			dirty := false
			for _, st := range stores {
				if reach(f, st, func(i ssa.Instruction) bool { return i == ssa.Instruction(ret) }, nil, nil) != nil {
					dirty = true
				}
			}
			r.check(!dirty, "R08.2", fn, fmt.Sprintf("error return #%d leaves the application filter untouched", k+1), w.Pos(ret.Pos()), "no filter store reaches it", "a filter field is written on a path that then returns an error: the PDR keeps a partial (different) filter")
		}
		// a failing parseFlowDesc is reported as errBadFilterDesc
		for _, c := range callsTo(f, flow) {
			call := c.(*ssa.Call)
			ev := errResult(call)
			for _, b := range f.Blocks {
				for _, s := range b.Succs {
					if nilnessEdge(b, s, func(x ssa.Value) bool { return x == ev }, false) && len(s.Preds) == 1 {
						// the block must return the sentinel
						ret, _ := s.Instrs[len(s.Instrs)-1].(*ssa.Return)
						good := ret != nil && strings.HasSuffix(symOf(res(ret, 0)).String(), "errBadFilterDesc")
						r.check(good, "R08.2", fn, "a flow description that does not parse is reported as errBadFilterDesc", w.Pos(call.Pos()), "returns the sentinel", "a tokenizer error is not mapped to errBadFilterDesc (the PDR is then refused or the error is swallowed)")
					}
				}
			}
			// nothing is used from the result unless err == nil
			for _, st := range stores {
				g := errGuarded(f, call, ev, func(i ssa.Instruction) bool { return i == ssa.Instruction(st) })
				if !g {
					r.bad("R08.2", fn, "filter written only from a successfully parsed description", w.Pos(st.Pos()), "a filter field is written although parseFlowDesc failed")
				}
			}
		}
	}
	// parsePDR tolerates exactly errBadFilterDesc
	{
		fn := w.FuncName(ppdr)
		for _, c := range callsTo(ppdr, ppdi) {
			call := c.(*ssa.Call)
			// the instruction that follows in the success flow: the FARID accessor call
			var next ssa.Instruction
			allInstrs(ppdr, func(i ssa.Instruction) {
				if cc, ok := i.(*ssa.Call); ok && strings.HasSuffix(calleeName(cc), "ie.IE).FARID") && next == nil {
					next = i
				}
			})
			if next == nil {
				brokenf(P, "R08.2", "cannot find the continuation after parsePDI in parsePDR")
			}
			// reachable from the call only via err == nil or errors.Is(err, errBadFilterDesc) == true
			hit := reach(ppdr, call, func(i ssa.Instruction) bool { return i == next }, nil, func(a, b *ssa.BasicBlock) bool {
				if nilnessEdge(a, b, func(x ssa.Value) bool { return x == ssa.Value(call) }, true) {
					return true
				}
				v, truth, ok := boolEdge(a, b)
				if ok && truth {
					if cc, isCall := v.(*ssa.Call); isCall && calleeName(cc) == "errors.Is" {
						return cc.Call.Args[0] == ssa.Value(call) && strings.HasSuffix(symOf(cc.Call.Args[1]).String(), "errBadFilterDesc")
					}
				}
				return false
			})
			r.check(hit == nil, "R08.2", fn, "only errBadFilterDesc from the PDI is tolerated", w.Pos(call.Pos()), "continuation reachable only via err == nil or errors.Is(err, errBadFilterDesc)", "parsePDR continues after a PDI error other than errBadFilterDesc (or ignores PDI errors altogether)")
			// and it is tolerated (property: the filter is ignored, the PDR matches on the UE address only)
			tolerated := false
			allInstrs(ppdr, func(i ssa.Instruction) {
				if cc, ok := i.(*ssa.Call); ok && calleeName(cc) == "errors.Is" && cc.Call.Args[0] == ssa.Value(call) {
					tolerated = true
				}
			})
			r.check(tolerated, "R08.2", fn, "a bad filter does not refuse the PDR", w.Pos(call.Pos()), "errors.Is(err, errBadFilterDesc) present", "errBadFilterDesc is no longer tolerated")
		}
	}
	// tokenizer: every helper error reaches parseFlowDesc's error result
	{
		fn := w.FuncName(flow)
		helpers := []string{"parseAction", "parseDirection", "parseNet", "parsePort"}
		n := 0
		allInstrs(flow, func(i ssa.Instruction) {
			c, ok := i.(*ssa.Call)
			if !ok || staticCallee(c) == nil {
				return
			}
			name := staticCallee(c).Name()
			isHelper := false
			for _, h := range helpers {
				if name == h {
					isHelper = true
				}
			}
			if !isHelper {
				return
			}
			n++
			ev := errResult(c)
			if ev == nil {
				r.bad("R08.2", fn, name+" error is examined", w.Pos(c.Pos()), "the error of "+name+" is discarded")
				return
			}
			for _, ret := range returnsOf(flow) {
				if !isNilConst(res(ret, 1)) {
					continue
				}
				g := errGuarded(flow, c, ev, func(j ssa.Instruction) bool { return j == ssa.Instruction(ret) })
				r.check(g, "R08.2", fn, fmt.Sprintf("a failing %s (#%d) fails the description", name, n), w.Pos(c.Pos()), "success unreachable unless err == nil", "parseFlowDesc can succeed although "+name+" failed: a malformed token yields a filter (different from the one written)")
			}
		})
		r.floor("R08.2 tokenizer helper calls", n, 6)
		// parsePort/parseNet: every error return leaves the endpoint untouched
		for _, hn := range []string{"pfcpiface.(*endpoint).parsePort", "pfcpiface.(*endpoint).parseNet"} {
			h := w.Fn(P, hn)
			var sts []*ssa.Store
			allInstrs(h, func(i ssa.Instruction) {
				if st, ok := i.(*ssa.Store); ok {
					if fa, ok := st.Addr.(*ssa.FieldAddr); ok && rootTypeName(fa.X.Type()) == "endpoint" {
						sts = append(sts, st)
					}
				}
			})
			for k, ret := range returnsOf(h) {
				if isNilConst(res(ret, 0)) {
					continue
				}
				// ParseCIDR assigns ep.IPNet together with err: a nil IPNet on error is harmless because the caller returns
				dirty := false
				for _, st := range sts {
					if _, isExtract := st.Val.(*ssa.Extract); isExtract {
						continue
					}
					if reach(h, st, func(i ssa.Instruction) bool { return i == ssa.Instruction(ret) }, nil, nil) != nil {
						dirty = true
					}
				}
				r.check(!dirty, "R08.2", w.FuncName(h), fmt.Sprintf("error return #%d leaves the endpoint unchanged", k+1), w.Pos(ret.Pos()), "no store reaches it", "an endpoint field is set on a path that returns an error")
			}
		}
	}

	// ---------- R08.3 orientation of parseSDFFilter
	{
		fn := w.FuncName(sdf)
		arms := map[int64]map[string]string{access: {}, core: {}}
		for _, st := range appFilterStores(sdf) {
			fa := st.Addr.(*ssa.FieldAddr)
			fld := fieldVar(fa).Name()
			for _, iface := range []int64{access, core} {
				iface := iface
				if onlyVia(sdf, st, func(a, b *ssa.BasicBlock) bool {
					x, op, y, ok := edgeFact(a, b)
					if !ok || op != token.EQL || !strings.HasSuffix(symOf(x).String(), "pdr.srcIface") {
						return false
					}
					k, isK := constInt(y)
					return isK && k == iface
				}) {
					// only the unconditional stores of the arm (not the work-around's)
					wa := onlyVia(sdf, st, func(a, b *ssa.BasicBlock) bool {
						v, _, ok := boolEdge(a, b)
						if !ok {
							return false
						}
						c, isCall := v.(*ssa.Call)
						return isCall && staticCallee(c) != nil && staticCallee(c).Name() == "isWildcardMatch"
					})
					key := fld
					if wa {
						key = "workaround:" + fld
					}
					arms[iface][key] = symOf(st.Val).String()
				}
			}
		}
		want := map[int64]map[string]string{
			core: {
				"dstIP": "pfcpiface.ip2int(ipFilterRule.dst.IPNet.IP)", "dstIPMask": "pfcpiface.ipMask2int(ipFilterRule.dst.IPNet.Mask)",
				"srcIP": "pfcpiface.ip2int(ipFilterRule.src.IPNet.IP)", "srcIPMask": "pfcpiface.ipMask2int(ipFilterRule.src.IPNet.Mask)",
				"dstPortRange": "ipFilterRule.dst.ports", "srcPortRange": "ipFilterRule.src.ports",
			},
			access: {
				"srcIP": "pfcpiface.ip2int(ipFilterRule.dst.IPNet.IP)", "srcIPMask": "pfcpiface.ipMask2int(ipFilterRule.dst.IPNet.Mask)",
				"dstIP": "pfcpiface.ip2int(ipFilterRule.src.IPNet.IP)", "dstIPMask": "pfcpiface.ipMask2int(ipFilterRule.src.IPNet.Mask)",
				"dstPortRange": "ipFilterRule.src.ports", "srcPortRange": "ipFilterRule.dst.ports",
			},
		}
		names := map[int64]string{access: "access", core: "core"}
		for _, iface := range []int64{core, access} {
			var keys []string
			for k := range want[iface] {
				keys = append(keys, k)
			}
			sort.Strings(keys)
			for _, fld := range keys {
				got := strings.ReplaceAll(arms[iface][fld], "parseFlowDesc#0(", "X(")
				// strip the call wrapper: the rule is written against the parsed rule's fields
				got = stripFlowRoot(arms[iface][fld])
				r.check(sameFlowLeaves(got, want[iface][fld]), "R08.3", fn, names[iface]+" arm: "+fld+" ← "+want[iface][fld], w.Pos(sdf.Pos()), got, names[iface]+" PDR: "+fld+" is taken from "+got)
			}
			// work-around: the non-wildcard application port moves to the other side and the original side becomes wildcard
			wa := arms[iface]
			if iface == core {
				r.check(strings.HasSuffix(wa["workaround:srcPortRange"], "appFilter.dstPortRange") && strings.Contains(wa["workaround:dstPortRange"], "newWildcardPortRange"), "R08.3", fn, "core port work-around: src ← dst, dst ← wildcard", w.Pos(sdf.Pos()), wa["workaround:srcPortRange"]+" ; "+wa["workaround:dstPortRange"], "core port work-around is "+wa["workaround:srcPortRange"]+" ; "+wa["workaround:dstPortRange"])
			} else {
				r.check(strings.HasSuffix(wa["workaround:dstPortRange"], "appFilter.srcPortRange") && strings.Contains(wa["workaround:srcPortRange"], "newWildcardPortRange"), "R08.3", fn, "access port work-around: dst ← src, src ← wildcard", w.Pos(sdf.Pos()), wa["workaround:dstPortRange"]+" ; "+wa["workaround:srcPortRange"], "access port work-around is "+wa["workaround:dstPortRange"]+" ; "+wa["workaround:srcPortRange"])
			}
		}
		// proto: set iff the description names one
		for _, st := range appFilterStores(sdf) {
			fld := fieldVar(st.Addr.(*ssa.FieldAddr)).Name()
			if fld != "proto" && fld != "protoMask" {
				continue
			}
			g := onlyVia(sdf, st, func(a, b *ssa.BasicBlock) bool {
				x, op, y, ok := edgeFact(a, b)
				if !ok || op != token.NEQ {
					return false
				}
				k, isK := constInt(y)
				return isK && k == 0xff && strings.HasSuffix(symOf(x).String(), ".proto")
			})
			r.check(g, "R08.3", fn, fld+" set only when the description names a protocol", w.Pos(st.Pos()), "under proto != reserved", fld+" is set for 'ip' descriptions too")
			if fld == "proto" {
				r.check(strings.HasSuffix(symOf(st.Val).String(), "ipFilterRule.proto") || strings.HasSuffix(stripFlowRoot(symOf(st.Val).String()), "ipFilterRule.proto"), "R08.3", fn, "proto ← the description's protocol", w.Pos(st.Pos()), symOf(st.Val).String(), "proto taken from "+symOf(st.Val).String())
			} else {
				k, isK := constInt(st.Val)
				r.check(isK && k == 0xff, "R08.3", fn, "protoMask = 0xFF", w.Pos(st.Pos()), fmt.Sprint(k), fmt.Sprintf("protoMask %d", k))
			}
		}
		// the UE address handed to the tokenizer for 'assigned'
		for _, f := range []*ssa.Function{sdf, app} {
			for _, c := range callsTo(f, flow) {
				s := symOf(c.Common().Args[1]).String()
				r.check(strings.Contains(s, "int2ip(pdr.ueAddress)"), "R08.3", w.FuncName(f), "'assigned' resolves to the PDR's UE address", w.Pos(c.Pos()), s, "'assigned' resolves to "+s)
			}
		}
	}
	ruleC08App(w, r, app, access, core)
	ruleC08Prefill(w, r, ppdi)
	ruleC08Xform(w, r, flow)
	ruleC08PFD(w, r)
	ruleC08KeepUE(w, r)
	ruleUP4AppKey(w, r, "C08", "R08.6")
	// R08.7: which PDRs UP4 treats as "no filter" (application ID 0, no applications entry) — the predicate
	// agrees with the applications key on all valuations (C04 R04.9, re-filed)
	r.withRule("R08.7", func() { ruleC04AppFilterEmpty(w, r) })
	rulePFDLoopExits(w, r, "C08", "R08.9")
	// R08.8: the BESS port rules carry the port and mask of the side they are expanded from (C17 R17.2, re-filed)
	r.withRule("R08.8", func() {
		ruleC17Cartesian(w, r, w.Fn(P, "pfcpiface.CreatePortRangeCartesianProduct"), w.Fn(P, "pfcpiface.(portRange).asComplexTernaryMatches"), w.Fn(P, "pfcpiface.(portRange).asTrivialTernaryMatch"), w.Fn(P, "pfcpiface.(portRange).isRangeMatch"))
	})
}

var flowLeafRe = regexp.MustCompile(`ipFilterRule(\.[A-Za-z0-9_]+)+`)

// sameFlowLeaves: both expressions read exactly the same fields of the parsed rule (helper names do not matter).
func sameFlowLeaves(got, want string) bool {
	a, b := flowLeafRe.FindAllString(got, -1), flowLeafRe.FindAllString(want, -1)
	if len(a) == 0 || len(a) != len(b) {
		return false
	}
	for i := range a {
		if a[i] != b[i] {
			return false
		}
	}
	return true
}

// stripFlowRoot rewrites "…parseFlowDesc#0(…).dst.ports" as "ipFilterRule.dst.ports".
func stripFlowRoot(s string) string {
	const marker = "pfcpiface.parseFlowDesc#0("
	for {
		i := strings.Index(s, marker)
		if i < 0 {
			return s
		}
		// find the matching parenthesis
		depth := 0
		j := i + len(marker) - 1
		end := -1
		for ; j < len(s); j++ {
			switch s[j] {
			case '(':
				depth++
			case ')':
				depth--
				if depth == 0 {
					end = j
				}
			}
			if end >= 0 {
				break
			}
		}
		if end < 0 {
			return s
		}
		s = s[:i] + "ipFilterRule" + s[end+1:]
	}
}

func ruleC08App(w *World, r *Report, app *ssa.Function, access, core int64) {
	fn := w.FuncName(app)
	stores := appFilterStores(app)
	// verbatim copy
	want := map[string]string{
		"dstIP": "pfcpiface.ip2int(ipFilterRule.dst.IPNet.IP)", "dstIPMask": "pfcpiface.ipMask2int(ipFilterRule.dst.IPNet.Mask)",
		"srcIP": "pfcpiface.ip2int(ipFilterRule.src.IPNet.IP)", "srcIPMask": "pfcpiface.ipMask2int(ipFilterRule.src.IPNet.Mask)",
		"dstPortRange": "ipFilterRule.dst.ports", "srcPortRange": "ipFilterRule.src.ports", "proto": "ipFilterRule.proto",
	}
	seen := map[string]bool{}
	// direction predicate: every store needs (access ∧ out) ∨ (core ∧ in) on the way
	dirMatch := func(p *Path) (bool, bool) {
		atoms, feasible := pathAtoms(p)
		if !feasible {
			return false, false
		}
		iface, dir := int64(-1), ""
		for _, a := range atoms {
			if !a.Truth || a.Op != token.EQL {
				continue
			}
			if strings.HasSuffix(symOf(a.X).String(), "pdr.srcIface") {
				iface, _ = constInt(a.Y)
			}
			if strings.HasSuffix(stripFlowRoot(symOf(a.X).String()), "ipFilterRule.direction") {
				if s, ok := constString(a.Y); ok {
					dir = s
				}
			}
		}
		return (iface == access && dir == "out") || (iface == core && dir == "in"), true
	}
	for _, st := range stores {
		fld := fieldVar(st.Addr.(*ssa.FieldAddr)).Name()
		seen[fld] = true
		if wv, ok := want[fld]; ok {
			got := stripFlowRoot(symOf(st.Val).String())
			r.check(sameFlowLeaves(got, wv), "R08.3", fn, "PFD filter copied verbatim: "+fld+" ← "+wv, w.Pos(st.Pos()), got, fld+" of a PFD-backed filter is taken from "+got)
		}
	}
	for f := range want {
		r.check(seen[f], "R08.3", fn, "PFD filter sets "+f, w.Pos(app.Pos()), "stored", "a PFD-backed filter never sets "+f)
	}
	// path enumeration: any path that executes a filter store has the direction matched before it
	bad := ""
	n := 0
	okEnum := enumPaths(app, 2, 200000, func(p *Path) {
		hasStore := false
		var firstStoreBlock int = -1
		for bi, b := range p.Blocks {
			for _, ins := range b.Instrs {
				for _, st := range stores {
					if ins == ssa.Instruction(st) && !hasStore {
						hasStore = true
						firstStoreBlock = bi
					}
				}
			}
		}
		if !hasStore {
			return
		}
		n++
		// direction atoms must be established before the first store: evaluate on the path prefix
		prefix := &Path{Blocks: p.Blocks[:firstStoreBlock+1]}
		m, feasible := dirMatch(prefix)
		if feasible && !m && bad == "" {
			bad = "a filter field is written before (or without) the direction of the flow description matched the PDR's direction"
		}
	})
	if !okEnum {
		brokenf("C08", "R08.3", "too many paths in parseApplicationID")
	}
	r.check(bad == "" && n > 0, "R08.3", fn, "filter fields written only under the direction match (access∧out ∨ core∧in)", w.Pos(app.Pos()), fmt.Sprintf("%d paths with stores", n), bad)
	// the first matching description wins and ends the search: after the stores the function returns
	for _, st := range stores {
		again := reach(app, st, func(i ssa.Instruction) bool {
			c, ok := i.(*ssa.Call)
			return ok && staticCallee(c) != nil && staticCallee(c).Name() == "parseFlowDesc"
		}, nil, nil)
		r.check(again == nil, "R08.3", fn, "the first matching description decides (same for all PDRs of a direction)", w.Pos(st.Pos()), "no further description is parsed after a match", "after a match later descriptions can overwrite the filter")
	}
}

// ruleC08Prefill: parsePDI initialises the filter with the UE address: dst for downlink, src for uplink.
func ruleC08Prefill(w *World, r *Report, ppdi *ssa.Function) {
	fn := w.FuncName(ppdi)
	n := 0
	for _, st := range appFilterStores(ppdi) {
		fld := fieldVar(st.Addr.(*ssa.FieldAddr)).Name()
		var wantDir string
		switch fld {
		case "dstIP", "dstIPMask":
			wantDir = "IsDownlink"
		case "srcIP", "srcIPMask":
			wantDir = "IsUplink"
		default:
			r.bad("R08.3", fn, "UE address pre-fill touches only the address fields", w.Pos(st.Pos()), "parsePDI pre-fills "+fld)
			continue
		}
		n++
		g := onlyVia(ppdi, st, func(a, b *ssa.BasicBlock) bool {
			v, truth, ok := boolEdge(a, b)
			return ok && truth && strings.Contains(symOf(v).String(), "."+wantDir+"(")
		})
		r.check(g, "R08.3", fn, fld+" pre-filled with the UE address only for "+wantDir, w.Pos(st.Pos()), "under "+wantDir+"()", fld+" is pre-filled for the wrong direction")
		if strings.HasSuffix(fld, "IP") {
			s := symOf(st.Val).String()
			r.check(s == "pdr.ueAddress", "R08.3", fn, fld+" ← pdr.ueAddress", w.Pos(st.Pos()), s, fld+" pre-filled from "+s)
		} else {
			k, isK := constInt(st.Val)
			r.check(isK && k == 0xffffffff, "R08.3", fn, fld+" = /32", w.Pos(st.Pos()), fmt.Sprint(k), fmt.Sprintf("%s pre-filled with %d", fld, k))
		}
	}
	r.floor("R08.3 UE address pre-fill stores", n, 4)
	// the SDF / application pass runs after the address pass (second loop after the first)
	loops := rangeLoopsOver(ppdi, "pdiIEs")
	r.check(len(loops) == 2, "R08.3", fn, "two passes over the PDI (addresses first, filters second)", w.Pos(ppdi.Pos()), fmt.Sprint(len(loops)), fmt.Sprintf("%d passes over the PDI", len(loops)))
}

// ruleC08Xform: rewrite table of the tokenizer's xform closure.
func ruleC08Xform(w *World, r *Report, flow *ssa.Function) {
	// the token transformer: the function literal of parseFlowDesc, or — after it was turned into a named
	// function — the new helper that was expanded into parseFlowDesc and compares its argument with "any"
	var xf *ssa.Function
	returnsToken := false
	for _, a := range flow.AnonFuncs {
		xf = a
	}
	if xf == nil {
		for _, g := range w.InlinedFuncs[flow] {
			hit := false
			allInstrs(g, func(i ssa.Instruction) {
				if bo, ok := i.(*ssa.BinOp); ok && bo.Op == token.EQL {
					if s, isStr := constString(bo.Y); isStr && s == "any" {
						hit = true
					}
				}
			})
			if hit {
				xf, returnsToken = g, true
			}
		}
	}
	if xf == nil {
		brokenf("C08", "R08.3", "the address-token transformer (function literal or helper comparing the token with \"any\") was not found in parseFlowDesc")
	}
	fn := w.FuncName(xf)
	wild, _ := constStringOf(w, "Ipv4WildcardNetString")
	n := 0
	okEnum := enumPaths(xf, 1, 5000, func(p *Path) {
		atoms, feasible := pathAtoms(p)
		if !feasible {
			return
		}
		tok := ""
		ueZero, ueEmpty, ueNil := "", "", ""
		for _, a := range atoms {
			if a.Op != token.EQL {
				continue
			}
			ys, isStr := constString(a.Y)
			if !isStr {
				continue
			}
			xs := symOf(a.X).String()
			t := "F"
			if a.Truth {
				t = "T"
			}
			switch {
			case (strings.Contains(xs, "[]") || (returnsToken && len(xf.Params) > 0 && a.X == ssa.Value(xf.Params[0]))) && a.Truth:
				tok = ys
			case strings.HasSuffix(xs, "ueIP") && ys == "0.0.0.0":
				ueZero = t
			case strings.HasSuffix(xs, "ueIP") && ys == "":
				ueEmpty = t
			case strings.HasSuffix(xs, "ueIP") && ys == "<nil>":
				ueNil = t
			}
		}
		// the value written on this path
		var stored ssa.Value
		p.instrs(func(i ssa.Instruction) {
			if st, ok := i.(*ssa.Store); ok {
				if _, isIA := st.Addr.(*ssa.IndexAddr); isIA {
					stored = st.Val
				}
			}
		})
		if returnsToken {
			// the helper hands the new token back instead of storing it
			p.instrs(func(i ssa.Instruction) {
				if ret, ok := i.(*ssa.Return); ok && len(ret.Results) == 1 {
					if len(xf.Params) > 0 && res(ret, 0) == ssa.Value(xf.Params[0]) {
						stored = nil
					} else {
						stored = res(ret, 0)
					}
				}
			})
		}
		desc := fmt.Sprintf("token=%s ue==0.0.0.0:%s ue==\"\":%s ue==<nil>:%s", orDash(tok), orDash(ueZero), orDash(ueEmpty), orDash(ueNil))
		got := "unchanged"
		if stored != nil {
			if s, ok := constString(stored); ok {
				got = s
			} else {
				got = symOf(stored).String()
			}
		}
		var want string
		switch tok {
		case "any":
			want = wild
		case "assigned":
			switch {
			case ueZero == "T":
				want = wild
			case ueEmpty == "F" && ueNil == "F":
				want = "ueIP"
			default:
				want = wild
			}
		default:
			want = "unchanged"
		}
		n++
		okv := got == want || (want == "ueIP" && strings.HasSuffix(got, "ueIP"))
		r.check(okv, "R08.3", fn, "xform["+desc+"] → "+want, w.Pos(xf.Pos()), got, "with "+desc+" the address token becomes "+got)
	})
	if !okEnum {
		brokenf("C08", "R08.3", "too many paths in xform")
	}
	r.floor("R08.3 xform outcomes", n, 5)
}

func constStringOf(w *World, name string) (string, bool) {
	p := w.PkgTypes(pfcpPkg)
	if p == nil {
		return "", false
	}
	c, ok := p.Scope().Lookup(name).(*types.Const)
	if !ok || c.Val().Kind() != constant.String {
		return "", false
	}
	return constant.StringVal(c.Val()), true
}

func ruleC08PFD(w *World, r *Report) {
	const P = "C08"
	h := w.Fn(P, "pfcpiface.(*PFCPConn).handlePFDMgmtRequest")
	hn := w.FuncName(h)
	reset := w.Fn(P, "pfcpiface.(*PFCPConn).ResetAppPFDs")
	rejected := w.ConstInt(P, iePkg, "CauseRequestRejected")
	accepted := w.ConstInt(P, iePkg, "CauseRequestAccepted")
	// ResetAppPFDs: a fresh map, the old one untouched
	{
		fresh := false
		inPlace := ""
		allInstrs(reset, func(i ssa.Instruction) {
			switch x := i.(type) {
			case *ssa.Store:
				if fa, ok := x.Addr.(*ssa.FieldAddr); ok && fieldVar(fa) != nil && fieldVar(fa).Name() == "appPFDs" {
					if _, isMake := x.Val.(*ssa.MakeMap); isMake {
						fresh = true
					}
				}
			case *ssa.MapUpdate:
				inPlace = "map update"
			case *ssa.Call:
				if n := calleeName(x); n == "builtin.clear" || n == "builtin.delete" {
					inPlace = n
				}
			case *ssa.Range:
				inPlace = "iteration over the old map"
			}
		})
		r.check(fresh && inPlace == "", "R08.4", w.FuncName(reset), "ResetAppPFDs installs a fresh map and leaves the old one intact", w.Pos(reset.Pos()), "store of make(map)", "ResetAppPFDs empties the existing map in place ("+inPlace+"): the handler's saved reference for roll-back points to the same, now emptied/refilled map, so a rejected request does not restore the previous table")
	}
	// the reset: a call of ResetAppPFDs, or the same store of a fresh map written out in the handler
	var resetCalls []ssa.Instruction
	for _, c := range callsTo(h, reset) {
		resetCalls = append(resetCalls, c.(ssa.Instruction))
	}
	allInstrs(h, func(i ssa.Instruction) {
		if st, ok := i.(*ssa.Store); ok {
			if fa, ok := st.Addr.(*ssa.FieldAddr); ok && fieldVar(fa) != nil && fieldVar(fa).Name() == "appPFDs" {
				if _, isMake := st.Val.(*ssa.MakeMap); isMake {
					resetCalls = append(resetCalls, i)
				}
			}
		}
	})
	r.floor("R08.4 ResetAppPFDs call in the handler", len(resetCalls), 1)
	// the snapshot: a load of pConn.appPFDs that precedes the reset
	var snapshot ssa.Value
	allInstrs(h, func(i ssa.Instruction) {
		u, ok := i.(*ssa.UnOp)
		if !ok || u.Op != token.MUL {
			return
		}
		fa, ok := u.X.(*ssa.FieldAddr)
		if !ok || fieldVar(fa) == nil || fieldVar(fa).Name() != "appPFDs" {
			return
		}
		for _, rc := range resetCalls {
			if instrDominates(i, rc) && snapshot == nil {
				snapshot = u
			}
		}
	})
	r.check(snapshot != nil, "R08.4", hn, "the previous table is saved before it is reset", w.Pos(h.Pos()), "load of appPFDs dominates ResetAppPFDs", "the previous PFD table is not saved before the reset")
	// writes are dominated by the reset
	for _, g := range withClosures(h) {
		allInstrs(g, func(i ssa.Instruction) {
			isWrite := false
			if _, ok := i.(*ssa.MapUpdate); ok {
				isWrite = true
			}
			if c, ok := i.(*ssa.Call); ok && staticCallee(c) != nil && (staticCallee(c).Name() == "NewAppPFD" || staticCallee(c).Name() == "RemoveAppPFD") {
				isWrite = true
			}
			if !isWrite || g != h {
				return
			}
			dom := false
			for _, rc := range resetCalls {
				if instrDominates(rc, i) {
					dom = true
				}
			}
			r.check(dom, "R08.4", hn, "table writes happen after the reset", w.Pos(i.Pos()), "dominated by ResetAppPFDs", "the PFD table is written before it was reset (old and new contents mix)")
		})
	}
	// each application's description list is its own: the slice stored in an entry grows from that
	// entry's own (empty) list or from a slice made inside the per-application iteration
	{
		var appLoopHdr *ssa.BasicBlock
		for _, lp := range rangeLoopsOver(h, "ApplicationIDsPFDs") {
			appLoopHdr = lp[0]
		}
		nfd := 0
		allInstrs(h, func(i ssa.Instruction) {
			st, ok := i.(*ssa.Store)
			if !ok {
				return
			}
			fa, ok := st.Addr.(*ssa.FieldAddr)
			if !ok || fieldVar(fa) == nil || fieldVar(fa).Name() != "flowDescs" {
				return
			}
			nfd++
			bad := ""
			var walk func(v ssa.Value, d int)
			seen := map[ssa.Value]bool{}
			walk = func(v ssa.Value, d int) {
				if d > 10 || seen[v] || bad != "" {
					return
				}
				seen[v] = true
				switch x := v.(type) {
				case *ssa.Call:
					if b, isB := x.Call.Value.(*ssa.Builtin); isB && b.Name() == "append" {
						walk(x.Call.Args[0], d+1)
						return
					}
					bad = "a slice returned by " + calleeName(x)
				case *ssa.Slice:
					walk(x.X, d+1)
				case *ssa.Phi:
					for _, e := range x.Edges {
						walk(e, d+1)
					}
				case *ssa.UnOp:
					if loadsField(x, "flowDescs") {
						return // the entry's own list
					}
					if cell := cellOf(x.X); cell != nil {
						for _, s2 := range storesTo(cell) {
							walk(s2.Val, d+1)
						}
						return
					}
					bad = symOf(v).String()
				case *ssa.MakeSlice:
					if appLoopHdr == nil || !(appLoopHdr.Dominates(x.Block()) && reachesBlock(x.Block(), appLoopHdr) && x.Block() != appLoopHdr) {
						bad = "a slice made once, outside the per-application loop (" + w.Pos(x.Pos()) + ")"
					}
				case *ssa.Const:
				default:
					bad = symOf(v).String()
				}
			}
			walk(st.Val, 0)
			r.check(bad == "", "R08.4", hn, fmt.Sprintf("flow description list #%d belongs to one application", nfd), w.Pos(st.Pos()), "grows from the entry's own list", "the list stored for an application is built on "+bad+": the applications of one request share a backing array, a later application overwrites the descriptions of an earlier one")
		})
		r.floor("R08.4 flow description list stores", nfd, 1)
	}
	// exits
	nRej, nAcc := 0, 0
	for _, t := range replyTerminals(h) {
		c, ok := t.val.(*ssa.Call)
		if !ok {
			continue
		}
		cs, found := causeOf(c, t.chain)
		if !found || len(cs) != 1 {
			continue
		}
		// the restore store: pConn.appPFDs = <snapshot cell>
		isRestore := func(fn *ssa.Function) instrPred {
			return func(i ssa.Instruction) bool {
				st, ok := i.(*ssa.Store)
				if !ok {
					return false
				}
				fa, ok := st.Addr.(*ssa.FieldAddr)
				if !ok || fieldVar(fa) == nil || fieldVar(fa).Name() != "appPFDs" {
					return false
				}
				// value derives from the snapshot
				v := st.Val
				if u, ok := v.(*ssa.UnOp); ok && u.Op == token.MUL {
					if cell := cellOf(u.X); cell != nil {
						for _, s2 := range storesTo(cell) {
							if s2.Val == snapshot {
								return true
							}
						}
					}
				}
				return v == snapshot
			}
		}
		switch cs[0] {
		case rejected:
			nRej++
			// the constructor sits in the reply closure: the restore must precede it there, or precede the closure call in the handler
			in := t.inFunc
			miss := mustPass(in, nil, func(i ssa.Instruction) bool { return i == ssa.Instruction(c) }, isRestore(in))
			r.check(miss == nil, "R08.4", hn, "a rejected request restores the previous table", w.Pos(c.Pos()), "store of the saved table precedes the rejecting reply", "a rejecting exit does not restore the previous PFD table")
		case accepted:
			nAcc++
			miss := reach(h, nil, func(i ssa.Instruction) bool { return i == ssa.Instruction(c) }, nil, nil)
			_ = miss
			restored := false
			allInstrs(h, func(i ssa.Instruction) {
				if isRestore(h)(i) && reach(h, i, func(j ssa.Instruction) bool { return j == ssa.Instruction(c) }, nil, nil) != nil {
					restored = true
				}
			})
			r.check(!restored, "R08.4", hn, "an accepted request keeps the new table", w.Pos(c.Pos()), "no restore on the accepting path", "the accepting path restores the old table")
		}
	}
	r.check(nRej >= 1 && nAcc == 1, "R08.4", hn, "one accepting exit, rejecting exits through the roll-back reply", w.Pos(h.Pos()), fmt.Sprintf("%d rejecting constructor(s), %d accepting", nRej, nAcc), fmt.Sprintf("%d rejecting, %d accepting exits", nRej, nAcc))
	// every error return of the handler goes through the roll-back closure (no bare reject)
	for _, ret := range returnsOf(h) {
		if isNilConst(res(ret, 1)) {
			continue
		}
		v := res(ret, 0)
		if isNilConst(v) {
			continue // bad type assertion: nothing was touched yet
		}
		ex, isEx := v.(*ssa.Extract)
		viaClosure := false
		if isEx {
			if cc, ok := ex.Tuple.(*ssa.Call); ok {
				if callee := staticCallee(cc); callee != nil && callee.Parent() == h {
					viaClosure = true
				}
			}
		}
		r.check(viaClosure, "R08.4", hn, "error exits use the roll-back reply", w.Pos(ret.Pos()), "closure call", "an error exit bypasses the roll-back")
	}
}

// ruleC08KeepUE (R08.5): "malformed filter text is ignored" means the PDR keeps matching on what parsePDI
// put into the filter before the text was looked at — the UE address and its mask. The filter of a pdr
// is only ever refined field by field: no function replaces pdr.appFilter wholesale (a "reset" on the
// error path turns a UE-specific PDR into one that matches every packet of the interface).
func ruleC08KeepUE(w *World, r *Report) {
	n := 0
	onPath := receivePathFuncs(w, "C08")
	for _, f := range w.Funcs {
		fname := w.FuncName(f)
		if strings.HasPrefix(fname, "test/") || strings.HasPrefix(fname, "pkg/") {
			continue
		}
		// the request path (the traffic simulator builds its own PDRs from literals)
		if !onPath[f] {
			continue
		}
		allInstrs(f, func(i ssa.Instruction) {
			st, ok := i.(*ssa.Store)
			if !ok {
				return
			}
			fa, ok := st.Addr.(*ssa.FieldAddr)
			if !ok || fieldVar(fa) == nil || fieldVar(fa).Name() != "appFilter" {
				return
			}
			if nt := namedOf(fa.X.Type()); nt == nil || nt.Obj().Name() != "pdr" {
				return
			}
			n++
			r.bad("R08.5", fname, "pdr.appFilter is refined field by field, never replaced", w.Pos(st.Pos()), "the whole application filter of a PDR is overwritten here: the UE address and mask that parsePDI stored before the filter text was parsed are lost, the PDR matches packets of every UE")
		})
	}
	if n == 0 {
		r.ok("R08.5", "pfcpiface", "no whole-struct store to pdr.appFilter", "-", "all writers store single fields")
	}
	// positive control: the field-level writers exist (the rule looks at the right struct)
	m := 0
	for _, f := range w.Funcs {
		allInstrs(f, func(i ssa.Instruction) {
			if st, ok := i.(*ssa.Store); ok {
				if fa, ok := st.Addr.(*ssa.FieldAddr); ok && fieldVar(fa) != nil {
					if inner, ok := fa.X.(*ssa.FieldAddr); ok && fieldVar(inner) != nil && fieldVar(inner).Name() == "appFilter" {
						m++
					}
				}
			}
		})
	}
	r.floor("R08.5 field-level writers of pdr.appFilter", m, 4)
}

// ruleUP4AppKey (R08.6, re-filed as R17.9): UP4 shares one internal application ID among PDRs whose
// "application filter" — remote address, remote port range, protocol — is the same, and writes one
// applications entry per ID. The key under which IDs are shared (toUP4ApplicationFilter) must be made of
// exactly the fields the entry is built from (BuildApplicationsTableEntry: destination side for uplink,
// source side for downlink), unchanged; a key that takes the UE side's port, or that "normalises" a range,
// gives two different filters one ID: the second PDR is classified by the first one's ports.
func ruleUP4AppKey(w *World, r *Report, prop, rule string) {
	f := w.Fn(prop, "pfcpiface.toUP4ApplicationFilter")
	fn := w.FuncName(f)
	want := map[string]map[string]string{
		"uplink":   {"appIP": "appFilter.dstIP", "appL4Port": "appFilter.dstPortRange"},
		"downlink": {"appIP": "appFilter.srcIP", "appL4Port": "appFilter.srcPortRange"},
		"":         {"appProto": "appFilter.proto"},
	}
	access, core := w.ConstInt(prop, pfcpPkg, "access"), w.ConstInt(prop, pfcpPkg, "core")
	n := 0
	allInstrs(f, func(i ssa.Instruction) {
		st, ok := i.(*ssa.Store)
		if !ok {
			return
		}
		// a field (or a field of a field) of an up4ApplicationFilter cell
		var path []string
		addr := st.Addr
		for k := 0; k < 3; k++ {
			fa, ok := addr.(*ssa.FieldAddr)
			if !ok {
				break
			}
			path = append([]string{fieldVar(fa).Name()}, path...)
			addr = fa.X
		}
		if len(path) == 0 {
			return
		}
		if nt := namedOf(addr.Type()); nt == nil || nt.Obj().Name() != "up4ApplicationFilter" {
			return
		}
		n++
		// the direction under which the store happens: decided by IsUplink() / IsDownlink() or by the
		// comparison of the source interface they stand for
		dir := ""
		for _, d := range []string{"uplink", "downlink"} {
			if onlyVia(f, st, func(a, b *ssa.BasicBlock) bool {
				v, truth, ok := boolEdge(a, b)
				return ok && pdrDirection(v, truth, access, core) == d
			}) {
				dir = d
			}
		}
		src := symOf(st.Val).String()
		field := strings.Join(path, ".")
		exp, known := want[dir][field]
		if !known {
			exp, known = want[""][field]
		}
		okS := known && strings.HasSuffix(src, exp)
		r.check(okS, rule, fn, fmt.Sprintf("application key field %s (%s) is the field the applications entry matches on", field, ifelse(dir == "", "any direction", dir)), w.Pos(st.Pos()), src, fmt.Sprintf("the sharing key's %s is set to %s%s: PDRs whose applications entries differ get one internal application ID (or the other way round), so a PDR is classified by another PDR's filter", field, src, ifelse(known, " instead of pdr."+exp, " — the key is altered after it was taken from the PDR")))
	})
	r.floor(rule+" stores building the application key", n, 5)
}
