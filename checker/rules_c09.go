package main

import (
	"fmt"
	"go/token"
	"go/types"
	"math/big"
	"regexp"
	"strings"

	"golang.org/x/tools/go/ssa"
)

func init() { rules["C09"] = ruleC09 }

// inlinePure replaces calls to small pure repo helpers (single block, single result) by
// their bodies with arguments substituted, so that a rate conversion moved into a helper is
// still seen as arithmetic.
func inlinePure(w *World, s *Sym, keep map[string]bool, depth int) *Sym {
	if s == nil || depth > 6 {
		return s
	}
	out := *s
	out.Args = nil
	for _, a := range s.Args {
		out.Args = append(out.Args, inlinePure(w, a, keep, depth+1))
	}
	if out.Op != "call" {
		return &out
	}
	var callee *ssa.Function
	for _, f := range w.Funcs {
		if ssaFuncFullName(f) == out.Name {
			callee = f
		}
	}
	if callee == nil || keep[callee.Name()] || len(callee.Blocks) != 1 || callee.Signature.Results().Len() != 1 {
		return &out
	}
	rets := returnsOf(callee)
	if len(rets) != 1 || len(rets[0].Results) != 1 {
		return &out
	}
	body := symOf(rets[0].Results[0])
	subst := map[string]*Sym{}
	for i, p := range callee.Params {
		if i < len(out.Args) {
			subst[p.Name()] = out.Args[i]
		}
	}
	return inlinePure(w, substParams(body, subst), keep, depth+1)
}

func substParams(s *Sym, m map[string]*Sym) *Sym {
	if s.Op == "param" {
		if r, ok := m[s.Name]; ok {
			return r
		}
		return s
	}
	out := *s
	out.Args = nil
	for _, a := range s.Args {
		out.Args = append(out.Args, substParams(a, m))
	}
	return &out
}

// isMaxOf matches maxUint64(a, b) and returns its operands.
func isMaxOf(s *Sym) (a, b *Sym, ok bool) {
	if s.Op == "call" && strings.HasSuffix(s.Name, "pfcpiface.maxUint64") && len(s.Args) == 2 {
		return s.Args[0], s.Args[1], true
	}
	return nil, nil, false
}

func isLinear125(s *Sym, leaf string) bool {
	l, ok := linearIn(s)
	return ok && l.leaf == leaf && l.num == 125 && l.den == 1 && l.exact
}

func isConstSym(s *Sym, k int64) bool {
	for s.Op == "conv" {
		s = s.Args[0]
	}
	if s.Op != "const" || s.C == nil {
		return false
	}
	v, ok := constInt64(s.C)
	return ok && v == k
}

// productForm reduces an expression built from * / and conversions over leaves to
// (rational constant, variable exponents); ok=false for anything else.
func productForm(s *Sym) (k *big.Rat, vars map[string]int, ok bool) {
	switch s.Op {
	case "conv":
		return productForm(s.Args[0])
	case "const":
		if s.C == nil || s.C.Value == nil {
			return nil, nil, false
		}
		r := new(big.Rat)
		if _, okk := r.SetString(s.C.Value.ExactString()); !okk {
			return nil, nil, false
		}
		return r, map[string]int{}, true
	case "param", "field":
		return big.NewRat(1, 1), map[string]int{s.Name: 1}, true
	case "bin":
		if s.Name != "*" && s.Name != "/" {
			return nil, nil, false
		}
		k1, v1, ok1 := productForm(s.Args[0])
		k2, v2, ok2 := productForm(s.Args[1])
		if !ok1 || !ok2 {
			return nil, nil, false
		}
		vars = map[string]int{}
		for n, e := range v1 {
			vars[n] += e
		}
		if s.Name == "*" {
			for n, e := range v2 {
				vars[n] += e
			}
			return new(big.Rat).Mul(k1, k2), vars, true
		}
		if k2.Sign() == 0 {
			return nil, nil, false
		}
		for n, e := range v2 {
			vars[n] -= e
		}
		return new(big.Rat).Quo(k1, k2), vars, true
	}
	return nil, nil, false
}

func ruleC09(w *World, r *Report) {
	const P = "C09"
	r.Explanation = "R09.1/R09.2 the BESS QER worker is enumerated path by path: per direction the gate passed is drop ⇔ status ≠ open, else meter ⇔ MBR ≠ 0 ∨ GBR ≠ 0, else unmetered; on the metering paths cir = max(GBR×125, 1) and pir = max(MBR×125, cir) by constant-factor extraction with exact division (helpers inlined); the uplink half uses ul* fields and the access interface, the downlink half dl* and core; " +
		"R09.3 each burst is max(calcBurstSizeFromRate(rate, configured duration), configured value of the same name) with the per-QFI configuration looked up by the QER's QFI and falling back to entry 0 only when absent; calcBurstSizeFromRate = kbps·ms/8 (product form); " +
		"R09.4 UP4: pir = MBR×125 iff MBR ≠ 0, burst from the MBR, uplink/downlink cells get ul/dl rates, QFI→TC through the presence-checked map (shared with C04), qosLevel routes to the application / session meter; R09.5 loops over the session's rule lists in MarkSessionQer cover every element."
	r.Explanation += " R09.6 every element put into the two meter-cell pools is ≥ 1 (cell 0 = no meter); R09.7 MarkSessionQer narrows a private copy, never the qerIDList of a stored PDR."
	r.Explanation += " R09.8 ulStatus/dlStatus come from the uplink/downlink gate of the IE; R09.9 meters are programmed and reset in the array of their kind; R09.10 every configured QCI entry is stored and the built-in QCI 0 entry only fills a gap."
	r.Explanation += " R09.11 an empty intersection with one PDR's list ends the session-QER search without a label; R09.12 findRelatedApplicationQER matches on qerIDList[0]."
	r.NotDecided = "which QER MarkSessionQer labels (an algorithm over list shapes); that re-labelling never happens across modification histories"
	keep := map[string]bool{"maxUint64": true, "calcBurstSizeFromRate": true}
	add := workerOf(w.Fn(P, "pfcpiface.(*bess).addQER"))
	an := w.FuncName(add)
	appF := w.Fn(P, "pfcpiface.(*bess).addApplicationQER")
	sessF := w.Fn(P, "pfcpiface.(*bess).addSessionQER")
	access, core := w.ConstInt(P, pfcpPkg, "access"), w.ConstInt(P, pfcpPkg, "core")
	gMeter, gDrop, gUnm := w.ConstInt(P, pfcpPkg, "qerGateMeter"), w.ConstInt(P, pfcpPkg, "qerGateStatusDrop"), w.ConstInt(P, pfcpPkg, "qerGateUnmeter")
	open := w.ConstInt(P, iePkg, "GateStatusOpen")
	appLvl, sessLvl := w.ConstInt(P, pfcpPkg, "ApplicationQos"), w.ConstInt(P, pfcpPkg, "SessionQos")

	type key struct{ construct string }
	seen := map[string]bool{}
	once := func(construct string) bool {
		if seen[construct] {
			return false
		}
		seen[construct] = true
		return true
	}
	npaths := 0
	halves := map[string]int{}
	complete := enumPaths(add, 1, 200000, func(p *Path) {
		atoms, feasible := pathAtoms(p)
		if !feasible {
			return
		}
		npaths++
		lvl := int64(-1)
		for _, a := range atoms {
			if a.Truth && a.Op == token.EQL && strings.HasSuffix(symOf(a.X).String(), "qer.qosLevel") {
				lvl, _ = constInt(a.Y)
			}
		}
		callsOnPath := 0
		for bi, b := range p.Blocks {
			for _, ins := range b.Instrs {
				c, ok := ins.(*ssa.Call)
				if !ok {
					continue
				}
				callee := staticCallee(c)
				if callee != appF && callee != sessF {
					continue
				}
				callsOnPath++
				pos := w.Pos(c.Pos())
				args := c.Call.Args
				iface, _ := constInt(resolveAt(p, bi, args[3]))
				dir := ""
				switch iface {
				case access:
					dir = "ul"
				case core:
					dir = "dl"
				default:
					r.bad("R09.2", an, "QER command interface is access or core", pos, fmt.Sprintf("srcIface %d", iface))
					continue
				}
				halves[dir]++
				// level routing
				wantCallee := appF
				if lvl == sessLvl {
					wantCallee = sessF
				}
				if once(fmt.Sprintf("%s level %d routing", dir, lvl)) {
					r.check((lvl == appLvl || lvl == sessLvl) && callee == wantCallee, "R09.5", an, fmt.Sprintf("%s half: qosLevel %d → %s", dir, lvl, wantCallee.Name()), pos, callee.Name(), fmt.Sprintf("qosLevel %d is programmed through %s", lvl, callee.Name()))
				}
				// decision atoms of this half
				st, stP := atomTruth(atoms, fmt.Sprintf("qer.%sStatus == %d", dir, open))
				mz, mzP := atomTruth(atoms, fmt.Sprintf("qer.%sMbr == 0", dir))
				gz, gzP := atomTruth(atoms, fmt.Sprintf("qer.%sGbr == 0", dir))
				gate, gK := constInt(resolveAt(p, bi, args[2]))
				var want int64
				cls := ""
				switch {
				case !stP:
					cls = "status not tested"
					want = -2
				case !st:
					want, cls = gDrop, "closed"
				case (mzP && !mz) || (gzP && !gz):
					want, cls = gMeter, "open, rate≠0"
				case mzP && mz && gzP && gz:
					want, cls = gUnm, "open, rates=0"
				default:
					want, cls = -2, "rates not fully tested"
				}
				construct := fmt.Sprintf("%s gate [%s]", dir, cls)
				if once(construct + fmt.Sprint(gate)) {
					r.check(gK && gate == want, "R09.2", an, construct, pos, fmt.Sprintf("gate %d", gate), fmt.Sprintf("%s QER with %s is programmed with gate %d (drop=%d meter=%d unmetered=%d)", dir, cls, gate, gDrop, gMeter, gUnm))
				}
				if want == gMeter {
					cir := inlinePure(w, symAtPathDeep(p, bi, args[4]), keep, 0)
					pir := inlinePure(w, symAtPathDeep(p, bi, args[5]), keep, 0)
					okC := false
					if a, b2, isMax := isMaxOf(cir); isMax {
						okC = (isLinear125(a, "qer."+dir+"Gbr") && isConstSym(b2, 1)) || (isLinear125(b2, "qer."+dir+"Gbr") && isConstSym(a, 1))
					}
					if once(dir + " cir " + cir.String()) {
						r.check(okC, "R09.1", an, dir+" committed rate = max(GBR×125, 1)", pos, cir.String(), dir+" committed rate is "+cir.String())
					}
					okP := false
					if a, b2, isMax := isMaxOf(pir); isMax {
						okP = (isLinear125(a, "qer."+dir+"Mbr") && b2.String() == cir.String()) || (isLinear125(b2, "qer."+dir+"Mbr") && a.String() == cir.String())
					}
					if once(dir + " pir " + pir.String()) {
						r.check(okP, "R09.1", an, dir+" peak rate = max(MBR×125, cir)", pos, pir.String(), dir+" peak rate is "+pir.String())
					}
				}
				// bursts: args 6,7,8 = cbs, pbs, ebs (by the callee's parameter names)
				for ai, pn := range map[int]string{6: "cbs", 7: "pbs", 8: "ebs"} {
					pname := callee.Params[ai].Name()
					if pname != pn {
						if once("param order " + callee.Name() + pn) {
							r.bad("R09.3", w.FuncName(callee), "burst parameter order cbs,pbs,ebs", w.Pos(callee.Pos()), fmt.Sprintf("parameter %d is %s", ai, pname))
						}
						continue
					}
					rate := "qer." + dir + "Mbr"
					if pn == "cbs" {
						rate = "qer." + dir + "Gbr"
					}
					s := symAtPathDeep(p, bi, args[ai])
					a, b2, isMax := isMaxOf(s)
					good := false
					if isMax {
						chk := func(x, y *Sym) bool {
							if x.Op != "call" || !strings.HasSuffix(x.Name, "pfcpiface.calcBurstSizeFromRate") || len(x.Args) != 2 {
								return false
							}
							return x.Args[0].String() == rate && strings.HasSuffix(x.Args[1].String(), "QosConfigVal.burstDurationMs)") || x.Args[0].String() == rate && strings.Contains(x.Args[1].String(), ".burstDurationMs") && strings.HasSuffix(y.String(), "."+pn+")")
						}
						good = (chk(a, b2) && strings.Contains(b2.String(), "."+pn)) || (chk(b2, a) && strings.Contains(a.String(), "."+pn))
					}
					if once(dir + " " + pn + " " + s.String()) {
						r.check(good, "R09.3", an, dir+" "+pn+" = max(rate·duration, configured "+pn+")", pos, s.String(), dir+" "+pn+" is "+s.String()+": the operator-configured minimum of the same name is not honoured")
					}
				}
			}
		}
		if lvl == appLvl || lvl == sessLvl {
			if once(fmt.Sprintf("two halves level %d %d", lvl, callsOnPath)) {
				r.check(callsOnPath == 2, "R09.2", an, fmt.Sprintf("qosLevel %d programs an uplink and a downlink entry", lvl), w.Pos(add.Pos()), "2 commands per QER", fmt.Sprintf("%d commands on a path", callsOnPath))
			}
		}
	})
	if !complete {
		brokenf(P, "R09.2", "too many paths in the QER worker")
	}
	r.Extra["qer_worker_paths"] = npaths
	r.floor("R09.2 feasible paths of the QER worker", npaths, 8)
	r.check(halves["ul"] > 0 && halves["dl"] > 0, "R09.2", an, "both directions are programmed", w.Pos(add.Pos()), fmt.Sprint(halves), "a direction is never programmed")

	// per-QFI configuration lookup
	{
		n := 0
		// the lookups may sit in the worker or in a helper it calls with the QFI
		type scanFn struct {
			f    *ssa.Function
			args map[*ssa.Parameter]string // helper parameter → provenance of the actual
		}
		scans := []scanFn{{add, nil}}
		allInstrs(add, func(i ssa.Instruction) {
			c, ok := i.(*ssa.Call)
			if !ok {
				return
			}
			g := staticCallee(c)
			if g == nil || g == add || !w.isRepoFunc(g) || g.Blocks == nil {
				return
			}
			has := false
			allInstrs(g, func(j ssa.Instruction) {
				if l, ok := j.(*ssa.Lookup); ok && strings.HasSuffix(symOf(l.X).String(), "bess.qciQosMap") {
					has = true
				}
			})
			if !has {
				return
			}
			m := map[*ssa.Parameter]string{}
			for k, p := range g.Params {
				if k < len(c.Call.Args) {
					m[p] = symOf(c.Call.Args[k]).String()
				}
			}
			dup := false
			for _, sc := range scans {
				if sc.f == g {
					dup = true
				}
			}
			if !dup {
				scans = append(scans, scanFn{g, m})
			}
		})
		for _, sc := range scans {
			add, an := sc.f, w.FuncName(sc.f)
			allInstrs(add, func(i ssa.Instruction) {
				l, ok := i.(*ssa.Lookup)
				if !ok || !strings.HasSuffix(symOf(l.X).String(), "bess.qciQosMap") {
					return
				}
				n++
				ks := symOf(l.Index).String()
				if p, isP := l.Index.(*ssa.Parameter); isP && sc.args != nil {
					ks = sc.args[p]
				}
				if l.CommaOk {
					r.check(ks == "qer.qfi", "R09.3", an, "burst configuration looked up by the QER's QFI", w.Pos(l.Pos()), ks, "configuration looked up by "+ks)
				} else {
					k, isK := constInt(l.Index)
					r.check(isK && k == 0, "R09.3", an, "fallback configuration is entry 0", w.Pos(l.Pos()), ks, "fallback configuration is entry "+ks)
					// only on the !ok edge of a comma-ok lookup
					g := onlyVia(add, l, func(a, b *ssa.BasicBlock) bool {
						v, truth, ok := boolEdge(a, b)
						if !ok || truth {
							return false
						}
						ex, isEx := v.(*ssa.Extract)
						if !isEx || ex.Index != 1 {
							return false
						}
						_, isL := ex.Tuple.(*ssa.Lookup)
						return isL
					})
					r.check(g, "R09.3", an, "fallback only when the QFI has no configuration", w.Pos(l.Pos()), "under !ok", "the default burst configuration replaces a configured one")
				}
			})
		}
		r.floor("R09.3 qciQosMap lookups", n, 2)
	}
	// readQciQosMap copies like-named fields
	{
		f := w.Fn(P, "pfcpiface.(*bess).readQciQosMap")
		fs := fieldStores(f, "QosConfigVal")
		for fld, want := range map[string]string{"cbs": "QciQosConfig.CBS", "pbs": "QciQosConfig.PBS", "ebs": "QciQosConfig.EBS", "burstDurationMs": "QciQosConfig.BurstDurationMs"} {
			found := false
			for _, st := range fs[fld] {
				s := symOf(st.Val).String()
				if _, isK := constInt(st.Val); isK {
					continue // the built-in default entry
				}
				found = true
				r.check(strings.Contains(s, "QciQosConfig") && strings.HasSuffix(s, want[strings.LastIndex(want, "."):]), "R09.3", w.FuncName(f), "configured "+fld+" ← "+want, w.Pos(st.Pos()), s, "configured "+fld+" read from "+s)
			}
			r.check(found, "R09.3", w.FuncName(f), "configured "+fld+" is read", w.Pos(f.Pos()), "store found", fld+" is never read from the configuration")
		}
		// keyed by QCI
		allInstrs(f, func(i ssa.Instruction) {
			if mu, ok := i.(*ssa.MapUpdate); ok {
				ks := symOf(mu.Key).String()
				if _, isK := constInt(mu.Key); !isK {
					r.check(strings.Contains(ks, "QciQosConfig") && strings.HasSuffix(ks, ".QCI"), "R09.3", w.FuncName(f), "configuration keyed by QCI", w.Pos(mu.Pos()), ks, "configuration keyed by "+ks)
				}
			}
		})
	}
	// calcBurstSizeFromRate = kbps*ms/8
	{
		f := w.Fn(P, "pfcpiface.calcBurstSizeFromRate")
		rets := returnsOf(f)
		good := false
		desc := "shape not a pure product"
		if len(rets) == 1 {
			s := symOf(rets[0].Results[0])
			desc = s.String()
			if k, vars, ok := productForm(s); ok {
				good = k.Cmp(big.NewRat(1, 8)) == 0 && len(vars) == 2 && vars["kbps"] == 1 && vars["ms"] == 1
				desc = fmt.Sprintf("%s · %v", k.RatString(), vars)
			} else {
				brokenf(P, "R09.3", "calcBurstSizeFromRate is not a product of its inputs and constants: %s", desc)
			}
		}
		r.check(good, "R09.3", w.FuncName(f), "burst = kbps·ms/8 bytes", w.Pos(f.Pos()), desc, "calcBurstSizeFromRate computes "+desc)
	}
	// maxUint64 is a maximum
	{
		f := w.Fn(P, "pfcpiface.maxUint64")
		okMax := true
		for _, pr := range [][2]uint64{{0, 0}, {0, 1}, {1, 0}, {5, 5}, {1 << 40, 7}, {7, 1 << 40}, {^uint64(0), 1}} {
			e := &evaluator{}
			v, ok := e.call(f, []evalVal{{u: pr[0], ok: true}, {u: pr[1], ok: true}})
			mx := pr[0]
			if pr[1] > mx {
				mx = pr[1]
			}
			if !ok || v.u != mx {
				okMax = false
			}
		}
		// structural: returns one of its parameters on every path, chosen by a comparison of the two
		for _, ret := range returnsOf(f) {
			if _, isP := ret.Results[0].(*ssa.Parameter); !isP {
				okMax = false
			}
		}
		r.check(okMax, "R09.1", w.FuncName(f), "maxUint64 returns the larger argument", w.Pos(f.Pos()), "order classes of (x,y)", "maxUint64 is not a maximum")
	}

	ruleC09UP4(w, r)
	up4CallersHandAll(w, r, "R09.4")
	ruleC09Mark(w, r)
	ruleC09MeterCells(w, r)
	ruleC09SearchList(w, r)
	ruleC09GateBits(w, r)
	ruleC09MeterArray(w, r)
	ruleC09QciTable(w, r)
	ruleNoSessionQerWithoutAll(w, r, "C09", "R09.11")
	ruleAppQerIsFirst(w, r, "C09", "R09.12")
}

// symAtPathDeep resolves phis along the path recursively through arithmetic and calls.
func symAtPathDeep(p *Path, idx int, v ssa.Value) *Sym {
	v = resolveAt(p, idx, v)
	switch x := v.(type) {
	case *ssa.Convert:
		return &Sym{Op: "conv", Name: x.Type().String(), Args: []*Sym{symAtPathDeep(p, idx, x.X)}, V: v}
	case *ssa.BinOp:
		return &Sym{Op: "bin", Name: x.Op.String(), Args: []*Sym{symAtPathDeep(p, idx, x.X), symAtPathDeep(p, idx, x.Y)}, V: v}
	case *ssa.Call:
		if !x.Call.IsInvoke() && staticCallee(x) != nil {
			var args []*Sym
			for _, a := range x.Call.Args {
				args = append(args, symAtPathDeep(p, idx, a))
			}
			return &Sym{Op: "call", Name: calleeName(x), Args: args, V: v}
		}
	case *ssa.UnOp:
		if x.Op == token.MUL {
			if fa, ok := x.X.(*ssa.FieldAddr); ok {
				if _, isPhi := fa.X.(*ssa.Phi); isPhi {
					base := symAtPathDeep(p, idx, fa.X)
					c := &symCtx{active: map[ssa.Value]bool{}}
					if base.Op == "un" && base.Name == "&" {
						base = base.Args[0]
					}
					return c.fieldOf(base, fieldVar(fa), fa)
				}
			}
		}
	}
	return symOf(v)
}

func ruleC09UP4(w *World, r *Report) {
	const P = "C09"
	f := w.Fn(P, "pfcpiface.getMeterConfigurationFromQER")
	fn := w.FuncName(f)
	fs := fieldStores(f, "MeterConfig")
	// Pir: φ(0, max(mbr*125, cir=0)) selected by mbr != 0
	for _, st := range fs["Pir"] {
		v := stripConv(st.Val)
		phi, isPhi := v.(*ssa.Phi)
		good := false
		desc := symOf(st.Val).String()
		if isPhi {
			good = true
			for i, e := range phi.Edges {
				cond := dominatingRateTest(phi.Block().Preds[i], "mbr")
				if k, isK := constInt(e); isK {
					if k != 0 || (cond != "==0" && cond != "") {
						good = false
					}
					continue
				}
				s := symOf(e)
				if a, b, isMax := isMaxOf(s); isMax {
					if !((isLinear125(a, "mbr") && isZeroish(b)) || (isLinear125(b, "mbr") && isZeroish(a))) {
						good = false
					}
				} else if !isLinear125(s, "mbr") {
					good = false
				}
				if cond != "!=0" {
					good = false
				}
			}
		}
		r.check(good, "R09.4", fn, "UP4 peak rate = MBR×125 iff MBR ≠ 0", w.Pos(st.Pos()), desc, "UP4 peak rate is "+desc)
	}
	for _, st := range fs["Pburst"] {
		s := symOf(st.Val)
		str := s.String()
		r.check(strings.Contains(str, "calcBurstSizeFromRate(mbr, ") && !strings.Contains(str, "gbr"), "R09.4", fn, "UP4 peak burst from the MBR", w.Pos(st.Pos()), str, "UP4 peak burst is "+str)
	}
	r.floor("R09.4 MeterConfig fields", len(fs["Pir"])+len(fs["Pburst"]), 2)
	// configure*Meter: uplink cell ← (ulMbr, ulGbr), downlink ← (dlMbr, dlGbr)
	build := w.Fn(P, "pfcpiface.(*P4rtTranslator).BuildMeterEntry")
	for _, name := range []string{"configureApplicationMeter", "configureSessionMeter"} {
		cf := w.Fn(P, "pfcpiface.(*UP4)."+name)
		cn := w.FuncName(cf)
		n := 0
		for _, c := range callsTo(cf, build) {
			a := c.Common().Args
			cell := symOf(a[2]).String()
			cfg := symOf(a[3]).String()
			dir := ""
			switch {
			case strings.Contains(strings.ToLower(cell), "uplink"):
				dir = "ul"
			case strings.Contains(strings.ToLower(cell), "downlink"):
				dir = "dl"
			}
			// fall back on the allocation order for the session meter's locals
			if dir == "" {
				if ex, ok := a[2].(*ssa.Extract); ok {
					_ = ex
				}
			}
			if dir == "" {
				// locals named by go/ssa comments are not available: use the rate fields to classify and require both directions to appear
				if strings.Contains(cfg, "qer.ulMbr") {
					dir = "ul"
				} else if strings.Contains(cfg, "qer.dlMbr") {
					dir = "dl"
				}
			}
			n++
			// (further arguments, if any, are constants: a burst duration handed in by the caller)
			want := regexp.MustCompile(fmt.Sprintf(`getMeterConfigurationFromQER\(qer\.%sMbr, qer\.%sGbr(, [0-9]+)*\)$`, dir, dir))
			r.check(dir != "" && want.MatchString(cfg), "R09.4", cn, dir+" cell configured from "+dir+" rates", w.Pos(c.Pos()), cfg, "meter cell "+cell+" configured from "+cfg)
		}
		r.check(n == 2, "R09.4", cn, "an uplink and a downlink meter entry", w.Pos(cf.Pos()), "2", fmt.Sprintf("%d entries", n))
	}
	// the uplink cell id of the application meter is the one used for the uplink entry: cell/dir agreement by field name
	{
		cf := w.Fn(P, "pfcpiface.(*UP4).configureApplicationMeter")
		for _, c := range callsTo(cf, build) {
			a := c.Common().Args
			cell := symOf(a[2]).String()
			cfg := symOf(a[3]).String()
			// which cell of the meter the argument is: the field it is read from, or — for a local handed on
			// directly — the one field it is stored into. (The provenance text names the allocation, not the field.)
			field := ""
			if ld, ok := a[2].(*ssa.UnOp); ok && ld.Op == token.MUL {
				if fa, ok := ld.X.(*ssa.FieldAddr); ok && fieldVar(fa) != nil {
					field = fieldVar(fa).Name()
				}
			} else if refs := a[2].Referrers(); refs != nil {
				for _, ref := range *refs {
					if st, ok := ref.(*ssa.Store); ok && st.Val == a[2] {
						if fa, ok := st.Addr.(*ssa.FieldAddr); ok && fieldVar(fa) != nil {
							if field != "" && field != fieldVar(fa).Name() {
								field = "(several)"
								break
							}
							field = fieldVar(fa).Name()
						}
					}
				}
			}
			if field == "" {
				field = cell
			}
			okDir := (strings.Contains(field, "uplinkCellID") && strings.Contains(cfg, "qer.ulMbr")) || (strings.Contains(field, "downlinkCellID") && strings.Contains(cfg, "qer.dlMbr"))
			r.check(okDir, "R09.4", w.FuncName(cf), "application meter cell and rates of the same direction", w.Pos(c.Pos()), cell+" ← "+cfg, "cell "+cell+" is configured with "+cfg)
		}
	}
	// configureMeters: level routing
	cm := w.Fn(P, "pfcpiface.(*UP4).configureMeters")
	appLvl, sessLvl := w.ConstInt(P, pfcpPkg, "ApplicationQos"), w.ConstInt(P, pfcpPkg, "SessionQos")
	for tname, lvl := range map[string]int64{"configureApplicationMeter": appLvl, "configureSessionMeter": sessLvl} {
		target := w.Fn(P, "pfcpiface.(*UP4)."+tname)
		calls := callsTo(cm, target)
		r.check(len(calls) >= 1, "R09.5", w.FuncName(cm), tname+" is used", w.Pos(cm.Pos()), "called", tname+" is never called")
		for _, c := range calls {
			g := onlyVia(cm, c.(ssa.Instruction), func(a, b *ssa.BasicBlock) bool {
				x, op, y, ok := edgeFact(a, b)
				if !ok || op != token.EQL || !strings.HasSuffix(symOf(x).String(), ".qosLevel") {
					return false
				}
				k, isK := constInt(y)
				return isK && k == lvl
			})
			r.check(g, "R09.5", w.FuncName(cm), fmt.Sprintf("%s only for qosLevel %d", tname, lvl), w.Pos(c.Pos()), "dominated by the level test", tname+" is used for another QoS level")
		}
	}
	// QFI → TC
	mod := w.Fn(P, "pfcpiface.(*UP4).modifyUP4ForwardingConfiguration")
	bt := w.Fn(P, "pfcpiface.(*P4rtTranslator).BuildTerminationsTableEntry")
	for _, c := range callsTo(mod, bt) {
		okTC, why := tcFromMap(c.Common().Args[6])
		r.check(okTC, "R09.4", w.FuncName(mod), "QFI selects the configured traffic class (presence-checked), else the default", w.Pos(c.Pos()), why, why)
	}
}

func isZeroish(s *Sym) bool {
	for s.Op == "conv" {
		s = s.Args[0]
	}
	if s.Op == "const" {
		if s.C == nil {
			return true
		}
		v, ok := constInt64(s.C)
		return ok && v == 0
	}
	return false
}

// ruleC09Mark: loops of MarkSessionQer over the session's lists visit every element.
func ruleC09Mark(w *World, r *Report) {
	const P = "C09"
	f := w.Fn(P, "pfcpiface.(*PFCPSession).MarkSessionQer")
	fn := w.FuncName(f)
	// candidate selection: the running maximum starts at 0 and the label goes unconditionally to
	// qers[sessionIdx] (sessionIdx starts at 0), so the comparison must admit a candidate whose MBR equals
	// the running maximum — otherwise a common QER with UL MBR 0 is never selected and QER #0 is labelled
	nsel := 0
	for _, b := range f.Blocks {
		for _, sc := range b.Succs {
			x, op, y, ok := edgeFact(b, sc)
			if !ok {
				continue
			}
			phi, isPhi := y.(*ssa.Phi)
			if !isPhi || !strings.HasSuffix(symOf(x).String(), ".ulMbr") {
				continue
			}
			startsAtZero := false
			for _, e := range phi.Edges {
				if k, isK := constInt(e); isK && k == 0 {
					startsAtZero = true
				}
			}
			if !startsAtZero {
				continue
			}
			// the selecting edge is the one whose target stores the index
			selects := false
			for _, ins := range sc.Instrs {
				if _, isJump := ins.(*ssa.Jump); isJump {
					selects = len(sc.Instrs) >= 1
				}
			}
			if len(sc.Preds) != 1 {
				continue
			}
			if op == token.GEQ || op == token.GTR {
				nsel++
				_ = selects
				r.check(op == token.GEQ, "R09.5", fn, "the candidate comparison admits the running maximum itself (≥ with a maximum starting at 0)", w.Pos(b.Instrs[len(b.Instrs)-1].Pos()), "qer.ulMbr >= sessionMbr", "the candidate comparison is strict: a QER shared by all PDRs whose UL MBR is 0 (downlink-only or unmetered session AMBR) is never selected, and the unconditional qers[sessionIdx] with sessionIdx == 0 labels the first QER of the message as session QER")
			}
		}
	}
	r.floor("R09.5 candidate comparisons", nsel, 1)
	n := 0
	// every IndexAddr into s.pdrs / qers with a non-constant index: the index must be a range index (φ(-1, i+1) + 1 < len) or len-1
	allInstrs(f, func(i ssa.Instruction) {
		ia, ok := i.(*ssa.IndexAddr)
		if !ok {
			return
		}
		base := symOf(ia.X).String()
		if !(strings.HasSuffix(base, ".pdrs") || base == "qers") {
			return
		}
		if _, isK := constInt(ia.Index); isK {
			return
		}
		idx := ia.Index
		n++
		okShape := fullRangeIndex(idx, map[ssa.Value]bool{})
		r.check(okShape, "R09.5", fn, "index into "+base+" is a full-range loop index", w.Pos(ia.Pos()), valueText(idx), "loop over "+base+" does not cover every element ("+valueText(idx)+"): some rules are never examined (the session-wide limiter must be referenced by every PDR)")
	})
	r.floor("R09.5 indexed accesses to the rule lists in MarkSessionQer", n, 4)
	markBothLists(w, r, "R09.5")
}

// markBothLists: both session handlers apply MarkSessionQer to the stored QERs and to the
// QERs of the current message, before programming: the stored and the programmed QoS level
// of a QER must agree or a later delete addresses the wrong table.
func markBothLists(w *World, r *Report, rule string) {
	P := r.Prop
	f := w.Fn(P, "pfcpiface.(*PFCPSession).MarkSessionQer")
	// both handlers mark the stored QERs and the message's QERs
	for _, hn := range []string{"handleSessionEstablishmentRequest", "handleSessionModificationRequest"} {
		h := w.Fn(P, "pfcpiface.(*PFCPConn)."+hn)
		var args []string
		for _, c := range callsTo(h, f) {
			args = append(args, symOf(c.Common().Args[1]).String())
		}
		stored, msg := false, false
		for _, a := range args {
			if strings.Contains(a, "PacketForwardingRules.qers") {
				stored = true
			}
			if strings.Contains(a, "append") || strings.Contains(a, "make") {
				msg = true
			}
		}
		r.check(stored && msg, rule, w.FuncName(h), "marks the stored QERs and the QERs of this message", w.Pos(h.Pos()), strings.Join(args, " ; "), "MarkSessionQer is applied to ["+trunc80(strings.Join(args, " ; "))+"]: stored and programmed QoS levels diverge (delete then addresses the wrong table)")
		// and before the datapath write
		for _, c := range callsTo(h, f) {
			for _, wc := range datapathCalls(h, "SendMsgToUPF") {
				if sendMsgMethod(wc) == w.ConstInt(P, pfcpPkg, "upfMsgTypeDel") {
					continue
				}
				r.check(instrDominates(c.(ssa.Instruction), wc), rule, w.FuncName(h), "marking precedes programming", w.Pos(c.Pos()), "dominates the write", "QERs are programmed before they are marked")
			}
		}
	}
}

// fullRangeIndex: v is a range-loop index, len(x)-1, a constant, or a φ of such values.
func fullRangeIndex(v ssa.Value, seen map[ssa.Value]bool) bool {
	if seen[v] {
		return true
	}
	seen[v] = true
	if _, isK := constInt(v); isK {
		return true
	}
	if isRangeIndexOf(v) {
		return true
	}
	if bo, isB := v.(*ssa.BinOp); isB && bo.Op == token.SUB {
		if c, ok := bo.X.(*ssa.Call); ok && calleeName(c) == "builtin.len" {
			if k, isK := constInt(bo.Y); isK && k == 1 {
				return true
			}
		}
	}
	if phi, ok := v.(*ssa.Phi); ok {
		for _, e := range phi.Edges {
			if !fullRangeIndex(e, seen) {
				return false
			}
		}
		return true
	}
	return false
}

// isRangeIndexOf: v = φ(-1, v)+1 guarded by v < len(x) (go/ssa's lowering of `for i := range x`).
func isRangeIndexOf(v ssa.Value) bool {
	bo, ok := v.(*ssa.BinOp)
	if !ok || bo.Op != token.ADD {
		return false
	}
	phi, ok := bo.X.(*ssa.Phi)
	if !ok || len(phi.Edges) < 2 {
		return false
	}
	if k, isK := constInt(bo.Y); !isK || k != 1 {
		return false
	}
	inits, backs := 0, 0
	for _, e := range phi.Edges {
		if k, isK := constInt(e); isK && k == -1 {
			inits++
		} else if e == ssa.Value(bo) {
			backs++
		} else {
			return false
		}
	}
	return inits == 1 && backs >= 1
}

// isCountingIndexOf: v = φ(0, v+1), the index of `for i := 0; …; i++` (every way back into the loop adds
// exactly one).
func isCountingIndexOf(v ssa.Value) bool {
	phi, ok := v.(*ssa.Phi)
	if !ok || len(phi.Edges) < 2 {
		return false
	}
	inits, backs := 0, 0
	for _, e := range phi.Edges {
		if k, isK := constInt(e); isK && k == 0 {
			inits++
			continue
		}
		bo, ok := e.(*ssa.BinOp)
		if !ok || bo.Op != token.ADD || bo.X != ssa.Value(phi) {
			return false
		}
		if k, isK := constInt(bo.Y); !isK || k != 1 {
			return false
		}
		backs++
	}
	return inits == 1 && backs >= 1
}

// loopOverAllOf: cond is the header test of a loop that visits every index of a list once, in order —
// `for i := range x` or `for i := 0; i < len(x); i++` — and returns the list and the index.
func loopOverAllOf(cond ssa.Value) (list, index ssa.Value) {
	bo, ok := cond.(*ssa.BinOp)
	if !ok {
		return nil, nil
	}
	idx, ln := bo.X, bo.Y
	switch bo.Op {
	case token.LSS, token.NEQ:
	case token.GTR:
		idx, ln = ln, idx
	default:
		return nil, nil
	}
	if !isRangeIndexOf(idx) && !isCountingIndexOf(idx) {
		return nil, nil
	}
	if bo.Op == token.NEQ && !isCountingIndexOf(idx) {
		return nil, nil
	}
	lc, ok := ln.(*ssa.Call)
	if !ok || calleeName(lc) != "builtin.len" {
		return nil, nil
	}
	return lc.Call.Args[0], idx
}

// ruleC09MeterCells (R09.6): meter cell 0 means "no meter" throughout UP4 (PDRs without a QER point at it,
// configureApplicationMeter does not program a meter whose cell is 0). A cell pool that can hand out 0
// gives an accepted QER a cell that is never programmed — the signalled rate is not enforced — and a
// session QER on cell 0 limits every session that has none. Every value put into the two meter pools by
// initMetersPools is at least 1.
func ruleC09MeterCells(w *World, r *Report) {
	const P = "C09"
	f := w.Fn(P, "pfcpiface.(*UP4).initMetersPools")
	fn := w.FuncName(f)
	n := 0
	allInstrs(f, func(i ssa.Instruction) {
		c, ok := i.(*ssa.Call)
		if !ok || !c.Call.IsInvoke() || c.Call.Method.Name() != "Add" || len(c.Call.Args) != 1 {
			return
		}
		if !strings.Contains(c.Call.Value.Type().String(), "set.Set") && !strings.Contains(c.Call.Value.Type().String(), "mapset") {
			return
		}
		n++
		// the element: interface(convert(φ)) with φ = (c0, φ+step)
		v := c.Call.Args[0]
		for k := 0; k < 4; k++ {
			switch x := v.(type) {
			case *ssa.MakeInterface:
				v = x.X
			case *ssa.Convert:
				v = x.X
			case *ssa.ChangeType:
				v = x.X
			}
		}
		lo, known := int64(0), false
		switch x := v.(type) {
		case *ssa.Phi:
			known = true
			first := true
			for _, e := range x.Edges {
				if bo, isB := e.(*ssa.BinOp); isB && bo.Op == token.ADD && bo.X == ssa.Value(x) {
					if k, isK := constInt(bo.Y); isK && k > 0 {
						continue
					}
				}
				k, isK := constInt(e)
				if !isK {
					known = false
					continue
				}
				if first || k < lo {
					lo, first = k, false
				}
			}
		case *ssa.Const:
			if k, isK := constInt(x); isK {
				lo, known = k, true
			}
		}
		r.check(known && lo >= 1, "R09.6", fn, fmt.Sprintf("meter cell pool element #%d is never cell 0", n), w.Pos(c.Pos()), fmt.Sprintf("counts up from %d", lo), ifelse(known, fmt.Sprintf("the pool is filled starting at %d: cell 0 is the 'no meter' index, a QER that draws it is accepted but never programmed (and a session QER on it limits every session without one)", lo), "the smallest value added to the pool could not be determined"))
	})
	r.floor("R09.6 elements added to the meter cell pools", n, 2)
}

// ruleC09SearchList (R09.7): MarkSessionQer narrows its candidate list in place (copy / element
// stores). That list must be the function's own: if it is the qerIDList of a PDR, narrowing it rewrites
// that PDR's QER references — the PDR loses its application QER and is programmed with the session QER
// in its place, so the rate and gate signalled for the flow are not enforced.
func ruleC09SearchList(w *World, r *Report) {
	const P = "C09"
	mark := w.Fn(P, "pfcpiface.(*PFCPSession).MarkSessionQer")
	mn := w.FuncName(mark)
	n := 0
	// φ-aware: a slice value is "of a PDR" if any of its sources is the field
	var ofField func(v ssa.Value, d int, seen map[ssa.Value]bool) bool
	ofField = func(v ssa.Value, d int, seen map[ssa.Value]bool) bool {
		if d > 8 || seen[v] {
			return false
		}
		seen[v] = true
		switch x := v.(type) {
		case *ssa.Slice:
			return ofField(x.X, d+1, seen)
		case *ssa.UnOp:
			return loadsField(x, "qerIDList")
		case *ssa.Phi:
			for _, e := range x.Edges {
				if ofField(e, d+1, seen) {
					return true
				}
			}
		case *ssa.Call:
			if b, ok := x.Call.Value.(*ssa.Builtin); ok && b.Name() == "append" && len(x.Call.Args) > 0 {
				base := x.Call.Args[0]
				if isNilConst(base) {
					return false
				}
				if ms, isMs := base.(*ssa.MakeSlice); isMs {
					_ = ms
					return false
				}
				return ofField(base, d+1, seen)
			}
		}
		return false
	}
	// The search is what precedes the choice: a write belongs to it when the statement that labels the
	// chosen QER can still follow. What is written once the QER is chosen (the move of the session QER to
	// the end of every PDR's list, by append or by copy + element store) does not narrow anything; its
	// contract is R03.8.
	isLabel := func(i ssa.Instruction) bool {
		st, ok := i.(*ssa.Store)
		return ok && loadsFieldAddr(st.Addr, "qosLevel")
	}
	inSearch := func(i ssa.Instruction) bool { return reach(mark, i, isLabel, nil, nil) != nil }
	allInstrs(mark, func(i ssa.Instruction) {
		switch x := i.(type) {
		case *ssa.Call:
			if calleeName(x) != "builtin.copy" || !inSearch(i) {
				return
			}
			n++
			dst := x.Call.Args[0]
			r.check(!ofField(dst, 0, map[ssa.Value]bool{}), "R09.7", mn, fmt.Sprintf("in-place narrowing #%d works on the function's own list", n), w.Pos(x.Pos()), "destination is a private copy", "copy() writes into "+symOf(dst).String()+", the QER list of a stored PDR: the search for the session QER overwrites that PDR's own QER references")
		case *ssa.Store:
			ia, ok := x.Addr.(*ssa.IndexAddr)
			if !ok {
				return
			}
			if et, isU := ia.Type().Underlying().(*types.Pointer); !isU || et.Elem().String() != "uint32" || !inSearch(i) {
				return
			}
			n++
			r.check(!ofField(ia.X, 0, map[ssa.Value]bool{}), "R09.7", mn, fmt.Sprintf("in-place narrowing #%d works on the function's own list", n), w.Pos(x.Pos()), "destination is a private copy", "an element of "+symOf(ia.X).String()+", the QER list of a stored PDR, is overwritten during the search")
		}
	})
	r.floor("R09.7 in-place writes of the search list", n, 1)
}

// ruleC09GateBits (R09.8): the uplink gate of a QER is the uplink gate of the Gate Status IE, the downlink
// gate the downlink one: qer.ulStatus comes from GateStatusUL() (or result #0 of GateStatusULDL(), which
// returns uplink first), qer.dlStatus from GateStatusDL() (or result #1).
func ruleC09GateBits(w *World, r *Report) {
	const P = "C09"
	f := w.Fn(P, "pfcpiface.(*qer).parseQER")
	fn := w.FuncName(f)
	n := 0
	for field, want := range map[string][]string{"ulStatus": {"GateStatusUL#0", "GateStatusULDL#0"}, "dlStatus": {"GateStatusDL#0", "GateStatusULDL#1"}} {
		for _, st := range fieldStores(f, "qer")[field] {
			n++
			s := symOf(st.Val).String()
			okS := false
			for _, wv := range want {
				if strings.Contains(s, ")."+wv+"(") || strings.Contains(s, "."+wv+"(") {
					okS = true
				}
			}
			r.check(okS, "R09.8", fn, "qer."+field+" is the "+ifelse(field == "ulStatus", "uplink", "downlink")+" gate of the Gate Status IE", w.Pos(st.Pos()), s, "qer."+field+" is taken from "+s+": a QER with the uplink gate closed and the downlink gate open is programmed the other way round")
		}
	}
	r.floor("R09.8 gate status stores in parseQER", n, 2)
}

// ruleC09MeterArray (R09.9): the two meter arrays are indexed by cells of two independent pools. Whatever
// is written for a meter of one kind — programmed or reset — goes to the array of that kind: in
// configureApplicationMeter / configureSessionMeter by construction, in resetMeters under the meter-type
// arm that governs the call. Resetting a session meter in the application array writes "unmetered" over
// a live session's application QER that happens to use the same index.
func ruleC09MeterArray(w *World, r *Report) {
	const P = "C09"
	appArr := w.ConstInt(P, modPath+"/internal/p4constants", "MeterPreQosPipeAppMeter")
	sessArr := w.ConstInt(P, modPath+"/internal/p4constants", "MeterPreQosPipeSessionMeter")
	mtApp, mtSess := w.ConstInt(P, pfcpPkg, "meterTypeApplication"), w.ConstInt(P, pfcpPkg, "meterTypeSession")
	n := 0
	expectIn := map[string]int64{"pfcpiface.(*UP4).configureApplicationMeter": appArr, "pfcpiface.(*UP4).configureSessionMeter": sessArr}
	for name, arr := range expectIn {
		f := w.Fn(P, name)
		for _, g := range withClosures(f) {
			allInstrs(g, func(i ssa.Instruction) {
				c, ok := i.(*ssa.Call)
				if !ok || staticCallee(c) == nil || staticCallee(c).Name() != "BuildMeterEntry" {
					return
				}
				n++
				k, isK := constInt(c.Call.Args[1])
				r.check(isK && k == arr, "R09.9", name, "the meter is programmed in its own array", w.Pos(c.Pos()), fmt.Sprint(k), fmt.Sprintf("the meter entry is built for array %d, the cells of this function come from the pool of array %d", k, arr))
			})
		}
	}
	reset := w.Fn(P, "pfcpiface.(*UP4).resetMeters")
	// the array a reset call writes to is what the callee puts into MeterEntry.MeterId: a constant of its
	// own, or the argument the call passes for the parameter that ends up there — whichever position that
	// parameter has in the signature. Every entry the callee builds must name the same array.
	resetArray := func(callee *ssa.Function, args []ssa.Value, phiConst func(ssa.Value) (int64, bool)) (int64, bool) {
		arr, known, bad := int64(0), false, false
		allInstrs(callee, func(i ssa.Instruction) {
			st, ok := i.(*ssa.Store)
			if !ok || !loadsFieldAddr(st.Addr, "MeterId") {
				return
			}
			v := stripConv(st.Val)
			k, isK := constInt(v)
			if par, isPar := v.(*ssa.Parameter); isPar {
				for pi, fp := range callee.Params {
					if fp == par && pi < len(args) {
						k, isK = phiConst(args[pi])
					}
				}
			}
			if !isK || (known && k != arr) {
				bad = true
			}
			arr, known = k, true
		})
		return arr, known && !bad
	}
	// for each kind of meter: follow the paths that kind takes (every comparison of the meter's type with a
	// constant decided, everything else both ways) and look at the array each reset call names on them
	for _, kind := range []struct {
		mt, arr int64
		name    string
	}{{mtApp, appArr, "application"}, {mtSess, sessArr, "session"}} {
		kind := kind
		decide := func(cond ssa.Value) (bool, bool) {
			bo, ok := cond.(*ssa.BinOp)
			if !ok || (bo.Op != token.EQL && bo.Op != token.NEQ) {
				return false, false
			}
			x, y := bo.X, bo.Y
			if _, isK := constInt(x); isK {
				x, y = y, x
			}
			k, isK := constInt(y)
			if !isK || !strings.HasSuffix(symOf(x).String(), ".meterType") {
				return false, false
			}
			return (k == kind.mt) == (bo.Op == token.EQL), true
		}
		seenCall := map[ssa.Instruction]bool{}
		done := walkUnder(reset, decide, func(i ssa.Instruction, phiConst func(ssa.Value) (int64, bool)) {
			c, ok := i.(ssa.CallInstruction)
			if !ok || staticCallee(c) == nil || staticCallee(c).Name() != "resetMeter" {
				return
			}
			k, isK := resetArray(staticCallee(c), c.Common().Args, phiConst)
			if seenCall[i] && isK && k == kind.arr {
				return
			}
			if !seenCall[i] {
				seenCall[i] = true
			}
			key := fmt.Sprintf("%s meter, reset call #%d", kind.name, len(seenCall))
			n++
			r.check(isK && k == kind.arr, "R09.9", w.FuncName(reset), "a meter is reset in the array of its kind ("+key+")", w.Pos(c.Pos()), fmt.Sprintf("array %d for a meter of type %d", k, kind.mt), fmt.Sprintf("a meter of type %d (%s) is reset in meter array %d instead of %d: the cells of the other kind's array at the same indices — possibly a live session's meter — are overwritten with 'unmetered', and the released meter keeps its old rate", kind.mt, kind.name, k, kind.arr))
		})
		if !done {
			brokenf(P, "R09.9", "resetMeters has too many paths to enumerate")
		}
		r.check(len(seenCall) > 0, "R09.9", w.FuncName(reset), "a released "+kind.name+" meter is reset", w.Pos(reset.Pos()), "a reset call lies on its paths", "no reset call is reachable for a meter of type "+fmt.Sprint(kind.mt)+": its cells keep the old rates when they are handed to the next session")
	}
	r.floor("R09.9 meter array uses", n, 5)
}

// ruleC09QciTable (R09.10): the burst parameters BESS uses for a QER are the configured ones: every entry
// of qci_qos_config ends up in qciQosMap (each iteration of the loop stores its entry — the last one
// wins, none is skipped), and the built-in fallback for QCI 0 is installed only when the configuration
// has none (under the "not found" edge of a lookup of key 0, after the loop).
func ruleC09QciTable(w *World, r *Report) {
	const P = "C09"
	f := w.Fn(P, "pfcpiface.(*bess).readQciQosMap")
	fn := w.FuncName(f)
	loops := rangeLoopsOver(f, "QciQosConfig")
	r.floor("R09.10 loop over the configured QCI entries", len(loops), 1)
	// the table: what is read from the field, or a map made here that is stored into the field on every path
	// to the return (the table may be assembled in a local first)
	isFieldStore := func(i ssa.Instruction) bool {
		st, ok := i.(*ssa.Store)
		if !ok {
			return false
		}
		fa, ok := st.Addr.(*ssa.FieldAddr)
		return ok && fieldVar(fa) != nil && fieldVar(fa).Name() == "qciQosMap"
	}
	isTable := func(v ssa.Value) bool {
		if strings.HasSuffix(symOf(v).String(), "qciQosMap") {
			return true
		}
		mm, ok := v.(*ssa.MakeMap)
		if !ok {
			return false
		}
		for _, ref := range *mm.Referrers() {
			if st, ok := ref.(*ssa.Store); ok && st.Val == ssa.Value(mm) && isFieldStore(st) {
				return mustPass(f, nil, isReturn, func(i ssa.Instruction) bool { return i == ssa.Instruction(st) }) == nil
			}
		}
		return false
	}
	// every value stored in the table is a fresh entry: `table[0] == nil` then says "not configured"
	allFresh := true
	allInstrs(f, func(i ssa.Instruction) {
		if mu, ok := i.(*ssa.MapUpdate); ok && isTable(mu.Map) {
			if _, isAlloc := mu.Value.(*ssa.Alloc); !isAlloc {
				allFresh = false
			}
		}
	})
	isConfStore := func(i ssa.Instruction) bool {
		mu, ok := i.(*ssa.MapUpdate)
		return ok && isTable(mu.Map) && strings.Contains(symOf(mu.Key).String(), "QCI")
	}
	// overwrites: every iteration of every loop over the configuration stores its entry under its own QCI,
	// whatever the table holds for that key
	overwrites := len(loops) > 0
	for _, l := range loops {
		every := everyIteration(f, l[1], l[0], isConfStore)
		overwrites = overwrites && every
		r.check(every, "R09.10", fn, "every configured QCI entry is stored", w.Pos(f.Pos()), "map update on every iteration", "an iteration over qci_qos_config can skip its entry (e.g. because the key is already present): the operator's entry — in particular \"qci\": 0, the fallback for unlisted QFIs and every session QER — is dropped in favour of what was there before")
	}
	n := 0
	allInstrs(f, func(i ssa.Instruction) {
		switch x := i.(type) {
		case *ssa.MapUpdate:
			if _, fresh := x.Map.(*ssa.MakeMap); !fresh && !isTable(x.Map) {
				return
			}
			if k, isK := constInt(x.Key); isK && k == 0 {
				n++
				g := onlyVia(f, x, func(a, b *ssa.BasicBlock) bool {
					if allFresh {
						// table[0] == nil
						if xv, op, y, ok := edgeFact(a, b); ok && op == token.EQL && isNilConst(y) {
							if lk, isLk := xv.(*ssa.Lookup); isLk && !lk.CommaOk && isTable(lk.X) {
								if kk, isKK := constInt(lk.Index); isKK && kk == 0 {
									return true
								}
							}
						}
					}
					v, truth, ok := boolEdge(a, b)
					if !ok || truth {
						return false
					}
					ex, isEx := v.(*ssa.Extract)
					if !isEx || ex.Index != 1 {
						return false
					}
					lk, isLk := ex.Tuple.(*ssa.Lookup)
					if !isLk || !isTable(lk.X) {
						return false
					}
					kk, isKK := constInt(lk.Index)
					return isKK && kk == 0
				})
				after := true
				for _, l := range loops {
					if !l[0].Dominates(x.Block()) || reachesBlock(x.Block(), l[0]) {
						after = false
					}
				}
				// "Only fills a gap" is a statement about the table the function leaves behind. The
				// built-in entry may as well be there first: stored once before the configuration is
				// read (not inside a loop over it), it survives exactly when no configured entry has
				// QCI 0 — provided every configured entry is stored over whatever is there.
				first := overwrites
				for _, l := range loops {
					if !x.Block().Dominates(l[0]) || x.Block() == l[0] || reachesBlock(l[1], x.Block()) {
						first = false
					}
				}
				if first {
					r.ok("R09.10", fn, "the built-in QCI 0 entry only fills a gap the configuration left", w.Pos(x.Pos()), "before the loop, and every configured entry overwrites")
					return
				}
				r.check(g && after, "R09.10", fn, "the built-in QCI 0 entry only fills a gap the configuration left", w.Pos(x.Pos()), "after the loop, under 'key 0 not found'", "the built-in fallback for QCI 0 is installed "+ifelse(after, "without checking that the configuration has none", "before the configuration is read")+": a configured \"qci\": 0 entry does not take effect")
			}
		case *ssa.MakeMap:
			// a map literal with a key-0 entry is a store before the loop as well: handled through its MapUpdate
		}
	})
	r.floor("R09.10 built-in fallback entry", n, 1)
}
