package main

import (
	"fmt"
	"go/ast"
	"go/parser"
	"go/token"
	"go/types"
	"sort"
	"strings"

	"golang.org/x/tools/go/ssa"
	"golang.org/x/tools/go/ssa/ssautil"
)

func init() { rules["C10"] = ruleC10 }

// ---- channel typestate over struct-field channels

type chanSite struct {
	fn   *ssa.Function
	ins  ssa.Instruction
	fld  string // "Owner.field"
	kind string // "close", "send", "range"
}

// chanFieldOf: the struct field a channel value was loaded from ("PFCPNode.pConnDone"), "" if none.
func chanFieldOf(v ssa.Value) string {
	for i := 0; i < 4; i++ {
		switch x := v.(type) {
		case *ssa.ChangeType:
			v = x.X
			continue
		case *ssa.UnOp:
			if x.Op == token.MUL {
				if fa, ok := x.X.(*ssa.FieldAddr); ok && fieldVar(fa) != nil {
					return rootTypeName(fa.X.Type()) + "." + fieldVar(fa).Name()
				}
			}
		}
		break
	}
	return ""
}

func chanSites(funcs []*ssa.Function) []chanSite {
	var out []chanSite
	for _, f := range funcs {
		f := f
		allInstrs(f, func(i ssa.Instruction) {
			switch x := i.(type) {
			case *ssa.Call:
				if b, ok := x.Call.Value.(*ssa.Builtin); ok && b.Name() == "close" {
					out = append(out, chanSite{f, i, chanFieldOf(x.Call.Args[0]), "close"})
				}
			case *ssa.Send:
				out = append(out, chanSite{f, i, chanFieldOf(x.Chan), "send"})
			case *ssa.Select:
				for _, st := range x.States {
					if st.Dir == types.SendOnly {
						out = append(out, chanSite{f, i, chanFieldOf(st.Chan), "send"})
					}
				}
			case *ssa.UnOp:
				// for v := range ch  ==>  t = <-ch,ok in a block that loops back to itself
				if x.Op == token.ARROW && x.CommaOk && strings.HasPrefix(x.Block().Comment, "rangechan") {
					out = append(out, chanSite{f, i, chanFieldOf(x.X), "range"})
				}
			}
		})
	}
	return out
}

// closeOnceProblem: why the close at site c may run twice for one object ("" if it cannot).
//   - the enclosing function is the body of a sync.Once.Do of the same object and has no other caller, or
//   - it has at most one (non-loop) call site from a function that itself runs once per object, and
//     the close cannot be reached again from itself.
func closeOnceProblem(callersOf func(*ssa.Function) []*Edge, c chanSite, onceBodies map[*ssa.Function]bool, depth int) string {
	f := c.fn
	if reReachable(c.ins) {
		return "the close can be reached again from itself (loop)"
	}
	if onceBodies[f] {
		return ""
	}
	return runsOnceProblem(callersOf, f, onceBodies, depth)
}

func runsOnceProblem(callersOf func(*ssa.Function) []*Edge, f *ssa.Function, onceBodies map[*ssa.Function]bool, depth int) string {
	if depth > 4 {
		return "call chain too deep to establish a single execution"
	}
	if onceBodies[f] {
		return ""
	}
	in := callersOf(f)
	if len(in) == 0 {
		return "" // entry point
	}
	if len(in) > 1 {
		var names []string
		for _, e := range in {
			names = append(names, e.Caller.Name())
		}
		sort.Strings(names)
		return fmt.Sprintf("%s is called from %d sites (%s) and is not guarded by sync.Once", f.Name(), len(in), strings.Join(names, ", "))
	}
	e := in[0]
	b := e.Site.Block()
	for _, s := range b.Succs {
		if reachesBlock(s, b) {
			if reReachable(e.Site) {
				return f.Name() + " is called in a loop of " + e.Caller.Name()
			}
		}
	}
	if e.Kind == "go" && e.Caller.Name() != "main" {
		// started once per call of the caller
	}
	return runsOnceProblem(callersOf, e.Caller, onceBodies, depth+1)
}

// reReachable: can the instruction execute again after it executed? The search runs over CFG edges
// (pred, block) so that a branch on a phi whose incoming value from pred is a boolean constant only
// follows the successor that value selects: the idiom  for !stop { … stop = true … }  does not loop.
func reReachable(ins ssa.Instruction) bool {
	type edge struct{ p, b *ssa.BasicBlock }
	b0 := ins.Block()
	seen := map[edge]bool{}
	var work []edge
	for _, s := range b0.Succs {
		e := edge{b0, s}
		if !seen[e] {
			seen[e] = true
			work = append(work, e)
		}
	}
	for len(work) > 0 {
		e := work[len(work)-1]
		work = work[:len(work)-1]
		for _, i := range e.b.Instrs {
			if i == ins {
				return true
			}
		}
		succs := e.b.Succs
		if ifi := blockIf(e.b); ifi != nil && len(succs) == 2 {
			cond, neg := ifi.Cond, false
			if u, ok := cond.(*ssa.UnOp); ok && u.Op == token.NOT {
				cond, neg = u.X, true
			}
			if phi, ok := cond.(*ssa.Phi); ok && phi.Block() == e.b {
				for k, pred := range e.b.Preds {
					if pred != e.p {
						continue
					}
					if c, isK := constBool(phi.Edges[k]); isK {
						if neg {
							c = !c
						}
						if c {
							succs = succs[:1]
						} else {
							succs = succs[1:]
						}
					}
				}
			}
		}
		for _, s := range succs {
			n := edge{e.b, s}
			if !seen[n] {
				seen[n] = true
				work = append(work, n)
			}
		}
	}
	return false
}

func ruleC10(w *World, r *Report) {
	const P = "C10"
	r.Explanation = "R10.0 self-test: the channel typestate detectors fire on an embedded fixture (double close through two callers, send on a channel another goroutine closes, range over a channel closed only afterwards). " +
		"R10.1 close-at-most-once: every close of a struct-field channel sits in a function that runs once per object (body of the object's sync.Once, or a single non-loop call chain from an entry point) and cannot be reached again from itself; R10.2 a channel field that is closed anywhere is never sent on; channels PFCPConns send on are never closed; R10.3 a range over a channel needs a close on another goroutine or before the loop; " +
		"R10.4 teardown body: Shutdown is exactly one Once.Do of the teardown; on every path the teardown closes the shutdown channel, stops the heartbeat monitor, ends every stored session (delete + RemoveSession on every iteration), reports its own remote address on done after the sessions are gone, and closes the socket; " +
		"R10.5 every trigger reaches Shutdown: Serve's read-timeout and node-cancel cases, the reader's timeout hand-off, the heartbeat monitor's and the association request's timeout verdict (its meaning is decided under C12 R12.1), the deferred Shutdown of the release case; " +
		"R10.6 forgetting and isolation: the address received on pConnDone is the key deleted from pConns (main loop and stop-time join), a connection's store is created for it alone, RemoveSession deletes under the key PutSession stores under, GetAllSessions ranges over the same map; " +
		"R10.7 stop sequence: cancel → (every Serve sees ctx.Done → Shutdown) → node stops accepting → join of all connections bounded by a timer → datapath Exit → close(done); Stop waits on Done after cancelling; R10.8 session records are added only where teardown cannot miss them."
	r.Explanation += " R10.10 the reader goroutine — the only place a read time-out is noticed — ends only on time-out or closed socket."
	r.Explanation += " R10.11 = C06 R06.7 (distinct SEID sequences per association)."
	r.Explanation += " R10.12 = C12 R12.5 (hbReset is signalled without blocking); R10.13 http.Server.Shutdown gets a context with a time-out; R10.14 handleNewPeers calls NewPFCPConn only behind pConns.Load not found."
	r.NotDecided = "exactly-once under every interleaving beyond these typestate/ordering rules; bounded time beyond 'every stop-path wait has a timer alternative' (SendMsgToUPF's own time-outs are trusted); that conn.RemoteAddr().String() equals the key string used at creation (both are String() of the peer's UDP address)"

	ruleC10SelfTest(r)

	var funcs []*ssa.Function
	for _, f := range w.Funcs {
		n := w.FuncName(f)
		if strings.HasPrefix(n, "test/") || strings.HasPrefix(n, "cmd/p4info_code_gen") || strings.HasPrefix(n, "pkg/fake_bess") {
			continue
		}
		funcs = append(funcs, f)
	}
	cg := w.CG()
	callersOf := func(f *ssa.Function) []*Edge {
		var out []*Edge
		for _, e := range cg.In[f] {
			if strings.HasPrefix(w.FuncName(e.Caller), "test/") {
				continue
			}
			out = append(out, e)
		}
		return out
	}
	// bodies of sync.Once.Do with no other caller
	onceBodies := map[*ssa.Function]bool{}
	for _, f := range funcs {
		allInstrs(f, func(i ssa.Instruction) {
			c, ok := i.(*ssa.Call)
			if !ok || calleeName(c) != "(*sync.Once).Do" {
				return
			}
			body := closureOf(c.Call.Args[1])
			if body == nil {
				return
			}
			// the Once is a field of the receiver the body is bound to
			onceFld := chanFieldOfAddr(c.Call.Args[0])
			others := 0
			for _, e := range callersOf(body) {
				if e.Site != ssa.Instruction(c) {
					others++
				}
			}
			if onceFld != "" && others == 0 {
				onceBodies[body] = true
			}
		})
	}
	sites := chanSites(funcs)
	closed := map[string][]chanSite{}
	nClose := 0
	for _, s := range sites {
		if s.kind != "close" {
			continue
		}
		nClose++
		if s.fld != "" {
			closed[s.fld] = append(closed[s.fld], s)
		}
		if s.fld == "" {
			// a local channel: closed by its creator; not shared state
			r.trivial("R10.1", w.FuncName(s.fn), "close of a local channel", w.Pos(s.ins.Pos()), "not a struct field")
			continue
		}
		why := closeOnceProblem(callersOf, s, onceBodies, 0)
		r.check(why == "", "R10.1", w.FuncName(s.fn), "close("+s.fld+") runs at most once per object", w.Pos(s.ins.Pos()), "once", "close("+s.fld+") can run twice for one object (panic: close of closed channel): "+why)
	}
	r.floor("R10.1 close sites", nClose, 2)
	// R10.2
	nSend := 0
	for _, s := range sites {
		if s.kind != "send" || s.fld == "" {
			continue
		}
		nSend++
		cs := closed[s.fld]
		where := ""
		if len(cs) > 0 {
			where = w.Pos(cs[0].ins.Pos()) + " in " + w.FuncName(cs[0].fn)
		}
		r.check(len(cs) == 0, "R10.2", w.FuncName(s.fn), "send on "+s.fld+": the channel is never closed", w.Pos(s.ins.Pos()), "no close site", "send on "+s.fld+", which is closed at "+where+": a sender that runs after (or while) the channel is closed panics")
	}
	r.floor("R10.2 sends on struct-field channels", nSend, 3)
	// the completion channel: PFCPConn.done is the node's pConnDone
	{
		newConn := w.Fn(P, "pfcpiface.(*PFCPNode).NewPFCPConn")
		okAlias := false
		allInstrs(newConn, func(i ssa.Instruction) {
			if st, ok := i.(*ssa.Store); ok {
				if fa, ok := st.Addr.(*ssa.FieldAddr); ok && fieldVar(fa) != nil && fieldVar(fa).Name() == "done" && rootTypeName(fa.X.Type()) == "PFCPConn" {
					okAlias = chanFieldOf(st.Val) == "PFCPNode.pConnDone"
				}
			}
		})
		r.check(okAlias, "R10.2", w.FuncName(newConn), "a connection's done channel is the node's pConnDone", w.Pos(newConn.Pos()), "done: node.pConnDone", "PFCPConn.done is not the node's completion channel")
		r.check(len(closed["PFCPNode.pConnDone"]) == 0 && len(closed["PFCPConn.done"]) == 0, "R10.2", "pfcpiface.PFCPNode", "the completion channel the connections send on is never closed", "", "no close site", "pConnDone is closed while connections may still report on it")
	}
	// R10.3
	nRange := 0
	for _, s := range sites {
		if s.kind != "range" {
			continue
		}
		nRange++
		okR := false
		for _, c := range closed[s.fld] {
			if c.fn != s.fn {
				okR = true // closed elsewhere
			} else if instrBefore(c.ins, s.ins) {
				okR = true
			}
		}
		if s.fld == "" {
			okR = true
		}
		if len(closed[s.fld]) == 0 {
			// never closed anywhere: a service loop for the life of the process, legitimate only as the
			// body of its own goroutine
			isRoot := false
			for _, e := range cg.In[s.fn] {
				if e.Kind == "go" {
					isRoot = true
				}
			}
			if isRoot {
				r.trivial("R10.3", w.FuncName(s.fn), "range over "+s.fld+" is a service loop of its own goroutine", w.Pos(s.ins.Pos()), "channel never closed, function started with go")
				continue
			}
		}
		r.check(okR, "R10.3", w.FuncName(s.fn), "range over "+s.fld+" terminates (the channel is closed by someone else or before)", w.Pos(s.ins.Pos()), "close precedes / elsewhere", "range over "+s.fld+", which is closed only after the loop in the same function (or never): the loop blocks for ever once the channel is drained")
	}
	r.trivial("R10.3", "pfcpiface", "range-over-channel loops examined", "", fmt.Sprintf("%d", nRange))

	ruleC10Teardown(w, r)
	ruleC10Blocking(w, r, ctxRoots(w))
	// R10.10: an association whose reader has gone can no longer end by read time-out (the reader is the only place that notices it)
	r.withRule("R10.10", func() { ruleC01Reader(w, r) })
	// R10.11: two associations never draw the same local SEIDs — ending one would delete the other's rules and addresses (C06 R06.7)
	r.withRule("R10.11", func() { ruleC06SeidEntropy(w, r) })
	ruleC12HbSignal(w, r, w.Fn(P, "pfcpiface.(*PFCPConn).handleHeartbeatRequest"), "R10.12")
	ruleHTTPShutdownBounded(w, r, P, "R10.13")
	ruleNewConnOnlyForUnknownPeer(w, r, P, "R10.14")
	ruleC10Triggers(w, r)
	ruleC10Forget(w, r)
	ruleC10Stop(w, r)
	ruleC10Records(w, r)
}

// chanFieldOfAddr: "&x.f" → "Owner.f"
func chanFieldOfAddr(v ssa.Value) string {
	if fa, ok := v.(*ssa.FieldAddr); ok && fieldVar(fa) != nil {
		return rootTypeName(fa.X.Type()) + "." + fieldVar(fa).Name()
	}
	return ""
}

// ---------------------------------------------------------------------------------------------
// self test

const c10Fixture = `package fx

type T struct {
	quit chan struct{}
	out  chan int
	res  chan int
}

func (t *T) stop() { close(t.quit) }

func (t *T) a() { t.stop() }
func (t *T) b() { t.stop() }

func (t *T) worker() { t.out <- 1 }

func (t *T) owner() {
	go t.worker()
	close(t.out)
}

func (t *T) drain() {
	if len(t.res) > 0 {
		for v := range t.res {
			_ = v
		}
	}
	close(t.res)
}

func main() {
	t := &T{}
	go t.a()
	go t.b()
	t.owner()
	t.drain()
}
`

func ruleC10SelfTest(r *Report) {
	fset := token.NewFileSet()
	file, err := parser.ParseFile(fset, "fx.go", c10Fixture, 0)
	if err != nil {
		brokenf("C10", "R10.0", "fixture: %v", err)
	}
	pkg := types.NewPackage("fx", "fx")
	sp, _, err := ssautil.BuildPackage(&types.Config{}, fset, pkg, []*ast.File{file}, ssa.InstantiateGenerics)
	if err != nil {
		brokenf("C10", "R10.0", "fixture build: %v", err)
	}
	var funcs []*ssa.Function
	for _, m := range sp.Members {
		if f, ok := m.(*ssa.Function); ok {
			funcs = append(funcs, f)
		}
		if t, ok := m.(*ssa.Type); ok {
			ms := sp.Prog.MethodSets.MethodSet(types.NewPointer(t.Type()))
			for i := 0; i < ms.Len(); i++ {
				if f := sp.Prog.MethodValue(ms.At(i)); f != nil {
					funcs = append(funcs, f)
				}
			}
		}
	}
	in := map[*ssa.Function][]*Edge{}
	for _, f := range funcs {
		f := f
		allInstrs(f, func(i ssa.Instruction) {
			if c, ok := i.(ssa.CallInstruction); ok {
				if g := c.Common().StaticCallee(); g != nil {
					kind := "call"
					if _, isGo := i.(*ssa.Go); isGo {
						kind = "go"
					}
					in[g] = append(in[g], &Edge{Caller: f, Site: i, Callee: g, Kind: kind})
				}
			}
		})
	}
	callersOf := func(f *ssa.Function) []*Edge { return in[f] }
	sites := chanSites(funcs)
	closed := map[string][]chanSite{}
	for _, s := range sites {
		if s.kind == "close" {
			closed[s.fld] = append(closed[s.fld], s)
		}
	}
	dbl, sendClosed, rangeLate := false, false, false
	for _, s := range sites {
		switch s.kind {
		case "close":
			if s.fld == "T.quit" && closeOnceProblem(callersOf, s, map[*ssa.Function]bool{}, 0) != "" {
				dbl = true
			}
		case "send":
			if s.fld == "T.out" && len(closed[s.fld]) > 0 {
				sendClosed = true
			}
		case "range":
			okR := false
			for _, c := range closed[s.fld] {
				if c.fn != s.fn || instrBefore(c.ins, s.ins) {
					okR = true
				}
			}
			if s.fld == "T.res" && !okR {
				rangeLate = true
			}
		}
	}
	r.check(dbl, "R10.0", "fixture", "detector: close reachable through two callers", "", "fires", "self-test failed: the double-close detector is blind")
	r.check(sendClosed, "R10.0", "fixture", "detector: send on a channel that is closed elsewhere", "", "fires", "self-test failed: the send-on-closed detector is blind")
	r.check(rangeLate, "R10.0", "fixture", "detector: range over a channel closed only afterwards", "", "fires", "self-test failed: the range detector is blind")
}

// ---------------------------------------------------------------------------------------------

func ruleC10Teardown(w *World, r *Report) {
	const P = "C10"
	sh := w.Fn(P, "pfcpiface.(*PFCPConn).Shutdown")
	body := w.teardownBody(P)
	sn, bn := w.FuncName(sh), w.FuncName(body)
	r.check(body != sh, "R10.4", sn, "Shutdown runs the teardown through the connection's sync.Once and does nothing else", w.Pos(sh.Pos()), "Once.Do(teardown)", "Shutdown is not idempotent: two triggers (read timeout, node stop, heartbeat timeout, release) tear the association down twice — close of closed channel, sessions deleted twice")
	if body != sh {
		var do *ssa.Call
		allInstrs(sh, func(i ssa.Instruction) {
			if c, ok := i.(*ssa.Call); ok && calleeName(c) == "(*sync.Once).Do" {
				do = c
			}
		})
		of := chanFieldOfAddr(do.Call.Args[0])
		r.check(strings.HasPrefix(of, "PFCPConn.") && sameRoot(do.Call.Args[0], sh.Params[0]), "R10.4", sn, "the Once belongs to the connection being shut down", w.Pos(do.Pos()), of, "the Once used is "+of)
	}
	rets := returnsOf(body)
	var cutFor edgePred
	must := func(what string, pred instrPred, msg string) ssa.Instruction {
		var first ssa.Instruction
		allInstrs(body, func(i ssa.Instruction) {
			if first == nil && pred(i) {
				first = i
			}
		})
		okAll := first != nil
		for _, ret := range rets {
			if reach(body, nil, func(i ssa.Instruction) bool { return i == ssa.Instruction(ret) }, pred, cutFor) != nil {
				okAll = false
			}
		}
		pos := w.Pos(body.Pos())
		if first != nil {
			pos = w.Pos(first.Pos())
		}
		r.check(okAll, "R10.4", bn, what, pos, "on every path", msg)
		return first
	}
	closeI := must("teardown closes the connection's shutdown channel", func(i ssa.Instruction) bool {
		c, ok := i.(*ssa.Call)
		if !ok {
			return false
		}
		b, isB := c.Call.Value.(*ssa.Builtin)
		return isB && b.Name() == "close" && chanFieldOf(c.Call.Args[0]) == "PFCPConn.shutdown"
	}, "a teardown path does not close the shutdown channel: Serve and pending requests keep waiting")
	// "if cancel != nil { cancel() }" is as good as an unconditional call
	cutFor = func(a, b *ssa.BasicBlock) bool {
		return nilnessEdge(a, b, func(x ssa.Value) bool { return strings.HasSuffix(symOf(x).String(), "hbCtxCancel") }, true)
	}
	must("teardown stops the heartbeat monitor", func(i ssa.Instruction) bool {
		c, ok := i.(*ssa.Call)
		if !ok {
			return false
		}
		if g := staticCallee(c); g != nil && g.Name() == "setHeartBeatCancel" {
			return true
		}
		return strings.HasSuffix(symOf(c.Call.Value).String(), "hbCtxCancel")
	}, "a teardown path leaves the heartbeat monitor running")
	cutFor = nil
	remove := w.Fn(P, "pfcpiface.(*PFCPConn).RemoveSession")
	var lastRemove ssa.Instruction
	allInstrs(body, func(i ssa.Instruction) {
		if isCallTo(i, remove) {
			lastRemove = i
		}
	})
	r.check(lastRemove != nil, "R10.4", bn, "teardown ends the stored sessions (details under C05 R05.2)", w.Pos(body.Pos()), "RemoveSession in the loop", "teardown no longer removes sessions")
	sendI := must("teardown reports the connection's exit to the node", func(i ssa.Instruction) bool {
		s, ok := i.(*ssa.Send)
		return ok && chanFieldOf(s.Chan) == "PFCPConn.done"
	}, "a teardown path does not report on done: the node never forgets the association (the same peer cannot associate afresh) and waits for it at stop")
	if sendI != nil {
		s := sendI.(*ssa.Send)
		vs := symOf(s.X).String()
		r.check(strings.Contains(vs, "RemoteAddr") && strings.Contains(vs, "String"), "R10.4", bn, "the reported value is the connection's remote address", w.Pos(s.Pos()), vs, "teardown reports "+vs)
		if lastRemove != nil {
			r.check(reach(body, sendI, func(i ssa.Instruction) bool { return isCallTo(i, remove) }, nil, nil) == nil, "R10.4", bn, "exit is reported after the sessions are gone", w.Pos(s.Pos()), "no RemoveSession after the report", "the exit is reported before the sessions are removed: the node stops waiting while deletes are still running")
		}
		if closeI != nil {
			r.check(instrBefore(closeI, sendI), "R10.4", bn, "the shutdown channel is closed first", w.Pos(closeI.Pos()), "close precedes", "teardown reports before it closes the shutdown channel")
		}
	}
	must("teardown closes the socket", func(i ssa.Instruction) bool {
		c, ok := i.(*ssa.Call)
		return ok && c.Call.IsInvoke() && c.Call.Method.Name() == "Close"
	}, "a teardown path leaves the socket open: the reader goroutine never ends")
}

func ruleC10Triggers(w *World, r *Report) {
	const P = "C10"
	sh := w.Fn(P, "pfcpiface.(*PFCPConn).Shutdown")
	isSh := func(i ssa.Instruction) bool { return isCallTo(i, sh) }
	// --- Serve
	serve := w.Fn(P, "pfcpiface.(*PFCPConn).Serve")
	sn := w.FuncName(serve)
	var sel *ssa.Select
	allInstrs(serve, func(i ssa.Instruction) {
		if s, ok := i.(*ssa.Select); ok {
			sel = s
		}
	})
	if sel == nil {
		r.bad("R10.5", sn, "Serve waits for its three triggers", w.Pos(serve.Pos()), "no select in Serve")
		return
	}
	names := map[int]string{}
	shutIdx := -1
	for k, st := range sel.States {
		s := symOf(st.Chan).String()
		switch {
		case strings.HasSuffix(s, "PFCPConn.shutdown"):
			names[k], shutIdx = "shutdown", k
		case strings.Contains(s, "Done"):
			names[k] = "ctx.Done"
		default:
			if _, isMk := st.Chan.(*ssa.MakeChan); isMk {
				names[k] = "connTimeout"
			} else {
				names[k] = s
			}
		}
	}
	has := map[string]bool{}
	for _, n := range names {
		has[n] = true
	}
	r.check(has["shutdown"] && has["ctx.Done"] && has["connTimeout"] && sel.Blocking, "R10.5", sn, "Serve waits for read timeout, node cancellation and its own shutdown", w.Pos(sel.Pos()), "3 cases, blocking", fmt.Sprintf("Serve's select has cases %v", names))
	idx := extractOf(sel, 0)
	for k, ret := range returnsOf(serve) {
		hit := reach(serve, nil, func(i ssa.Instruction) bool { return i == ssa.Instruction(ret) }, isSh, func(a, b *ssa.BasicBlock) bool {
			x, op, y, ok := edgeFact(a, b)
			c, isK := constInt(y)
			return ok && x == idx && op == token.EQL && isK && int(c) == shutIdx
		})
		r.check(hit == nil, "R10.5", sn, fmt.Sprintf("return #%d: Serve ends through Shutdown unless the connection is already shut down", k+1), w.Pos(ret.Pos()), "Shutdown on the timeout and cancel branches", "Serve can end on a read timeout or node cancellation without tearing the association down")
	}
	// --- reader: timeout is handed to Serve without blocking
	var reader *ssa.Function
	for _, a := range serve.AnonFuncs {
		reader = a
	}
	if reader != nil {
		n := 0
		allInstrs(reader, func(i ssa.Instruction) {
			s, ok := i.(*ssa.Send)
			if !ok {
				return
			}
			n++
			g := onlyVia(reader, s, func(a, b *ssa.BasicBlock) bool {
				v, truth, ok := boolEdge(a, b)
				return ok && truth && strings.Contains(symOf(v).String(), "Timeout(")
			})
			r.check(g, "R10.5", w.FuncName(reader), "a read timeout is handed to Serve", w.Pos(s.Pos()), "connTimeout <- under Timeout()", "the reader signals a timeout for other errors too")
			// buffered: capacity ≥ 1 at the creation site
			capOK := false
			allInstrs(serve, func(j ssa.Instruction) {
				if mk, ok := j.(*ssa.MakeChan); ok {
					if k, isK := constInt(mk.Size); isK && k >= 1 {
						capOK = true
					}
				}
			})
			r.check(capOK, "R10.5", sn, "the timeout hand-off cannot block the reader", w.Pos(s.Pos()), "buffered channel", "connTimeout is unbuffered: when Serve already left, the reader blocks for ever")
		})
		r.floor("R10.5 reader timeout hand-off", n, 1)
	}
	// --- heartbeat monitor and association request: timeout verdict → Shutdown
	sendReq := w.Fn(P, "pfcpiface.(*PFCPConn).sendPFCPRequestMessage")
	for _, name := range []string{"pfcpiface.(*PFCPConn).startHeartBeatMonitor", "pfcpiface.(*PFCPConn).sendAssociationRequest"} {
		f := w.Fn(P, name)
		for _, c := range callsTo(f, sendReq) {
			call := c.(*ssa.Call)
			to := extractOf(call, 1)
			var succ *ssa.BasicBlock
			for _, b := range f.Blocks {
				for _, s := range b.Succs {
					if v, truth, ok := boolEdge(b, s); ok && truth && v == to {
						succ = s
					}
				}
			}
			if succ == nil {
				r.bad("R10.5", w.FuncName(f), "the time-out verdict is examined", w.Pos(call.Pos()), "the timeout result of sendPFCPRequestMessage is ignored: an unanswered request never ends the association")
				continue
			}
			// from the timeout edge, Shutdown is called before the function returns or loops
			hit := reach(f, firstInstr(succ), func(i ssa.Instruction) bool {
				if _, ok := i.(*ssa.Return); ok {
					return true
				}
				_, isSel := i.(*ssa.Select)
				return isSel
			}, isSh, nil)
			inBlock := false
			for _, i := range succ.Instrs {
				if isSh(i) {
					inBlock = true
				}
			}
			r.check(hit == nil || inBlock, "R10.5", w.FuncName(f), "an unanswered request ends the association", w.Pos(call.Pos()), "timeout → Shutdown", "the timeout branch does not reach Shutdown")
			// and Shutdown only on the timeout verdict or a failed response
			for _, sc := range callsTo(f, sh) {
				si := sc.(ssa.Instruction)
				g := onlyVia(f, si, func(a, b *ssa.BasicBlock) bool {
					v, truth, ok := boolEdge(a, b)
					if ok && truth && v == to {
						return true
					}
					// handling of the response failed
					return nilnessEdge(a, b, func(x ssa.Value) bool {
						cc, isCall := x.(*ssa.Call)
						return isCall && staticCallee(cc) != nil && staticCallee(cc).Name() == "handleAssociationSetupResponse"
					}, false)
				})
				r.check(g, "R10.5", w.FuncName(f), "the association is ended only when the peer did not answer (or answered unusably)", w.Pos(si.Pos()), "under timeout / failed response", "Shutdown is called on a path where the peer did answer")
			}
		}
	}
	// --- release: deferred Shutdown in the release case of the dispatcher
	{
		h := w.Fn(P, "pfcpiface.(*PFCPConn).HandlePFCPMsg")
		rel := w.ConstInt(P, "github.com/wmnsk/go-pfcp/message", "MsgTypeAssociationReleaseRequest")
		n := 0
		allInstrs(h, func(i ssa.Instruction) {
			d, ok := i.(*ssa.Defer)
			if !ok || !deferRuns(d, sh) {
				return
			}
			n++
			g := onlyVia(h, d, func(a, b *ssa.BasicBlock) bool {
				_, op, y, ok := edgeFact(a, b)
				c, isK := constInt(y)
				return ok && op == token.EQL && isK && c == rel
			})
			r.check(g, "R10.5", w.FuncName(h), "the association is torn down after (only) an Association Release Request was handled", w.Pos(d.Pos()), "defer Shutdown in the release case", "Shutdown is deferred for other message types as well")
		})
		r.check(n == 1, "R10.5", w.FuncName(h), "a release request ends the association after its response was sent", w.Pos(h.Pos()), "one deferred Shutdown", fmt.Sprintf("%d deferred Shutdown calls in the dispatcher", n))
	}
}

func ruleC10Forget(w *World, r *Report) {
	const P = "C10"
	// receive from pConnDone → Delete(received) in both consumers
	n := 0
	for _, name := range []string{"pfcpiface.(*PFCPNode).Serve", "pfcpiface.(*PFCPNode).waitForPFCPConns"} {
		f := w.FnOpt(name)
		if f == nil {
			continue
		}
		allInstrs(f, func(i ssa.Instruction) {
			c, ok := i.(*ssa.Call)
			if !ok || !strings.HasSuffix(calleeName(c), "sync.Map).Delete") || !strings.HasSuffix(symOf(c.Call.Args[0]).String(), "pConns") {
				return
			}
			n++
			k := c.Call.Args[1]
			if mi, ok := k.(*ssa.MakeInterface); ok {
				k = mi.X
			}
			ch := selectRecvChan(k)
			r.check(strings.HasSuffix(ch, "pConnDone"), "R10.6", w.FuncName(f), "the association forgotten is the one that reported its exit", w.Pos(c.Pos()), "Delete(<-pConnDone)", "pConns.Delete is applied to "+symOf(k).String())
		})
	}
	r.floor("R10.6 forget sites", n, 2)
	// the main loop keeps consuming pConnDone while serving
	{
		f := w.Fn(P, "pfcpiface.(*PFCPNode).Serve")
		found := false
		allInstrs(f, func(i ssa.Instruction) {
			if s, ok := i.(*ssa.Select); ok {
				for _, st := range s.States {
					if st.Dir == types.RecvOnly && chanFieldOf(st.Chan) == "PFCPNode.pConnDone" {
						found = true
					}
				}
			}
		})
		r.check(found, "R10.6", w.FuncName(f), "the node's main loop consumes exit reports", w.Pos(f.Pos()), "case <-pConnDone", "the main loop no longer reads pConnDone: ended associations are never forgotten")
	}
	// key agreement at creation: Store(rAddr, p) with the dialled remote
	newConn := w.Fn(P, "pfcpiface.(*PFCPNode).NewPFCPConn")
	allInstrs(newConn, func(i ssa.Instruction) {
		c, ok := i.(*ssa.Call)
		if !ok || !strings.HasSuffix(calleeName(c), "sync.Map).Store") {
			return
		}
		k := c.Call.Args[1]
		if mi, ok := k.(*ssa.MakeInterface); ok {
			k = mi.X
		}
		var dialRemote ssa.Value
		allInstrs(newConn, func(j ssa.Instruction) {
			if d, ok := j.(*ssa.Call); ok && strings.HasSuffix(calleeName(d), "go-reuseport.Dial") {
				dialRemote = d.Call.Args[2]
			}
		})
		r.check(dialRemote != nil && k == dialRemote, "R10.6", w.FuncName(newConn), "the association is remembered under the address it is connected to", w.Pos(c.Pos()), "Store(rAddr) = Dial(…, rAddr)", "the map key is not the dialled remote address")
	})
	// a connection that the first message already shut down (Association Release Request as first
	// datagram) is not remembered: its exit report has come and gone, nothing would ever delete it
	{
		sh := w.Fn(P, "pfcpiface.(*PFCPConn).Shutdown")
		var firstMsg ssa.Instruction
		allInstrs(newConn, func(i ssa.Instruction) {
			if c, ok := i.(ssa.CallInstruction); ok {
				if _, isGo := i.(*ssa.Go); isGo {
					return
				}
				if w.CG().siteReaches(c, func(f *ssa.Function) bool { return f == sh }) {
					firstMsg = i
				}
			}
		})
		if firstMsg == nil {
			r.trivial("R10.6", w.FuncName(newConn), "nothing in NewPFCPConn can shut the new connection down before it is remembered", w.Pos(newConn.Pos()), "no call reaches Shutdown")
		} else {
			allInstrs(newConn, func(i ssa.Instruction) {
				isPub := false
				if c, ok := i.(*ssa.Call); ok && strings.HasSuffix(calleeName(c), "sync.Map).Store") {
					isPub = true
				}
				if _, ok := i.(*ssa.Go); ok {
					isPub = true
				}
				if !isPub || reach(newConn, firstMsg, func(j ssa.Instruction) bool { return j == i }, nil, nil) == nil {
					return
				}
				// every path from the first-message call to the publication takes the "not shut down" edge
				hit := reach(newConn, firstMsg, func(j ssa.Instruction) bool { return j == i }, nil, func(a, b *ssa.BasicBlock) bool {
					x, op, y, ok := edgeFact(a, b)
					if !ok {
						return false
					}
					ex, isEx := x.(*ssa.Extract)
					if !isEx || ex.Index != 0 {
						return false
					}
					sel, isSel := ex.Tuple.(*ssa.Select)
					if !isSel || sel.Blocking || len(sel.States) != 1 || chanFieldOf(sel.States[0].Chan) != "PFCPConn.shutdown" {
						return false
					}
					k, isK := constInt(y)
					return isK && ((op == token.NEQ && k == 0) || (op == token.EQL && k == -1))
				})
				r.check(hit == nil, "R10.6", w.FuncName(newConn), "a connection its first message shut down is not remembered / served", w.Pos(i.Pos()), "behind `select { case <-p.shutdown: return; default: }`", "after the first message was handled (it can be an Association Release Request, whose deferred Shutdown already reported the exit) the connection is still stored in pConns: nothing deletes it any more and the peer's later datagrams are dropped as 'existing PFCPconn'")
			})
		}
	}
	// per-connection store
	nStore := 0
	for _, a := range w.accessesOf(map[string]bool{"PFCPConn": true}) {
		if a.fld.Name() != "store" || !a.write {
			continue
		}
		nStore++
		st, _ := a.ins.(*ssa.Store)
		fresh := false
		if st != nil {
			v := st.Val
			if mi, ok := v.(*ssa.MakeInterface); ok {
				v = mi.X
			}
			if c, ok := v.(*ssa.Call); ok && staticCallee(c) != nil && staticCallee(c).Name() == "NewInMemoryStore" {
				fresh = true
			}
		}
		r.check(fresh && a.fn == newConn, "R10.6", w.FuncName(a.fn), "each association has its own session store", w.Pos(a.ins.Pos()), "store: NewInMemoryStore()", "PFCPConn.store is set to "+symOf(st.Val).String()+": teardown of one association (GetAllSessions) deletes the sessions of the others")
	}
	r.floor("R10.6 store installation", nStore, 1)
	ctor := w.Fn(P, "pfcpiface.NewInMemoryStore")
	freshMap := false
	allInstrs(ctor, func(i ssa.Instruction) {
		if al, ok := i.(*ssa.Alloc); ok && al.Heap && rootTypeName(al.Type()) == "InMemoryStore" {
			freshMap = true
		}
	})
	r.check(freshMap, "R10.6", w.FuncName(ctor), "NewInMemoryStore returns a new store", w.Pos(ctor.Pos()), "fresh allocation", "NewInMemoryStore hands out a shared store")
	// key agreement inside the store and in RemoveSession
	rm := w.Fn(P, "pfcpiface.(*PFCPConn).RemoveSession")
	nDel := 0
	allInstrs(rm, func(i ssa.Instruction) {
		c, ok := i.(*ssa.Call)
		if !ok || !c.Call.IsInvoke() || c.Call.Method.Name() != "DeleteSession" {
			return
		}
		nDel++
		ks := symOf(c.Call.Args[0]).String()
		r.check(strings.HasSuffix(ks, "PFCPSession.localSEID"), "R10.6", w.FuncName(rm), "a session record is deleted under its local SEID (the key it is stored under)", w.Pos(c.Pos()), ks, "RemoveSession deletes the record under "+ks+": the record stays in the store, so teardown deletes the session from the datapath a second time")
		st := symOf(c.Call.Value).String()
		r.check(st == "PFCPConn.store", "R10.6", w.FuncName(rm), "the record is deleted from the connection's own store", w.Pos(c.Pos()), st, "the record is deleted from "+st)
	})
	r.floor("R10.6 DeleteSession in RemoveSession", nDel, 1)
	for _, spec := range []struct{ fn, op, key string }{
		{"pfcpiface.(*InMemoryStore).PutSession", "Store", "localSEID"},
		{"pfcpiface.(*InMemoryStore).DeleteSession", "Delete", "param"},
		{"pfcpiface.(*InMemoryStore).GetSession", "Load", "param"},
	} {
		f := w.Fn(P, spec.fn)
		n := 0
		allInstrs(f, func(i ssa.Instruction) {
			c, ok := i.(*ssa.Call)
			if !ok || !strings.HasSuffix(calleeName(c), "sync.Map)."+spec.op) {
				return
			}
			n++
			k := c.Call.Args[1]
			if mi, ok := k.(*ssa.MakeInterface); ok {
				k = mi.X
			}
			good := false
			if spec.key == "param" {
				good = k == ssa.Value(f.Params[1])
			} else {
				good = strings.HasSuffix(symOf(k).String(), spec.key)
			}
			ms := symOf(c.Call.Args[0]).String()
			r.check(good && strings.HasSuffix(ms, "InMemoryStore.sessions"), "R10.6", w.FuncName(f), "store "+spec.op+" uses the session map under the F-SEID", w.Pos(c.Pos()), symOf(k).String(), spec.op+" on "+ms+" with key "+symOf(k).String())
		})
		r.floor("R10.6 "+spec.op+" in "+f.Name(), n, 1)
	}
	all := w.Fn(P, "pfcpiface.(*InMemoryStore).GetAllSessions")
	okRange := false
	allInstrs(all, func(i ssa.Instruction) {
		if c, ok := i.(*ssa.Call); ok && strings.HasSuffix(calleeName(c), "sync.Map).Range") && strings.HasSuffix(symOf(c.Call.Args[0]).String(), "InMemoryStore.sessions") {
			okRange = true
		}
	})
	r.check(okRange, "R10.6", w.FuncName(all), "teardown enumerates the same map", w.Pos(all.Pos()), "sessions.Range", "GetAllSessions does not range over the store's session map")
}

func ruleC10Stop(w *World, r *Report) {
	const P = "C10"
	serve := w.Fn(P, "pfcpiface.(*PFCPNode).Serve")
	sn := w.FuncName(serve)
	// the ctx.Done case
	var exit, closeSock, join ssa.Instruction
	var joinFn *ssa.Function
	allInstrs(serve, func(i ssa.Instruction) {
		c, ok := i.(*ssa.Call)
		if !ok {
			return
		}
		switch {
		case c.Call.IsInvoke() && c.Call.Method.Name() == "Exit":
			exit = i
		case c.Call.IsInvoke() && c.Call.Method.Name() == "Close":
			closeSock = i
		default:
			if g := staticCallee(c); g != nil && w.isRepoFunc(g) && receivesFrom(g, "PFCPNode.pConnDone") {
				join, joinFn = i, g
			}
		}
	})
	if exit == nil {
		r.bad("R10.7", sn, "the datapath is released at stop", w.Pos(serve.Pos()), "no Exit() call in the node's stop branch")
		return
	}
	r.check(onlyVia(serve, exit, func(a, b *ssa.BasicBlock) bool {
		// the select case of ctx.Done
		x, op, y, ok := edgeFact(a, b)
		if !ok || op != token.EQL {
			return false
		}
		ex, isEx := x.(*ssa.Extract)
		if !isEx {
			return false
		}
		sel, isSel := ex.Tuple.(*ssa.Select)
		k, isK := constInt(y)
		if !isSel || !isK || int(k) >= len(sel.States) {
			return false
		}
		return strings.Contains(symOf(sel.States[k].Chan).String(), "Done")
	}), "R10.7", sn, "the stop sequence runs when the node's context is cancelled", w.Pos(exit.Pos()), "case <-ctx.Done()", "upf.Exit() is reachable without cancellation")
	r.check(join != nil && instrDominates(join, exit), "R10.7", sn, "the node waits for its associations before it releases the datapath", w.Pos(exit.Pos()), "join dominates Exit", "upf.Exit() is not preceded by a wait for the PFCPConns: sessions of live associations are still being deleted when the datapath connection is closed (and their deletes are lost)")
	r.check(closeSock != nil && join != nil && instrDominates(closeSock, join), "R10.7", sn, "the node stops accepting peers before it waits", w.Pos(exit.Pos()), "Close precedes the join", "new associations can be created while the node waits for the existing ones")
	if joinFn != nil {
		jn := w.FuncName(joinFn)
		// every receive in the join is a select with a timer alternative; returns only on empty map or timer
		bounded := true
		nRecv := 0
		allInstrs(joinFn, func(i ssa.Instruction) {
			switch x := i.(type) {
			case *ssa.UnOp:
				if x.Op == token.ARROW {
					nRecv++
					bounded = false // plain receive
				}
			case *ssa.Select:
				nRecv++
				timer := false
				for _, st := range x.States {
					if strings.Contains(symOf(st.Chan).String(), "time.After") || strings.Contains(symOf(st.Chan).String(), "Timer") {
						timer = true
					}
				}
				if !timer && x.Blocking {
					bounded = false
				}
			}
		})
		r.check(bounded && nRecv > 0, "R10.7", jn, "the wait for the associations is bounded by a timer", w.Pos(joinFn.Pos()), "select with time.After", "the join can wait for ever (a connection that never reports keeps the agent from stopping)")
		// it keeps waiting while associations remain: a return is either under count == 0 or in the timer case
		for k, ret := range returnsOf(joinFn) {
			g := onlyVia(joinFn, ret, func(a, b *ssa.BasicBlock) bool {
				x, op, y, ok := edgeFact(a, b)
				if !ok || op != token.EQL {
					return false
				}
				if c, isK := constInt(y); isK && c == 0 {
					if _, isEx := x.(*ssa.Extract); !isEx {
						return true // remaining == 0
					}
				}
				if ex, isEx := x.(*ssa.Extract); isEx {
					if sel, isSel := ex.Tuple.(*ssa.Select); isSel {
						if c, isK := constInt(y); isK && int(c) < len(sel.States) {
							return strings.Contains(symOf(sel.States[c].Chan).String(), "time.After")
						}
					}
				}
				return false
			})
			r.check(g, "R10.7", jn, fmt.Sprintf("return #%d: the join ends only when no association is left or the timer fired", k+1), w.Pos(ret.Pos()), "remaining == 0 / timeout", "the join can return while associations are still shutting down")
		}
		// the count is taken over pConns
		cnt := false
		allInstrs(joinFn, func(i ssa.Instruction) {
			if c, ok := i.(*ssa.Call); ok && strings.HasSuffix(calleeName(c), "sync.Map).Range") && strings.HasSuffix(symOf(c.Call.Args[0]).String(), "pConns") {
				cnt = true
			}
		})
		r.check(cnt, "R10.7", jn, "'left' means: still in the connection map", w.Pos(joinFn.Pos()), "pConns.Range", "the join does not look at pConns")
	}
	// close(done) after the loop, on every path to the return
	var closeDone ssa.Instruction
	allInstrs(serve, func(i ssa.Instruction) {
		if c, ok := i.(*ssa.Call); ok {
			if b, isB := c.Call.Value.(*ssa.Builtin); isB && b.Name() == "close" && chanFieldOf(c.Call.Args[0]) == "PFCPNode.done" {
				closeDone = i
			}
		}
	})
	okDone := closeDone != nil
	if okDone {
		for _, ret := range returnsOf(serve) {
			if mustPass(serve, nil, func(i ssa.Instruction) bool { return i == ssa.Instruction(ret) }, func(i ssa.Instruction) bool { return i == closeDone }) != nil {
				okDone = false
			}
		}
		if reach(serve, exit, func(i ssa.Instruction) bool { return i == closeDone }, nil, nil) == nil {
			okDone = false
		}
	}
	r.check(okDone, "R10.7", sn, "completion is signalled after the stop sequence", w.Pos(serve.Pos()), "close(done) on every return, after Exit", "Serve can return without closing done (Stop blocks for ever) or closes it before the datapath was released")
	// Stop: cancel, then wait
	stop := w.Fn(P, "pfcpiface.(*PFCPIface).Stop")
	nstop := w.Fn(P, "pfcpiface.(*PFCPNode).Stop")
	ndone := w.Fn(P, "pfcpiface.(*PFCPNode).Done")
	cs, cd := callsTo(stop, nstop), callsTo(stop, ndone)
	r.check(len(cs) == 1 && len(cd) == 1 && instrDominates(cs[0].(ssa.Instruction), cd[0].(ssa.Instruction)), "R10.7", w.FuncName(stop), "Stop cancels the node and then waits for it", w.Pos(stop.Pos()), "node.Stop(); node.Done()", "Stop waits before it cancelled (deadlock) or does not wait")
	cancelled := false
	allInstrs(nstop, func(i ssa.Instruction) {
		if c, ok := i.(*ssa.Call); ok && strings.HasSuffix(symOf(c.Call.Value).String(), "PFCPNode.cancel") {
			cancelled = true
		}
	})
	r.check(cancelled, "R10.7", w.FuncName(nstop), "node.Stop cancels the context every Serve loop selects on", w.Pos(nstop.Pos()), "node.cancel()", "node.Stop no longer cancels the node context")
	// connections inherit the node's context
	newConn := w.Fn(P, "pfcpiface.(*PFCPNode).NewPFCPConn")
	inh := false
	allInstrs(newConn, func(i ssa.Instruction) {
		if st, ok := i.(*ssa.Store); ok {
			if fa, ok := st.Addr.(*ssa.FieldAddr); ok && fieldVar(fa) != nil && fieldVar(fa).Name() == "ctx" && rootTypeName(fa.X.Type()) == "PFCPConn" {
				inh = strings.HasSuffix(symOf(st.Val).String(), "PFCPNode.ctx")
			}
		}
	})
	r.check(inh, "R10.7", w.FuncName(newConn), "a connection's context is the node's", w.Pos(newConn.Pos()), "ctx: node.ctx", "connections no longer see the node's cancellation")
}

func receivesFrom(f *ssa.Function, fld string) bool {
	found := false
	allInstrs(f, func(i ssa.Instruction) {
		switch x := i.(type) {
		case *ssa.UnOp:
			if x.Op == token.ARROW && chanFieldOf(x.X) == fld {
				found = true
			}
		case *ssa.Select:
			for _, st := range x.States {
				if st.Dir == types.RecvOnly && chanFieldOf(st.Chan) == fld {
					found = true
				}
			}
		}
	})
	return found
}

// ruleC10Records: a session record added while the association is being torn down is missed by the
// teardown's snapshot. Additions and the snapshot must be serialised (same goroutine or a common lock).
func ruleC10Records(w *World, r *Report) {
	const P = "C10"
	la := w.Locks()
	var roots []*goRoot
	for _, rt := range w.goroutineRoots() {
		if strings.HasPrefix(rt.name, "test/") || strings.Contains(rt.why, "test/integration") {
			continue
		}
		roots = append(roots, rt)
	}
	ctx := w.contextsOf(roots)
	body := w.teardownBody(P)
	var snap ssa.Instruction
	allInstrs(body, func(i ssa.Instruction) {
		if c, ok := i.(*ssa.Call); ok && c.Call.IsInvoke() && c.Call.Method.Name() == "GetAllSessions" {
			snap = i
		}
	})
	if snap == nil {
		r.bad("R10.8", w.FuncName(body), "teardown takes a snapshot of the stored sessions", w.Pos(body.Pos()), "GetAllSessions not found")
		return
	}
	for _, f := range w.Funcs {
		f := f
		if strings.HasPrefix(w.FuncName(f), "test/") {
			continue
		}
		allInstrs(f, func(i ssa.Instruction) {
			c, ok := i.(*ssa.Call)
			if !ok || !c.Call.IsInvoke() || c.Call.Method.Name() != "PutSession" {
				return
			}
			// common exclusive lock?
			prot := false
			for mu, m := range la.heldAt[i] {
				if m == modeW {
					if _, ok := la.heldAt[snap][mu]; ok {
						prot = true
					}
				}
			}
			other := ""
			var cands []string
			for _, ra := range ctx[f] {
				if ra.name == "pfcpiface.(*PFCPNode).handleNewPeers" {
					continue // before the connection is published
				}
				for _, rb := range ctx[body] {
					if ra != rb && rb.name != "pfcpiface.(*PFCPNode).handleNewPeers" {
						cands = append(cands, shortRoot(rb.name))
					}
				}
			}
			sort.Strings(cands)
			if len(cands) > 0 {
				other = cands[0]
			}
			r.check(prot || other == "", "R10.8", w.FuncName(f), "a session record is added only where the teardown snapshot cannot miss it", w.Pos(i.Pos()), "serialised with GetAllSessions in the teardown", "PutSession runs on the reader goroutine while the teardown (GetAllSessions snapshot, then done/Close) can run on goroutine "+other+" with no common lock: a session established while the association is being torn down is programmed into the datapath after the snapshot and never removed")
		})
	}
}

func ctxRoots(w *World) map[*ssa.Function][]*goRoot {
	var roots []*goRoot
	for _, rt := range w.goroutineRoots() {
		if strings.HasPrefix(rt.name, "test/") || strings.Contains(rt.why, "test/integration") {
			continue
		}
		roots = append(roots, rt)
	}
	return w.contextsOf(roots)
}

// ruleC10Blocking: (a) the teardown does not wait for anything that can itself be waiting for the
// teardown: blocking operations in its synchronous call tree (outside the datapath plug-ins, whose
// calls are bounded by their own time-outs) are obligations; (b) the goroutine that drains
// pConnDone never runs a teardown itself — the teardown's completion report would have no reader
// once the channel's buffer is full; (c) the deletion handler removes the record only after the
// datapath accepted the delete, so that a refused delete leaves the session for the teardown sweep.
func ruleC10Blocking(w *World, r *Report, ctx map[*ssa.Function][]*goRoot) {
	const P = "C10"
	body := w.teardownBody(P)
	tree := w.CG().Reachable([]*ssa.Function{body}, func(e *Edge) bool {
		if e.Kind == "go" {
			return false
		}
		n := w.FuncName(e.Callee)
		return !strings.Contains(n, "(*bess).") && !strings.Contains(n, "(*UP4).") && !strings.Contains(n, "P4rt")
	})
	eng := newEngine(w, r, "R10.4", tree)
	nf := 0
	for _, f := range sortedFuncs(w, tree) {
		nf++
		eng.blkObls(f)
	}
	r.floor("R10.4 functions in the teardown's synchronous tree", nf, 5)
	// (b)
	drains := map[string]bool{}
	for _, f := range w.Funcs {
		if receivesFrom(f, "PFCPNode.pConnDone") {
			for _, rt := range ctx[f] {
				drains[rt.name] = true
			}
		}
	}
	clash := ""
	for _, rt := range ctx[body] {
		if drains[rt.name] {
			clash = shortRoot(rt.name)
		}
	}
	r.check(clash == "" && len(drains) > 0, "R10.4", w.FuncName(body), "the goroutine that drains pConnDone never runs a teardown itself", w.Pos(body.Pos()), "disjoint goroutine contexts", "goroutine "+clash+" both receives the completion reports (pConnDone) and calls Shutdown synchronously: with more connections than the channel buffers the teardown's report has no reader and the stop sequence blocks for ever (not even the join's timer runs)")
	// (c)
	h := w.Fn(P, "pfcpiface.(*PFCPConn).handleSessionDeletionRequest")
	rejected := w.ConstInt(P, iePkg, "CauseRequestRejected")
	delType := w.ConstInt(P, pfcpPkg, "upfMsgTypeDel")
	var del *ssa.Call
	for _, c := range datapathCalls(h, "SendMsgToUPF") {
		if kk, isK := constInt(c.Call.Args[0]); isK && kk == delType {
			del = c
		}
	}
	rm := w.Fn(P, "pfcpiface.(*PFCPConn).RemoveSession")
	if del == nil {
		r.bad("R10.9", w.FuncName(h), "the deletion handler deletes from the datapath", w.Pos(h.Pos()), "no SendMsgToUPF(upfMsgTypeDel)")
		return
	}
	k := 0
	for _, c := range callsTo(h, rm) {
		k++
		si := c.(ssa.Instruction)
		g := instrDominates(del, si) && onlyVia(h, si, func(a, b *ssa.BasicBlock) bool { return causeEdge(a, b, del, rejected, false) })
		r.check(g, "R10.9", w.FuncName(h), "the session record is removed only after the datapath accepted the delete", w.Pos(si.Pos()), "after SendMsgToUPF(del) ≠ rejected", "the record is removed before (or regardless of) the datapath delete: when the delete is refused the session stays installed but is no longer in the store, so the end-of-association sweep does not remove it")
	}
	r.floor("R10.9 RemoveSession in the deletion handler", k, 1)
}

// deferRuns: the deferred call is target itself, or a function literal that calls target on every
// path to its return (defer func() { log; target() }()).
func deferRuns(d *ssa.Defer, target *ssa.Function) bool {
	g := staticCallee(d)
	if g == nil {
		return false
	}
	if g == target {
		return true
	}
	if g.Parent() == nil || g.Blocks == nil {
		return false
	}
	if len(callsTo(g, target)) == 0 {
		return false
	}
	return mustPass(g, nil, isReturn, func(i ssa.Instruction) bool {
		c, ok := i.(ssa.CallInstruction)
		return ok && staticCallee(c) == target
	}) == nil
}
