package main

import (
	"fmt"
	"go/types"
	"sort"
	"strings"

	"golang.org/x/tools/go/ssa"
)

func init() { if false { rules["C11"] = ruleC11 } }

// sharedOwners: struct types reachable from more than one goroutine.
var sharedOwners = map[string]bool{
	"upf": true, "UP4": true, "bess": true, "PFCPNode": true, "PFCPConn": true, "PFCPIface": true,
	"IPPool": true, "FTEIDGenerator": true, "downlinkDataNotifier": true, "P4rtClient": true,
	"P4rtTranslator": true, "InMemoryStore": true, "ConfigHandler": true, "Service": true,
}

// confinedTo: objects of the type are created per goroutine instance of the named root; several
// instances of that root do not share one object.
var confinedTo = map[string][]string{
	"PFCPConn": {"pfcpiface.(*PFCPConn).Serve", "pfcpiface.(*PFCPConn).Serve$1", "pfcpiface.(*PFCPConn).startHeartBeatMonitor", "pfcpiface.(*PFCPConn).sendAssociationRequest"},
	"downlinkDataNotifier": {"pfcpiface.(*bess).notifyListen", "pfcpiface.(*UP4).listenToDDNs"},
}

var assocRoot = map[string]bool{
	"pfcpiface.(*PFCPConn).Serve": true, "pfcpiface.(*PFCPConn).Serve$1": true,
	"pfcpiface.(*PFCPConn).startHeartBeatMonitor": true, "pfcpiface.(*PFCPConn).sendAssociationRequest": true,
	"pfcpiface.(*PFCPNode).handleNewPeers": true,
}

type conflict struct {
	owner, field string
	a, b         fieldAccess
	ra, rb       *goRoot
}

func ruleC11(w *World, r *Report) {
	const P = "C11"
	r.Explanation = "probe"
	la := w.Locks()
	var roots []*goRoot
	for _, rt := range w.goroutineRoots() {
		if strings.HasPrefix(rt.name, "test/") || strings.HasPrefix(rt.name, "cmd/p4info_code_gen") || strings.Contains(rt.why, "test/integration") {
			continue
		}
		roots = append(roots, rt)
	}
	ctx := w.contextsOf(roots)
	accs := w.accessesOf(sharedOwners)
	// init phase: functions the main goroutine runs before it starts serving, and nothing else runs
	var mainRoot *goRoot
	for _, rt := range roots {
		if rt.why == "program entry" {
			mainRoot = rt
		}
	}
	serve := w.Fn(P, "pfcpiface.(*PFCPNode).Serve")
	servePhase := w.CG().Reachable([]*ssa.Function{serve}, func(e *Edge) bool { return e.Kind != "go" })
	isInit := func(f *ssa.Function) bool {
		cs := ctx[f]
		return len(cs) == 1 && cs[0] == mainRoot && !servePhase[f]
	}
	for _, rt := range roots {
		fmt.Printf("root %-60s multi=%v %s\n", rt.name, rt.multi, rt.why)
	}
	type key struct{ owner, fld string }
	by := map[key][]fieldAccess{}
	for _, a := range accs {
		if a.fresh || isInit(a.fn) || len(ctx[a.fn]) == 0 {
			continue
		}
		k := key{a.owner.Obj().Name(), a.path}
		by[k] = append(by[k], a)
	}
	var keys []key
	for k := range by {
		keys = append(keys, k)
	}
	sort.Slice(keys, func(i, j int) bool { return keys[i].owner+keys[i].fld < keys[j].owner+keys[j].fld })
	for _, k := range keys {
		as := by[k]
		var cf *conflict
		for i := range as {
			if !as[i].write {
				continue
			}
			for j := range as {
				a, b := as[i], as[j]
				ha, hb := la.heldAt[a.ins], la.heldAt[b.ins]
				prot := false
				for mu, m := range ha {
					if m == modeW {
						if _, ok := hb[mu]; ok {
							prot = true
						}
					}
				}
				if prot {
					continue
				}
				for _, ra := range ctx[a.fn] {
					for _, rb := range ctx[b.fn] {
						conc := ra != rb || ra.multi
						if !assocRoot[ra.name] && !assocRoot[rb.name] {
							conc = false
						}
						if k.owner == "PFCPConn" && (ra.name == "pfcpiface.(*PFCPNode).handleNewPeers" || rb.name == "pfcpiface.(*PFCPNode).handleNewPeers") {
							conc = false // pre-publication (checked separately)
						}
						if ra == rb && ra.multi {
							for _, c := range confinedTo[k.owner] {
								if c == ra.name {
									conc = false
								}
							}
						}
						if conc && cf == nil {
							cf = &conflict{k.owner, k.fld, a, b, ra, rb}
						}
					}
				}
			}
		}
		nW := 0
		for _, a := range as {
			if a.write {
				nW++
			}
		}
		if cf != nil {
			fmt.Printf("RACE %s.%s: %s in %s [%s] held=%s  vs %s in %s [%s] held=%s\n", k.owner, k.fld, cf.a.what, w.FuncName(cf.a.fn), cf.ra.name, la.heldAt[cf.a.ins], cf.b.what, w.FuncName(cf.b.fn), cf.rb.name, la.heldAt[cf.b.ins])
		} else {
			fmt.Printf("ok   %s.%s: %d accesses, %d writes\n", k.owner, k.fld, len(as), nW)
		}
	}
	for f, bad := range la.exitBad {
		fmt.Println("UNBALANCED", w.FuncName(f), strings.Join(bad, "; "))
	}
	_ = types.Typ
}
