package main

import (
	"fmt"
	"go/token"
	"go/types"
	"sort"
	"strings"

	"golang.org/x/tools/go/ssa"
)

func init() { rules["C11"] = ruleC11 }

// sharedOwners: struct types whose objects are reachable from more than one goroutine.
var sharedOwners = map[string]bool{
	"sequenceNumber": true,
	"upf":            true, "UP4": true, "bess": true, "PFCPNode": true, "PFCPConn": true, "PFCPIface": true,
	"IPPool": true, "FTEIDGenerator": true, "downlinkDataNotifier": true, "P4rtClient": true,
	"P4rtTranslator": true, "InMemoryStore": true, "ConfigHandler": true, "Service": true,
}

// perInstanceRoots: goroutine roots that are started once per object of the type and only touch
// their own object through their receiver; two instances of such a root do not share the object.
var perInstanceRoots = map[string]map[string]bool{
	"PFCPConn": {
		"pfcpiface.(*PFCPConn).Serve": true, "pfcpiface.(*PFCPConn).Serve$1": true,
		"pfcpiface.(*PFCPConn).startHeartBeatMonitor": true, "pfcpiface.(*PFCPConn).sendAssociationRequest": true,
	},
	"downlinkDataNotifier": {"pfcpiface.(*bess).notifyListen": true, "pfcpiface.(*UP4).listenToDDNs": true},
}

// assocRoot: goroutines that process PFCP messages of an association.
var assocRoot = map[string]bool{
	"pfcpiface.(*PFCPConn).Serve": true, "pfcpiface.(*PFCPConn).Serve$1": true,
	"pfcpiface.(*PFCPConn).startHeartBeatMonitor": true, "pfcpiface.(*PFCPConn).sendAssociationRequest": true,
	"pfcpiface.(*PFCPNode).handleNewPeers": true,
}

// constructedBy: objects of the type are built and initialised inside the dynamic extent of the
// named function and published only by its return value.
var constructedBy = map[string]string{
	"P4rtClient": "pfcpiface.CreateChannel",
}

type raceSide struct {
	a    fieldAccess
	root *goRoot
}

type raceResult struct {
	owner, path string
	accesses    int
	writes      int
	how         string // why it is fine
	x, y        *raceSide
}

func ruleC11(w *World, r *Report) {
	const P = "C11"
	r.Explanation = "R11.1 static lockset (Eraser's discipline over goroutine contexts): for every field path of the objects shared between goroutines that is written after publication, any two accesses that can run concurrently — different goroutine roots, or two instances of a per-association root — and of which one is a write hold a common mutex (exclusively on the writing side). Contexts: main, every go statement target, HTTP handlers; accesses are paired only when an association goroutine is involved. " +
		"Exemptions, each checked structurally: fresh object in its constructor; start-up code run by main before Serve; constructor extent (P4rtClient inside CreateChannel); pre-publication use of a new PFCPConn by handleNewPeers (NewPFCPConn publishes last); writes that precede the go statement starting the other side; per-connection confinement of PFCPConn. " +
		"R11.2 every function returns with the lockset it was entered with. R11.3 atomic sections for the shared UP4 objects (tunnel peers, applications): a guarded write that depends on a guarded read re-reads it in its own critical section. " +
		"R11.4 BESS fan-out: per-call completion channel, one goroutine per rule on every path of each worker starter, one completion per goroutine on every path, the count joined is the number started. R11.5 math/rand generators are created fresh in the constructor of a per-connection object and used only from that connection's goroutine."
	r.Explanation += " R11.7 = C15 R15.3 on the shared tunnel peer; R11.8 the channel set-up in tryConnect runs under tryConnectMu and only after 'not connected' was observed inside that critical section; R11.9 no guarded write is computed from a read made in an earlier critical section of the same mutex (check-then-act across an unlock), with new helpers and their defers expanded."
	r.Explanation += " R11.10 = C06 R06.6 + C07 R07.7 (pools get back only after the accepted datapath delete); R11.11 no mutex re-acquired while held, all of pfcpiface; R11.12 SendPacketOut is called by the sender goroutine only."
	r.Explanation += " R11.13 = C06 R06.7; R11.14 = C10 R10.6 (each association has a session store of its own)."
	r.NotDecided = "linearizability of compound operations beyond R11.3; instances of a struct type are not distinguished except by the per-instance root table; start-up races between goroutines launched during initialisation and the rest of initialisation; the HTTP handlers among themselves"

	la := w.Locks()
	var roots []*goRoot
	for _, rt := range w.goroutineRoots() {
		if strings.HasPrefix(rt.name, "test/") || strings.HasPrefix(rt.name, "cmd/p4info_code_gen") || strings.Contains(rt.why, "test/integration") {
			continue
		}
		roots = append(roots, rt)
	}
	r.floor("R11.1 goroutine roots", len(roots), 15)
	ctx := w.contextsOf(roots)
	// goroutines started on behalf of an association (the BESS rule writers, the heartbeat monitor, …)
	// count as association goroutines
	assoc := map[string]bool{}
	for k, v := range assocRoot {
		assoc[k] = v
	}
	for changed := true; changed; {
		changed = false
		for _, rt := range roots {
			if assoc[rt.name] {
				continue
			}
			for _, e := range w.CG().In[rt.fn] {
				if e.Kind != "go" {
					continue
				}
				for _, parent := range ctx[e.Caller] {
					if assoc[parent.name] && !assoc[rt.name] {
						assoc[rt.name] = true
						changed = true
					}
				}
			}
		}
	}
	// String methods are called by the fmt machinery (logging) wherever a value of the type is printed:
	// no call edge shows it; they run in every association context
	for _, f := range w.Funcs {
		if f.Name() != "String" || f.Signature.Recv() == nil || len(ctx[f]) > 0 {
			continue
		}
		if sharedOwners[rootTypeName(f.Signature.Recv().Type())] {
			for _, rt := range roots {
				if assocRoot[rt.name] {
					ctx[f] = append(ctx[f], rt)
				}
			}
		}
	}
	var mainRoot *goRoot
	for _, rt := range roots {
		if rt.why == "program entry" {
			mainRoot = rt
		}
	}
	if mainRoot == nil {
		brokenf(P, "R11.1", "main not found")
	}
	cg := w.CG()
	serve := w.Fn(P, "pfcpiface.(*PFCPNode).Serve")
	servePhase := cg.Reachable([]*ssa.Function{serve}, func(e *Edge) bool { return e.Kind != "go" })
	isInit := func(f *ssa.Function) bool {
		cs := ctx[f]
		return len(cs) == 1 && cs[0] == mainRoot && !servePhase[f]
	}
	// constructor extents
	extentOnly := map[string]map[*ssa.Function]bool{}
	for typ, cn := range constructedBy {
		c := w.Fn(P, cn)
		set := map[*ssa.Function]bool{}
		for changed := true; changed; {
			changed = false
			for _, f := range w.Funcs {
				if set[f] || f == c || len(cg.In[f]) == 0 {
					continue
				}
				all := true
				for _, e := range cg.In[f] {
					if e.Caller != c && !set[e.Caller] {
						all = false
					}
					if e.Kind == "go" {
						all = false
					}
				}
				if all {
					set[f] = true
					changed = true
				}
			}
		}
		set[c] = true
		extentOnly[typ] = set
		// the constructor publishes by returning: the fresh object is not stored anywhere before
		r.check(publishesByReturn(c), "R11.1", cn, "objects of "+typ+" are published only by the constructor's return value", w.Pos(c.Pos()), "no store/send of the fresh object", typ+" escapes from "+cn+" before it is fully initialised")
	}
	// pre-publication of PFCPConn in NewPFCPConn
	newConn := w.Fn(P, "pfcpiface.(*PFCPNode).NewPFCPConn")
	prepub := connPublishedLast(w, r, newConn)

	// go sites per root, for the fork rule
	goSites := map[*ssa.Function][]*Edge{}
	for _, f := range w.Funcs {
		for _, e := range cg.Out[f] {
			if e.Kind == "go" {
				goSites[e.Callee] = append(goSites[e.Callee], e)
			}
		}
	}
	forkOrdered := func(a fieldAccess, other *goRoot) bool {
		// a happens before everything `other` does if every go statement that starts `other` sits in a.fn
		// and a precedes it
		sites := goSites[other.fn]
		if len(sites) == 0 {
			return false
		}
		for _, e := range sites {
			if e.Caller != a.fn || !instrBefore(a.ins, e.Site) {
				return false
			}
		}
		return true
	}

	type key struct{ owner, path string }
	by := map[key][]fieldAccess{}
	total := 0
	for _, a := range w.accessesOf(sharedOwners) {
		total++
		owner := a.owner.Obj().Name()
		if a.fresh || isInit(a.fn) || len(ctx[a.fn]) == 0 {
			continue
		}
		if ext, ok := extentOnly[owner]; ok && ext[a.fn] {
			continue
		}
		k := key{owner, a.path}
		by[k] = append(by[k], a)
	}
	r.floor("R11.1 field accesses of shared objects", total, 300)
	var keys []key
	for k := range by {
		keys = append(keys, k)
	}
	sort.Slice(keys, func(i, j int) bool { return keys[i].owner+"."+keys[i].path < keys[j].owner+"."+keys[j].path })
	for _, k := range keys {
		as := by[k]
		res := raceResult{owner: k.owner, path: k.path, accesses: len(as)}
		for _, a := range as {
			if a.write {
				res.writes++
			}
		}
		locks := map[string]bool{}
	pairs:
		for i := range as {
			if !as[i].write {
				continue
			}
			for j := range as {
				a, b := as[i], as[j]
				ha, hb := la.heldAt[a.ins], la.heldAt[b.ins]
				prot := ""
				for mu, m := range ha {
					if m == modeW {
						if _, ok := hb[mu]; ok {
							prot = mu.Name()
						}
					}
				}
				if prot != "" {
					locks[prot] = true
					continue
				}
				for _, ra := range ctx[a.fn] {
					for _, rb := range ctx[b.fn] {
						if !assoc[ra.name] && !assoc[rb.name] {
							continue
						}
						conc := ra != rb || ra.multi
						if ra == rb && perInstanceRoots[k.owner][ra.name] {
							conc = false
						}
						if k.owner == "PFCPConn" && prepub && (ra.name == "pfcpiface.(*PFCPNode).handleNewPeers" || rb.name == "pfcpiface.(*PFCPNode).handleNewPeers") {
							conc = false
						}
						if conc && ra != rb && (forkOrdered(a, rb) || forkOrdered(b, ra)) {
							conc = false
						}
						if conc {
							res.x, res.y = &raceSide{a, ra}, &raceSide{b, rb}
							break pairs
						}
					}
				}
			}
		}
		construct := k.owner + "." + k.path + ": concurrent accesses share a lock"
		if res.x == nil {
			how := ""
			switch {
			case res.writes == 0:
				how = fmt.Sprintf("%d accesses, none writes after publication", res.accesses)
			case len(locks) > 0:
				var ls []string
				for l := range locks {
					ls = append(ls, l)
				}
				sort.Strings(ls)
				how = fmt.Sprintf("%d accesses, %d writes, conflicting pairs hold %s", res.accesses, res.writes, strings.Join(ls, ","))
			default:
				how = fmt.Sprintf("%d accesses, %d writes, no two of them can run concurrently (one context / ordered by go / confined)", res.accesses, res.writes)
			}
			if res.writes == 0 {
				r.trivial("R11.1", k.owner, construct, "", how)
			} else {
				r.ok("R11.1", k.owner, construct, "", how)
			}
			continue
		}
		x, y := res.x, res.y
		r.bad("R11.1", k.owner, construct, w.Pos(x.a.ins.Pos()), fmt.Sprintf("data race on %s.%s: %s in %s (goroutine %s, lockset %s) and %s in %s at %s (goroutine %s%s, lockset %s) can run concurrently with no common mutex",
			k.owner, k.path, x.a.what, w.FuncName(x.a.fn), shortRoot(x.root.name), la.heldAt[x.a.ins], y.a.what, w.FuncName(y.a.fn), w.Pos(y.a.ins.Pos()), shortRoot(y.root.name), ifelse(x.root == y.root, ", another instance", ""), la.heldAt[y.a.ins]))
	}

	// ---------- R11.2 balanced locking
	nb := 0
	for _, f := range w.Funcs {
		hasOp := false
		allInstrs(f, func(i ssa.Instruction) {
			if c, ok := i.(ssa.CallInstruction); ok {
				if _, _, _, ok := lockOp(c); ok {
					hasOp = true
				}
			}
		})
		if !hasOp || strings.HasPrefix(w.FuncName(f), "test/") {
			continue
		}
		nb++
		bad := la.exitBad[f]
		r.check(len(bad) == 0, "R11.2", w.FuncName(f), "returns with the lockset it was entered with", w.Pos(f.Pos()), "balanced", "a path leaves the function with a different lockset (missing unlock on an early return, or unlock of a lock not held): "+strings.Join(bad, "; "))
	}
	r.floor("R11.2 functions with lock operations", nb, 15)

	// ---------- R11.3 atomic sections for the shared UP4 objects
	n3 := 0
	for _, spec := range []struct {
		fields map[string]bool
		mutex  string
	}{
		{map[string]bool{"tunnelPeerIDs": true, "tunnelPeerIDsPool": true}, "tunnelPeerMu"},
		{map[string]bool{"applicationIDs": true, "applicationIDsPool": true}, "applicationMu"},
	} {
		n3 += guardedBy(w, r, "R11.3", "UP4", spec.fields, spec.mutex, func(a fieldAccess) bool { return isInit(a.fn) })
		fns := map[*ssa.Function]bool{}
		for _, a := range w.accessesOf(map[string]bool{"UP4": true}) {
			if spec.fields[a.fld.Name()] && !a.fresh && !isInit(a.fn) {
				fns[a.fn] = true
			}
		}
		for _, f := range sortedFuncs(w, fns) {
			atomicSections(w, r, "R11.3", f, "UP4", spec.fields, spec.mutex)
		}
	}
	r.floor("R11.3 guarded accesses to shared UP4 objects", n3, 20)

	ruleC11Fanout(w, r)
	ruleC11Rand(w, r, ctx)
	// R11.6 shared objects are counted correctly: add and remove of a shared UP4 object (tunnel peer,
	// application) use the same reference key — the sibling-agreement rules of C04 R04.3
	r.withRule("R11.6", func() { ruleC04Shared(w, r) })
	r.withRule("R11.7", func() { ruleC15TunnelRelease(w, r, "C11") })
	r.withRule("R11.13", func() { ruleC06SeidEntropy(w, r) })
	r.withRule("R11.14", func() { ruleC10Forget(w, r) })
	ruleC11ConnectOnce(w, r)
	ruleC11SplitSections(w, r)
	ruleC11Shared2(w, r)
}

func shortRoot(s string) string {
	return strings.TrimPrefix(s, "pfcpiface.")
}

// publishesByReturn: the fresh struct allocated in c is not stored to memory, sent or handed to a
// go statement; it only flows to method calls on itself and to the return.
func publishesByReturn(c *ssa.Function) bool {
	okAll := true
	allInstrs(c, func(i ssa.Instruction) {
		al, isAl := i.(*ssa.Alloc)
		if !isAl || !al.Heap || al.Referrers() == nil {
			return
		}
		if _, isStruct := derefType(al.Type()).Underlying().(interface{ NumFields() int }); !isStruct {
			return
		}
		for _, ref := range *al.Referrers() {
			switch x := ref.(type) {
			case *ssa.Store:
				if x.Val == ssa.Value(al) {
					if _, local := x.Addr.(*ssa.Alloc); !local {
						okAll = false
					}
				}
			case *ssa.Send, *ssa.Go:
				okAll = false
			case *ssa.MakeClosure:
				// closures defined in the constructor may capture it (run inside the extent)
			}
		}
	})
	return okAll
}

// connPublishedLast: in NewPFCPConn nothing touches the new connection after it became visible to
// other goroutines (go p.Serve(), pConns.Store).
func connPublishedLast(w *World, r *Report, f *ssa.Function) bool {
	fn := w.FuncName(f)
	var conn *ssa.Alloc
	allInstrs(f, func(i ssa.Instruction) {
		if al, ok := i.(*ssa.Alloc); ok && al.Heap && rootTypeName(al.Type()) == "PFCPConn" {
			conn = al
		}
	})
	if conn == nil {
		r.bad("R11.1", fn, "pre-publication use of a new connection", w.Pos(f.Pos()), "the PFCPConn literal was not found")
		return false
	}
	var pubs []ssa.Instruction
	allInstrs(f, func(i ssa.Instruction) {
		switch x := i.(type) {
		case *ssa.Go:
			for _, a := range x.Call.Args {
				if a == ssa.Value(conn) {
					pubs = append(pubs, i)
				}
			}
		case *ssa.Call:
			if strings.HasSuffix(calleeName(x), "sync.Map).Store") {
				for _, a := range x.Call.Args {
					if mi, ok := a.(*ssa.MakeInterface); ok && mi.X == ssa.Value(conn) {
						pubs = append(pubs, i)
					}
				}
			}
		}
	})
	if len(pubs) == 0 {
		r.bad("R11.1", fn, "pre-publication use of a new connection", w.Pos(f.Pos()), "publication points not found")
		return false
	}
	okAll := true
	for _, p := range pubs {
		// after a publication point: only other publication points, logging and the return may follow
		hit := reach(f, p, func(i ssa.Instruction) bool {
			if i == p {
				return false
			}
			for _, q := range pubs {
				if i == q {
					return false
				}
			}
			switch x := i.(type) {
			case *ssa.Call:
				for _, a := range x.Call.Args {
					if a == ssa.Value(conn) {
						return true
					}
				}
			case *ssa.FieldAddr:
				return x.X == ssa.Value(conn)
			}
			return false
		}, nil, nil)
		if hit != nil {
			okAll = false
		}
	}
	r.check(okAll, "R11.1", fn, "a new connection is made visible to other goroutines only after NewPFCPConn is done with it", w.Pos(f.Pos()), "publication last", "NewPFCPConn keeps using the connection after go p.Serve() / pConns.Store(): its accesses race with the connection's own goroutine")
	return okAll
}

func ruleC11Fanout(w *World, r *Report) {
	const P = "C11"
	f := w.Fn(P, "pfcpiface.(*bess).SendMsgToUPF")
	fn := w.FuncName(f)
	join := w.Fn(P, "pfcpiface.(*bess).GRPCJoin")
	var mk *ssa.MakeChan
	allInstrs(f, func(i ssa.Instruction) {
		if m, ok := i.(*ssa.MakeChan); ok {
			mk = m
		}
	})
	jc := callsTo(f, join)
	if len(jc) != 1 {
		r.bad("R11.4", fn, "one join per request", w.Pos(f.Pos()), fmt.Sprintf("%d calls of GRPCJoin", len(jc)))
		return
	}
	jcall := jc[0].(*ssa.Call)
	done := jcall.Call.Args[3]
	r.check(mk != nil && done == ssa.Value(mk), "R11.4", fn, "the completion channel is created by this call", w.Pos(jcall.Pos()), "make(chan bool) in SendMsgToUPF", "the completion channel joined on is "+symOf(done).String()+": completions of other requests in flight are counted for this one (and the other request waits for completions that never come)")
	// workers
	workers := map[*ssa.Function]bool{}
	nCalls := 0
	allInstrs(f, func(i ssa.Instruction) {
		c, ok := i.(*ssa.Call)
		if !ok {
			return
		}
		g := staticCallee(c)
		if g == nil || g == join || !w.isRepoFunc(g) || len(g.Params) < 3 {
			return
		}
		hasChan := false
		for ai, a := range c.Call.Args {
			if a == done || (isChangeTypeOf(a, done)) {
				hasChan = true
				_ = ai
			}
		}
		if !hasChan {
			return
		}
		nCalls++
		workers[g] = true
	})
	r.floor("R11.4 worker starts in SendMsgToUPF", nCalls, 6)
	for _, g := range sortedFuncs(w, workers) {
		gn := w.FuncName(g)
		// exactly one go statement on every path
		var gos []*ssa.Go
		allInstrs(g, func(i ssa.Instruction) {
			if x, ok := i.(*ssa.Go); ok {
				gos = append(gos, x)
			}
		})
		if len(gos) != 1 {
			r.bad("R11.4", gn, "one goroutine per rule", w.Pos(g.Pos()), fmt.Sprintf("%d go statements", len(gos)))
			continue
		}
		every := true
		for _, ret := range returnsOf(g) {
			if mustPass(g, nil, func(i ssa.Instruction) bool { return i == ssa.Instruction(ret) }, func(i ssa.Instruction) bool { return i == ssa.Instruction(gos[0]) }) != nil {
				every = false
			}
		}
		inLoop := false
		for _, s := range gos[0].Block().Succs {
			if reachesBlock(s, gos[0].Block()) {
				inLoop = true
			}
		}
		r.check(every && !inLoop, "R11.4", gn, "exactly one goroutine is started per call", w.Pos(gos[0].Pos()), "on every path, not in a loop", "a path of "+g.Name()+" starts no goroutine (the join waits for the timeout) or several")
		cl := closureOf(gos[0].Call.Value)
		if cl == nil {
			r.bad("R11.4", gn, "worker body is a closure", w.Pos(gos[0].Pos()), "cannot resolve the goroutine body")
			continue
		}
		// in the closure: one send on the captured done channel on every path to a return
		var sends []*ssa.Send
		allInstrs(cl, func(i ssa.Instruction) {
			if s, ok := i.(*ssa.Send); ok {
				sends = append(sends, s)
			}
		})
		chanParam := false
		for _, s := range sends {
			v := throughFreeVar(s.Chan)
			// a worker that is a named function gets the channel as an argument of the go statement
			if pv, isP := v.(*ssa.Parameter); isP && pv.Parent() == cl {
				for k, cp := range cl.Params {
					if cp == pv && k < len(gos[0].Call.Args) {
						v = gos[0].Call.Args[k]
					}
				}
			}
			for _, p := range g.Params {
				if v == ssa.Value(p) {
					chanParam = true
				}
			}
		}
		r.check(len(sends) >= 1 && chanParam, "R11.4", w.FuncName(cl), "the worker reports on the channel it was given", w.Pos(cl.Pos()), "send on the done parameter", "the worker does not send on its done parameter")
		isSend := func(i ssa.Instruction) bool { _, ok := i.(*ssa.Send); return ok }
		once := true
		// no path with two sends (a path without a completion only delays this request until the join's
		// timeout; it does not touch other requests and is not part of this property)
		for _, s := range sends {
			if reach(cl, s, func(i ssa.Instruction) bool { return isSend(i) }, nil, nil) != nil {
				once = false
			}
		}
		r.check(once, "R11.4", w.FuncName(cl), "no worker path completes twice", w.Pos(cl.Pos()), "at most one send per path", "a worker path reports twice: the join of this request returns while a rule is still being written")
	}
	// calls = len(pdrs)+len(fars)+len(qers) of the lists iterated, and is what the join counts
	cs := symOf(jcall.Call.Args[1]).String()
	r.check(strings.Count(cs, "len(") == 3, "R11.4", fn, "the join counts one completion per rule", w.Pos(jcall.Pos()), cs, "the join count is "+cs)
	// GRPCJoin consumes one completion per receive and reports success only when as many arrived as were
	// announced: a counter that starts at `calls` and goes down by one to zero, or starts at zero and goes up
	// by one to `calls`
	var callsParam ssa.Value
	for _, p := range join.Params {
		if bt, ok := p.Type().Underlying().(*types.Basic); ok && bt.Kind() == types.Int {
			callsParam = p
		}
	}
	var step *ssa.BinOp // the counter after one completion
	down := false
	allInstrs(join, func(i ssa.Instruction) {
		bo, ok := i.(*ssa.BinOp)
		if !ok || (bo.Op != token.SUB && bo.Op != token.ADD) {
			return
		}
		if k, isK := constInt(bo.Y); !isK || k != 1 {
			return
		}
		phi, ok := bo.X.(*ssa.Phi)
		if !ok {
			return
		}
		back, initOK := false, false
		for _, e := range phi.Edges {
			switch {
			case e == ssa.Value(bo):
				back = true
			case bo.Op == token.SUB && e == callsParam:
				initOK = true
			case bo.Op == token.ADD:
				if k, isK := constInt(e); isK && k == 0 {
					initOK = true
				}
			}
		}
		if back && initOK {
			step, down = bo, bo.Op == token.SUB
		}
	})
	r.check(step != nil, "R11.4", w.FuncName(join), "one completion is consumed per receive", w.Pos(join.Pos()), "a counter moved by one per receive", "GRPCJoin does not count down by one")
	for _, ret := range returnsOf(join) {
		v, isK := constBool(res(ret, 0))
		if isK && v {
			g := step != nil && onlyVia(join, ret, func(a, b *ssa.BasicBlock) bool {
				x, op, y, ok := edgeFact(a, b)
				if !ok || op != token.EQL {
					return false
				}
				if y == ssa.Value(step) {
					x, y = y, x
				}
				if x != ssa.Value(step) {
					return false
				}
				if down {
					k, isC := constInt(y)
					return isC && k == 0
				}
				return y == callsParam
			})
			r.check(g, "R11.4", w.FuncName(join), "joined only when the count reached zero", w.Pos(ret.Pos()), "under calls == 0 (or joined == calls)", "GRPCJoin reports success before all completions arrived")
		}
	}
}

func isChangeTypeOf(a, v ssa.Value) bool {
	if ct, ok := a.(*ssa.ChangeType); ok {
		return ct.X == v
	}
	return false
}

func ruleC11Rand(w *World, r *Report, ctx map[*ssa.Function][]*goRoot) {
	n := 0
	for _, f := range w.Funcs {
		if strings.HasPrefix(w.FuncName(f), "test/") {
			continue
		}
		f := f
		allInstrs(f, func(i ssa.Instruction) {
			st, ok := i.(*ssa.Store)
			if !ok {
				return
			}
			fa, ok := st.Addr.(*ssa.FieldAddr)
			if !ok || fieldVar(fa) == nil {
				return
			}
			if fieldVar(fa).Type().String() != "*math/rand.Rand" {
				return
			}
			n++
			owner := rootTypeName(fa.X.Type())
			c, isCall := st.Val.(*ssa.Call)
			fresh := isCall && calleeName(c) == "math/rand.New" && isFreshAlloc(fa.X)
			r.check(fresh, "R11.5", w.FuncName(f), owner+"."+fieldVar(fa).Name()+" is a generator created for this object", w.Pos(st.Pos()), "rand.New(...) stored into the object under construction", owner+"."+fieldVar(fa).Name()+" is set to "+symOf(st.Val).String()+": a *rand.Rand made by rand.New is not safe for concurrent use, and this one is shared between objects used from different goroutines")
			r.check(len(perInstanceRoots[owner]) > 0, "R11.5", w.FuncName(f), owner+" is a per-goroutine object", w.Pos(st.Pos()), "listed as per-instance", "a *rand.Rand is kept in "+owner+", which is shared between goroutines")
		})
	}
	r.floor("R11.5 generator fields", n, 1)
	// uses
	for _, f := range w.Funcs {
		f := f
		allInstrs(f, func(i ssa.Instruction) {
			c, ok := i.(*ssa.Call)
			if !ok || !strings.HasPrefix(calleeName(c), "(*math/rand.Rand).") {
				return
			}
			recv := c.Call.Args[0]
			u, isLoad := recv.(*ssa.UnOp)
			if !isLoad {
				return
			}
			fa, isFA := u.X.(*ssa.FieldAddr)
			if !isFA {
				return
			}
			owner := rootTypeName(fa.X.Type())
			okCtx := true
			var badRoot string
			for _, rt := range ctx[f] {
				if !perInstanceRoots[owner][rt.name] && rt.name != "pfcpiface.(*PFCPNode).handleNewPeers" {
					okCtx = false
					badRoot = rt.name
				}
			}
			r.check(okCtx, "R11.5", w.FuncName(f), "the generator is used only from its connection's goroutine", w.Pos(c.Pos()), "per-connection contexts", "the generator is also used from goroutine "+badRoot)
		})
	}
}

// ruleC11ConnectOnce (R11.8): every association's request, and the keep-alive loop, go through
// tryConnect. The channel set-up (setupChannel / initialize — which may clear every table and re-create
// the ID pools) must happen once per outage: the "already connected?" test that guards it is made while
// tryConnectMu is held, so a caller that waited for the lock sees the connection the previous holder made.
func ruleC11ConnectOnce(w *World, r *Report) {
	const P = "C11"
	f := w.Fn(P, "pfcpiface.(*UP4).tryConnect")
	fn := w.FuncName(f)
	isConn := w.Fn(P, "pfcpiface.(*UP4).IsConnected")
	la := w.Locks()
	n := 0
	for _, name := range []string{"setupChannel", "initialize"} {
		g := w.Fn(P, "pfcpiface.(*UP4)."+name)
		for _, c := range callsTo(f, g) {
			n++
			si := c.(ssa.Instruction)
			held := false
			for mu := range la.heldAt[si] {
				if mu.Name() == "tryConnectMu" {
					held = true
				}
			}
			r.check(held, "R11.8", fn, name+" runs under tryConnectMu", w.Pos(c.Pos()), "lock held", name+" can run without tryConnectMu: two callers set the channel up at the same time")
			// every path to the set-up takes the "not connected" edge of a test made under the lock
			g2 := onlyVia(f, si, func(a, b *ssa.BasicBlock) bool {
				v, truth, ok := boolEdge(a, b)
				if !ok || truth {
					return false
				}
				call, isCall := v.(*ssa.Call)
				if !isCall || staticCallee(call) != isConn {
					return false
				}
				for mu := range la.heldAt[call] {
					if mu.Name() == "tryConnectMu" {
						return true
					}
				}
				return false
			})
			r.check(g2, "R11.8", fn, name+" only after 'not connected' was observed under tryConnectMu", w.Pos(c.Pos()), "IsConnected()==false inside the critical section", "the connection test that guards "+name+" is made before tryConnectMu is taken and not repeated: every caller that arrived while the channel was down repeats the whole set-up after the first one finished — with clear_state_on_restart the second one wipes the tables and ID pools under the sessions the first caller's association has just installed")
		}
	}
	r.floor("R11.8 set-up calls in tryConnect", n, 2)
}

// ruleC11SplitSections (R11.9): see splitCriticalSections in lockset.go.
func ruleC11SplitSections(w *World, r *Report) {
	var funcs []*ssa.Function
	for _, f := range w.Funcs {
		n := w.FuncName(f)
		if strings.HasPrefix(n, "pfcpiface.") && !strings.Contains(w.Pos(f.Pos()), "_test.go") {
			funcs = append(funcs, f)
		}
	}
	ss, examined := w.splitCriticalSections(funcs)
	for _, s := range ss {
		r.bad("R11.9", w.FuncName(s.fn), "a guarded write acts on a read made in the same critical section ("+s.mu.Name()+")", w.Pos(posNear(s.write)), "the "+s.what+" is computed from a value read under "+s.mu.Name()+" at "+w.Pos(posNear(s.read))+", but the lock is released and taken again in between: two goroutines that interleave there act on the same stale answer (both take the same free identifier, both register the same key)")
	}
	if len(ss) == 0 {
		r.ok("R11.9", "pfcpiface", "no check-then-act across two critical sections of one mutex", "-", fmt.Sprintf("%d guarded writes in functions that lock a mutex more than once examined", examined))
	}
}

// ruleC11Shared2 (R11.10–R11.12): three more ways one association's request reaches into another's state.
func ruleC11Shared2(w *World, r *Report) {
	const P = "C11"
	// R11.10: what a session gives back to the node-wide pools (UE address, TEIDs) goes back only after the
	// datapath delete of its rules was accepted — otherwise another association's new session gets the
	// address while the old rules are still (or, after the delayed delete, no longer) installed under it
	r.withRule("R11.10", func() {
		ruleC06Release(w, r)
		ruleC07Never(w, r)
	})
	// R11.11: no request takes a mutex again that its own call chain already holds (a request that deadlocks
	// while holding UP4.stateMu blocks every association)
	{
		funcs := map[*ssa.Function]bool{}
		for _, f := range w.Funcs {
			if strings.HasPrefix(w.FuncName(f), "pfcpiface.") && !strings.HasPrefix(w.FuncName(f), "pfcpiface/") {
				funcs[f] = true
			}
		}
		rl, sites := w.reentrantLocks(funcs)
		for _, x := range rl {
			r.bad("R11.11", w.FuncName(x.fn), "no re-acquisition of "+x.mu.Name()+" while it is held", w.Pos(posNear(x.ins)), "the mutex "+x.mu.Name()+" is held here and acquired again "+x.via+": the request blocks for ever while holding a lock every other association needs")
		}
		if len(rl) == 0 {
			r.ok("R11.11", "pfcpiface", "no mutex is re-acquired while held", "-", fmt.Sprintf("%d call sites under a non-empty lockset examined", sites))
		}
		r.floor("R11.11 call sites under a lock", sites, 30)
	}
	// R11.12: the P4Runtime stream has one writer. PacketOuts (End Markers) are written by the
	// endMarkerSendLoop goroutine only; a handler that writes them itself does so on its association's reader
	// goroutine, concurrently with the other associations' — gRPC forbids concurrent Send on one stream.
	{
		send := w.Fn(P, "pfcpiface.(*P4rtClient).SendPacketOut")
		n := 0
		for _, e := range w.CG().callersOf(send) {
			cn := w.FuncName(e.Caller)
			if strings.HasPrefix(cn, "test/") {
				continue
			}
			n++
			r.check(strings.HasSuffix(cn, ".endMarkerSendLoop"), "R11.12", cn, "PacketOuts are written by the single sender goroutine", w.Pos(e.Site.Pos()), "endMarkerSendLoop", cn+" writes PacketOuts to the P4Runtime stream itself: it runs on each association's reader goroutine, so two associations handing over at the same time call stream.Send concurrently")
		}
		r.floor("R11.12 callers of SendPacketOut", n, 1)
	}
}
