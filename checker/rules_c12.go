package main

import (
	"fmt"
	"go/token"
	"go/types"
	"strings"

	"golang.org/x/tools/go/ssa"
)

func init() { rules["C12"] = ruleC12 }

// isSeqOf: s is <x>.Sequence() with x rendering as want.
func isSeqOf(s *Sym, want string) bool {
	return s.Op == "call" && strings.HasSuffix(s.Name, ".Sequence") && len(s.Args) == 1 && s.Args[0].String() == want
}

func isCallTo(i ssa.Instruction, f *ssa.Function) bool {
	c, ok := i.(ssa.CallInstruction)
	return ok && staticCallee(c) == f
}

// syncMapCalls lists calls of (*sync.Map).<method> in fn whose receiver is the given field path suffix.
func syncMapCalls(fn *ssa.Function, method, fieldSuffix string) []ssa.CallInstruction {
	return callsIn(fn, func(c ssa.CallInstruction) bool {
		if calleeName(c) != "(*sync.Map)."+method {
			return false
		}
		return strings.HasSuffix(strings.TrimPrefix(symOf(c.Common().Args[0]).String(), "&"), fieldSuffix)
	})
}

func ruleC12(w *World, r *Report) {
	const P = "C12"
	r.Explanation = "R12.1 in sendPFCPRequestMessage every transmission sends the same r.msg (never re-stored), in-loop transmissions happen only under counter > 0 with the counter initialised from maxReqRetries and decremented on every way back to the loop head (≤ 1+N sends), the timeout verdict is returned only after a GetResponse wait that follows the last transmission and only with the counter exhausted, no transmission follows an answered wait, waits use respTimeout and the shutdown channel; GetResponse's select maps done/reply/timer to (nil,false)/(msg,false)/(nil,true); " +
		"R12.2 the pending-request key stored, loaded and deleted is the message's Sequence(); R12.3 the waiter removes its pending entry on every exit and the responder's hand-off cannot block (buffered reply channel or select-default); R12.4 Shutdown in the heartbeat monitor / association requester only under timeout (or a failed response); " +
		"R12.5 recoveryTS.local has a single writer (the constructor) and every NewRecoveryTimeStamp argument is pConn.ts.local; the heartbeat handler answers on every path past the type assertion and signals hbReset under enableHBTimer, and the monitor's hbReset case resets the ticker; " +
		"R12.6 handleAssociationSetupRequest: cause accepted ⇔ upf.isConnected() edge, association state (remote node id / recovery time stamp) stored only on the connected branch; associationIEs: feature helpers called under exactly their configuration flags, each helper sets its (octet, bit) per TS 29.244 §8.2.25 with an adequate length guard, and the feature slice is long enough for every helper."
	r.Explanation += " R12.1 accepts the retry loop in both spellings (counter counting down from, or attempts counting up to, maxReqRetries) and proves ≤ 1+N transmissions for either; a narrow attempt counter must not be able to wrap (WRAP); R12.8 the reader hands a time-out to Serve only for an expired read deadline."
	r.Explanation += " R12.9 each datagram is handled from a slice allocated after it was read; R12.10 setConnectedStatus(true) only behind initialize() == nil."
	r.Explanation += " R12.1 also accepts retries counted up inside the loop body (third spelling)."
	r.NotDecided = "real-time spacing of retransmissions, loss patterns, scheduling"
	sendReq := w.Fn(P, "pfcpiface.(*PFCPConn).sendPFCPRequestMessage")
	send := w.Fn(P, "pfcpiface.(*PFCPConn).SendPFCPMsg")
	getResp := w.Fn(P, "pfcpiface.(*Request).GetResponse")
	incoming := w.Fn(P, "pfcpiface.(*PFCPConn).handleIncomingResponse")
	newReq := w.Fn(P, "pfcpiface.newRequest")
	shutdown := w.Fn(P, "pfcpiface.(*PFCPConn).Shutdown")
	hbMon := w.Fn(P, "pfcpiface.(*PFCPConn).startHeartBeatMonitor")
	assocReq := w.Fn(P, "pfcpiface.(*PFCPConn).sendAssociationRequest")
	hbHandler := w.Fn(P, "pfcpiface.(*PFCPConn).handleHeartbeatRequest")
	assocHandler := w.Fn(P, "pfcpiface.(*PFCPConn).handleAssociationSetupRequest")
	assocIEs := w.Fn(P, "pfcpiface.(*PFCPConn).associationIEs")
	sn := w.FuncName(sendReq)

	// ---------- R12.1
	sends := callsTo(sendReq, send)
	r.floor("R12.1 transmissions in sendPFCPRequestMessage", len(sends), 1)
	waits := callsTo(sendReq, getResp)
	r.floor("R12.1 waits in sendPFCPRequestMessage", len(waits), 1)
	for k, c := range sends {
		s := symOf(c.Common().Args[1]).String()
		r.check(s == "Request.msg", "R12.1", sn, fmt.Sprintf("transmission #%d sends r.msg", k+1), w.Pos(c.Pos()), s, "a (re)transmission sends "+s+" instead of the original request")
	}
	// r.msg is never re-stored anywhere in the package after construction
	for _, f := range w.Funcs {
		if f == newReq {
			continue
		}
		for _, st := range fieldStores(f, "Request")["msg"] {
			r.bad("R12.1", w.FuncName(f), "store to Request.msg", w.Pos(st.Pos()), "the request message is replaced after construction (retransmissions would differ)")
		}
	}
	// the retry counter
	var counter *ssa.Phi
	var decr *ssa.BinOp
	allInstrs(sendReq, func(i ssa.Instruction) {
		phi, ok := i.(*ssa.Phi)
		if !ok || len(phi.Edges) != 2 {
			return
		}
		var initOK bool
		var d *ssa.BinOp
		for _, e := range phi.Edges {
			if bo, ok := e.(*ssa.BinOp); ok && bo.Op == token.SUB && bo.X == ssa.Value(phi) {
				if k, isK := constInt(bo.Y); isK && k == 1 {
					d = bo
				}
			} else {
				for {
					cv, isCv := e.(*ssa.Convert)
					if !isCv {
						break
					}
					e = cv.X
				}
				if strings.HasSuffix(symOf(e).String(), "upf.maxReqRetries") {
					initOK = true
				}
			}
		}
		if initOK && d != nil {
			counter, decr = phi, d
		}
	})
	// the other spelling of the same loop: an attempt counter that counts up to maxReqRetries
	var up *ssa.Phi
	var upCond *ssa.BinOp
	var upIncr *ssa.BinOp
	upIter := int64(0) // iterations = maxReqRetries + upIter
	if counter == nil {
		allInstrs(sendReq, func(i ssa.Instruction) {
			phi, ok := i.(*ssa.Phi)
			if !ok || len(phi.Edges) != 2 {
				return
			}
			c0, haveC0 := int64(0), false
			var inc *ssa.BinOp
			for _, e := range phi.Edges {
				if bo, ok := e.(*ssa.BinOp); ok && bo.Op == token.ADD && bo.X == ssa.Value(phi) {
					if k, isK := constInt(bo.Y); isK && k == 1 {
						inc = bo
					}
				} else if k, isK := constInt(e); isK {
					c0, haveC0 = k, true
				}
			}
			ifi := blockIf(phi.Block())
			if inc == nil || !haveC0 || ifi == nil {
				return
			}
			cmp, ok := ifi.Cond.(*ssa.BinOp)
			if !ok || cmp.X != ssa.Value(phi) || (cmp.Op != token.LEQ && cmp.Op != token.LSS) {
				return
			}
			bound, extra := cmp.Y, int64(0)
			if bo, ok := bound.(*ssa.BinOp); ok && bo.Op == token.ADD {
				if k, isK := constInt(bo.Y); isK {
					bound, extra = bo.X, k
				}
			}
			for {
				cv, isCv := bound.(*ssa.Convert)
				if !isCv {
					break
				}
				bound = cv.X
			}
			if !strings.HasSuffix(symOf(bound).String(), "upf.maxReqRetries") {
				return
			}
			up, upCond, upIncr = phi, cmp, inc
			upIter = extra - c0
			if cmp.Op == token.LEQ {
				upIter++
			}
		})
	}
	exhaustedUp := func(a, b *ssa.BasicBlock) bool {
		ifi := blockIf(a)
		return up != nil && ifi != nil && ifi.Cond == ssa.Value(upCond) && len(a.Succs) == 2 && a.Succs[1] == b
	}
	if counter == nil && up != nil {
		r.ok("R12.1", sn, "attempt counter = φ(c, counter+1) compared with maxReqRetries", w.Pos(up.Pos()), fmt.Sprintf("found; the loop body runs maxReqRetries%+d times", upIter))
		hdr := up.Block()
		pre, inLoop := 0, 0
		for k, c := range sends {
			ins := c.(ssa.Instruction)
			if !reachesBlock(ins.Block(), hdr) || !hdr.Dominates(ins.Block()) {
				pre++
				r.check(reach(sendReq, ins, func(j ssa.Instruction) bool { return j == ins }, nil, nil) == nil, "R12.1", sn, fmt.Sprintf("transmission #%d (initial) runs once", k+1), w.Pos(c.Pos()), "not in a cycle", "the initial transmission is inside a loop")
				continue
			}
			inLoop++
			inBody := onlyVia(sendReq, ins, func(a, b *ssa.BasicBlock) bool {
				ifi := blockIf(a)
				return ifi != nil && ifi.Cond == ssa.Value(upCond) && a.Succs[0] == b
			})
			r.check(inBody, "R12.1", sn, fmt.Sprintf("transmission #%d only while attempts remain", k+1), w.Pos(c.Pos()), "dominated by the loop test", "a transmission is possible with the attempts exhausted (more than 1+N transmissions)")
			// once per iteration: no way from the send back to itself that does not pass the loop head
			again := reach(sendReq, ins, func(j ssa.Instruction) bool { return j == ins }, func(j ssa.Instruction) bool { return j == ssa.Instruction(up) }, nil)
			r.check(again == nil, "R12.1", sn, fmt.Sprintf("transmission #%d happens once per attempt", k+1), w.Pos(c.Pos()), "no inner cycle", "a transmission can repeat within one attempt")
		}
		okInc := true
		for i, p := range hdr.Preds {
			if hdr.Dominates(p) && up.Edges[i] != ssa.Value(upIncr) {
				okInc = false
			}
		}
		r.check(okInc, "R12.1", sn, "every way back to the loop head costs one attempt", w.Pos(up.Pos()), "back edges carry counter+1", "an iteration can repeat without advancing the attempt counter")
		total := int64(pre) + int64(inLoop)*upIter // in units beyond N·inLoop
		r.check(inLoop == 1 && total <= 1, "R12.1", sn, "at most 1 + max_req_retries transmissions", w.Pos(sendReq.Pos()), fmt.Sprintf("%d before the loop + %d per attempt × (N%+d)", pre, inLoop, upIter), fmt.Sprintf("%d transmission(s) before the loop and %d per attempt over N%+d attempts: more than 1 + max_req_retries", pre, inLoop, upIter))
		r.check(inLoop >= 1 && total >= 1, "R12.1", sn, "a retransmission exists", w.Pos(sendReq.Pos()), fmt.Sprintf("%d in-loop sends", inLoop), "fewer than 1 + max_req_retries transmissions: a request is given up early")
		// the counter cannot wrap past its bound
		weng := newEngine(w, r, "R12.1", map[*ssa.Function]bool{sendReq: true})
		weng.wrapObls(sendReq)
	}
	// a third spelling: the shape of the count-down loop with the counter running the other way — retries done
	// so far, starting at 0, tested against maxReqRetries inside the loop body
	upInner := false
	isBound := func(v ssa.Value) bool {
		for {
			cv, isCv := v.(*ssa.Convert)
			if !isCv {
				break
			}
			v = cv.X
		}
		return strings.HasSuffix(symOf(v).String(), "upf.maxReqRetries")
	}
	if counter == nil && up == nil {
		allInstrs(sendReq, func(i ssa.Instruction) {
			phi, ok := i.(*ssa.Phi)
			if !ok || len(phi.Edges) != 2 {
				return
			}
			var inc *ssa.BinOp
			zero := false
			for _, e := range phi.Edges {
				if bo, ok := e.(*ssa.BinOp); ok && bo.Op == token.ADD && bo.X == ssa.Value(phi) {
					if k, isK := constInt(bo.Y); isK && k == 1 {
						inc = bo
					}
				} else if k, isK := constInt(e); isK && k == 0 {
					zero = true
				}
			}
			if inc == nil || !zero {
				return
			}
			tested := false
			for _, b := range sendReq.Blocks {
				for _, sc := range b.Succs {
					if x, op, y, ok := edgeFact(b, sc); ok && x == ssa.Value(phi) && op == token.LSS && isBound(y) {
						tested = true
					}
				}
			}
			if tested {
				counter, decr, upInner = phi, inc, true
			}
		})
	}
	exhausted := exhaustedUp
	if counter == nil && up == nil {
		r.bad("R12.1", sn, "retry counter", w.Pos(sendReq.Pos()), "no loop counter initialised from maxReqRetries and decremented by 1 (or counting up to it) was found: the number of transmissions is not bounded by 1+max_req_retries")
	} else if counter != nil {
		r.ok("R12.1", sn, ifelse(upInner, "retries done = φ(0, done+1), tested against maxReqRetries", "retry counter = φ(maxReqRetries, counter-1)"), w.Pos(counter.Pos()), "found")
		hdr := counter.Block()
		positive := func(a, b *ssa.BasicBlock) bool {
			x, op, y, ok := edgeFact(a, b)
			if !ok || x != ssa.Value(counter) {
				return false
			}
			if upInner {
				return op == token.LSS && isBound(y)
			}
			k, isK := constInt(y)
			if !isK {
				return false
			}
			return (op == token.GTR && k == 0) || (op == token.NEQ && k == 0) || (op == token.GEQ && k == 1)
		}
		exhausted = func(a, b *ssa.BasicBlock) bool {
			x, op, y, ok := edgeFact(a, b)
			if !ok || x != ssa.Value(counter) {
				return false
			}
			if upInner {
				return op == token.GEQ && isBound(y)
			}
			k, isK := constInt(y)
			if !isK {
				return false
			}
			return (op == token.LEQ && k == 0) || (op == token.EQL && k == 0) || (op == token.LSS && k == 1)
		}
		inLoop := 0
		for k, c := range sends {
			ins := c.(ssa.Instruction)
			if !reachesBlock(ins.Block(), hdr) || !hdr.Dominates(ins.Block()) {
				// the initial transmission: must precede the loop and run once
				r.check(reach(sendReq, ins, func(j ssa.Instruction) bool { return j == ins }, nil, nil) == nil, "R12.1", sn, fmt.Sprintf("transmission #%d (initial) runs once", k+1), w.Pos(c.Pos()), "not in a cycle", "the initial transmission is inside a loop")
				continue
			}
			inLoop++
			// 1+N is a bound on the count: there are at most 1 + (passes of the counter > 0 edge)
			// transmissions when every two consecutive ones have such a pass between them. A send the
			// test dominates has it behind every earlier one; a send at the top of the loop body is
			// the first transmission on the way in and a retransmission on the way round, and is within
			// the bound when no transmission — itself included — leads to it without the pass.
			guarded := onlyVia(sendReq, ins, positive)
			if !guarded {
				guarded = true
				for _, c2 := range sends {
					if reach(sendReq, c2.(ssa.Instruction), func(j ssa.Instruction) bool { return j == ins }, nil, positive) != nil {
						guarded = false
					}
				}
			}
			r.check(guarded, "R12.1", sn, fmt.Sprintf("retransmission #%d only while the counter is positive", k+1), w.Pos(c.Pos()), "dominated by counter > 0", "a retransmission is possible with the retry counter exhausted (more than 1+N transmissions)")
			// every way from this send back to the loop head carries the decrement
			okDec := true
			for i, p := range hdr.Preds {
				if reachesBlock(ins.Block(), p) && hdr.Dominates(p) {
					if counter.Edges[i] != ssa.Value(decr) {
						okDec = false
					}
				}
			}
			// and the decrement executes on every path from the send to the head
			miss := reach(sendReq, ins, func(j ssa.Instruction) bool { return j == ssa.Instruction(counter) }, func(j ssa.Instruction) bool { return j == ssa.Instruction(decr) }, nil)
			// decr may be placed before the send in the same iteration: accept if decr dominates the back edge source
			if miss != nil {
				for i, p := range hdr.Preds {
					if hdr.Dominates(p) && counter.Edges[i] == ssa.Value(decr) && (decr.Block().Dominates(p)) {
						miss = nil
					}
				}
			}
			r.check(okDec && miss == nil, "R12.1", sn, fmt.Sprintf("retransmission #%d costs one retry", k+1), w.Pos(c.Pos()), "back edge carries counter-1", "a retransmission does not decrement the retry counter")
		}
		r.check(inLoop >= 1, "R12.1", sn, "a retransmission exists", w.Pos(sendReq.Pos()), fmt.Sprintf("%d in-loop sends", inLoop), "no retransmission: requests are sent once only")
		if upInner {
			// the counter cannot wrap past its bound
			weng := newEngine(w, r, "R12.1", map[*ssa.Function]bool{sendReq: true})
			weng.wrapObls(sendReq)
		}
	}
	if counter != nil || up != nil {
		// verdicts
		for k, ret := range returnsOf(sendReq) {
			if len(ret.Results) != 2 {
				continue
			}
			c, isC := res(ret, 1).(*ssa.Const)
			if !isC || c.Value == nil {
				r.bad("R12.1", sn, fmt.Sprintf("return #%d verdict is a constant", k+1), w.Pos(ret.Pos()), "timeout verdict is computed, the rule cannot classify it")
				continue
			}
			if c.Value.String() == "true" {
				// dead verdict: after a wait that follows the last send, with the counter exhausted, and only on a timed-out wait
				for j, sc := range sends {
					miss := reach(sendReq, sc.(ssa.Instruction), func(x ssa.Instruction) bool { return x == ssa.Instruction(ret) }, func(x ssa.Instruction) bool { return isCallTo(x, getResp) }, nil)
					r.check(miss == nil, "R12.1", sn, fmt.Sprintf("timeout verdict #%d waits after transmission #%d", k+1, j+1), w.Pos(ret.Pos()), "a GetResponse lies on every path from the send to the verdict", "the peer is declared unresponsive without waiting resp_timeout after the last transmission")
				}
				r.check(onlyVia(sendReq, ret, exhausted), "R12.1", sn, fmt.Sprintf("timeout verdict #%d only with the counter exhausted", k+1), w.Pos(ret.Pos()), "dominated by !(counter > 0)", "the peer can be declared unresponsive while retries remain")
				timedOut := onlyVia(sendReq, ret, func(a, b *ssa.BasicBlock) bool {
					v, truth, ok := boolEdge(a, b)
					if !ok || !truth {
						return false
					}
					ex, isEx := v.(*ssa.Extract)
					return isEx && ex.Index == 1 && isCallTo(ex.Tuple.(ssa.Instruction), getResp)
				})
				r.check(timedOut, "R12.1", sn, fmt.Sprintf("timeout verdict #%d only after a timed-out wait", k+1), w.Pos(ret.Pos()), "dominated by the timeout edge of GetResponse", "timeout verdict without a timed-out wait")
			} else {
				// answered (or cancelled): returns the wait's message, without further transmissions
				s := symOf(res(ret, 0)).String()
				r.check(strings.Contains(s, "GetResponse#0"), "R12.1", sn, fmt.Sprintf("answered return #%d hands back the wait's message", k+1), w.Pos(ret.Pos()), s, "non-timeout return yields "+s)
			}
		}
		// no transmission after an answered wait: from the not-timeout edge no send is reachable
		for _, wc := range waits {
			rc := extractOf(wc.(*ssa.Call), 1)
			for _, b := range sendReq.Blocks {
				for _, sc := range b.Succs {
					v, truth, ok := boolEdge(b, sc)
					if ok && !truth && v == rc && len(sc.Instrs) > 0 && len(sc.Preds) == 1 {
						first := sc.Instrs[0]
						hit := reach(sendReq, first, func(x ssa.Instruction) bool { return isCallTo(x, send) }, nil, nil)
						if isCallTo(first, send) {
							hit = first
						}
						r.check(hit == nil, "R12.1", sn, "no transmission after an answered wait", w.Pos(wc.Pos()), "send unreachable from the not-timeout edge", "a request is retransmitted although a response arrived")
					}
				}
			}
		}
	}
	for k, wc := range waits {
		a := wc.Common().Args
		d, t := symOf(a[1]).String(), symOf(a[2]).String()
		r.check(strings.HasSuffix(d, "PFCPConn.shutdown") && strings.HasSuffix(t, "upf.respTimeout"), "R12.1", sn, fmt.Sprintf("wait #%d uses the shutdown channel and resp_timeout", k+1), w.Pos(wc.Pos()), d+", "+t, "wait uses ("+d+", "+t+")")
	}
	// GetResponse select table
	ruleC12GetResponse(w, r, getResp)

	// ---------- R12.2 key agreement
	{
		st := syncMapCalls(sendReq, "Store", "PFCPConn.pendingReqs")
		r.floor("R12.2 pendingReqs.Store in sendPFCPRequestMessage", len(st), 1)
		for _, c := range st {
			ks := symOf(c.Common().Args[1]).String()
			vs := symOf(c.Common().Args[2]).String()
			r.check(isSeqOf(symOf(c.Common().Args[1]), "Request.msg"), "R12.2", sn, "pending key = r.msg.Sequence()", w.Pos(c.Pos()), ks, "pending request stored under "+ks)
			r.check(vs == "Request" || strings.HasPrefix(vs, "Request"), "R12.2", sn, "pending value = the request", w.Pos(c.Pos()), vs, "pending map holds "+vs)
			// stored before the first transmission
			for _, sc := range sends {
				if reach(sendReq, nil, func(x ssa.Instruction) bool { return x == sc.(ssa.Instruction) }, func(x ssa.Instruction) bool { return x == c.(ssa.Instruction) }, nil) != nil {
					r.bad("R12.2", sn, "pending entry stored before transmitting", w.Pos(sc.Pos()), "a transmission can precede the registration of the pending request (a fast response is lost)")
				}
			}
		}
		in := w.FuncName(incoming)
		ld := syncMapCalls(incoming, "Load", "PFCPConn.pendingReqs")
		ld = append(ld, syncMapCalls(incoming, "LoadAndDelete", "PFCPConn.pendingReqs")...)
		r.floor("R12.2 pendingReqs.Load in handleIncomingResponse", len(ld), 1)
		for _, c := range ld {
			ks := symOf(c.Common().Args[1]).String()
			r.check(isSeqOf(symOf(c.Common().Args[1]), "msg"), "R12.2", in, "lookup key = msg.Sequence()", w.Pos(c.Pos()), ks, "response matched by "+ks)
		}
		for _, c := range syncMapCalls(incoming, "Delete", "PFCPConn.pendingReqs") {
			ks := symOf(c.Common().Args[1]).String()
			r.check(isSeqOf(symOf(c.Common().Args[1]), "msg"), "R12.2", in, "delete key = msg.Sequence()", w.Pos(c.Pos()), ks, "pending entry deleted by "+ks)
		}
		// the hand-off happens only on the found branch and targets the loaded request's reply channel
		n := 0
		allInstrs(incoming, func(i ssa.Instruction) {
			snd, ok := i.(*ssa.Send)
			if !ok {
				return
			}
			n++
			cs := symOf(snd.Chan).String()
			r.check(strings.Contains(cs, "pendingReqs") && strings.HasSuffix(cs, ".reply"), "R12.2", in, "response handed to the matched request's reply channel", w.Pos(snd.Pos()), cs, "response handed to "+cs)
			r.check(snd.X == ssa.Value(incoming.Params[1]), "R12.2", in, "the response itself is handed over", w.Pos(snd.Pos()), "param msg", "something other than the received response is handed over")
		})
		allInstrs(incoming, func(i ssa.Instruction) {
			if sel, ok := i.(*ssa.Select); ok {
				for _, st := range sel.States {
					if st.Dir == 1 { // send
						n++
						cs := symOf(st.Chan).String()
						r.check(strings.Contains(cs, "pendingReqs") && strings.HasSuffix(cs, ".reply"), "R12.2", in, "response handed to the matched request's reply channel", w.Pos(sel.Pos()), cs, "response handed to "+cs)
					}
				}
			}
		})
		r.floor("R12.2 hand-off sites", n, 1)
	}

	// ---------- R12.3 pending entry pairing and non-blocking hand-off
	{
		dels := syncMapCalls(sendReq, "Delete", "PFCPConn.pendingReqs")
		okAll := len(dels) > 0
		if okAll {
			isDel := func(i ssa.Instruction) bool {
				for _, d := range dels {
					if i == d.(ssa.Instruction) {
						return true
					}
				}
				return false
			}
			// a deferred Delete covers every exit once executed; a direct one must lie on every path to a return
			miss := mustPass(sendReq, nil, isReturn, isDel)
			okAll = miss == nil
		}
		r.check(okAll, "R12.3", sn, "waiter removes its pending entry on every exit", w.Pos(sendReq.Pos()), "pendingReqs.Delete (deferred or on all paths)", "after the last timeout (or a shutdown) the pending entry stays: a late response then finds a waiter that is gone")
		// reply channel capacity
		capOK := false
		desc := "unbuffered"
		allInstrs(newReq, func(i ssa.Instruction) {
			if mc, ok := i.(*ssa.MakeChan); ok {
				if k, isK := constInt(mc.Size); isK && k >= 1 {
					capOK = true
					desc = fmt.Sprintf("capacity %d", k)
				}
			}
		})
		selectDefault := false
		allInstrs(incoming, func(i ssa.Instruction) {
			if sel, ok := i.(*ssa.Select); ok && !sel.Blocking {
				selectDefault = true
			}
		})
		r.check(capOK || selectDefault, "R12.3", w.FuncName(incoming), "hand-off to the waiter cannot block the receive loop", w.Pos(incoming.Pos()), desc, "the reply channel is unbuffered and the hand-off is a plain send: a response that arrives after its waiter has given up blocks the association's reader forever")
	}

	// ---------- R12.4
	for _, f := range []*ssa.Function{hbMon, assocReq} {
		fn := w.FuncName(f)
		reqCalls := callsTo(f, sendReq)
		r.floor("R12.4 sendPFCPRequestMessage calls in "+fn, len(reqCalls), 1)
		for k, c := range callsTo(f, shutdown) {
			ins := c.(ssa.Instruction)
			justified := onlyVia(f, ins, func(a, b *ssa.BasicBlock) bool {
				v, truth, ok := boolEdge(a, b)
				if ok && truth {
					if ex, isEx := v.(*ssa.Extract); isEx && ex.Index == 1 {
						for _, rc := range reqCalls {
							if ex.Tuple == rc.Value() {
								return true
							}
						}
					}
				}
				// or a failed handling of the response
				x, op, y, ok2 := edgeFact(a, b)
				if ok2 && op == token.NEQ && isNilConst(y) {
					if call, isCall := x.(*ssa.Call); isCall && staticCallee(call) != nil && staticCallee(call).Name() == "handleAssociationSetupResponse" {
						return true
					}
				}
				return false
			})
			r.check(justified, "R12.4", fn, fmt.Sprintf("Shutdown #%d only after a timeout verdict or a rejected response", k+1), w.Pos(c.Pos()), "dominated by timeout == true / response error", "the association is torn down without the request having timed out")
		}
	}

	// ---------- R12.5
	{
		writers := map[string]bool{}
		for _, f := range w.Funcs {
			for _, st := range fieldStores(f, "recoveryTS")["local"] {
				writers[w.FuncName(f)] = true
				_ = st
			}
		}
		ws := strings.Join(sortedKeys(writers), ",")
		r.check(ws == "pfcpiface.(*PFCPNode).NewPFCPConn", "R12.5", "pfcpiface.recoveryTS.local", "single writer: the association constructor", "-", ws, "recoveryTS.local is written by "+ws)
		n := 0
		for _, f := range w.Funcs {
			if f.Pkg == nil || f.Pkg.Pkg.Path() != pfcpPkg {
				continue
			}
			allInstrs(f, func(i ssa.Instruction) {
				c, ok := i.(*ssa.Call)
				if !ok || calleeName(c) != iePkg+".NewRecoveryTimeStamp" {
					return
				}
				n++
				s := symOf(c.Call.Args[0]).String()
				r.check(s == "PFCPConn.ts.local", "R12.5", w.FuncName(f), "Recovery Time Stamp IE ← pConn.ts.local", w.Pos(c.Pos()), s, "Recovery Time Stamp built from "+s)
			})
		}
		r.floor("R12.5 NewRecoveryTimeStamp sites", n, 4)
		// heartbeat handler: answers on every path past the type assertion, no association precondition
		hn := w.FuncName(hbHandler)
		for _, t := range replyTerminals(hbHandler) {
			if isNilConst(t.val) {
				continue
			}
			c, ok := t.val.(*ssa.Call)
			if !ok {
				continue
			}
			hasTS := false
			for _, v := range variadicIEs(c) {
				if sv := symOf(v); sv.Op == "call" && strings.HasSuffix(sv.Name, "ie.NewRecoveryTimeStamp") && len(sv.Args) == 1 && sv.Args[0].String() == "PFCPConn.ts.local" {
					hasTS = true
				}
			}
			r.check(hasTS, "R12.5", hn, "Heartbeat Response carries the local Recovery Time Stamp", w.Pos(c.Pos()), "ie.NewRecoveryTimeStamp(pConn.ts.local)", "Heartbeat Response without the local Recovery Time Stamp")
		}
		// the only conditions in the handler are the type assertion and enableHBTimer (no association state)
		for _, b := range hbHandler.Blocks {
			ifi := blockIf(b)
			if ifi == nil {
				continue
			}
			s := symOf(ifi.Cond).String()
			okCond := strings.Contains(s, "enableHBTimer") || isTypeAssertOK(ifi.Cond) || isSelectIndexTest(ifi.Cond)
			// the verdict of one of the handler's own literals that decides on nothing but its select
			// (did the non-blocking signal go through?) is no precondition either
			if !okCond {
				cv := ifi.Cond
				if u, ok := cv.(*ssa.UnOp); ok && u.Op == token.NOT {
					cv = u.X
				}
				if c, ok := cv.(*ssa.Call); ok {
					var lit *ssa.Function
					if mc, ok := c.Call.Value.(*ssa.MakeClosure); ok {
						lit, _ = mc.Fn.(*ssa.Function)
					} else if f, ok := c.Call.Value.(*ssa.Function); ok {
						lit = f
					}
					if lit != nil && lit.Parent() == hbHandler {
						only := true
						for _, lb := range lit.Blocks {
							if li := blockIf(lb); li != nil && !isSelectIndexTest(li.Cond) {
								only = false
							}
						}
						okCond = only
					}
				}
			}
			r.check(okCond, "R12.5", hn, "heartbeat answered without preconditions", w.Pos(ifi.Pos()), s, "the heartbeat handler branches on "+s+" (heartbeats must be answered before and after association)")
		}
		ruleC12HbSignal(w, r, hbHandler, "R12.5")
		// monitor: the hbReset case resets the ticker with hbInterval
		mn := w.FuncName(hbMon)
		resetOK := false
		allInstrs(hbMon, func(i ssa.Instruction) {
			c, ok := i.(*ssa.Call)
			if ok && (calleeName(c) == "(*time.Ticker).Reset" || calleeName(c) == "(*time.Timer).Reset") {
				if strings.HasSuffix(symOf(c.Call.Args[1]).String(), "upf.hbInterval") {
					resetOK = true
				}
			}
		})
		r.check(resetOK, "R12.5", mn, "hbReset case resets the heartbeat ticker to hbInterval", w.Pos(hbMon.Pos()), "Ticker.Reset(upf.hbInterval)", "the monitor does not postpone its heartbeat on hbReset")
		tick := false
		allInstrs(hbMon, func(i ssa.Instruction) {
			c, ok := i.(*ssa.Call)
			if ok && calleeName(c) == "time.NewTicker" && strings.HasSuffix(symOf(c.Call.Args[0]).String(), "upf.hbInterval") {
				tick = true
			}
		})
		r.check(tick, "R12.5", mn, "heartbeat period = hbInterval", w.Pos(hbMon.Pos()), "time.NewTicker(upf.hbInterval)", "heartbeat ticker not created from hbInterval")
	}

	// ---------- R12.6
	ruleC12Assoc(w, r, assocHandler, assocIEs)
	ruleC12NewPeers(w, r)
	ruleC12ResetConsumers(w, r)
	ruleC12Connected(w, r)
	ruleC12ReaderVerdict(w, r)
	ruleC12More(w, r)
}

func isTypeAssertOK(v ssa.Value) bool {
	ex, ok := v.(*ssa.Extract)
	if !ok || ex.Index != 1 {
		return false
	}
	_, isTA := ex.Tuple.(*ssa.TypeAssert)
	return isTA
}

func isSelectIndexTest(v ssa.Value) bool {
	b, ok := v.(*ssa.BinOp)
	if !ok {
		return false
	}
	ex, ok := b.X.(*ssa.Extract)
	if !ok {
		return false
	}
	_, isSel := ex.Tuple.(*ssa.Select)
	return isSel
}

func ruleC12GetResponse(w *World, r *Report, f *ssa.Function) {
	fn := w.FuncName(f)
	var sel *ssa.Select
	allInstrs(f, func(i ssa.Instruction) {
		if s, ok := i.(*ssa.Select); ok {
			sel = s
		}
	})
	if sel == nil || len(f.Params) != 3 {
		r.bad("R12.1", fn, "GetResponse waits in a select", w.Pos(f.Pos()), "no select over done/reply/timer found")
		return
	}
	r.check(sel.Blocking, "R12.1", fn, "GetResponse blocks until one of its three events", w.Pos(sel.Pos()), "blocking select", "GetResponse polls instead of waiting (spacing by resp_timeout is lost)")
	kinds := map[int]string{}
	for i, st := range sel.States {
		s := symOf(st.Chan).String()
		switch {
		case st.Chan == ssa.Value(f.Params[1]):
			kinds[i] = "done"
		case strings.HasSuffix(s, "Request.reply"):
			kinds[i] = "reply"
		case strings.Contains(s, "time.NewTimer(respDuration)") || strings.Contains(s, "time.After(respDuration)") || (strings.Contains(s, "time.NewTimer") && strings.Contains(s, "respDuration")):
			kinds[i] = "timer"
		default:
			kinds[i] = "other:" + s
		}
	}
	idx := extractOf(sel, 0)
	want := map[string][2]string{"done": {"nil", "false"}, "reply": {"recv", "false"}, "timer": {"nil", "true"}}
	seen := map[string]bool{}
	for _, ret := range returnsOf(f) {
		ret := ret
		var kind string
		for i, k := range kinds {
			i := i
			if onlyVia(f, ret, func(a, b *ssa.BasicBlock) bool {
				x, op, y, ok := edgeFact(a, b)
				if !ok || op != token.EQL || x != idx {
					return false
				}
				c, isK := constInt(y)
				return isK && int(c) == i
			}) {
				kind = k
			}
		}
		if kind == "" {
			r.bad("R12.1", fn, "return classified by select case", w.Pos(ret.Pos()), "a return of GetResponse is not tied to one select case")
			continue
		}
		seen[kind] = true
		wnt, known := want[kind]
		if !known {
			r.bad("R12.1", fn, "select case "+kind, w.Pos(ret.Pos()), "GetResponse waits on an unexpected channel "+kind)
			continue
		}
		msg := "nil"
		if !isNilConst(res(ret, 0)) {
			if ex, ok := res(ret, 0).(*ssa.Extract); ok && ex.Tuple == ssa.Value(sel) {
				msg = "recv"
			} else {
				msg = symOf(res(ret, 0)).String()
			}
		}
		tv := "?"
		if c, ok := res(ret, 1).(*ssa.Const); ok && c.Value != nil {
			tv = c.Value.String()
		}
		r.check(msg == wnt[0] && tv == wnt[1], "R12.1", fn, "select case "+kind+" → ("+wnt[0]+", "+wnt[1]+")", w.Pos(ret.Pos()), msg+", "+tv, "case "+kind+" returns ("+msg+", "+tv+")")
	}
	for k := range want {
		if !seen[k] {
			r.bad("R12.1", fn, "select case "+k, w.Pos(f.Pos()), "GetResponse has no "+k+" case")
		}
	}
}

func ruleC12Assoc(w *World, r *Report, h, ies *ssa.Function) {
	const P = "C12"
	hn := w.FuncName(h)
	isConn := w.Fn(P, "pfcpiface.(*upf).isConnected")
	accepted := w.ConstInt(P, iePkg, "CauseRequestAccepted")
	rejected := w.ConstInt(P, iePkg, "CauseRequestRejected")
	conn := callsTo(h, isConn)
	r.floor("R12.6 isConnected calls in handleAssociationSetupRequest", len(conn), 1)
	connEdge := func(want bool) edgePred {
		return func(a, b *ssa.BasicBlock) bool {
			v, truth, ok := boolEdge(a, b)
			if !ok {
				return false
			}
			c, isCall := v.(*ssa.Call)
			return isCall && staticCallee(c) == isConn && truth == want
		}
	}
	// cause stores
	nAcc, nRej := 0, 0
	allInstrs(h, func(i ssa.Instruction) {
		st, ok := i.(*ssa.Store)
		if !ok {
			return
		}
		fa, ok := st.Addr.(*ssa.FieldAddr)
		if !ok || fieldVar(fa) == nil {
			return
		}
		name := fieldVar(fa).Name()
		switch {
		case name == "Cause" && rootTypeName(fa.X.Type()) == "AssociationSetupResponse":
			c, isCall := st.Val.(*ssa.Call)
			if !isCall || calleeName(c) != iePkg+".NewCause" {
				r.bad("R12.6", hn, "Cause IE built by ie.NewCause(const)", w.Pos(st.Pos()), "cause is "+symOf(st.Val).String())
				return
			}
			// the cause may be chosen first and stored once — `cause := rejected; if connected { cause = accepted };
			// res.Cause = NewCause(cause)` —: a φ of constants, each of which is judged where it flows in (the
			// edge into the φ is the isConnected() edge itself, or is reached over one only)
			if phi, isPhi := c.Call.Args[0].(*ssa.Phi); isPhi {
				for e, in := range phi.Edges {
					k, isK := constInt(in)
					from := phi.Block().Preds[e]
					flowsUnder := func(want bool) bool {
						return connEdge(want)(from, phi.Block()) || onlyVia(h, from.Instrs[len(from.Instrs)-1], connEdge(want))
					}
					switch {
					case isK && k == accepted:
						nAcc++
						r.check(flowsUnder(true), "R12.6", hn, "cause accepted only when the datapath is connected", w.Pos(st.Pos()), "dominated by isConnected() == true", "association accepted although the datapath is not connected")
					case isK && k == rejected:
						nRej++
						r.check(flowsUnder(false), "R12.6", hn, "cause rejected only when the datapath is down", w.Pos(st.Pos()), "dominated by isConnected() == false", "association rejected although the datapath is connected")
					default:
						r.bad("R12.6", hn, "association cause is accepted or rejected", w.Pos(st.Pos()), "cause "+symOf(in).String())
					}
				}
				return
			}
			k, _ := constInt(c.Call.Args[0])
			switch k {
			case accepted:
				nAcc++
				r.check(onlyVia(h, st, connEdge(true)), "R12.6", hn, "cause accepted only when the datapath is connected", w.Pos(st.Pos()), "dominated by isConnected() == true", "association accepted although the datapath is not connected")
			case rejected:
				nRej++
				r.check(onlyVia(h, st, connEdge(false)), "R12.6", hn, "cause rejected only when the datapath is down", w.Pos(st.Pos()), "dominated by isConnected() == false", "association rejected although the datapath is connected")
			default:
				r.bad("R12.6", hn, "association cause is accepted or rejected", w.Pos(st.Pos()), fmt.Sprintf("cause %d", k))
			}
		case (name == "remote") && (rootTypeName(fa.X.Type()) == "nodeID" || rootTypeName(fa.X.Type()) == "recoveryTS"):
			r.check(onlyVia(h, st, connEdge(true)), "R12.6", hn, "association state ("+rootTypeName(fa.X.Type())+".remote) recorded only on the accepted branch", w.Pos(st.Pos()), "dominated by isConnected() == true", "a rejected association still records the peer ("+rootTypeName(fa.X.Type())+".remote): later session requests are then treated as associated")
		}
	})
	r.check(nAcc >= 1 && nRej >= 1, "R12.6", hn, "both outcomes exist", w.Pos(h.Pos()), fmt.Sprintf("%d accepted, %d rejected", nAcc, nRej), "association setup lacks an accepting or a rejecting exit")
	// every answering exit is preceded by exactly one cause store
	for _, t := range replyTerminals(h) {
		if isNilConst(t.val) {
			continue
		}
		c, ok := t.val.(*ssa.Call)
		if !ok {
			continue
		}
		// IEs come from associationIEs()
		last := c.Call.Args[len(c.Call.Args)-1]
		s := symOf(last).String()
		r.check(strings.Contains(s, "associationIEs"), "R12.6", hn, "response advertises associationIEs()", w.Pos(c.Pos()), s, "association response IEs are "+s)
		miss := mustPass(h, c, func(i ssa.Instruction) bool { return i == ssa.Instruction(t.ret) }, func(i ssa.Instruction) bool {
			st, ok := i.(*ssa.Store)
			if !ok {
				return false
			}
			fa, ok := st.Addr.(*ssa.FieldAddr)
			return ok && fieldVar(fa) != nil && fieldVar(fa).Name() == "Cause"
		})
		r.check(miss == nil, "R12.6", hn, "every answer carries a cause", w.Pos(t.ret.Pos()), "cause store on every path", "an association response can be returned without a Cause IE")
	}
	// agent-originated request uses the same IEs
	{
		f := w.Fn(P, "pfcpiface.(*PFCPConn).sendAssociationRequest")
		n := 0
		allInstrs(f, func(i ssa.Instruction) {
			c, ok := i.(*ssa.Call)
			if ok && calleeName(c) == msgPkg+".NewAssociationSetupRequest" {
				n++
				s := symOf(c.Call.Args[len(c.Call.Args)-1]).String()
				r.check(strings.Contains(s, "associationIEs"), "R12.6", w.FuncName(f), "agent-originated setup request advertises associationIEs()", w.Pos(c.Pos()), s, "request IEs are "+s)
			}
		})
		r.floor("R12.6 NewAssociationSetupRequest sites", n, 1)
	}

	// ---- feature helpers
	type feat struct {
		fn    string
		octet int64
		mask  int64
		flag  string // configuration flag that must guard the call ("" = unconditional)
	}
	feats := []feat{
		{"pfcpiface.setFTUPFeature", 0, 0x10, ""},
		{"pfcpiface.setEndMarkerFeature", 1, 0x01, "upf.enableEndMarker"},
		{"pfcpiface.setUeipFeature", 2, 0x04, "upf.enableUeIPAlloc"},
	}
	in := w.FuncName(ies)
	// the feature slice
	var featSlice ssa.Value
	var featLen int64 = -1
	allInstrs(ies, func(i ssa.Instruction) {
		c, ok := i.(*ssa.Call)
		if ok && calleeName(c) == iePkg+".NewUPFunctionFeatures" {
			featSlice = c.Call.Args[0]
		}
	})
	if featSlice == nil {
		r.bad("R12.6", in, "UP Function Features IE", w.Pos(ies.Pos()), "associationIEs builds no UP Function Features IE")
		return
	}
	if sl, ok := featSlice.(*ssa.Slice); ok {
		if k, isK := constInt(sl.High); isK {
			featLen = k
		} else if al, isAl := sl.X.(*ssa.Alloc); isAl && sl.High == nil {
			if arr := derefArrayLen(al.Type()); arr >= 0 {
				featLen = arr
			}
		}
	}
	if ms, ok := featSlice.(*ssa.MakeSlice); ok {
		if k, isK := constInt(ms.Len); isK {
			featLen = k
		}
	}
	r.check(featLen >= 0, "R12.6", in, "feature slice has a constant length", w.Pos(featSlice.Pos()), fmt.Sprintf("len %d", featLen), "length of the feature slice is not a constant the rule can read")
	for _, ft := range feats {
		f := w.Fn(P, ft.fn)
		fname := w.FuncName(f)
		// helper body: guard len >= octet+1, store features[octet] |= mask
		var guardK, idx, mask int64 = -1, -1, -1
		allInstrs(f, func(i ssa.Instruction) {
			switch x := i.(type) {
			case *ssa.BinOp:
				if x.Op == token.GEQ {
					if c, ok := x.X.(*ssa.Call); ok && calleeName(c) == "builtin.len" {
						guardK, _ = constInt(x.Y)
					}
				}
				if x.Op == token.GTR {
					if c, ok := x.X.(*ssa.Call); ok && calleeName(c) == "builtin.len" {
						k, _ := constInt(x.Y)
						guardK = k + 1
					}
				}
				if x.Op == token.OR {
					mask, _ = constInt(x.Y)
				}
			case *ssa.Store:
				if ia, ok := x.Addr.(*ssa.IndexAddr); ok {
					idx, _ = constInt(ia.Index)
				}
			}
		})
		r.check(idx == ft.octet && mask == ft.mask, "R12.6", fname, fmt.Sprintf("sets octet %d bit 0x%02x", ft.octet, ft.mask), w.Pos(f.Pos()), fmt.Sprintf("features[%d] |= 0x%02x", idx, mask), fmt.Sprintf("helper sets features[%d] |= 0x%02x, TS 29.244 wants octet %d mask 0x%02x", idx, mask, ft.octet, ft.mask))
		r.check(guardK == idx+1, "R12.6", fname, "length guard matches the octet written", w.Pos(f.Pos()), fmt.Sprintf("len >= %d", guardK), fmt.Sprintf("guard len >= %d does not protect index %d", guardK, idx))
		r.check(featLen >= ft.octet+1, "R12.6", in, fmt.Sprintf("feature slice long enough for %s", f.Name()), w.Pos(featSlice.Pos()), fmt.Sprintf("len %d > octet %d", featLen, ft.octet), fmt.Sprintf("the feature slice has %d octets, %s needs %d: its length guard silently skips the bit", featLen, f.Name(), ft.octet+1))
		calls := callsTo(ies, f)
		r.check(len(calls) == 1, "R12.6", in, "one call of "+f.Name(), w.Pos(ies.Pos()), "1", fmt.Sprintf("%d calls", len(calls)))
		for _, c := range calls {
			ins := c.(ssa.Instruction)
			r.check(c.Common().Args[0] == featSlice, "R12.6", in, f.Name()+" writes the advertised slice", w.Pos(c.Pos()), "same slice as NewUPFunctionFeatures", f.Name()+" writes a different slice than the one advertised")
			// precedes the IE constructor
			r.check(reach(ies, ins, func(j ssa.Instruction) bool {
				cc, ok := j.(*ssa.Call)
				return ok && calleeName(cc) == iePkg+".NewUPFunctionFeatures"
			}, nil, nil) != nil, "R12.6", in, f.Name()+" precedes the IE construction", w.Pos(c.Pos()), "constructor reachable after the call", "feature bit set after the IE was built")
			// control atoms: exactly the configuration flag
			flagEdge := func(a, b *ssa.BasicBlock) bool {
				v, truth, ok := boolEdge(a, b)
				return ok && truth && strings.HasSuffix(symOf(v).String(), ft.flag)
			}
			if ft.flag == "" {
				// on every path to the return
				miss := mustPass(ies, nil, isReturn, func(j ssa.Instruction) bool { return j == ins })
				r.check(miss == nil, "R12.6", in, f.Name()+" on every path (F-TEID allocation always advertised)", w.Pos(c.Pos()), "must-pass-through", "F-TEID allocation is not advertised on some path")
			} else {
				r.check(onlyVia(ies, ins, flagEdge), "R12.6", in, f.Name()+" only under "+ft.flag, w.Pos(c.Pos()), "dominated by the flag", f.Name()+" advertised although "+ft.flag+" is off")
				// and always when the flag is on
				for _, b := range ies.Blocks {
					for _, sc := range b.Succs {
						if flagEdge(b, sc) && len(sc.Instrs) > 0 {
							first := sc.Instrs[0]
							skipped := first != ins && reach(ies, first, isReturn, func(j ssa.Instruction) bool { return j == ins }, nil) != nil
							r.check(!skipped, "R12.6", in, f.Name()+" whenever "+ft.flag, w.Pos(c.Pos()), "follows from the flag alone", "with "+ft.flag+" on, a further condition can suppress the feature bit")
						}
					}
				}
			}
		}
	}
}

func derefArrayLen(t interface{ String() string }) int64 { return -1 }

// ruleC12NewPeers: every datagram from an address without a connection creates one and is handled —
// whatever its type (a Heartbeat Request is answered before any association exists).
func ruleC12NewPeers(w *World, r *Report) {
	const P = "C12"
	f := w.Fn(P, "pfcpiface.(*PFCPNode).handleNewPeers")
	fn := w.FuncName(f)
	nc := w.Fn(P, "pfcpiface.(*PFCPNode).NewPFCPConn")
	var read *ssa.Call
	var load *ssa.Call
	allInstrs(f, func(i ssa.Instruction) {
		c, ok := i.(*ssa.Call)
		if !ok {
			return
		}
		if c.Call.IsInvoke() && c.Call.Method.Name() == "ReadFrom" {
			read = c
		}
		if strings.HasSuffix(calleeName(c), "sync.Map).Load") {
			load = c
		}
	})
	calls := callsTo(f, nc)
	if read == nil || load == nil || len(calls) != 1 {
		r.bad("R12.7", fn, "read, look up, create", w.Pos(f.Pos()), "handleNewPeers no longer reads a datagram, looks the peer up and creates a connection")
		return
	}
	create := calls[0].(ssa.Instruction)
	// from the read, the next read is reachable without the create only through "read failed" or "connection exists"
	ev := errResult(read)
	found := extractOf(load, 1)
	hit := reach(f, read, func(i ssa.Instruction) bool { return i == ssa.Instruction(read) || isReturn(i) }, func(i ssa.Instruction) bool { return i == create }, func(a, b *ssa.BasicBlock) bool {
		if nilnessEdge(a, b, func(x ssa.Value) bool { return x == ev }, false) {
			return true
		}
		v, truth, ok := boolEdge(a, b)
		return ok && truth && v == found
	})
	r.check(hit == nil, "R12.7", fn, "a datagram from a peer without a connection always creates one (no filtering by content)", w.Pos(create.Pos()), "only a read error or an existing connection skips NewPFCPConn", "a datagram from a new peer can be skipped for another reason (e.g. its message type): a Heartbeat Request that arrives before any association is never answered")
	// the datagram handed over is the one read, in full
	okB := false
	if sl, ok := create.(*ssa.Call).Call.Args[3].(*ssa.Slice); ok {
		okB = sl.X == read.Call.Args[0] && sl.Low == nil && sl.High == extractOf(read, 0)
	}
	r.check(okB, "R12.7", fn, "the new connection gets the datagram that was read", w.Pos(create.Pos()), "buf[:n] of ReadFrom(buf)", "NewPFCPConn is not given buf[:n] of the datagram just read")
	// and NewPFCPConn dispatches it
	disp := w.Fn(P, "pfcpiface.(*PFCPConn).HandlePFCPMsg")
	d := callsTo(nc, disp)
	okD := len(d) == 1
	if okD {
		okD = onlyVia(nc, d[0].(ssa.Instruction), func(a, b *ssa.BasicBlock) bool {
			return nilnessEdge(a, b, func(x ssa.Value) bool { return x == ssa.Value(nc.Params[3]) }, false)
		}) && d[0].Common().Args[1] == ssa.Value(nc.Params[3])
	}
	r.check(okD, "R12.7", w.FuncName(nc), "the first datagram is dispatched like any other", w.Pos(nc.Pos()), "HandlePFCPMsg(buf) whenever buf != nil", "the first datagram of a new peer is not (always) handed to HandlePFCPMsg")
}

// ruleC12ResetConsumers: every reset signal taken from hbReset postpones the next heartbeat: a receive
// on that channel is followed by Reset(hbInterval) of the monitor's ticker before the loop goes on.
func ruleC12ResetConsumers(w *World, r *Report) {
	const P = "C12"
	n := 0
	for _, f := range w.Funcs {
		if strings.HasPrefix(w.FuncName(f), "test/") {
			continue
		}
		f := f
		isReset := func(i ssa.Instruction) bool {
			c, ok := i.(*ssa.Call)
			return ok && strings.HasSuffix(calleeName(c), "time.Ticker).Reset")
		}
		check := func(at ssa.Instruction, start *ssa.BasicBlock) {
			n++
			// from the point where the signal was taken, the next blocking select / return is reached only through Reset
			var from ssa.Instruction = at
			if start != nil {
				from = firstInstr(start)
			}
			hit := reach(f, from, func(i ssa.Instruction) bool {
				if i == at {
					return false
				}
				if s, ok := i.(*ssa.Select); ok && s.Blocking {
					return true
				}
				return isReturn(i)
			}, isReset, nil)
			inStart := false
			if start != nil {
				for _, i := range start.Instrs {
					if isReset(i) {
						inStart = true
					}
				}
			}
			r.check(hit == nil || inStart, "R12.5", w.FuncName(f), fmt.Sprintf("reset signal #%d taken from hbReset postpones the next heartbeat", n), w.Pos(at.Pos()), "Reset(hbInterval) follows", "a reset signal is consumed from hbReset without resetting the ticker: a peer heartbeat that arrives while the agent's own exchange is in flight no longer postpones the agent's next heartbeat")
		}
		allInstrs(f, func(i ssa.Instruction) {
			switch x := i.(type) {
			case *ssa.UnOp:
				if x.Op == token.ARROW && chanFieldOf(x.X) == "PFCPConn.hbReset" {
					check(i, nil)
				}
			case *ssa.Select:
				for k, st := range x.States {
					if st.Dir != types.RecvOnly || chanFieldOf(st.Chan) != "PFCPConn.hbReset" {
						continue
					}
					// the block selected for case k
					idx := extractOf(x, 0)
					for _, b := range f.Blocks {
						for _, sc := range b.Succs {
							xx, op, y, ok := edgeFact(b, sc)
							if c, isK := constInt(y); ok && xx == idx && op == token.EQL && isK && int(c) == k {
								check(i, sc)
							}
						}
					}
				}
			}
		})
	}
	r.floor("R12.5 consumers of hbReset", n, 1)
}

// ruleC12Connected: "connected" means the gRPC channel is READY (BESS) / the P4Runtime client exists,
// is marked connected and READY (UP4) — nothing weaker.
func ruleC12Connected(w *World, r *Report) {
	const P = "C12"
	ready := int64(2) // google.golang.org/grpc/connectivity.Ready
	if v := w.importedConst("google.golang.org/grpc/connectivity", "Ready"); v != nil {
		ready = *v
	}
	for _, name := range []string{"pfcpiface.(*bess).IsConnected", "pfcpiface.(*UP4).IsConnected"} {
		f := w.Fn(P, name)
		n := 0
		for k, ret := range returnsOf(f) {
			v := resolveIfConst(res(ret, 0))
			if c, isK := constBool(v); isK && !c {
				continue
			}
			n++
			// a true (or computed) verdict is reachable only when the state compared equal to Ready
			stateOK := func(x, y ssa.Value, op token.Token) bool {
				c, isCall := x.(*ssa.Call)
				if !isCall {
					return false
				}
				nm := calleeName(c)
				if !(strings.HasSuffix(nm, ").GetState") || strings.HasSuffix(nm, ").CheckStatus")) {
					return false
				}
				k, isK := constInt(y)
				return isK && k == ready && op == token.EQL
			}
			viaEdge := onlyVia(f, ret, func(a, b *ssa.BasicBlock) bool {
				x, op, y, ok := edgeFact(a, b)
				return ok && stateOK(x, y, op)
			})
			// or the returned value itself is the comparison state == Ready (possibly and-ed with other conditions)
			direct := false
			var walk func(v ssa.Value, d int)
			walk = func(v ssa.Value, d int) {
				if d > 6 {
					return
				}
				switch x := v.(type) {
				case *ssa.BinOp:
					if x.Op == token.EQL && stateOK(x.X, x.Y, token.EQL) {
						direct = true
					}
				case *ssa.Phi:
					// short-circuit &&: every non-false edge must be the state comparison
					all := true
					for _, e := range x.Edges {
						if c, isK := constBool(e); isK && !c {
							continue
						}
						sub := false
						if bo, ok := e.(*ssa.BinOp); ok && bo.Op == token.EQL && stateOK(bo.X, bo.Y, token.EQL) {
							sub = true
						}
						if !sub {
							all = false
						}
					}
					if all && len(x.Edges) > 0 {
						direct = true
					}
				}
			}
			walk(res(ret, 0), 0)
			r.check(viaEdge || direct, "R12.6", w.FuncName(f), fmt.Sprintf("return #%d: connected only when the channel state is READY", k+1), w.Pos(ret.Pos()), "state == connectivity.Ready", f.Name()+" can report 'connected' in a channel state other than READY (IDLE is also where a channel sits after it lost its connection): an Association Setup Request is accepted while the datapath is gone")
		}
		r.floor("R12.6 positive verdicts of "+name, n, 1)
	}
}

func resolveIfConst(v ssa.Value) ssa.Value { return v }

// ruleC12ReaderVerdict (R12.8): the per-association reader declares the peer silent — hands the
// time-out to Serve, which tears the association down — only for a read deadline that expired. Any
// other read error (ICMP port unreachable while the peer restarts, a truncated datagram) is not
// "every transmission went unanswered".
func ruleC12ReaderVerdict(w *World, r *Report) {
	const P = "C12"
	serve := w.Fn(P, "pfcpiface.(*PFCPConn).Serve")
	n := 0
	for _, reader := range serve.AnonFuncs {
		allInstrs(reader, func(i ssa.Instruction) {
			var ch ssa.Value
			var pos token.Pos
			switch x := i.(type) {
			case *ssa.Send:
				ch, pos = x.Chan, x.Pos()
			case *ssa.Select:
				for _, st := range x.States {
					if st.Dir == types.SendOnly {
						ch, pos = st.Chan, x.Pos()
					}
				}
			}
			if ch == nil {
				return
			}
			n++
			g := onlyVia(reader, i, func(a, b *ssa.BasicBlock) bool {
				v, truth, ok := boolEdge(a, b)
				return ok && truth && strings.Contains(symOf(v).String(), "Timeout(")
			})
			r.check(g, "R12.8", w.FuncName(reader), "the peer is declared silent only for an expired read deadline", w.Pos(pos), "hand-off under err.Timeout()", "the reader reports a time-out to Serve for read errors that are not time-outs: one ICMP error or malformed read ends the association and removes its sessions while retransmissions remain")
		})
	}
	r.floor("R12.8 reader hand-offs to Serve", n, 1)
}

// ruleC12More (R12.9, R12.10).
func ruleC12More(w *World, r *Report) {
	const P = "C12"
	// R12.9: go-pfcp parses a datagram without copying it, and a response to one of the agent's own requests
	// is handed to the goroutine that waits for it. The bytes handed to HandlePFCPMsg must therefore not be
	// the receive buffer the reader is about to overwrite with the next datagram: a private copy per message.
	{
		serve := w.Fn(P, "pfcpiface.(*PFCPConn).Serve")
		handle := w.Fn(P, "pfcpiface.(*PFCPConn).HandlePFCPMsg")
		n := 0
		for _, g := range withClosures(serve) {
			for _, c := range callsTo(g, handle) {
				n++
				arg := c.Common().Args[1]
				// made after this message was read: the allocation (make / append to an empty slice) follows the Read
				var read ssa.Instruction
				allInstrs(g, func(i ssa.Instruction) {
					if rc, ok := i.(*ssa.Call); ok && rc.Call.IsInvoke() && rc.Call.Method.Name() == "Read" {
						read = i
					}
				})
				perMessage := false
				var root func(v ssa.Value, d int) ssa.Instruction
				root = func(v ssa.Value, d int) ssa.Instruction {
					if d > 5 {
						return nil
					}
					switch x := v.(type) {
					case *ssa.MakeSlice:
						return x
					case *ssa.Slice:
						if al, ok := x.X.(*ssa.Alloc); ok {
							return al
						}
						return root(x.X, d+1)
					case *ssa.Call:
						if calleeName(x) == "builtin.append" {
							if r0 := root(x.Call.Args[0], d+1); r0 != nil {
								return x // the append itself allocates when its base is fresh and empty
							}
						}
					}
					return nil
				}
				if ri := root(arg, 0); ri != nil && read != nil && instrDominates(read, ri) {
					perMessage = true
				}
				r.check(isFreshSlice(arg) && perMessage, "R12.9", w.FuncName(g), "each datagram is handled from a copy of its own", w.Pos(c.Pos()), "fresh slice", "HandlePFCPMsg is given "+symOf(arg).String()+", the reader's receive buffer: the parsed message (IEs point into it) is handed to the goroutine waiting for the response while the reader already reads the next datagram into the same bytes — an accepted Association Setup Response followed closely by a heartbeat is read as garbage and the peer is declared failed")
			}
		}
		r.floor("R12.9 dispatch sites in the reader", n, 1)
	}
	// R12.10: UP4 reports "connected" only after its initialisation succeeded: tryConnect marks the
	// connection up on the success edge of initialize(), never before — otherwise a failed initialisation
	// leaves IsConnected() true, associations are accepted and tryConnect never retries.
	{
		f := w.Fn(P, "pfcpiface.(*UP4).tryConnect")
		set := w.Fn(P, "pfcpiface.(*UP4).setConnectedStatus")
		initF := w.Fn(P, "pfcpiface.(*UP4).initialize")
		inits := callsTo(f, initF)
		n := 0
		for _, c := range callsTo(f, set) {
			if k, isK := constBool(c.Common().Args[1]); !isK || !k {
				continue
			}
			n++
			okS := len(inits) == 1 && errGuardedStrict(f, inits[0].(*ssa.Call), c.(ssa.Instruction))
			r.check(okS, "R12.10", w.FuncName(f), "UP4 is marked connected only after initialize() succeeded", w.Pos(c.Pos()), "dominated by initialize() == nil", "setConnectedStatus(true) is not behind the success of initialize(): when the P4Runtime channel is reachable but the initialisation fails, IsConnected() stays true — Association Setup Requests are accepted although the datapath is not set up, and tryConnect never tries again")
		}
		r.floor("R12.10 setConnectedStatus(true) in tryConnect", n, 1)
	}
}

// ruleC12HbSignal: the heartbeat handler tells the monitor about the peer's heartbeat without ever waiting
// for it: a select with default. A plain send blocks the receive loop of the association once the buffer is
// full (nobody drains it before an association is accepted), and with it the read time-out that would end
// the association (re-filed under C10: such an association is never forgotten).
func ruleC12HbSignal(w *World, r *Report, hbHandler *ssa.Function, rule string) {
	hn := w.FuncName(hbHandler)
	sig := 0
	// the handler itself and the function literals it defines (the signal may sit in a local helper literal)
	both := func(fn func(i ssa.Instruction)) {
		for _, g := range withClosures(hbHandler) {
			allInstrs(g, fn)
		}
	}
	both(func(i ssa.Instruction) {
		if sel, ok := i.(*ssa.Select); ok {
			for _, st := range sel.States {
				if st.Dir == 1 && strings.HasSuffix(symOf(st.Chan).String(), "PFCPConn.hbReset") {
					sig++
					r.check(!sel.Blocking, rule, hn, "hbReset signalled without blocking", w.Pos(sel.Pos()), "select with default", "the heartbeat handler blocks on hbReset")
				}
			}
		}
		if snd, ok := i.(*ssa.Send); ok && strings.HasSuffix(symOf(snd.Chan).String(), "PFCPConn.hbReset") {
			sig++
			r.bad(rule, hn, "hbReset signalled without blocking", w.Pos(snd.Pos()), "plain send on hbReset: once the buffer is full (no monitor draining it) the receive loop blocks and the heartbeat is never answered")
		}
	})
	r.check(sig >= 1, rule, hn, "peer heartbeat postpones the agent's own heartbeat", w.Pos(hbHandler.Pos()), "hbReset signalled", "the heartbeat handler no longer signals hbReset")
}
