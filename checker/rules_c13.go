package main

import (
	"fmt"
	"go/token"
	"go/types"
	"strings"

	"golang.org/x/tools/go/ssa"
)

func init() { rules["C13"] = ruleC13 }

func ruleC13(w *World, r *Report) {
	const P = "C13"
	r.Explanation = "R13.1 handleDigestReport: the one send is reachable only with a stored session (ok edge of GetSession(fseid)), a downlink PDR (pdrID≠0) and — for every FAR of the session whose id is the downlink PDR's FAR id — the NOCP bit set (applyAction & ActionNotify, ActionNotify = 0x08); no other condition decides whether the report is sent; " +
		"R13.2 content: NewSessionReportRequest with a sequence number taken from getSeqNum in this call, report type DLDR only, header SEID = the stored session's remoteSEID, Downlink Data Report = NewPDRID(pdrID) where pdrID/farID come from the first PDR with srcIface == core; remoteSEID is kept current by the modification handler (CP F-SEID stored before PutSession); " +
		"R13.3 rate limiter decision table: unknown F-SEID → store time.Now(), pass; known and Since(last) ≥ interval → store time.Now(), pass; otherwise no store, suppress; Notify forwards exactly the F-SEID it was given and only on a pass; one notifier per listener goroutine; " +
		"R13.4 dispatch: Serve hands the received F-SEID unchanged to handleDigestReport; R13.5 crash/exit obligations of the two listeners (short digests, short reads)."
	r.Explanation += " R13.6 Notify/shouldNotify are plain calls on the goroutine that created the notifier (the limiter's Load-then-Store is not atomic)."
	r.Explanation += " R13.2 (cont.) FAR IDs compared without narrowing; R13.7 go notifyListen on every path after the notification socket was dialled; R13.8 the limiter's entries are deleted only under a test on notificationInterval."
	r.Explanation += " R13.9 = C02 R02.7 (SendPFCPMsg writes from a buffer private to the call); R13.10 go listenToDDNs only inside initOnce.Do; R13.11 handleDigestReport is called on the value the Range over pConns yields."
	r.NotDecided = "'at most one per interval' as a statement about wall-clock time (time.Now/time.Since are trusted); whether the datapath produces a report (BESS/UP4 side)"

	h := w.Fn(P, "pfcpiface.(*PFCPConn).handleDigestReport")
	hn := w.FuncName(h)
	send := w.Fn(P, "pfcpiface.(*PFCPConn).SendPFCPMsg")
	seqFn := w.Fn(P, "pfcpiface.(*PFCPConn).getSeqNum")
	notifyBit := w.ConstInt(P, pfcpPkg, "ActionNotify")
	core := w.ConstInt(P, pfcpPkg, "core")
	r.check(notifyBit == 0x08, "R13.1", "pfcpiface.ActionNotify", "ActionNotify is the NOCP bit (0x08, TS 29.244 8.2.26)", "pfcpiface/parse_far.go", fmt.Sprintf("%#x", notifyBit), fmt.Sprintf("ActionNotify is %#x", notifyBit))

	sends := callsTo(h, send)
	if len(sends) != 1 {
		r.bad("R13.1", hn, "exactly one send site", w.Pos(h.Pos()), fmt.Sprintf("%d calls of SendPFCPMsg in handleDigestReport", len(sends)))
		return
	}
	sendI := sends[0].(ssa.Instruction)
	fseidParam := h.Params[1]

	// --- session lookup
	var get *ssa.Call
	allInstrs(h, func(i ssa.Instruction) {
		if c, ok := i.(*ssa.Call); ok && c.Call.IsInvoke() && c.Call.Method.Name() == "GetSession" {
			get = c
		}
	})
	if get == nil {
		brokenf(P, "R13.1", "GetSession call not found in handleDigestReport")
	}
	r.check(get.Call.Args[0] == ssa.Value(fseidParam), "R13.1", hn, "the session is looked up by the reported F-SEID", w.Pos(get.Pos()), "GetSession(fseid)", "the session is looked up by "+symOf(get.Call.Args[0]).String())
	okV := extractOf(get, 1)
	r.check(okV != nil && onlyVia(h, sendI, func(a, b *ssa.BasicBlock) bool {
		v, truth, ok := boolEdge(a, b)
		return ok && truth && v == okV
	}), "R13.1", hn, "no report for an unknown session", w.Pos(sendI.Pos()), "send only on the found edge", "a Session Report Request can be sent although the F-SEID is not in the store")

	// --- the downlink PDR: the value named in the report, and the FAR id the FAR loop compares with
	var pdrPhi, farPhi *ssa.Phi
	allInstrs(h, func(i ssa.Instruction) {
		switch x := i.(type) {
		case *ssa.Call:
			if strings.HasSuffix(calleeName(x), "ie.NewPDRID") && len(x.Call.Args) == 1 {
				v := x.Call.Args[0]
				if cv, ok := v.(*ssa.Convert); ok {
					v = cv.X
				}
				if phi, ok := v.(*ssa.Phi); ok {
					pdrPhi = phi
				}
			}
		case *ssa.BinOp:
			if x.Op != token.EQL {
				return
			}
			for _, pair := range [][2]ssa.Value{{x.X, x.Y}, {x.Y, x.X}} {
				a, b := pair[0], pair[1]
				narrowed := false
				if cv, ok := a.(*ssa.Convert); ok {
					if fb, _, ok1 := widthOf(cv.X.Type()); ok1 {
						if tb, _, ok2 := widthOf(cv.Type()); ok2 && tb < fb {
							narrowed = true
						}
					}
					a = cv.X
				}
				if strings.HasSuffix(symOf(a).String(), "fars[].farID") {
					r.check(!narrowed, "R13.2", hn, "the FAR of the downlink PDR is found by its full 32-bit ID", w.Pos(x.Pos()), "no narrowing", "FAR IDs are compared after narrowing to "+x.X.Type().String()+": a downlink FAR whose ID is above 65535 is confused with the FAR that has the same low bits — the notify test is made on the wrong FAR and the report is discarded (or sent for a FAR that does not ask for it)")
					if phi, ok := b.(*ssa.Phi); ok {
						farPhi = phi
					}
				}
			}
		}
	})
	checkPick := func(phi *ssa.Phi, field string) ssa.Value {
		var load ssa.Value
		for k, e := range phi.Edges {
			if c, isK := constInt(e); isK && c == 0 {
				continue
			}
			s := symOf(e).String()
			good := strings.HasSuffix(s, "pdrs[]."+field) && strings.Contains(s, "GetSession#0(")
			// selected under srcIface == core
			pred := phi.Block().Preds[k]
			via := false
			if len(pred.Preds) == 1 {
				x, op, y, ok := edgeFact(pred.Preds[0], pred)
				if ok && op == token.EQL && strings.HasSuffix(symOf(x).String(), "pdrs[].srcIface") {
					if c, isK := constInt(y); isK && c == core {
						via = true
					}
				}
			}
			r.check(good && via, "R13.2", hn, field+" is read from a PDR of the stored session whose source interface is core", w.Pos(h.Pos()), s, field+" is taken from "+s+ifelse(via, "", " (not under srcIface == core)"))
			load = e
		}
		return load
	}
	if pdrPhi == nil || farPhi == nil {
		r.bad("R13.2", hn, "the report names the downlink PDR and tests its FAR", w.Pos(h.Pos()), "the PDR id handed to NewPDRID / the FAR id the FAR loop compares with could not be traced to a choice among the session's PDRs")
		return
	}
	pl, fl := checkPick(pdrPhi, "pdrID"), checkPick(farPhi, "farID")
	if pl != nil && fl != nil {
		same := false
		if a, ok := pl.(ssa.Instruction); ok {
			if b, ok := fl.(ssa.Instruction); ok {
				same = a.Block() == b.Block() && sameElem(pl, fl)
			}
		}
		r.check(same, "R13.2", hn, "PDR id and FAR id come from the same PDR", w.Pos(h.Pos()), "same element", "the PDR id and the FAR id are read from different PDRs")
	}
	// first match: the pdr loop leaves at the first core PDR
	for _, lp := range rangeLoopsOver(h, "pdrs") {
		ex := loopEarlyExits(h, lp[0])
		r.check(len(ex) == 1, "R13.2", hn, "the first downlink PDR names the session's downlink rule", w.Pos(h.Pos()), "break at the first match", fmt.Sprintf("%d early exits in the PDR search", len(ex)))
	}
	r.check(onlyVia(h, sendI, func(a, b *ssa.BasicBlock) bool {
		x, op, y, ok := edgeFact(a, b)
		if !ok || x != ssa.Value(pdrPhi) {
			return false
		}
		c, isK := constInt(y)
		return isK && c == 0 && op == token.NEQ
	}), "R13.1", hn, "no report without a downlink PDR", w.Pos(sendI.Pos()), "send only on pdrID != 0", "a report can be sent although no downlink PDR was found")

	// --- the FAR check
	loops := rangeLoopsOver(h, "fars")
	if len(loops) != 1 {
		r.bad("R13.1", hn, "one pass over the session's FARs", w.Pos(h.Pos()), fmt.Sprintf("%d loops over the FARs", len(loops)))
		return
	}
	hdr, body := loops[0][0], loops[0][1]
	var idIf, bitIf *ssa.BasicBlock
	for _, b := range h.Blocks {
		if len(b.Succs) != 2 {
			continue
		}
		x, op, y, ok := edgeFact(b, b.Succs[0])
		if !ok {
			continue
		}
		xs := symOf(x).String()
		switch {
		case op == token.EQL && strings.HasSuffix(xs, "fars[].farID") && y == ssa.Value(farPhi),
			op == token.EQL && strings.HasSuffix(symOf(y).String(), "fars[].farID") && x == ssa.Value(farPhi):
			idIf = b
		case op == token.EQL || op == token.NEQ:
			if bo, isB := x.(*ssa.BinOp); isB && bo.Op == token.AND {
				k, isK := constInt(bo.Y)
				z, isZ := constInt(y)
				if isK && isZ && z == 0 && k == notifyBit && strings.HasSuffix(symOf(bo.X).String(), "fars[].applyAction") {
					bitIf = b
				}
			}
		}
	}
	r.check(idIf != nil, "R13.1", hn, "the FAR is selected by the downlink PDR's FAR id", w.Pos(h.Pos()), "far.farID == farID", "the FAR loop does not compare far.farID with the downlink PDR's FAR id")
	r.check(bitIf != nil, "R13.1", hn, "the notify request is read from the FAR's NOCP bit", w.Pos(h.Pos()), "far.applyAction & ActionNotify", "the test 'applyAction & ActionNotify' is gone: the decision to notify is taken from something other than the FAR's NOCP bit")
	if idIf != nil && bitIf != nil {
		// the id test runs on every iteration; the bit test is what follows a match
		r.check(everyIteration(h, body, hdr, func(i ssa.Instruction) bool { return i == idIf.Instrs[len(idIf.Instrs)-1] }), "R13.1", hn, "every FAR of the session is compared", w.Pos(h.Pos()), "id test on every iteration", "some FARs are skipped by the search")
		var matchSucc *ssa.BasicBlock
		for _, s := range idIf.Succs {
			if _, op, _, ok := edgeFact(idIf, s); ok && op == token.EQL {
				matchSucc = s
			}
		}
		r.check(matchSucc == bitIf, "R13.1", hn, "a matching FAR is tested for NOCP at once", w.Pos(h.Pos()), "id match → bit test", "the NOCP test is not what follows the FAR id match")
		// NOCP clear → no send
		for _, s := range bitIf.Succs {
			x, op, _, _ := edgeFact(bitIf, s)
			_ = x
			clear := op == token.EQL
			reaches := reach(h, firstInstr(s), func(i ssa.Instruction) bool { return i == sendI }, nil, nil) != nil || blockHas(s, sendI)
			if clear {
				r.check(!reaches, "R13.1", hn, "no report when the downlink FAR does not ask for notification", w.Pos(sendI.Pos()), "NOCP clear → return", "the send is reachable although the downlink FAR's NOCP bit is clear")
			} else {
				r.check(reaches, "R13.1", hn, "a FAR that asks for notification lets the report through", w.Pos(sendI.Pos()), "NOCP set → continues", "the report is dropped although NOCP is set")
			}
		}
		ex := loopEarlyExits(h, hdr)
		r.check(len(ex) == 1 && ex[0] == bitIf, "R13.1", hn, "the FAR search only stops to discard", w.Pos(h.Pos()), "single early exit", fmt.Sprintf("%d early exits from the FAR search", len(ex)))
	}
	// no other deciding condition
	for _, b := range h.Blocks {
		if len(b.Succs) != 2 || b.Succs[0] == b.Succs[1] {
			continue
		}
		r0 := blockReaches(h, b.Succs[0], sendI)
		r1 := blockReaches(h, b.Succs[1], sendI)
		if r0 == r1 {
			continue
		}
		known := b == bitIf
		if v, _, ok := boolEdge(b, b.Succs[0]); ok && v == okV {
			known = true
		}
		if x, _, _, ok := edgeFact(b, b.Succs[0]); ok && x == ssa.Value(pdrPhi) {
			known = true
		}
		r.check(known, "R13.1", hn, fmt.Sprintf("deciding branch (block %d) is one of {session found, NOCP, pdrID≠0}", b.Index), w.Pos(b.Instrs[len(b.Instrs)-1].Pos()), "known guard", "an additional condition suppresses the report")
	}

	// --- R13.2 message content
	var ctor *ssa.Call
	allInstrs(h, func(i ssa.Instruction) {
		if c, ok := i.(*ssa.Call); ok && strings.HasSuffix(calleeName(c), "message.NewSessionReportRequest") {
			ctor = c
		}
	})
	if ctor == nil {
		r.bad("R13.2", hn, "the report is a Session Report Request", w.Pos(h.Pos()), "NewSessionReportRequest is not called")
		return
	}
	sent := sends[0].Common().Args[1]
	if mi, ok := sent.(*ssa.MakeInterface); ok {
		sent = mi.X
	}
	r.check(sent == ssa.Value(ctor), "R13.2", hn, "the message sent is the report built here", w.Pos(sendI.Pos()), "same value", "the value sent is not the constructed report")
	seqArg := ctor.Call.Args[3]
	sc, isCall := seqArg.(*ssa.Call)
	r.check(isCall && staticCallee(sc) == seqFn && sc.Call.Args[0] == ssa.Value(h.Params[0]), "R13.2", hn, "fresh sequence number (getSeqNum of this association, taken in this call)", w.Pos(ctor.Pos()), symOf(seqArg).String(), "the sequence number of the report is "+symOf(seqArg).String())
	// getSeqNum increments under its mutex
	{
		inc, locked := false, false
		allInstrs(seqFn, func(i ssa.Instruction) {
			if st, ok := i.(*ssa.Store); ok {
				if bo, ok := st.Val.(*ssa.BinOp); ok && bo.Op == token.ADD {
					if k, isK := constInt(bo.Y); isK && k == 1 {
						inc = true
					}
				}
			}
			if c, ok := i.(*ssa.Call); ok && strings.HasSuffix(calleeName(c), "Mutex).Lock") {
				locked = true
			}
		})
		r.check(inc && locked, "R13.2", w.FuncName(seqFn), "getSeqNum hands out successive numbers under its lock", w.Pos(seqFn.Pos()), "seq++ under mux", "getSeqNum does not increment (or not under its lock): sequence numbers repeat")
		// every access to the counter, including the read of the value that is returned, holds the lock:
		// reports are sent from the node's goroutine, heartbeats from the monitor's
		ng := guardedBy(w, r, "R13.2", "sequenceNumber", map[string]bool{"seq": true}, "mux")
		r.floor("R13.2 sequence counter accesses", ng, 3)
	}
	// report type: only DLDR
	var rt *ssa.Call
	for _, v := range variadicIEs(ctor) {
		if c, ok := v.(*ssa.Call); ok && strings.HasSuffix(calleeName(c), "ie.NewReportType") {
			rt = c
		}
	}
	if rt == nil {
		r.bad("R13.2", hn, "report type IE present", w.Pos(ctor.Pos()), "no Report Type IE in the Session Report Request")
	} else {
		var bits []int64
		for _, a := range rt.Call.Args {
			k, _ := constInt(a)
			bits = append(bits, k)
		}
		r.check(len(bits) == 4 && bits[0] == 0 && bits[1] == 0 && bits[2] == 0 && bits[3] == 1, "R13.2", hn, "report type = DLDR only", w.Pos(rt.Pos()), fmt.Sprint(bits), fmt.Sprintf("report type bits (upir,erir,usar,dldr) = %v", bits))
	}
	// header SEID and DownlinkDataReport stores dominate the send
	seidOK, ddrOK := false, false
	// the header SEID of the message sent is the one the constructor was given unless it is written
	// afterwards; every later write is judged below (a write of anything else is reported there), so a
	// constructor that is handed the stored remote SEID sets the header as well as a write does
	if seid := ctorArg(ctor, "seid"); seid != nil {
		s := symOf(seid).String()
		seidOK = strings.HasSuffix(s, ".remoteSEID") && strings.Contains(s, "GetSession#0(")
	}
	allInstrs(h, func(i ssa.Instruction) {
		st, ok := i.(*ssa.Store)
		if !ok {
			return
		}
		fa, ok := st.Addr.(*ssa.FieldAddr)
		if !ok || fieldVar(fa) == nil {
			return
		}
		switch fieldVar(fa).Name() {
		case "SEID":
			if rootedIn(fa.X, ctor) {
				s := symOf(st.Val).String()
				good := strings.HasSuffix(s, ".remoteSEID") && strings.Contains(s, "GetSession#0(") && instrDominates(st, sendI)
				r.check(good, "R13.2", hn, "addressed with the control plane's SEID of the stored session", w.Pos(st.Pos()), s, "the report's header SEID is "+s)
				seidOK = seidOK || good
			}
		case "DownlinkDataReport":
			if rootedIn(fa.X, ctor) {
				good := false
				desc := symOf(st.Val).String()
				if c, ok := st.Val.(*ssa.Call); ok && strings.HasSuffix(calleeName(c), "ie.NewDownlinkDataReport") {
					for _, v := range variadicIEs(c) {
						if pc, ok := v.(*ssa.Call); ok && strings.HasSuffix(calleeName(pc), "ie.NewPDRID") {
							arg := pc.Call.Args[0]
							if cv, ok := arg.(*ssa.Convert); ok {
								arg = cv.X
							}
							good = arg == ssa.Value(pdrPhi)
						}
					}
				}
				good = good && instrDominates(st, sendI)
				r.check(good, "R13.2", hn, "the Downlink Data Report names the session's downlink PDR", w.Pos(st.Pos()), "NewPDRID(pdrID)", "the Downlink Data Report carries "+desc)
				ddrOK = ddrOK || good
			}
		}
	})
	r.check(seidOK, "R13.2", hn, "header SEID is set before the send", w.Pos(sendI.Pos()), "store dominates", "the header SEID of the report is never set to the stored remote SEID")
	r.check(ddrOK, "R13.2", hn, "Downlink Data Report is set before the send", w.Pos(sendI.Pos()), "store dominates", "the report is sent without a Downlink Data Report")

	ruleC13RemoteSEID(w, r)
	ruleSendBufferPrivate(w, r, P, "R13.9")
	ruleOneDDNListener(w, r, P, "R13.10")
	ruleReportConnLookedUp(w, r, P, "R13.11")
	ruleC13Limiter(w, r)
	ruleC13Dispatch(w, r, h)
	ruleC13Listeners(w, r)
	ruleC13SingleCaller(w, r)
	ruleC13ListenerStarts(w, r)
	ruleC13ForgetsLate(w, r)
}

func blockHas(b *ssa.BasicBlock, ins ssa.Instruction) bool {
	for _, i := range b.Instrs {
		if i == ins {
			return true
		}
	}
	return false
}

func blockReaches(fn *ssa.Function, b *ssa.BasicBlock, target ssa.Instruction) bool {
	if blockHas(b, target) {
		return true
	}
	return reach(fn, firstInstr(b), func(i ssa.Instruction) bool { return i == target }, nil, nil) != nil
}

// sameElem: two loads read fields of the same local/element.
func sameElem(a, b ssa.Value) bool {
	base := func(v ssa.Value) ssa.Value {
		u, ok := v.(*ssa.UnOp)
		if !ok {
			return nil
		}
		fa, ok := u.X.(*ssa.FieldAddr)
		if !ok {
			return nil
		}
		return fa.X
	}
	if base(a) != nil && base(a) == base(b) {
		return true
	}
	// s.pdrs[i].x and s.pdrs[i].y written out twice: two element addresses with the same index value over
	// the same slice expression, in one block
	ia, ok1 := base(a).(*ssa.IndexAddr)
	ib, ok2 := base(b).(*ssa.IndexAddr)
	if ok1 && ok2 && ia.Index == ib.Index && ia.Block() == ib.Block() && symOf(ia.X).String() == symOf(ib.X).String() {
		return true
	}
	return false
}

// rootedIn: addr is a field path below the value root (through loads of pointer fields).
func rootedIn(addr ssa.Value, root ssa.Value) bool {
	for i := 0; i < 8; i++ {
		if addr == root {
			return true
		}
		switch x := addr.(type) {
		case *ssa.FieldAddr:
			addr = x.X
		case *ssa.UnOp:
			addr = x.X
		default:
			return false
		}
	}
	return false
}

// ruleC13RemoteSEID: the SEID used to address reports is the one the control plane gave last.
func ruleC13RemoteSEID(w *World, r *Report) {
	const P = "C13"
	mod := w.Fn(P, "pfcpiface.(*PFCPConn).handleSessionModificationRequest")
	mn := w.FuncName(mod)
	// writers of PFCPSession.remoteSEID in the whole program
	var stores []*ssa.Store
	writers := map[string]bool{}
	for f := range w.allFuncs() {
		allInstrs(f, func(i ssa.Instruction) {
			if st, ok := i.(*ssa.Store); ok {
				if fa, ok := st.Addr.(*ssa.FieldAddr); ok && fieldVar(fa) != nil && fieldVar(fa).Name() == "remoteSEID" && rootTypeName(fa.X.Type()) == "PFCPSession" {
					writers[w.FuncName(f)] = true
					if f == mod {
						stores = append(stores, st)
					}
				}
			}
		})
	}
	r.check(len(stores) == 1, "R13.2", mn, "a CP F-SEID in a modification request replaces the stored remote SEID", w.Pos(mod.Pos()), "one store", fmt.Sprintf("handleSessionModificationRequest stores remoteSEID %d times: a changed CP F-SEID is not remembered, later Session Report Requests are addressed with the old SEID", len(stores)))
	for _, st := range stores {
		sv := symOf(st.Val)
		s := sv.String()
		isCP := func(x string) bool {
			return strings.Contains(x, "FSEID#0(") && strings.HasSuffix(x, ".SEID") && strings.Contains(x, "CPFSEID")
		}
		good := isCP(s)
		if !good && sv.Op == "phi" {
			// the store may be unconditional — `seid := session.remoteSEID; if the request has a CP F-SEID
			// { seid = it }; session.remoteSEID = seid` —: what it writes is, per path, the request's CP F-SEID
			// or the very field it writes to (nothing changes on that path); any other origin is a wrong SEID
			self := ""
			if fa, ok := st.Addr.(*ssa.FieldAddr); ok && fieldVar(fa) != nil {
				// (the path of a field of a local struct value is named without the & of its address)
				self = strings.TrimPrefix(symOf(fa.X).String(), "&") + "." + fieldVar(fa).Name()
			}
			nCP := 0
			good = true
			for _, a := range sv.Args {
				switch {
				case isCP(a.String()):
					nCP++
				case a.Op == "field" && self != "" && a.Name == self:
				case a.Op == "unknown" && a.Name == "cycle":
				default:
					good = false
				}
			}
			good = good && nCP > 0
		}
		r.check(good, "R13.2", mn, "remoteSEID ← the request's CP F-SEID", w.Pos(st.Pos()), s, "remoteSEID is set from "+s)
		// the written session value is the one put back into the store
		var puts []ssa.Instruction
		allInstrs(mod, func(i ssa.Instruction) {
			if c, ok := i.(*ssa.Call); ok && c.Call.IsInvoke() && c.Call.Method.Name() == "PutSession" {
				puts = append(puts, i)
			}
		})
		okPut := false
		for _, p := range puts {
			c := p.(*ssa.Call)
			arg := c.Call.Args[0]
			if u, ok := arg.(*ssa.UnOp); ok && rootedIn(st.Addr, u.X) && reach(mod, st, func(i ssa.Instruction) bool { return i == p }, nil, nil) != nil {
				okPut = true
			}
		}
		r.check(okPut, "R13.2", mn, "the updated session is written back to the store", w.Pos(st.Pos()), "PutSession(session) follows", "the session carrying the new remote SEID is not put back into the store")
	}
	// writers: only the constructor literal (NewPFCPSession) and the modification handler
	ctorName := "pfcpiface.(*PFCPConn).NewPFCPSession"
	for fn := range writers {
		r.check(fn == mn || fn == ctorName, "R13.2", fn, "remoteSEID is written only at creation and by the modification handler", "", "known writer", "remoteSEID is also written by "+fn)
	}
	if nf := w.FnOpt(ctorName); nf != nil {
		allInstrs(nf, func(i ssa.Instruction) {
			if st, ok := i.(*ssa.Store); ok {
				if fa, ok := st.Addr.(*ssa.FieldAddr); ok && fieldVar(fa) != nil && fieldVar(fa).Name() == "remoteSEID" {
					r.check(st.Val == ssa.Value(nf.Params[1]), "R13.2", ctorName, "a new session records the CP SEID it was created with", w.Pos(st.Pos()), "parameter", "NewPFCPSession records "+symOf(st.Val).String()+" as remote SEID")
				}
			}
		})
	}
}

func ruleC13Limiter(w *World, r *Report) {
	const P = "C13"
	f := w.Fn(P, "pfcpiface.(*downlinkDataNotifier).shouldNotify")
	fn := w.FuncName(f)
	fseid := f.Params[1]
	n := 0
	enumPaths(f, 1, 1000, func(p *Path) {
		ret, ok := p.last().(*ssa.Return)
		if !ok {
			return
		}
		atoms, feasible := pathAtoms(p)
		if !feasible {
			return
		}
		known, expired := "", ""
		for _, a := range atoms {
			switch {
			case a.V != nil && isLoadOK(a.V):
				known = tf(a.Truth)
			case a.Op != 0:
				xs, ys := symOf(a.X).String(), symOf(a.Y).String()
				if strings.Contains(xs, "time.Since") && strings.HasSuffix(ys, "notificationInterval") {
					// normalise to "Since >= interval"
					switch {
					case a.Op == token.GEQ:
						expired = tf(a.Truth)
					case a.Op == token.LSS:
						expired = tf(!a.Truth)
					default:
						expired = "?" + a.Op.String()
					}
					// Since() is applied to the loaded entry
					if !strings.Contains(xs, "Load#0(") {
						expired = "?arg"
					}
				}
			}
		}
		var stores []*ssa.Call
		p.instrs(func(i ssa.Instruction) {
			if c, ok := i.(*ssa.Call); ok && strings.HasSuffix(calleeName(c), "sync.Map).Store") {
				stores = append(stores, c)
			}
		})
		verdict, isK := constBool(resolveAlongPath(p, res(ret, 0)))
		desc := fmt.Sprintf("known=%s expired=%s", orDash(known), orDash(expired))
		n++
		if !isK {
			r.bad("R13.3", fn, "shouldNotify["+desc+"] verdict is a constant", w.Pos(ret.Pos()), "verdict not constant on this path")
			return
		}
		var want bool
		switch {
		case known == "F":
			want = true
		case known == "T" && expired == "T":
			want = true
		case known == "T" && expired == "F":
			want = false
		default:
			r.bad("R13.3", fn, "shouldNotify["+desc+"] is one of the three cases", w.Pos(ret.Pos()), "a path of shouldNotify decides on something other than {known, Since(last) ≥ interval}")
			return
		}
		r.check(verdict == want, "R13.3", fn, "shouldNotify["+desc+"] → "+fmt.Sprint(want), w.Pos(ret.Pos()), fmt.Sprint(verdict), fmt.Sprintf("with %s the verdict is %v", desc, verdict))
		// memory update: a pass stores now, a suppression stores nothing
		if want {
			good := len(stores) == 1
			what := fmt.Sprintf("%d stores", len(stores))
			if good {
				c := stores[0]
				key, val := c.Call.Args[1], c.Call.Args[2]
				if mi, ok := key.(*ssa.MakeInterface); ok {
					key = mi.X
				}
				if mi, ok := val.(*ssa.MakeInterface); ok {
					val = mi.X
				}
				vc, isCall := val.(*ssa.Call)
				good = key == ssa.Value(fseid) && isCall && calleeName(vc) == "time.Now"
				what = "Store(" + symOf(key).String() + ", " + symOf(val).String() + ")"
			}
			r.check(good, "R13.3", fn, "shouldNotify["+desc+"] re-arms the interval from now", w.Pos(ret.Pos()), what, "a forwarded notification records "+what+" instead of Store(fseid, time.Now()): the next interval is not measured from this notification")
		} else {
			r.check(len(stores) == 0, "R13.3", fn, "shouldNotify["+desc+"] leaves the memory unchanged", w.Pos(ret.Pos()), "no store", "a suppressed report rewrites the limiter's memory")
		}
	})
	r.floor("R13.3 shouldNotify outcomes", n, 3)
	// the lookup key is the F-SEID
	allInstrs(f, func(i ssa.Instruction) {
		if c, ok := i.(*ssa.Call); ok && strings.HasSuffix(calleeName(c), "sync.Map).Load") {
			key := c.Call.Args[1]
			if mi, ok := key.(*ssa.MakeInterface); ok {
				key = mi.X
			}
			r.check(key == ssa.Value(fseid), "R13.3", fn, "the limiter's memory is keyed by the F-SEID", w.Pos(c.Pos()), "Load(fseid)", "the memory is looked up by "+symOf(key).String())
		}
	})
	// Notify
	nf := w.Fn(P, "pfcpiface.(*downlinkDataNotifier).Notify")
	nn := w.FuncName(nf)
	cnt := 0
	allInstrs(nf, func(i ssa.Instruction) {
		s, ok := i.(*ssa.Send)
		if !ok {
			return
		}
		cnt++
		r.check(s.X == ssa.Value(nf.Params[1]), "R13.3", nn, "the forwarded F-SEID is the reported one", w.Pos(s.Pos()), "same value", "Notify forwards "+symOf(s.X).String())
		g := onlyVia(nf, s, func(a, b *ssa.BasicBlock) bool {
			v, truth, ok := boolEdge(a, b)
			if !ok || !truth {
				return false
			}
			c, isCall := v.(*ssa.Call)
			return isCall && staticCallee(c) == f && c.Call.Args[1] == ssa.Value(nf.Params[1])
		})
		r.check(g, "R13.3", nn, "forwarded only when the limiter passes it", w.Pos(s.Pos()), "under shouldNotify(fseid)", "Notify forwards without (or against) the limiter's verdict")
	})
	r.check(cnt == 1, "R13.3", nn, "one forward per report", w.Pos(nf.Pos()), "1 send", fmt.Sprintf("%d sends in Notify", cnt))
	// who may call shouldNotify / write the memory
	for _, e := range w.CG().callersOf(f) {
		r.check(e.Caller == nf, "R13.3", w.FuncName(e.Caller), "only Notify consults the limiter", w.Pos(e.Site.Pos()), "caller is Notify", "shouldNotify is also called from "+w.FuncName(e.Caller)+" (a second consultation consumes the pass)")
	}
	// a notifier lives as long as its listener: constructed once, outside the listener loop
	ctor := w.Fn(P, "pfcpiface.NewDownlinkDataNotifier")
	sites := 0
	for _, e := range w.CG().callersOf(ctor) {
		sites++
		inLoop := false
		b := e.Site.Block()
		for _, sb := range b.Succs {
			if reachesBlock(sb, b) {
				inLoop = true
			}
		}
		r.check(!inLoop, "R13.3", w.FuncName(e.Caller), "the limiter's memory outlives a report (constructed outside the listener loop)", w.Pos(e.Site.Pos()), "outside loop", "a new notifier (empty memory) is created per report: nothing is ever suppressed")
		// interval argument positive constant
		k, isK := constInt(e.Site.(ssa.CallInstruction).Common().Args[1])
		r.check(isK && k > 0, "R13.3", w.FuncName(e.Caller), "positive notification interval", w.Pos(e.Site.Pos()), fmt.Sprint(k), "notification interval is not a positive constant")
	}
	r.floor("R13.3 notifier construction sites", sites, 2)
}

func tf(b bool) string {
	if b {
		return "T"
	}
	return "F"
}

// isLoadOK: the presence bit of sync.Map.Load.
func isLoadOK(v ssa.Value) bool {
	ex, ok := v.(*ssa.Extract)
	if !ok || ex.Index != 1 {
		return false
	}
	c, ok := ex.Tuple.(*ssa.Call)
	return ok && strings.HasSuffix(calleeName(c), "sync.Map).Load")
}

func constBool(v ssa.Value) (bool, bool) {
	c, ok := v.(*ssa.Const)
	if !ok || c.Value == nil {
		return false, false
	}
	s := c.Value.ExactString()
	if s == "true" {
		return true, true
	}
	if s == "false" {
		return false, true
	}
	return false, false
}

func ruleC13Dispatch(w *World, r *Report, h *ssa.Function) {
	const P = "C13"
	serve := w.Fn(P, "pfcpiface.(*PFCPNode).Serve")
	// the call site sits in the Range closure of Serve
	n := 0
	for _, e := range w.CG().callersOf(h) {
		n++
		inServe := e.Caller == serve || e.Caller.Parent() == serve
		r.check(inServe, "R13.4", w.FuncName(e.Caller), "reports are dispatched from Serve only", w.Pos(e.Site.Pos()), "caller", "handleDigestReport is also called from "+w.FuncName(e.Caller))
		s := selectRecvChan(throughFreeVar(e.Site.(ssa.CallInstruction).Common().Args[1]))
		r.check(strings.HasSuffix(s, "reportNotifyChan"), "R13.4", w.FuncName(e.Caller), "the F-SEID handed over is the one received from the datapath channel", w.Pos(e.Site.Pos()), s, "handleDigestReport is called with "+s)
	}
	r.floor("R13.4 dispatch sites", n, 1)
}

// throughFreeVar resolves a captured variable (by value or by reference) to the value bound in the parent.
func throughFreeVar(v ssa.Value) ssa.Value {
	// conversions between a named type and its underlying type do not change the value
	for k := 0; k < 3; k++ {
		if ct, ok := v.(*ssa.ChangeType); ok {
			v = ct.X
		} else {
			break
		}
	}
	// a parameter of a named function that stands where a function literal used to stand (adopted, see
	// normalize.go): the argument of its go/defer statement, or the receiver bound into its method value
	if pv, ok := v.(*ssa.Parameter); ok && pv.Parent() != nil && pv.Parent().Parent() != nil {
		g := pv.Parent()
		idx := -1
		for i, x := range g.Params {
			if x == pv {
				idx = i
			}
		}
		var arg ssa.Value
		allInstrs(g.Parent(), func(i ssa.Instruction) {
			switch x := i.(type) {
			case *ssa.Go:
				if x.Call.StaticCallee() == g && idx < len(x.Call.Args) {
					arg = x.Call.Args[idx]
				}
			case *ssa.Defer:
				if x.Call.StaticCallee() == g && idx < len(x.Call.Args) {
					arg = x.Call.Args[idx]
				}
			case *ssa.MakeClosure:
				if bf, ok := x.Fn.(*ssa.Function); ok && bf.Synthetic != "" && unbound(bf) == g && idx == 0 && len(x.Bindings) == 1 {
					arg = x.Bindings[0]
				}
			}
		})
		if arg != nil && idx >= 0 {
			return throughFreeVar(arg)
		}
		return v
	}
	deref := false
	if u, ok := v.(*ssa.UnOp); ok && u.Op == token.MUL {
		if _, isFV := u.X.(*ssa.FreeVar); isFV {
			v, deref = u.X, true
		}
	}
	fv, ok := v.(*ssa.FreeVar)
	if !ok {
		return v
	}
	f := fv.Parent()
	idx := -1
	for i, x := range f.FreeVars {
		if x == fv {
			idx = i
		}
	}
	if f.Parent() == nil || idx < 0 {
		return v
	}
	var bound ssa.Value
	allInstrs(f.Parent(), func(i ssa.Instruction) {
		if mc, ok := i.(*ssa.MakeClosure); ok && mc.Fn == ssa.Value(f) && idx < len(mc.Bindings) {
			bound = mc.Bindings[idx]
		}
	})
	if bound == nil {
		return v
	}
	if deref {
		sts := storesTo(bound)
		if len(sts) == 1 {
			return sts[0].Val
		}
		return v
	}
	return bound
}

// selectRecvChan: for a value received in a select case, the provenance of the channel.
func selectRecvChan(v ssa.Value) string {
	ex, ok := v.(*ssa.Extract)
	if !ok {
		if u, ok := v.(*ssa.UnOp); ok && u.Op == token.ARROW {
			return symOf(u.X).String()
		}
		return "?" + fmt.Sprint(v)
	}
	sel, ok := ex.Tuple.(*ssa.Select)
	if !ok {
		return "?" + ex.String()
	}
	k := ex.Index - 2
	for _, st := range sel.States {
		if st.Dir != types.RecvOnly {
			continue
		}
		if k == 0 {
			return symOf(st.Chan).String()
		}
		k--
	}
	return "?"
}

func ruleC13Listeners(w *World, r *Report) {
	const P = "C13"
	roots := []*ssa.Function{
		w.Fn(P, "pfcpiface.(*bess).notifyListen"),
		w.Fn(P, "pfcpiface.(*UP4).listenToDDNs"),
		w.Fn(P, "pfcpiface.(*downlinkDataNotifier).Notify"),
		w.Fn(P, "pfcpiface.(*downlinkDataNotifier).shouldNotify"),
		w.Fn(P, "pfcpiface.(*PFCPConn).handleDigestReport"),
	}
	funcs := map[*ssa.Function]bool{}
	for _, f := range roots {
		funcs[f] = true
	}
	eng := newEngine(w, r, "R13.5", funcs)
	for _, f := range roots {
		eng.idx(f)
		eng.nilObls(f)
		eng.taObls(f)
		eng.exitObls(f)
		eng.divObls(f)
	}
	// the listeners hand the F-SEID decoded from the event to Notify
	bl := roots[0]
	allInstrs(bl, func(i ssa.Instruction) {
		c, ok := i.(*ssa.Call)
		if !ok || staticCallee(c) != roots[2] {
			return
		}
		s := symOf(c.Call.Args[1]).String()
		r.check(strings.Contains(s, "littleEndian).Uint64"), "R13.5", w.FuncName(bl), "BESS event: 8-byte little-endian F-SEID", w.Pos(c.Pos()), s, "the BESS listener decodes the F-SEID as "+s)
	})
	ul := roots[1]
	allInstrs(ul, func(i ssa.Instruction) {
		c, ok := i.(*ssa.Call)
		if !ok || staticCallee(c) != roots[2] {
			return
		}
		s := symOf(c.Call.Args[1]).String()
		g := onlyVia(ul, c, func(a, b *ssa.BasicBlock) bool {
			v, truth, ok := boolEdge(a, b)
			if !ok || !truth {
				return false
			}
			ex, isEx := v.(*ssa.Extract)
			if !isEx {
				return false
			}
			_, isLookup := ex.Tuple.(*ssa.Lookup)
			return isLookup
		})
		r.check(strings.Contains(s, "ueAddrToFSEID[") && g, "R13.5", w.FuncName(ul), "UP4 digest: UE address → F-SEID of the session that owns it, only when known", w.Pos(c.Pos()), s, "the UP4 listener notifies "+s+ifelse(g, "", " without the presence test"))
	})
}

// ruleC13SingleCaller (R13.6): shouldNotify is a Load followed by a Store on the limiter's map — "at most
// one notification per interval" holds only because a notifier is driven by one goroutine (the listener
// that owns it). Notify is therefore never started as a goroutine of its own, and each notifier is
// created in the function that calls Notify on it.
func ruleC13SingleCaller(w *World, r *Report) {
	const P = "C13"
	notify := w.Fn(P, "pfcpiface.(*downlinkDataNotifier).Notify")
	should := w.Fn(P, "pfcpiface.(*downlinkDataNotifier).shouldNotify")
	newN := w.Fn(P, "pfcpiface.NewDownlinkDataNotifier")
	n := 0
	for _, f := range w.Funcs {
		if strings.HasPrefix(w.FuncName(f), "test/") {
			continue
		}
		allInstrs(f, func(i ssa.Instruction) {
			ci, ok := i.(ssa.CallInstruction)
			if !ok {
				return
			}
			g := staticCallee(ci)
			if g != notify && g != should {
				return
			}
			if g == should && f == notify {
				return
			}
			n++
			_, isGo := i.(*ssa.Go)
			r.check(!isGo, "R13.6", w.FuncName(f), g.Name()+" runs on the listener's own goroutine", w.Pos(i.Pos()), "plain call", g.Name()+" is started as a goroutine: two reports for one session can both pass the limiter's Load before either Stores, and both are forwarded within one interval")
			// the notifier is this function's own
			local := false
			if len(ci.Common().Args) > 0 {
				if c, isCall := ci.Common().Args[0].(*ssa.Call); isCall && staticCallee(c) == newN {
					local = true
				}
				if fv, isFv := ci.Common().Args[0].(*ssa.FreeVar); isFv {
					_ = fv
					local = false
				}
			}
			// ... or made for it: whoever starts this function makes a notifier for that start and keeps nothing of it
			if !local && len(ci.Common().Args) > 0 {
				local = notifierHandedOver(w, f, ci.Common().Args[0], newN)
			}
			if g == notify {
				r.check(local, "R13.6", w.FuncName(f), "the notifier is created by the goroutine that uses it", w.Pos(i.Pos()), "NewDownlinkDataNotifier in the same function", "Notify is called on a notifier that was not created in this function (captured or shared): the limiter's map is then reachable from more than one goroutine")
			}
		})
	}
	r.floor("R13.6 callers of Notify / shouldNotify", n, 2)
}

// notifierHandedOver: n is a parameter of f, and every call of f (plain, go or defer; f is never used as a
// function value) is given a notifier that the caller has just created, refers to nowhere else, and creates
// anew before it can start f again — so each run of f has a notifier that nothing else can reach, exactly
// as if f had created it in its first statement.
func notifierHandedOver(w *World, f *ssa.Function, n ssa.Value, newN *ssa.Function) bool {
	p, ok := n.(*ssa.Parameter)
	if !ok || p.Parent() != f {
		return false
	}
	at := -1
	for i, fp := range f.Params {
		if fp == p {
			at = i
		}
	}
	in := w.CG().callersOf(f)
	if at < 0 || len(in) == 0 {
		return false
	}
	for _, e := range in {
		site, ok := e.Site.(ssa.CallInstruction)
		if !ok || e.Kind == "funcarg" || site.Common().StaticCallee() != f || at >= len(site.Common().Args) {
			return false
		}
		mk, ok := site.Common().Args[at].(*ssa.Call)
		if !ok || staticCallee(mk) != newN || mk.Referrers() == nil {
			return false
		}
		for _, ref := range *mk.Referrers() {
			if _, isDbg := ref.(*ssa.DebugRef); !isDbg && ref != e.Site {
				return false // the creator keeps or shares the notifier
			}
		}
		restarted := reach(e.Caller, e.Site, func(i ssa.Instruction) bool { return i == e.Site }, func(i ssa.Instruction) bool { return i == ssa.Instruction(mk) }, nil) != nil
		if restarted {
			return false // one notifier, several runs of f
		}
	}
	return true
}

// ruleC13ListenerStarts (R13.7): once the BESS notification socket is connected, the goroutine that
// reads it is started — on every path from the successful dial to the end of SetUpfInfo, whatever the
// end-marker set-up that follows does. A connected socket nobody reads loses every downlink data report.
func ruleC13ListenerStarts(w *World, r *Report) {
	const P = "C13"
	f := w.Fn(P, "pfcpiface.(*bess).SetUpfInfo")
	fn := w.FuncName(f)
	listen := w.Fn(P, "pfcpiface.(*bess).notifyListen")
	var dial *ssa.Call
	allInstrs(f, func(i ssa.Instruction) {
		c, ok := i.(*ssa.Call)
		if !ok || calleeName(c) != "net.Dial" {
			return
		}
		// the dial whose connection is stored in notifyBessSocket
		if ex := extractOf(c, 0); ex != nil && ex.Referrers() != nil {
			for _, ref := range *ex.Referrers() {
				if st, ok := ref.(*ssa.Store); ok {
					if fa, ok := st.Addr.(*ssa.FieldAddr); ok && fieldVar(fa) != nil && fieldVar(fa).Name() == "notifyBessSocket" {
						dial = c
					}
				}
			}
		}
	})
	if dial == nil {
		r.bad("R13.7", fn, "the notification socket is dialled in SetUpfInfo", w.Pos(f.Pos()), "no net.Dial whose result is stored in notifyBessSocket")
		return
	}
	errV := extractOf(dial, 1)
	var start ssa.Instruction
	for _, b := range f.Blocks {
		for _, sc := range b.Succs {
			if errV != nil && nilnessEdge(b, sc, func(x ssa.Value) bool { return x == errV }, true) && len(sc.Instrs) > 0 {
				start = sc.Instrs[0]
			}
		}
	}
	if start == nil {
		r.bad("R13.7", fn, "the dial's error is examined", w.Pos(dial.Pos()), "no err == nil edge after the dial of the notification socket")
		return
	}
	isGo := func(i ssa.Instruction) bool {
		g, ok := i.(*ssa.Go)
		return ok && staticCallee(g) == listen
	}
	miss := reach(f, start, isReturn, isGo, nil)
	if isGo(start) {
		miss = nil
	}
	pos := w.Pos(dial.Pos())
	if miss != nil {
		pos = w.Pos(miss.Pos())
	}
	r.check(miss == nil, "R13.7", fn, "a connected notification socket always gets its reader", w.Pos(dial.Pos()), "go notifyListen on every path after the successful dial", "SetUpfInfo can return (at "+pos+") after the notification socket was connected without starting notifyListen: BESS's downlink data reports pile up in a socket nobody reads and no Session Report Request is ever sent")
}

// ruleC13ForgetsLate (R13.8): the limiter's memory of a session's last notification may only be dropped
// once the interval has passed since that notification — a test that involves notificationInterval
// governs every Delete on the state map. (Today nothing is ever deleted; a sweeper that forgets an entry
// because its time stamp "is in the past" forgets every entry, and the next report inside the interval is
// forwarded again.)
func ruleC13ForgetsLate(w *World, r *Report) {
	n := 0
	for _, f := range w.Funcs {
		if strings.HasPrefix(w.FuncName(f), "test/") {
			continue
		}
		allInstrs(f, func(i ssa.Instruction) {
			c, ok := i.(*ssa.Call)
			if !ok {
				return
			}
			name := calleeName(c)
			if name != "(*sync.Map).Delete" && name != "(*sync.Map).LoadAndDelete" && name != "(*sync.Map).Clear" {
				return
			}
			if !strings.Contains(symOf(c.Call.Args[0]).String(), "downlinkDataNotifier.state") {
				return
			}
			n++
			g := onlyVia(f, c, func(a, b *ssa.BasicBlock) bool {
				ifi := blockIf(a)
				if ifi == nil {
					return false
				}
				return strings.Contains(symOf(ifi.Cond).String(), "notificationInterval")
			})
			r.check(g, "R13.8", w.FuncName(f), "a session's last notification time is forgotten only after the interval", w.Pos(c.Pos()), "guarded by a test on notificationInterval", "the limiter's entry is deleted without a test against notificationInterval: the session's next report within the interval is treated as a first report and forwarded — more than one notification per interval")
		})
	}
	if n == 0 {
		r.ok("R13.8", "pfcpiface", "the limiter never forgets a notification time", "-", "no Delete on downlinkDataNotifier.state")
	}
}
